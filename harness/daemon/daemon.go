// Package daemon is engine E3: it runs the real receptor binary (built from /repo with -tags verif) as a child
// process from a generated YAML configuration, talks to its Unix control socket in the line protocol, kills it
// (SIGKILL, or at a chosen verifhook crash point selected through the environment) and restarts it on the same
// data directory. All waits have deadlines.
package daemon

import (
	"bufio"
	"bytes"
	"encoding/json"
	"errors"
	"fmt"
	"io"
	"net"
	"os"
	"os/exec"
	"path/filepath"
	"sort"
	"strconv"
	"strings"
	"sync"
	"syscall"
	"time"
)

// WorkType is one work-command entry of the configuration.
type WorkType struct {
	Name    string
	Command string
	Params  string
	Allow   bool // allowruntimeparams
}

// Daemon is one receptor node process (restartable on the same directories).
type Daemon struct {
	Bin      string
	Dir      string // scenario directory: config, socket, log, data
	NodeID   string
	Sock     string
	DataDir  string // value of node.datadir; units live in DataDir/NodeID/<unit>
	Trace    string // VERIF_TRACE file shared by the daemon and its runners
	Types    []WorkType
	TCPPort  int      // >0: tcp-listener on 127.0.0.1:port
	Peers    []string // tcp-peer addresses
	LogLevel string
	Inproc   bool // the binary is cmd/receptor-inproc: also configure its in-process work type "inproc"

	mu       sync.Mutex
	cmd      *exec.Cmd
	exited   chan struct{}
	exitErr  error
	starts   int
	ExtraEnv []string
}

// New prepares a daemon below dir.
func New(bin, dir, nodeID string) *Daemon {
	return &Daemon{
		Bin: bin, Dir: dir, NodeID: nodeID,
		Sock: filepath.Join(dir, "ctl.sock"), DataDir: filepath.Join(dir, "data"),
		Trace: filepath.Join(dir, "trace.ndjson"), LogLevel: "error",
		Types: []WorkType{{Name: "sh", Command: "bash"}},
	}
}

// UnitsDir is where the unit directories of this node live.
func (d *Daemon) UnitsDir() string { return filepath.Join(d.DataDir, d.NodeID) }

// UnitDir returns the directory of a unit.
func (d *Daemon) UnitDir(id string) string { return filepath.Join(d.UnitsDir(), id) }

func (d *Daemon) config() string {
	var b strings.Builder
	b.WriteString("---\n")
	fmt.Fprintf(&b, "- node:\n    id: %s\n    datadir: %s\n", d.NodeID, d.DataDir)
	fmt.Fprintf(&b, "- log-level: %s\n", d.LogLevel)
	if d.TCPPort > 0 {
		fmt.Fprintf(&b, "- tcp-listener:\n    port: %d\n    bindaddr: 127.0.0.1\n", d.TCPPort)
	} else if len(d.Peers) == 0 {
		b.WriteString("- local-only:\n")
	}
	for _, p := range d.Peers {
		fmt.Fprintf(&b, "- tcp-peer:\n    address: %s\n    redial: true\n", p)
	}
	fmt.Fprintf(&b, "- control-service:\n    service: control\n    filename: %s\n", d.Sock)
	if d.Inproc {
		b.WriteString("- work-inproc:\n    worktype: inproc\n")
	}
	for _, t := range d.Types {
		fmt.Fprintf(&b, "- work-command:\n    worktype: %s\n    command: %s\n", t.Name, t.Command)
		if t.Params != "" {
			fmt.Fprintf(&b, "    params: %q\n", t.Params)
		}
		if t.Allow {
			b.WriteString("    allowruntimeparams: true\n")
		}
	}

	return b.String()
}

// Start launches the process with the given extra environment (e.g. VERIF_CRASH_AT=...) and waits for the
// control socket to accept connections. If the process dies before that (a crash point during start-up) it
// returns ErrDied.
func (d *Daemon) Start(timeout time.Duration, env ...string) error {
	d.mu.Lock()
	if d.cmd != nil {
		d.mu.Unlock()

		return errors.New("already running")
	}
	if err := os.MkdirAll(d.Dir, 0o755); err != nil {
		d.mu.Unlock()

		return err
	}
	cfg := filepath.Join(d.Dir, "receptor.yml")
	if err := os.WriteFile(cfg, []byte(d.config()), 0o644); err != nil {
		d.mu.Unlock()

		return err
	}
	d.starts++
	logf, err := os.OpenFile(filepath.Join(d.Dir, "daemon.log"), os.O_CREATE|os.O_APPEND|os.O_WRONLY, 0o644)
	if err != nil {
		d.mu.Unlock()

		return err
	}
	fmt.Fprintf(logf, "---- start #%d env %v\n", d.starts, env)
	cmd := exec.Command(d.Bin, "--config", cfg)
	cmd.Stdout, cmd.Stderr = logf, logf
	cmd.Env = append(os.Environ(), "VERIF_TRACE="+d.Trace, "VERIF_CRASH_ROLE=daemon")
	cmd.Env = append(cmd.Env, d.ExtraEnv...)
	cmd.Env = append(cmd.Env, env...)
	cmd.SysProcAttr = &syscall.SysProcAttr{Setpgid: true}
	_ = os.Remove(d.Sock) // a stale socket of a killed instance must not be mistaken for readiness
	if err := cmd.Start(); err != nil {
		logf.Close()
		d.mu.Unlock()

		return err
	}
	logf.Close()
	d.cmd = cmd
	d.exited = make(chan struct{})
	ex := d.exited
	d.mu.Unlock()
	go func() {
		err := cmd.Wait()
		d.mu.Lock()
		d.exitErr = err
		d.cmd = nil
		d.mu.Unlock()
		close(ex)
	}()
	deadline := time.Now().Add(timeout)
	for time.Now().Before(deadline) {
		select {
		case <-ex:
			return d.diedError()
		default:
		}
		c, err := net.DialTimeout("unix", d.Sock, time.Second)
		if err == nil {
			_ = c.SetDeadline(time.Now().Add(5 * time.Second))
			line, rerr := bufio.NewReader(c).ReadString('\n')
			c.Close()
			if rerr == nil && strings.HasPrefix(line, "Receptor Control") {
				return nil
			}
		}
		time.Sleep(20 * time.Millisecond)
	}

	return fmt.Errorf("control socket of %s not ready after %s", d.NodeID, timeout)
}

// ErrDied reports that the daemon process exited while we were waiting for something else.
var ErrDied = errors.New("daemon process died")

// StartDied is what Start returns when the process exits before its control socket answers: errors.Is(err, ErrDied)
// holds, and the exit status and the end of the process's own output say why (a verdict must never rest on
// "it died" alone: a listener port taken by somebody else and a crash look the same from outside).
type StartDied struct {
	Exit string
	Log  string
}

func (e *StartDied) Error() string {
	return fmt.Sprintf("%v (%s; last output: %q)", ErrDied, e.Exit, e.Log)
}

func (e *StartDied) Unwrap() error { return ErrDied }

// PortTaken: the process gave up because an address it was told to listen on was in use.
func (e *StartDied) PortTaken() bool { return strings.Contains(e.Log, "address already in use") }

func (d *Daemon) diedError() error {
	d.mu.Lock()
	ex := "exit status unknown"
	if d.exitErr != nil {
		ex = d.exitErr.Error()
	} else {
		ex = "exit status 0"
	}
	d.mu.Unlock()
	b, _ := os.ReadFile(filepath.Join(d.Dir, "daemon.log"))
	if i := bytes.LastIndex(b, []byte("---- start #")); i >= 0 {
		b = b[i:]
	}
	if len(b) > 1500 {
		b = b[len(b)-1500:]
	}

	return &StartDied{Exit: ex, Log: string(b)}
}

// Pid of the running process (0 if none).
func (d *Daemon) Pid() int {
	d.mu.Lock()
	defer d.mu.Unlock()
	if d.cmd == nil || d.cmd.Process == nil {
		return 0
	}

	return d.cmd.Process.Pid
}

// Alive reports whether the process is running.
func (d *Daemon) Alive() bool { return d.Pid() != 0 }

// Exited returns a channel closed when the current process has exited (nil when none was started).
func (d *Daemon) Exited() <-chan struct{} {
	d.mu.Lock()
	defer d.mu.Unlock()

	return d.exited
}

// WaitExit waits for the current process to exit.
func (d *Daemon) WaitExit(timeout time.Duration) bool {
	ex := d.Exited()
	if ex == nil {
		return true
	}
	select {
	case <-ex:
		return true
	case <-time.After(timeout):
		return false
	}
}

// Kill sends SIGKILL and reaps the process.
func (d *Daemon) Kill() {
	d.mu.Lock()
	cmd := d.cmd
	d.mu.Unlock()
	if cmd != nil && cmd.Process != nil {
		_ = cmd.Process.Kill()
	}
	d.WaitExit(20 * time.Second)
}

// Signal sends a signal to the process.
func (d *Daemon) Signal(sig syscall.Signal) {
	d.mu.Lock()
	cmd := d.cmd
	d.mu.Unlock()
	if cmd != nil && cmd.Process != nil {
		_ = cmd.Process.Signal(sig)
	}
}

// ---------------------------------------------------------------- control socket client

// Client is one control-socket session.
type Client struct {
	conn *net.UnixConn
	rd   *bufio.Reader
	Node string
}

// ErrTimeout: the daemon did not answer within the deadline (never a verdict by itself).
var ErrTimeout = errors.New("timeout")

// Dial opens a session and reads the greeting.
func (d *Daemon) Dial(timeout time.Duration) (*Client, error) {
	c, err := net.DialTimeout("unix", d.Sock, timeout)
	if err != nil {
		return nil, err
	}
	cl := &Client{conn: c.(*net.UnixConn), rd: bufio.NewReader(c)}
	_ = c.SetDeadline(time.Now().Add(timeout))
	line, err := cl.rd.ReadString('\n')
	if err != nil {
		c.Close()

		return nil, mapErr(err)
	}
	cl.Node = strings.TrimSpace(strings.TrimPrefix(line, "Receptor Control, node "))

	return cl, nil
}

func mapErr(err error) error {
	var ne net.Error
	if errors.As(err, &ne) && ne.Timeout() {
		return ErrTimeout
	}

	return err
}

// Close closes the session.
func (c *Client) Close() { _ = c.conn.Close() }

// Reply is a parsed response line.
type Reply struct {
	Raw  string
	Err  string         // text after "ERROR: " if the daemon answered with an error
	JSON map[string]any // parsed JSON object otherwise
}

// Command sends one line and reads one response line.
func (c *Client) Command(line string, timeout time.Duration) (*Reply, error) {
	_ = c.conn.SetDeadline(time.Now().Add(timeout))
	if _, err := c.conn.Write([]byte(line + "\n")); err != nil {
		return nil, mapErr(err)
	}

	return c.readReply()
}

func (c *Client) readReply() (*Reply, error) {
	resp, err := c.rd.ReadString('\n')
	if err != nil {
		return nil, mapErr(err)
	}
	r := &Reply{Raw: strings.TrimRight(resp, "\n")}
	if strings.HasPrefix(resp, "ERROR: ") {
		r.Err = strings.TrimSpace(strings.TrimPrefix(resp, "ERROR: "))

		return r, nil
	}
	dec := json.NewDecoder(strings.NewReader(resp))
	dec.UseNumber()
	if err := dec.Decode(&r.JSON); err != nil {
		return r, fmt.Errorf("unparsable response %q", resp)
	}

	return r, nil
}

// SubmitResult is what a submitter was told.
type SubmitResult struct {
	UnitID  string // from the "Work unit created with ID" line: the acknowledgement
	Acked   bool
	Final   *Reply // the JSON answer after stdin was consumed (nil if the connection ended before)
	ErrText string // ERROR text instead of the acknowledgement
}

// Submit runs "work submit" on a fresh protocol exchange of this session: command, wait for the ID line,
// send the payload, half-close, read the final answer. The session cannot be reused afterwards.
// hook is called (if not nil) right after the acknowledgement was read, before stdin is sent.
func (c *Client) Submit(node, worktype, params string, stdin []byte, timeout time.Duration, hook func(id string)) (*SubmitResult, error) {
	req := map[string]string{"command": "work", "subcommand": "submit", "node": node, "worktype": worktype}
	if params != "" {
		req["params"] = params
	}
	b, _ := json.Marshal(req)
	_ = c.conn.SetDeadline(time.Now().Add(timeout))
	if _, err := c.conn.Write(append(b, '\n')); err != nil {
		return nil, mapErr(err)
	}
	res := &SubmitResult{}
	line, err := c.rd.ReadString('\n')
	if err != nil {
		return res, mapErr(err)
	}
	if strings.HasPrefix(line, "ERROR: ") {
		res.ErrText = strings.TrimSpace(strings.TrimPrefix(line, "ERROR: "))

		return res, nil
	}
	const pfx = "Work unit created with ID "
	if !strings.HasPrefix(line, pfx) {
		return res, fmt.Errorf("unexpected submit response %q", line)
	}
	rest := strings.TrimPrefix(line, pfx)
	if i := strings.IndexByte(rest, '.'); i > 0 {
		res.UnitID = rest[:i]
		res.Acked = true
	}
	if hook != nil {
		hook(res.UnitID)
	}
	if _, err := c.conn.Write(stdin); err != nil {
		return res, mapErr(err)
	}
	if err := c.conn.CloseWrite(); err != nil {
		return res, mapErr(err)
	}
	rep, err := c.readReply()
	if err != nil {
		return res, err
	}
	res.Final = rep

	return res, nil
}

// Results runs "work results <id> <start>" and reads until the daemon closes the stream or the deadline
// passes. closed tells whether the daemon ended the stream.
func (c *Client) Results(id string, start int64, timeout time.Duration) (header string, data []byte, closed bool, err error) {
	_ = c.conn.SetDeadline(time.Now().Add(timeout))
	if _, err = c.conn.Write([]byte(fmt.Sprintf("work results %s %d\n", id, start))); err != nil {
		return "", nil, false, mapErr(err)
	}
	header, err = c.rd.ReadString('\n')
	if err != nil {
		return header, nil, errors.Is(err, io.EOF), mapErr(err)
	}
	if strings.HasPrefix(header, "ERROR: ") {
		return strings.TrimSpace(header), nil, false, nil
	}
	var buf bytes.Buffer
	_, err = io.Copy(&buf, c.rd)
	if err == nil {
		return header, buf.Bytes(), true, nil
	}

	return header, buf.Bytes(), false, mapErr(err)
}

// ---------------------------------------------------------------- helpers on replies

// Num extracts an integer field of a status map.
func Num(m map[string]any, k string) int64 {
	switch v := m[k].(type) {
	case json.Number:
		n, _ := v.Int64()

		return n
	case float64:
		return int64(v)
	}

	return -1
}

// Str extracts a string field.
func Str(m map[string]any, k string) string {
	s, _ := m[k].(string)

	return s
}

// ---------------------------------------------------------------- process hygiene

// PidAlive reports whether a process exists and is not a zombie.
func PidAlive(pid int) bool {
	if pid <= 0 {
		return false
	}
	b, err := os.ReadFile(fmt.Sprintf("/proc/%d/stat", pid))
	if err != nil {
		return false
	}
	s := string(b)
	i := strings.LastIndexByte(s, ')')
	if i < 0 || i+2 >= len(s) {
		return false
	}

	return s[i+2] != 'Z' && s[i+2] != 'X'
}

// PidCmdline returns the command line of a process ("" if gone).
func PidCmdline(pid int) string {
	b, err := os.ReadFile(fmt.Sprintf("/proc/%d/cmdline", pid))
	if err != nil {
		return ""
	}

	return strings.ReplaceAll(string(b), "\x00", " ")
}

// TracePids returns the runner and payload pids recorded in the trace (wu_spawn / rn_child events).
func (d *Daemon) TracePids() (runners []int, children []int) {
	f, err := os.Open(d.Trace)
	if err != nil {
		return nil, nil
	}
	defer f.Close()
	sc := bufio.NewScanner(f)
	sc.Buffer(make([]byte, 1<<20), 1<<24)
	for sc.Scan() {
		line := sc.Bytes()
		if !bytes.Contains(line, []byte(`"wu_spawn"`)) && !bytes.Contains(line, []byte(`"rn_child"`)) {
			continue
		}
		var e map[string]any
		if json.Unmarshal(line, &e) != nil {
			continue
		}
		pid, _ := e["pid"].(float64)
		if e["ev"] == "wu_spawn" {
			runners = append(runners, int(pid))
		} else if e["ev"] == "rn_child" {
			children = append(children, int(pid))
		}
	}

	return runners, children
}

// Cleanup kills the daemon, every runner and payload process it started (identified from the trace and checked
// against /proc so that a recycled pid of somebody else's process is never touched).
func (d *Daemon) Cleanup() {
	d.Kill()
	runners, children := d.TracePids()
	for _, p := range runners {
		if cl := PidCmdline(p); strings.Contains(cl, "--command-runner") && strings.Contains(cl, d.UnitsDir()) {
			_ = syscall.Kill(p, syscall.SIGKILL)
		}
	}
	for _, p := range children {
		if !PidAlive(p) {
			continue
		}
		// payloads are bash/sleep processes whose working files live under our unit directory
		if fd0, err := os.Readlink(fmt.Sprintf("/proc/%d/fd/1", p)); err == nil && strings.HasPrefix(fd0, d.UnitsDir()) {
			_ = syscall.Kill(p, syscall.SIGKILL)
		}
	}
	// anything else still holding a file below our unit directory as stdout (orphaned grandchildren)
	ents, _ := os.ReadDir("/proc")
	for _, e := range ents {
		pid, err := strconv.Atoi(e.Name())
		if err != nil || pid == os.Getpid() {
			continue
		}
		if fd1, err := os.Readlink(fmt.Sprintf("/proc/%d/fd/1", pid)); err == nil && strings.HasPrefix(fd1, d.UnitsDir()+"/") {
			_ = syscall.Kill(pid, syscall.SIGKILL)
		}
	}
}

// ListUnitDirs lists the unit directories on disk.
func (d *Daemon) ListUnitDirs() []string {
	ents, err := os.ReadDir(d.UnitsDir())
	if err != nil {
		return nil
	}
	var out []string
	for _, e := range ents {
		if e.IsDir() {
			out = append(out, e.Name())
		}
	}
	sort.Strings(out)

	return out
}
