module verif/harness

go 1.21

require (
	github.com/ansible/receptor v0.0.0
	github.com/minio/highwayhash v1.0.3
)

require (
	github.com/francoispqt/gojay v1.2.13 // indirect
	github.com/fsnotify/fsnotify v1.7.0 // indirect
	github.com/ghjm/cmdline v0.1.2 // indirect
	github.com/gorilla/websocket v1.5.3 // indirect
	github.com/hashicorp/hcl v1.0.0 // indirect
	github.com/jupp0r/go-priority-queue v0.0.0-20160601094913-ab1073853bde // indirect
	github.com/magiconair/properties v1.8.7 // indirect
	github.com/mitchellh/mapstructure v1.5.0 // indirect
	github.com/pbnjay/memory v0.0.0-20210728143218-7b4eea64cf58 // indirect
	github.com/pelletier/go-toml/v2 v2.2.2 // indirect
	github.com/quic-go/quic-go v0.40.1 // indirect
	github.com/sagikazarmark/slog-shim v0.1.0 // indirect
	github.com/spf13/afero v1.11.0 // indirect
	github.com/spf13/cast v1.6.0 // indirect
	github.com/spf13/pflag v1.0.5 // indirect
	github.com/spf13/viper v1.19.0 // indirect
	github.com/subosito/gotenv v1.6.0 // indirect
	golang.org/x/crypto v0.28.0 // indirect
	golang.org/x/exp v0.0.0-20240506185415-9bf2ced13842 // indirect
	golang.org/x/net v0.30.0 // indirect
	golang.org/x/sys v0.26.0 // indirect
	golang.org/x/text v0.19.0 // indirect
	gopkg.in/ini.v1 v1.67.0 // indirect
	gopkg.in/yaml.v2 v2.4.0 // indirect
	gopkg.in/yaml.v3 v3.0.1 // indirect
)

replace github.com/ansible/receptor => /repo

replace github.com/quic-go/quic-go v0.40.1 => github.com/AaronH88/quic-go v0.0.0-20240925173611-8b838692e0f5
