// Package peer implements a scripted backend peer that speaks the Netceptor wire protocol
// byte for byte over a memnet pipe, for driving one real node (engine E1).
package peer

import (
	"bytes"
	"encoding/binary"
	"encoding/json"
	"fmt"
	"sync"
	"time"

	"github.com/ansible/receptor/pkg/netceptor"
	"github.com/minio/highwayhash"
	"verif/harness/memnet"
)

// RoutingUpdate mirrors the wire form of netceptor's unexported routingUpdate.
type RoutingUpdate struct {
	NodeID             string
	UpdateID           string
	UpdateEpoch        uint64
	UpdateSequence     uint64
	Connections        map[string]float64
	ForwardingNode     string
	SuspectedDuplicate uint64
}

// ServiceAd mirrors serviceAdvertisementFull on the wire.
type ServiceAd struct {
	NodeID       string
	Service      string
	Time         time.Time
	ConnType     byte
	Tags         map[string]string
	WorkCommands []netceptor.WorkCommand
	Cancel       bool
}

// Data is a decoded data packet.
type Data struct {
	TTL         byte
	FromHash    uint64
	ToHash      uint64
	FromService string
	ToService   string
	Payload     []byte
}

// Frame is one frame received from the node.
type Frame struct {
	Raw  []byte
	Type int
	RU   *RoutingUpdate
	Ad   *ServiceAd
	Data *Data
}

// Peer is a scripted neighbour.
type Peer struct {
	ID    string
	Pipe  *memnet.Pipe
	mu    sync.Mutex
	cond  *sync.Cond
	in    []Frame
	eof   bool
	Epoch uint64
	Seq   uint64
	idn   int
}

var zerokey = make([]byte, 32)

// Hash computes the wire hash of a node name.
func Hash(name string) uint64 {
	h, _ := highwayhash.New64(zerokey)
	_, _ = h.Write([]byte(name))

	return h.Sum64()
}

// Attach creates a pipe, gives end A to the node's backend and returns the peer owning end B.
func Attach(b *memnet.Backend, id string, seed int64) (*Peer, error) {
	p := &Peer{ID: id, Pipe: memnet.NewPipe(seed), Epoch: 1000}
	p.cond = sync.NewCond(&p.mu)
	if !b.Attach(p.Pipe.A) {
		return nil, fmt.Errorf("backend did not accept the session")
	}
	go p.reader()

	return p, nil
}

func (p *Peer) reader() {
	for {
		b, err := p.Pipe.B.Recv(200 * time.Millisecond)
		if err == netceptor.ErrTimeout {
			continue
		}
		p.mu.Lock()
		if err != nil {
			p.eof = true
			p.cond.Broadcast()
			p.mu.Unlock()

			return
		}
		p.in = append(p.in, Decode(b))
		p.cond.Broadcast()
		p.mu.Unlock()
	}
}

// Decode parses a frame.
func Decode(b []byte) Frame {
	f := Frame{Raw: b, Type: -1}
	if len(b) == 0 {
		return f
	}
	f.Type = int(b[0])
	switch b[0] {
	case netceptor.MsgTypeRoute:
		ru := &RoutingUpdate{}
		if json.Unmarshal(b[1:], ru) == nil {
			f.RU = ru
		}
	case netceptor.MsgTypeServiceAdvertisement:
		ad := &ServiceAd{}
		if json.Unmarshal(b[1:], ad) == nil {
			f.Ad = ad
		}
	case netceptor.MsgTypeData:
		if len(b) >= 36 {
			f.Data = &Data{
				TTL: b[1], FromHash: binary.BigEndian.Uint64(b[4:12]), ToHash: binary.BigEndian.Uint64(b[12:20]),
				FromService: string(bytes.TrimRight(b[20:28], "\x00")), ToService: string(bytes.TrimRight(b[28:36], "\x00")),
				Payload: b[36:],
			}
		}
	}

	return f
}

// EncodeData builds a data packet.
func EncodeData(ttl byte, from, to, fromSvc, toSvc string, payload []byte) []byte {
	buf := &bytes.Buffer{}
	buf.Write([]byte{netceptor.MsgTypeData, ttl, 0, 0})
	_ = binary.Write(buf, binary.BigEndian, Hash(from))
	_ = binary.Write(buf, binary.BigEndian, Hash(to))
	fs := make([]byte, 8)
	copy(fs, fromSvc)
	ts := make([]byte, 8)
	copy(ts, toSvc)
	buf.Write(fs)
	buf.Write(ts)
	buf.Write(payload)

	return buf.Bytes()
}

// SendRaw writes raw bytes as one frame.
func (p *Peer) SendRaw(b []byte) error { return p.Pipe.B.Send(b) }

// SendRoute sends a routing update.
func (p *Peer) SendRoute(ru RoutingUpdate) error {
	body, err := json.Marshal(ru)
	if err != nil {
		return err
	}

	return p.SendRaw(append([]byte{netceptor.MsgTypeRoute}, body...))
}

// SendAd sends a service advertisement or cancel.
func (p *Peer) SendAd(ad ServiceAd) error {
	body, err := json.Marshal(ad)
	if err != nil {
		return err
	}

	return p.SendRaw(append([]byte{netceptor.MsgTypeServiceAdvertisement}, body...))
}

// NextID returns a fresh update id unique to this peer.
func (p *Peer) NextID() string {
	p.mu.Lock()
	defer p.mu.Unlock()
	p.idn++

	return fmt.Sprintf("%s-u%d", p.ID, p.idn)
}

// OwnUpdate sends an update originated by this peer with the given adjacency.
func (p *Peer) OwnUpdate(conns map[string]float64) error {
	p.mu.Lock()
	p.Seq++
	seq := p.Seq
	p.mu.Unlock()

	return p.SendRoute(RoutingUpdate{NodeID: p.ID, UpdateID: p.NextID(), UpdateEpoch: p.Epoch, UpdateSequence: seq, Connections: conns, ForwardingNode: p.ID})
}

// Frames returns a copy of all frames received so far.
func (p *Peer) Frames() []Frame {
	p.mu.Lock()
	defer p.mu.Unlock()

	return append([]Frame(nil), p.in...)
}

// Count returns the number of frames received so far.
func (p *Peer) Count() int {
	p.mu.Lock()
	defer p.mu.Unlock()

	return len(p.in)
}

// EOF reports whether the node closed the session.
func (p *Peer) EOF() bool {
	p.mu.Lock()
	defer p.mu.Unlock()

	return p.eof
}

// WaitFrame waits for a frame at index >= from satisfying pred.
func (p *Peer) WaitFrame(from int, timeout time.Duration, pred func(Frame) bool) (int, *Frame) {
	deadline := time.Now().Add(timeout)
	p.mu.Lock()
	defer p.mu.Unlock()
	i := from
	for {
		for ; i < len(p.in); i++ {
			if pred(p.in[i]) {
				f := p.in[i]

				return i + 1, &f
			}
		}
		if p.eof {
			return len(p.in), nil
		}
		rem := time.Until(deadline)
		if rem <= 0 {
			return len(p.in), nil
		}
		t := time.AfterFunc(rem, func() {
			p.mu.Lock()
			p.cond.Broadcast()
			p.mu.Unlock()
		})
		p.cond.Wait()
		t.Stop()
	}
}

// WaitEOF waits until the node has closed the session.
func (p *Peer) WaitEOF(timeout time.Duration) bool {
	deadline := time.Now().Add(timeout)
	p.mu.Lock()
	defer p.mu.Unlock()
	for !p.eof {
		rem := time.Until(deadline)
		if rem <= 0 {
			return false
		}
		t := time.AfterFunc(rem, func() {
			p.mu.Lock()
			p.cond.Broadcast()
			p.mu.Unlock()
		})
		p.cond.Wait()
		t.Stop()
	}

	return true
}

// Handshake performs the two-step establishment with a node called nodeID at the given cost:
// announce ourselves, wait for the node's own announcement, then list the node as a neighbour.
func (p *Peer) Handshake(nodeID string, cost float64, extra map[string]float64) error {
	if err := p.OwnUpdate(map[string]float64{}); err != nil {
		return err
	}
	_, f := p.WaitFrame(0, 5*time.Second, func(f Frame) bool { return f.RU != nil && f.RU.ForwardingNode == nodeID })
	if f == nil {
		return fmt.Errorf("no announcement from node")
	}
	conns := map[string]float64{nodeID: cost}
	for k, v := range extra {
		conns[k] = v
	}

	return p.OwnUpdate(conns)
}

// Marker is the 1-byte frame of unknown type used as a processing barrier.
var Marker = []byte{0x7F}

// Close cuts the link.
func (p *Peer) Close() { p.Pipe.Cut() }
