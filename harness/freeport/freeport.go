// Package freeport hands out loopback TCP ports for listeners of processes we start (receptor daemons, proxies).
//
// The usual idiom (listen on :0, read the port, close, let the child bind it a second later) is a race: until the
// child has bound the port the kernel may hand it to anybody else who asks for "any port" - a parallel scenario of
// this run, another check, a relay listener. A child that then finds its address in use exits, and the scenario
// reports "daemon process died", which says nothing about receptor. So ports are taken
//
//   - from below the kernel's ephemeral range (ip_local_port_range), where neither bind(0) nor connect() ever
//     allocates, and
//   - under an advisory file lock per port, held until this process exits, so that two harness processes (or two
//     goroutines of one) never get the same number,
//
// and each candidate is test-bound before it is returned (somebody's fixed-port listener is skipped).
package freeport

import (
	"crypto/rand"
	"encoding/binary"
	"fmt"
	"net"
	"os"
	"path/filepath"
	"strconv"
	"strings"
	"sync"
	"syscall"
)

var (
	mu   sync.Mutex
	held = map[int]*os.File{}
)

const floor = 12000

// ceiling returns the first port of the ephemeral range (ports below it are never handed out by the kernel).
func ceiling() int {
	hi := 32768
	if b, err := os.ReadFile("/proc/sys/net/ipv4/ip_local_port_range"); err == nil {
		f := strings.Fields(string(b))
		if len(f) == 2 {
			if lo, err := strconv.Atoi(f[0]); err == nil && lo > floor+2000 {
				hi = lo
			} else if err == nil {
				// an unusual range that starts low: use what lies above it instead
				if top, err := strconv.Atoi(f[1]); err == nil && top < 60000 {
					return -(top + 1)
				}
			}
		}
	}

	return hi
}

func lockDir() string {
	d := filepath.Join(os.TempDir(), "verif-portlocks")
	_ = os.MkdirAll(d, 0o777)

	return d
}

// Get returns a port that no other caller of Get (in any live process) holds and that nobody listens on.
func Get() (int, error) {
	lo, hi := floor, ceiling()
	if hi < 0 {
		lo, hi = -hi, 65000
	}
	dir := lockDir()
	mu.Lock()
	defer mu.Unlock()
	for try := 0; try < 4000; try++ {
		var rb [4]byte
		if _, err := rand.Read(rb[:]); err != nil {
			return 0, err
		}
		p := lo + int(binary.LittleEndian.Uint32(rb[:])%uint32(hi-lo))
		if held[p] != nil {
			continue
		}
		f, err := os.OpenFile(filepath.Join(dir, strconv.Itoa(p)), os.O_CREATE|os.O_RDWR, 0o666)
		if err != nil {
			return 0, err
		}
		if syscall.Flock(int(f.Fd()), syscall.LOCK_EX|syscall.LOCK_NB) != nil {
			f.Close()

			continue
		}
		l, err := net.Listen("tcp", fmt.Sprintf("127.0.0.1:%d", p))
		if err != nil {
			f.Close()

			continue
		}
		l.Close()
		held[p] = f // the lock lives as long as this process

		return p, nil
	}

	return 0, fmt.Errorf("no free loopback port between %d and %d", lo, hi)
}

// Must is Get for callers without an error path.
func Must() int {
	p, err := Get()
	if err != nil {
		panic(err)
	}

	return p
}
