package freeport

import (
	"fmt"
	"net"
	"os"
	"os/exec"
	"strings"
	"sync"
	"testing"
)

// Ports are distinct across goroutines and across processes that are alive at the same time, bindable, and outside
// the range the kernel allocates from.
func TestDistinct(t *testing.T) {
	if os.Getenv("FREEPORT_CHILD") != "" {
		for i := 0; i < 50; i++ {
			fmt.Println("port", Must())
		}
		fmt.Println("done")
		var b [1]byte
		_, _ = os.Stdin.Read(b[:]) // hold the locks until the parent has drawn its own ports

		return
	}
	child := exec.Command(os.Args[0], "-test.run", "TestDistinct")
	child.Env = append(os.Environ(), "FREEPORT_CHILD=1")
	in, _ := child.StdinPipe()
	out, _ := child.StdoutPipe()
	if err := child.Start(); err != nil {
		t.Fatal(err)
	}
	seen := map[int]string{}
	buf := make([]byte, 0, 4096)
	tmp := make([]byte, 1024)
	for !strings.Contains(string(buf), "done") {
		n, err := out.Read(tmp)
		buf = append(buf, tmp[:n]...)
		if err != nil {
			break
		}
	}
	for _, l := range strings.Split(string(buf), "\n") {
		var p int
		if _, err := fmt.Sscanf(l, "port %d", &p); err == nil {
			seen[p] = "child"
		}
	}
	if len(seen) != 50 {
		t.Fatalf("child drew %d distinct ports, want 50", len(seen))
	}
	var mu sync.Mutex
	var wg sync.WaitGroup
	for g := 0; g < 16; g++ {
		wg.Add(1)
		go func() {
			defer wg.Done()
			for i := 0; i < 40; i++ {
				p := Must()
				mu.Lock()
				if who := seen[p]; who != "" {
					t.Errorf("port %d handed out twice (%s)", p, who)
				}
				seen[p] = "parent"
				mu.Unlock()
				if hi := ceiling(); hi > 0 && (p < floor || p >= hi) {
					t.Errorf("port %d outside [%d,%d)", p, floor, hi)
				}
				l, err := net.Listen("tcp", fmt.Sprintf("127.0.0.1:%d", p))
				if err != nil {
					t.Errorf("port %d not bindable: %v", p, err)

					continue
				}
				l.Close()
			}
		}()
	}
	wg.Wait()
	in.Close()
	_ = child.Wait()
}
