// Package e1 wraps one real Netceptor node surrounded by scripted peers (engine E1).
package e1

import (
	"context"
	"fmt"
	"sort"
	"sync"
	"time"

	"github.com/ansible/receptor/pkg/netceptor"
	"github.com/ansible/receptor/pkg/verifhook"
	"verif/harness/memnet"
	"verif/harness/peer"
	"verif/harness/trace"
)

// Node is a real node with a memnet backend.
type Node struct {
	ID     string
	N      *netceptor.Netceptor
	B      *memnet.Backend
	Cancel context.CancelFunc
	seed   int64
	mu     sync.Mutex
}

// Opts are the operational constants of the node.
type Opts struct {
	RouteUpdate, ServiceAd, SeenExpire, MaxIdle time.Duration
	MaxHops                                    byte
	Quiet                                      bool
	Backend                                    []func(*netceptor.BackendInfo)
}

// NewNode starts a real Netceptor with one memnet backend.
func NewNode(id string, o Opts) (*Node, error) {
	if o.RouteUpdate == 0 {
		o.RouteUpdate = time.Hour
	}
	if o.SeenExpire == 0 {
		o.SeenExpire = time.Hour
	}
	if o.MaxIdle == 0 {
		o.MaxIdle = time.Hour
	}
	if o.MaxHops == 0 {
		o.MaxHops = 30
	}
	ctx, cancel := context.WithCancel(context.Background())
	n := netceptor.NewWithConsts(ctx, id, 16384, o.RouteUpdate, o.ServiceAd, o.SeenExpire, o.MaxHops, o.MaxIdle)
	b := memnet.NewBackend()
	if err := n.AddBackend(b, o.Backend...); err != nil {
		cancel()

		return nil, err
	}

	return &Node{ID: id, N: n, B: b, Cancel: cancel}, nil
}

// AddBackend adds a further memnet backend with its own admission policy.
func (n *Node) AddBackend(mods ...func(*netceptor.BackendInfo)) (*memnet.Backend, error) {
	b := memnet.NewBackend()
	if err := n.N.AddBackend(b, mods...); err != nil {
		return nil, err
	}

	return b, nil
}

// Attach connects a new scripted peer (no handshake yet).
func (n *Node) Attach(id string) (*peer.Peer, error) {
	n.mu.Lock()
	n.seed++
	s := n.seed
	n.mu.Unlock()

	return peer.Attach(n.B, id, s)
}

// Stop shuts the node down.
func (n *Node) Stop() {
	n.N.Shutdown()
	n.Cancel()
}

// Barrier sends the marker frame on p's session and waits until the node's session loop has
// taken it from the read channel, which proves every earlier frame on that session was handled.
func Barrier(col *trace.Collector, p *peer.Peer, timeout time.Duration) error {
	from := col.Len()
	if err := p.SendRaw(peer.Marker); err != nil {
		return err
	}
	_, ok := col.WaitFor(from, timeout, func(r verifhook.Record) bool {
		if r["ev"] != "recv" {
			return false
		}
		m, _ := r["msg"].(map[string]any)
		if m == nil {
			return false
		}
		t, _ := m["type"].(int)

		return t == 0x7F && m["len"] == 1
	})
	if !ok {
		return fmt.Errorf("barrier timeout")
	}

	return nil
}

// WaitTable polls the node's routing table until it contains exactly want (dest -> next hop).
func (n *Node) WaitTable(want map[string]string, timeout time.Duration) bool {
	deadline := time.Now().Add(timeout)
	for {
		rt := n.N.Status().RoutingTable
		if len(rt) == len(want) {
			ok := true
			for k, v := range want {
				if rt[k] != v {
					ok = false
				}
			}
			if ok {
				return true
			}
		}
		if time.Now().After(deadline) {
			return false
		}
		time.Sleep(5 * time.Millisecond)
	}
}

// SortedConns lists established neighbours.
func (n *Node) SortedConns() []string {
	st := n.N.Status()
	out := []string{}
	for _, c := range st.Connections {
		out = append(out, fmt.Sprintf("%s=%g", c.NodeID, c.Cost))
	}
	sort.Strings(out)

	return out
}
