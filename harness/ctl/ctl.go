// Package ctl drives real receptor daemons (the binary built from /repo) for the control-service
// checks C08, C15 and C19: it writes a configuration file, starts the binary, offers control clients
// over the Unix socket, the TCP control listener and a mesh stream opened through a second daemon,
// a frame-parsing TCP relay between two daemons, kill/restart, and reaping of detached runner processes.
package ctl

import (
	"bytes"
	"encoding/binary"
	"encoding/json"
	"errors"
	"fmt"
	"io"
	"net"
	"os"
	"os/exec"
	"path/filepath"
	"strconv"
	"strings"
	"sync"
	"syscall"
	"time"

	"verif/harness/freeport"
)

// Item is one top-level configuration action, e.g. {"work-command": {...}}.
type Item map[string]any

// Daemon is one receptor process with its own work directory.
type Daemon struct {
	Bin     string
	ID      string
	Dir     string // scratch directory of this daemon (config, socket, log, data)
	DataDir string // value of node.datadir; units live in DataDir/ID
	Sock    string
	TCPCtl  string // host:port of the TCP control listener, "" if none
	Items   []Item // all configuration items, in order
	LogFile string
	Starts  int
	Env     []string // extra environment of the next start (e.g. VERIF_CRASH_AT=...)

	mu      sync.Mutex
	cmd     *exec.Cmd
	exited  chan struct{}
	exitErr error
}

// logTail: the end of a daemon's own output, for messages that must explain themselves without the scratch files.
func logTail(p string) string {
	b, _ := os.ReadFile(p)
	if len(b) > 1200 {
		b = b[len(b)-1200:]
	}

	return string(b)
}

// FreePort returns an unused loopback TCP port reserved for this process (package freeport: outside the ephemeral range).
func FreePort() int { return freeport.Must() }

// NewDaemon prepares (does not start) a daemon. ctlService is the control-service item's extra keys
// (e.g. "tls"); withTCP adds a loopback TCP control listener.
func NewDaemon(bin, dir, id string, withTCP bool, ctlExtra map[string]any, items ...Item) *Daemon {
	_ = os.MkdirAll(dir, 0o700)
	d := &Daemon{Bin: bin, ID: id, Dir: dir, DataDir: filepath.Join(dir, "data"), Sock: filepath.Join(dir, "c.sock")}
	d.LogFile = filepath.Join(dir, "daemon.log")
	cs := map[string]any{"service": "control", "filename": d.Sock}
	if withTCP {
		d.TCPCtl = fmt.Sprintf("127.0.0.1:%d", FreePort())
		cs["tcplisten"] = d.TCPCtl
	}
	for k, v := range ctlExtra {
		cs[k] = v
	}
	d.Items = append(d.Items, Item{"node": map[string]any{"id": id, "datadir": d.DataDir}}, Item{"log-level": "info"})
	d.Items = append(d.Items, items...)
	d.Items = append(d.Items, Item{"control-service": cs})

	return d
}

// UnitsDir is where the daemon keeps its unit directories.
func (d *Daemon) UnitsDir() string { return filepath.Join(d.DataDir, d.ID) }

// ConfigPath is the configuration file (JSON flow syntax, which is YAML).
func (d *Daemon) ConfigPath() string { return filepath.Join(d.Dir, "receptor.yml") }

func (d *Daemon) writeConfig() error {
	var b bytes.Buffer
	b.WriteString("[\n")
	for i, it := range d.Items {
		j, err := json.Marshal(it)
		if err != nil {
			return err
		}
		b.Write(j)
		if i < len(d.Items)-1 {
			b.WriteString(",")
		}
		b.WriteString("\n")
	}
	b.WriteString("]\n")

	return os.WriteFile(d.ConfigPath(), b.Bytes(), 0o600)
}

// Start launches the process and waits until the Unix control socket greets.
func (d *Daemon) Start(ready time.Duration) error {
	if err := d.writeConfig(); err != nil {
		return err
	}
	_ = os.Remove(d.Sock)
	_ = os.Remove(d.Sock + ".lock")
	lf, err := os.OpenFile(d.LogFile, os.O_CREATE|os.O_APPEND|os.O_WRONLY, 0o600)
	if err != nil {
		return err
	}
	fmt.Fprintf(lf, "==== start %d of %s\n", d.Starts+1, d.ID)
	cmd := exec.Command(d.Bin, "--config", d.ConfigPath())
	cmd.Stdout, cmd.Stderr = lf, lf
	cmd.Dir = d.Dir
	cmd.Env = append(append(os.Environ(), "VERIF_TRACE=", "VERIF_CRASH_AT="), d.Env...)
	cmd.SysProcAttr = &syscall.SysProcAttr{Setpgid: true}
	if err := cmd.Start(); err != nil {
		lf.Close()

		return err
	}
	lf.Close()
	ex := make(chan struct{})
	d.mu.Lock()
	d.cmd, d.exited, d.exitErr = cmd, ex, nil
	d.Starts++
	d.mu.Unlock()
	go func() {
		err := cmd.Wait()
		d.mu.Lock()
		d.exitErr = err
		d.mu.Unlock()
		close(ex)
	}()
	deadline := time.Now().Add(ready)
	for time.Now().Before(deadline) {
		if !d.Alive() {
			return fmt.Errorf("daemon %s exited during start: %v (last output: %q)", d.ID, d.ExitErr(), logTail(d.LogFile))
		}
		c, err := DialUnix(d.Sock, 2*time.Second)
		if err == nil {
			c.Close()

			return nil
		}
		time.Sleep(30 * time.Millisecond)
	}

	return fmt.Errorf("daemon %s not ready after %v (last output: %q)", d.ID, ready, logTail(d.LogFile))
}

// Alive reports whether the process is still running.
func (d *Daemon) Alive() bool {
	d.mu.Lock()
	ex := d.exited
	d.mu.Unlock()
	if ex == nil {
		return false
	}
	select {
	case <-ex:
		return false
	default:
		return true
	}
}

// ExitErr is the Wait error of the last process (nil while running).
func (d *Daemon) ExitErr() error {
	d.mu.Lock()
	defer d.mu.Unlock()

	return d.exitErr
}

// Pid of the running process or 0.
func (d *Daemon) Pid() int {
	d.mu.Lock()
	defer d.mu.Unlock()
	if d.cmd == nil || d.cmd.Process == nil {
		return 0
	}

	return d.cmd.Process.Pid
}

// Kill sends SIGKILL and waits for the exit.
func (d *Daemon) Kill() {
	d.mu.Lock()
	cmd, ex := d.cmd, d.exited
	d.mu.Unlock()
	if cmd == nil || cmd.Process == nil {
		return
	}
	_ = cmd.Process.Kill()
	if ex != nil {
		select {
		case <-ex:
		case <-time.After(10 * time.Second):
		}
	}
}

// Restart kills the process and starts it again on the same directory.
func (d *Daemon) Restart(ready time.Duration) error {
	d.Kill()

	return d.Start(ready)
}

// LogTail returns the last n bytes of the daemon log.
func (d *Daemon) LogTail(n int) string {
	b, err := os.ReadFile(d.LogFile)
	if err != nil {
		return ""
	}
	if len(b) > n {
		b = b[len(b)-n:]
	}

	return string(b)
}

// Cleanup kills the daemon and every detached command-runner process working under its data directory.
func (d *Daemon) Cleanup() {
	d.Kill()
	KillRunners(d.DataDir)
}

// KillRunners kills (by process group) every process whose command line mentions a unit directory below dataDir.
// Runner processes are session leaders (Setsid), so their payload dies with the group.
func KillRunners(dataDir string) int {
	ents, err := os.ReadDir("/proc")
	if err != nil {
		return 0
	}
	n := 0
	needle := "unitdir=" + dataDir
	for _, e := range ents {
		pid, err := strconv.Atoi(e.Name())
		if err != nil || pid == os.Getpid() {
			continue
		}
		b, err := os.ReadFile(filepath.Join("/proc", e.Name(), "cmdline"))
		if err != nil || !bytes.Contains(b, []byte("--command-runner")) || !bytes.Contains(b, []byte(needle)) {
			continue
		}
		_ = syscall.Kill(-pid, syscall.SIGKILL)
		_ = syscall.Kill(pid, syscall.SIGKILL)
		n++
	}

	return n
}

// RunnerPids lists runner processes of a unit directory.
func RunnerPids(unitDir string) []int {
	ents, _ := os.ReadDir("/proc")
	var out []int
	for _, e := range ents {
		pid, err := strconv.Atoi(e.Name())
		if err != nil {
			continue
		}
		b, err := os.ReadFile(filepath.Join("/proc", e.Name(), "cmdline"))
		if err == nil && bytes.Contains(b, []byte("--command-runner")) && bytes.Contains(b, []byte("unitdir="+unitDir+"\x00")) {
			out = append(out, pid)
		}
	}

	return out
}

// ------------------------------------------------------------------ control clients

// Conn is a control connection that records every byte it receives.
type Conn struct {
	Kind string // unix | tcp | mesh
	c    net.Conn
	mu   sync.Mutex
	rec  bytes.Buffer // everything received
	pos  int          // read position of ReadLine within rec
	eof  bool
	rerr error
	wake chan struct{}
}

func newConn(kind string, c net.Conn) *Conn {
	k := &Conn{Kind: kind, c: c, wake: make(chan struct{}, 1)}
	go k.pump()

	return k
}

func (k *Conn) pump() {
	buf := make([]byte, 65536)
	for {
		n, err := k.c.Read(buf)
		k.mu.Lock()
		if n > 0 {
			k.rec.Write(buf[:n])
		}
		if err != nil {
			k.eof = true
			k.rerr = err
		}
		k.mu.Unlock()
		select {
		case k.wake <- struct{}{}:
		default:
		}
		if err != nil {
			return
		}
	}
}

// ErrDeadline is returned when nothing (more) arrived within the deadline.
var ErrDeadline = errors.New("deadline")

// ReadLine returns the next complete line (without the newline). io.EOF when the peer closed and no complete line is left
// (a trailing partial line is returned first, with io.EOF on the following call).
func (k *Conn) ReadLine(d time.Duration) (string, error) {
	deadline := time.Now().Add(d)
	for {
		k.mu.Lock()
		b := k.rec.Bytes()[k.pos:]
		if i := bytes.IndexByte(b, '\n'); i >= 0 {
			line := string(b[:i])
			k.pos += i + 1
			k.mu.Unlock()

			return line, nil
		}
		if k.eof {
			if len(b) > 0 {
				line := string(b)
				k.pos += len(b)
				k.mu.Unlock()

				return line, nil
			}
			k.mu.Unlock()

			return "", io.EOF
		}
		k.mu.Unlock()
		left := time.Until(deadline)
		if left <= 0 {
			return "", ErrDeadline
		}
		select {
		case <-k.wake:
		case <-time.After(left):
		}
	}
}

// WaitEOF waits until the peer has closed; returns false on deadline.
func (k *Conn) WaitEOF(d time.Duration) bool {
	deadline := time.Now().Add(d)
	for {
		k.mu.Lock()
		e := k.eof
		k.mu.Unlock()
		if e {
			return true
		}
		left := time.Until(deadline)
		if left <= 0 {
			return false
		}
		select {
		case <-k.wake:
		case <-time.After(left):
		}
	}
}

// Quiet waits until nothing new has arrived for the given span (bounded by max) and returns the unread bytes without consuming them.
func (k *Conn) Quiet(span, max time.Duration) []byte {
	end := time.Now().Add(max)
	last := -1
	lastChange := time.Now()
	for time.Now().Before(end) {
		k.mu.Lock()
		n := k.rec.Len()
		e := k.eof
		k.mu.Unlock()
		if n != last {
			last = n
			lastChange = time.Now()
		}
		if e || time.Since(lastChange) >= span {
			break
		}
		time.Sleep(5 * time.Millisecond)
	}
	k.mu.Lock()
	defer k.mu.Unlock()

	return append([]byte(nil), k.rec.Bytes()[k.pos:]...)
}

// Received returns a copy of everything received so far.
func (k *Conn) Received() []byte {
	k.mu.Lock()
	defer k.mu.Unlock()

	return append([]byte(nil), k.rec.Bytes()...)
}

// EOF reports whether the peer closed.
func (k *Conn) EOF() bool {
	k.mu.Lock()
	defer k.mu.Unlock()

	return k.eof
}

// Send writes bytes with a write deadline.
func (k *Conn) Send(b []byte) error {
	_ = k.c.SetWriteDeadline(time.Now().Add(20 * time.Second))
	_, err := k.c.Write(b)

	return err
}

// CloseWrite half-closes the connection (the server sees EOF but can still answer).
func (k *Conn) CloseWrite() error {
	switch c := k.c.(type) {
	case *net.UnixConn:
		return c.CloseWrite()
	case *net.TCPConn:
		return c.CloseWrite()
	}

	return errors.New("no half close")
}

// Close closes the connection.
func (k *Conn) Close() { _ = k.c.Close() }

// Abort closes abruptly (RST on TCP).
func (k *Conn) Abort() {
	if t, ok := k.c.(*net.TCPConn); ok {
		_ = t.SetLinger(0)
	}
	_ = k.c.Close()
}

func expectGreeting(k *Conn, d time.Duration) error {
	l, err := k.ReadLine(d)
	if err != nil {
		return fmt.Errorf("no greeting: %w", err)
	}
	if !strings.HasPrefix(l, "Receptor Control, node ") {
		return fmt.Errorf("unexpected greeting %q", l)
	}

	return nil
}

// DialUnix opens a control session on a Unix socket and consumes the greeting.
func DialUnix(path string, d time.Duration) (*Conn, error) {
	c, err := net.DialTimeout("unix", path, d)
	if err != nil {
		return nil, err
	}
	k := newConn("unix", c)
	if err := expectGreeting(k, d); err != nil {
		k.Close()

		return nil, err
	}

	return k, nil
}

// DialTCP opens a control session on the TCP control listener and consumes the greeting.
func DialTCP(addr string, d time.Duration) (*Conn, error) {
	c, err := net.DialTimeout("tcp", addr, d)
	if err != nil {
		return nil, err
	}
	k := newConn("tcp", c)
	if err := expectGreeting(k, d); err != nil {
		k.Close()

		return nil, err
	}

	return k, nil
}

// DialMesh opens a control session on node's control service through the mesh: it connects to the Unix socket of
// daemon via, issues "connect <node> control" and consumes "Connecting" and the remote greeting.
func DialMesh(via *Daemon, node string, d time.Duration) (*Conn, error) {
	c, err := net.DialTimeout("unix", via.Sock, d)
	if err != nil {
		return nil, err
	}
	k := newConn("mesh", c)
	if err := expectGreeting(k, d); err != nil {
		k.Close()

		return nil, err
	}
	if err := k.Send([]byte("connect " + node + " control\n")); err != nil {
		k.Close()

		return nil, err
	}
	l, err := k.ReadLine(d)
	if err != nil || l != "Connecting" {
		k.Close()

		return nil, fmt.Errorf("mesh connect to %s failed: %q %v", node, l, err)
	}
	if err := expectGreeting(k, d); err != nil {
		k.Close()

		return nil, err
	}

	return k, nil
}

// Dial opens a session of the given kind towards daemon d (via is needed for kind mesh).
func Dial(kind string, d, via *Daemon, to time.Duration) (*Conn, error) {
	switch kind {
	case "unix":
		return DialUnix(d.Sock, to)
	case "tcp":
		return DialTCP(d.TCPCtl, to)
	case "mesh":
		return DialMesh(via, d.ID, to)
	}

	return nil, fmt.Errorf("unknown connection kind %s", kind)
}

// Command sends one line on a fresh Unix session and returns the first reply line.
func (d *Daemon) Command(line string, to time.Duration) (string, error) {
	k, err := DialUnix(d.Sock, to)
	if err != nil {
		return "", err
	}
	defer k.Close()
	if err := k.Send([]byte(line + "\n")); err != nil {
		return "", err
	}

	return k.ReadLine(to)
}

// WorkList returns the parsed reply of "work list" on a fresh Unix session.
func (d *Daemon) WorkList(to time.Duration) (map[string]map[string]any, string, error) {
	l, err := d.Command("work list", to)
	if err != nil {
		return nil, l, err
	}
	var m map[string]map[string]any
	if err := json.Unmarshal([]byte(l), &m); err != nil {
		return nil, l, fmt.Errorf("work list reply is not JSON: %q", l)
	}

	return m, l, nil
}

// Submit submits a unit over a fresh Unix session: JSON fields, payload as stdin. Returns the unit id and every byte received.
func (d *Daemon) Submit(fields map[string]string, payload string, to time.Duration) (string, []byte, error) {
	k, err := DialUnix(d.Sock, to)
	if err != nil {
		return "", nil, err
	}
	defer k.Close()
	id, err := SubmitOn(k, fields, payload, to)

	return id, k.Received(), err
}

// SubmitOn runs the submit dialogue on an open session.
func SubmitOn(k *Conn, fields map[string]string, payload string, to time.Duration) (string, error) {
	m := map[string]string{"command": "work", "subcommand": "submit"}
	for a, b := range fields {
		m[a] = b
	}
	j, _ := json.Marshal(m)
	if err := k.Send(append(j, '\n')); err != nil {
		return "", err
	}
	l, err := k.ReadLine(to)
	if err != nil {
		return "", err
	}
	const pre = "Work unit created with ID "
	if !strings.HasPrefix(l, pre) {
		return "", fmt.Errorf("submit refused: %s", l)
	}
	id := strings.SplitN(strings.TrimPrefix(l, pre), ".", 2)[0]
	if err := k.Send([]byte(payload)); err != nil {
		return id, err
	}
	if err := k.CloseWrite(); err != nil {
		return id, err
	}
	l, err = k.ReadLine(to)
	if err != nil {
		return id, fmt.Errorf("no result line after stdin: %w", err)
	}
	if strings.HasPrefix(l, "ERROR") {
		return id, fmt.Errorf("submit failed after stdin: %s", l)
	}

	return id, nil
}

// WaitUnitState polls "work status" until the unit's StateName is one of want.
func (d *Daemon) WaitUnitState(id string, to time.Duration, want ...string) (string, error) {
	deadline := time.Now().Add(to)
	last := ""
	for time.Now().Before(deadline) {
		l, err := d.Command("work status "+id, 5*time.Second)
		if err == nil {
			var m map[string]any
			if json.Unmarshal([]byte(l), &m) == nil {
				sn, _ := m["StateName"].(string)
				last = sn
				for _, w := range want {
					if sn == w {
						return sn, nil
					}
				}
			} else {
				last = l
			}
		}
		time.Sleep(40 * time.Millisecond)
	}

	return last, fmt.Errorf("unit %s did not reach %v (last %q)", id, want, last)
}

// DirSnapshot lists the unit directories and, for each, its files with sizes (status content included).
func (d *Daemon) DirSnapshot() map[string]map[string]string {
	out := map[string]map[string]string{}
	ents, err := os.ReadDir(d.UnitsDir())
	if err != nil {
		return out
	}
	for _, e := range ents {
		if !e.IsDir() {
			continue
		}
		files := map[string]string{}
		fe, _ := os.ReadDir(filepath.Join(d.UnitsDir(), e.Name()))
		for _, f := range fe {
			if f.Name() == "status.lock" {
				continue
			}
			st, err := f.Info()
			if err == nil {
				files[f.Name()] = strconv.FormatInt(st.Size(), 10)
			}
		}
		out[e.Name()] = files
	}

	return out
}

// ------------------------------------------------------------------ relay

// Relay is a TCP proxy between two daemons that parses the backend framing (2-byte little-endian length + message)
// and records what crosses it.
type Relay struct {
	Addr   string
	target string
	l      net.Listener
	mu     sync.Mutex
	frames []Frame
	raw    bytes.Buffer
	conns  []net.Conn
	closed bool
}

// Frame is one backend message seen by the relay.
type Frame struct {
	Dir       string // "a2b" (from the dialling side) or "b2a"
	Type      byte
	ToService string // for data messages
	FromSvc   string
	Len       int
	At        time.Time
}

// NewRelay listens on a loopback port and forwards to target.
func NewRelay(target string) (*Relay, error) {
	l, err := net.Listen("tcp", "127.0.0.1:0")
	if err != nil {
		return nil, err
	}
	r := &Relay{Addr: l.Addr().String(), target: target, l: l}
	go r.accept()

	return r, nil
}

func (r *Relay) accept() {
	for {
		c, err := r.l.Accept()
		if err != nil {
			return
		}
		t, err := net.DialTimeout("tcp", r.target, 5*time.Second)
		if err != nil {
			c.Close()

			continue
		}
		r.mu.Lock()
		r.conns = append(r.conns, c, t)
		r.mu.Unlock()
		go r.pipe(c, t, "a2b")
		go r.pipe(t, c, "b2a")
	}
}

func fixed(b []byte) string { return string(bytes.TrimRight(b, "\x00")) }

func (r *Relay) pipe(from, to net.Conn, dir string) {
	defer from.Close()
	defer to.Close()
	var acc []byte
	buf := make([]byte, 65536)
	for {
		n, err := from.Read(buf)
		if n > 0 {
			if _, werr := to.Write(buf[:n]); werr != nil {
				return
			}
			acc = append(acc, buf[:n]...)
			r.mu.Lock()
			r.raw.Write(buf[:n])
			for len(acc) >= 2 {
				l := int(binary.LittleEndian.Uint16(acc[:2]))
				if len(acc) < 2+l {
					break
				}
				msg := acc[2 : 2+l]
				f := Frame{Dir: dir, Len: l, At: time.Now()}
				if l > 0 {
					f.Type = msg[0]
					if msg[0] == 0 && l >= 36 {
						f.FromSvc = fixed(msg[20:28])
						f.ToService = fixed(msg[28:36])
					}
				}
				r.frames = append(r.frames, f)
				acc = acc[2+l:]
			}
			r.mu.Unlock()
		}
		if err != nil {
			return
		}
	}
}

// Mark returns the current number of frames and raw bytes (to delimit a window).
func (r *Relay) Mark() (int, int) {
	r.mu.Lock()
	defer r.mu.Unlock()

	return len(r.frames), r.raw.Len()
}

// Since returns the frames and raw bytes that crossed after a mark.
func (r *Relay) Since(fm, rm int) ([]Frame, []byte) {
	r.mu.Lock()
	defer r.mu.Unlock()

	return append([]Frame(nil), r.frames[fm:]...), append([]byte(nil), r.raw.Bytes()[rm:]...)
}

// Close stops the relay.
func (r *Relay) Close() {
	r.mu.Lock()
	r.closed = true
	cs := r.conns
	r.mu.Unlock()
	_ = r.l.Close()
	for _, c := range cs {
		_ = c.Close()
	}
}

// WaitRoute polls "status" on d until node appears in its routing table.
func (d *Daemon) WaitRoute(node string, to time.Duration) error {
	deadline := time.Now().Add(to)
	for time.Now().Before(deadline) {
		l, err := d.Command(`{"command":"status","requested_fields":["RoutingTable"]}`, 5*time.Second)
		if err == nil {
			var m struct{ RoutingTable map[string]string }
			if json.Unmarshal([]byte(l), &m) == nil {
				if _, ok := m.RoutingTable[node]; ok {
					return nil
				}
			}
		}
		time.Sleep(50 * time.Millisecond)
	}

	return fmt.Errorf("%s has no route to %s after %v", d.ID, node, to)
}
