package ctl

import (
	"crypto/rand"
	"crypto/rsa"
	"crypto/x509"
	"encoding/pem"
	"os"
	"path/filepath"

	"github.com/ansible/receptor/pkg/certificates"
)

// KeyPair is an RSA key written as PEM files in the formats the daemon loads
// (PKCS#1 "RSA PRIVATE KEY", PKIX "PUBLIC KEY").
type KeyPair struct {
	Priv     *rsa.PrivateKey
	PrivFile string
	PubFile  string
	PubPEM   []byte
}

// NewKeyPair generates a 2048-bit RSA key and writes <name>.key / <name>.pub into dir.
func NewKeyPair(dir, name string) (*KeyPair, error) {
	k, err := rsa.GenerateKey(rand.Reader, 2048)
	if err != nil {
		return nil, err
	}
	kp := &KeyPair{Priv: k, PrivFile: filepath.Join(dir, name+".key"), PubFile: filepath.Join(dir, name+".pub")}
	priv := pem.EncodeToMemory(&pem.Block{Type: "RSA PRIVATE KEY", Bytes: x509.MarshalPKCS1PrivateKey(k)})
	pubDER, err := x509.MarshalPKIXPublicKey(&k.PublicKey)
	if err != nil {
		return nil, err
	}
	kp.PubPEM = pem.EncodeToMemory(&pem.Block{Type: "PUBLIC KEY", Bytes: pubDER})
	if err := os.WriteFile(kp.PrivFile, priv, 0o600); err != nil {
		return nil, err
	}
	if err := os.WriteFile(kp.PubFile, kp.PubPEM, 0o600); err != nil {
		return nil, err
	}

	return kp, nil
}

// PKI is a throw-away CA with one server certificate (carrying a receptor node id) and one client certificate.
type PKI struct {
	CAFile, ServerCert, ServerKey, ClientCert, ClientKey string
}

// NewPKI creates the files in dir; the server certificate names serverNode, the client certificate clientNode.
func NewPKI(dir, serverNode, clientNode string) (*PKI, error) {
	ca, err := certificates.CreateCA(&certificates.CertOptions{CommonName: "verif-ca", Bits: 2048}, &certificates.RsaWrapper{})
	if err != nil {
		return nil, err
	}
	p := &PKI{
		CAFile: filepath.Join(dir, "ca.crt"), ServerCert: filepath.Join(dir, "server.crt"), ServerKey: filepath.Join(dir, "server.key"),
		ClientCert: filepath.Join(dir, "client.crt"), ClientKey: filepath.Join(dir, "client.key"),
	}
	ow := &certificates.OsWrapper{}
	if err := certificates.SaveToPEMFile(p.CAFile, []interface{}{ca.Certificate}, ow); err != nil {
		return nil, err
	}
	mk := func(node, certFile, keyFile string) error {
		opts := &certificates.CertOptions{CommonName: node, Bits: 2048}
		opts.DNSNames = []string{node}
		opts.NodeIDs = []string{node}
		req, key, err := certificates.CreateCertReqWithKey(opts)
		if err != nil {
			return err
		}
		cert, err := certificates.SignCertReq(req, ca, &certificates.CertOptions{})
		if err != nil {
			return err
		}
		if err := certificates.SaveToPEMFile(certFile, []interface{}{cert}, ow); err != nil {
			return err
		}

		return certificates.SaveToPEMFile(keyFile, []interface{}{key}, ow)
	}
	if err := mk(serverNode, p.ServerCert, p.ServerKey); err != nil {
		return nil, err
	}
	if err := mk(clientNode, p.ClientCert, p.ClientKey); err != nil {
		return nil, err
	}

	return p, nil
}
