"""Common machinery for the receptor verification checks (see DESIGN.md sections 4-5)."""
import json, os, re, shutil, subprocess, sys, time, hashlib, glob

VERIF = os.path.dirname(os.path.dirname(os.path.abspath(__file__)))
REPO = os.environ.get("VERIF_REPO", "/repo")
SPECS = os.path.join(VERIF, "specs")
HARNESS = os.environ.get("VERIF_HARNESS", os.path.join(VERIF, "harness"))
WORKBASE = os.environ.get("VERIF_WORKBASE", os.path.join(VERIF, ".work"))   # scratch; overridden by bin/mutcheck
OUTBASE = os.environ.get("VERIF_OUTBASE", VERIF)                             # evidence/ and replays/ live here
TLA_CP = "/opt/veriftools/tla/tla2tools.jar:/opt/veriftools/tla/CommunityModules-deps.jar"
NCPU = os.cpu_count() or 4


class Inconclusive(Exception):
    """Raised when a step could not be completed (timeout, tool failure); maps to exit 2."""


def log(*a):
    print("[verif]", *a, flush=True)


def go_env():
    env = dict(os.environ)
    env.update(GOFLAGS="-mod=mod", GOPROXY="off", GOSUMDB="off", GOTOOLCHAIN="local")
    env.setdefault("GOCACHE", os.path.join(os.path.expanduser("~"), ".cache", "go-build"))
    return env


def workdir(pid, clean=True):
    d = os.path.join(WORKBASE, pid)
    if clean and os.path.isdir(d):
        shutil.rmtree(d, ignore_errors=True)
    os.makedirs(d, exist_ok=True)
    return d


def run(cmd, cwd=None, env=None, timeout=None, check=True, capture=True, stdin=None):
    t0 = time.time()
    try:
        p = subprocess.run(cmd, cwd=cwd, env=env, timeout=timeout, input=stdin,
                           stdout=subprocess.PIPE if capture else None,
                           stderr=subprocess.STDOUT if capture else None, text=True)
    except subprocess.TimeoutExpired as e:
        raise Inconclusive("timeout after %ss: %s" % (timeout, " ".join(cmd)[:200])) from e
    if check and p.returncode != 0:
        raise Inconclusive("command failed (%d): %s\n%s" % (p.returncode, " ".join(cmd)[:300], (p.stdout or "")[-4000:]))
    p.wall = time.time() - t0
    return p


# ---------------------------------------------------------------- building

_built = {}


def _go_build_install(cmd, out, cwd, env):
    """go build -o <out>, but never write <out> in place: the linker's output goes to a private file next to it and is
    renamed over <out> when complete.  Checks may run side by side and all build the same .work/bin/<name>; a daemon
    started from a file that another build is rewriting at that moment dies at once (or cannot be executed at all),
    which would be reported as a failure of the scenario.  A process already running keeps its (unlinked) file; whoever
    executes the path sees either the old or the new complete binary.  The private file starts as a copy of <out> so
    that go build still recognises an up-to-date target and skips the link."""
    tmp = "%s.build-%d" % (out, os.getpid())
    try:
        if os.path.isfile(out):
            shutil.copy2(out, tmp)
    except OSError:
        pass
    i = cmd.index("-o")
    p = run(cmd[:i + 1] + [tmp] + cmd[i + 2:], cwd=cwd, env=env, timeout=1500, check=False)
    if p.returncode == 0 and os.path.isfile(tmp):
        os.chmod(tmp, 0o755)
        os.replace(tmp, out)
    else:
        try:
            os.remove(tmp)
        except OSError:
            pass
    return p


def private_copy(src, wd, name=None):
    """A copy of a built binary that belongs to this run alone (receptor daemons re-execute their own path for every
    command runner, so the path must not change under them while a scenario runs)."""
    dst = os.path.join(wd, name or os.path.basename(src))
    shutil.copyfile(src, dst)
    os.chmod(dst, 0o755)
    return dst


def build_harness(name="vh", tags="verif", race=False):
    """Build a harness command from /verif/harness against /repo's current working tree.
    race=True: a second binary <name>_race built with the Go race detector (needs cgo; returns None if that build is
    not possible here, the caller decides what that means)."""
    key = (name, tags, race)
    if key in _built:
        return _built[key]
    shutil.copyfile(os.path.join(REPO, "go.sum"), os.path.join(HARNESS, "go.sum"))
    out = os.path.join(WORKBASE, "bin", name + ("_race" if race else ""))
    os.makedirs(os.path.dirname(out), exist_ok=True)
    cmd = ["go", "build"] + (["-race"] if race else []) + ["-tags", tags, "-o", out, "./cmd/" + name]
    env = go_env()
    if race:
        env = dict(env, CGO_ENABLED="1")
    p = _go_build_install(cmd, out, HARNESS, env)
    if p.returncode != 0:
        if race:
            _built[key] = None
            return None
        raise Inconclusive("harness build failed (does /repo still compile with -tags verif?):\n" + p.stdout[-6000:])
    _built[key] = out
    return out


def build_receptor(tags="verif"):
    """Build the real receptor binary from /repo's working tree with hooks enabled."""
    key = ("receptor", tags)
    if key in _built:
        return _built[key]
    out = os.path.join(WORKBASE, "bin", "receptor")
    os.makedirs(os.path.dirname(out), exist_ok=True)
    cmd = ["go", "build", "-tags", tags, "-o", out, "./cmd/receptor-cl"]
    p = _go_build_install(cmd, out, REPO, go_env())
    if p.returncode != 0:
        raise Inconclusive("receptor build failed:\n" + p.stdout[-6000:])
    _built[key] = out
    return out


# ---------------------------------------------------------------- TLC

class TLCResult:
    def __init__(self):
        self.generated = 0
        self.distinct = 0
        self.depth = 0
        self.ok = False
        self.violated = None      # name of violated invariant/property, if any
        self.output = ""
        self.wall = 0.0
        self.printed = []         # values printed with PrintT (raw lines)
        self.exit = None


def tlc(spec, cfg, wd, workers=None, timeout=600, simulate=None, depth=None, seed=None,
        extra=None, deadlock=False, heap=None, dfs=False, files=(), cfg_text=None):
    """Run TLC on SPECS/<spec>.tla with SPECS/<cfg> in a scratch copy under wd. Returns TLCResult."""
    sd = os.path.join(wd, "tlc_" + re.sub(r"[^A-Za-z0-9_]", "_", cfg))
    if os.path.isdir(sd):
        shutil.rmtree(sd)
    os.makedirs(sd)
    for f in glob.glob(os.path.join(SPECS, "*.tla")):
        shutil.copy(f, sd)
    if cfg_text is not None:
        with open(os.path.join(sd, cfg), "w") as f:
            f.write(cfg_text)
    else:
        shutil.copy(os.path.join(SPECS, cfg), sd)
    for f in files:
        shutil.copy(f, sd)
    java = ["java", "-XX:+UseParallelGC", "-Xss256m"]
    if heap:
        java.append("-Xmx" + heap)
    if dfs:
        java.append("-Dtlc2.tool.queue.IStateQueue=StateDeque")
    cmd = java + ["-cp", TLA_CP, "tlc2.TLC", "-metadir", os.path.join(sd, "meta"),
                  "-config", cfg, "-workers", str(workers or NCPU)]
    if not deadlock:
        cmd.append("-deadlock")  # -deadlock DISABLES deadlock checking
    if simulate:
        cmd += ["-simulate", simulate]
    if depth:
        cmd += ["-depth", str(depth)]
    if seed is not None:
        cmd += ["-seed", str(seed)]
    if extra:
        cmd += list(extra)
    cmd.append(spec)
    r = TLCResult()
    t0 = time.time()
    for attempt in (1, 2):
        try:
            p = subprocess.run(cmd, cwd=sd, stdout=subprocess.PIPE, stderr=subprocess.STDOUT, text=True, timeout=timeout)
        except subprocess.TimeoutExpired as e:
            raise Inconclusive("TLC timeout %ss on %s/%s" % (timeout, spec, cfg)) from e
        # TLC exit codes: 0 ok, 10-13 assumption / deadlock / safety / liveness violation. Anything else that is not
        # a parse error is a failure of the tool run itself (seen once in ~100 runs with several workers: exit 75,
        # "error occurred when TLC was evaluating" on a spec that otherwise passes). It is repeated once with a
        # single worker before the caller sees it; a deterministic error fails the same way again.
        if attempt == 1 and p.returncode not in (0, 10, 11, 12, 13) and "Parsing or semantic analysis failed" not in p.stdout \
                and "Error: Invariant" not in p.stdout and "is violated" not in p.stdout and simulate is None:
            try:
                with open(os.path.join(sd, "first_attempt.out"), "w") as f:
                    f.write(p.stdout)
            except OSError:
                pass
            shutil.rmtree(os.path.join(sd, "meta"), ignore_errors=True)
            i = cmd.index("-workers")
            cmd[i + 1] = "1"
            continue
        break
    r.wall = time.time() - t0
    r.output = p.stdout
    r.exit = p.returncode
    r.dir = sd
    m = re.findall(r"(\d+) states generated, (\d+) distinct states found", p.stdout)
    if m:
        r.generated, r.distinct = int(m[-1][0]), int(m[-1][1])
    m = re.search(r"The depth of the complete state graph search is (\d+)", p.stdout)
    if m:
        r.depth = int(m.group(1))
    m = re.search(r"Error: Invariant (\S+) is violated", p.stdout) or \
        re.search(r"Error: Action property (\S+) is violated", p.stdout) or \
        re.search(r"Error: Temporal properties were violated", p.stdout)
    if m:
        r.violated = m.group(1) if m.groups() else "temporal"
    r.ok = (p.returncode == 0) and ("Model checking completed. No error has been found" in p.stdout or simulate is not None)
    r.printed = [l for l in p.stdout.splitlines() if l.startswith('"') or l.startswith("<<")]
    return r


def tlc_must_pass(*a, **kw):
    r = tlc(*a, **kw)
    if not r.ok:
        raise Inconclusive("TLC did not succeed on %s (exit %s, violated=%s):\n%s" % (a[1], r.exit, r.violated, r.output[-3000:]))
    return r


def witnesses(spec, base_cfg, names, wd, timeout=300, workers=None):
    """Anti-vacuity: each named predicate, checked as an invariant, must be violated (a witness exists).
    base_cfg is a cfg file in SPECS without INVARIANT(S)/PROPERTY lines for the witnesses.
    Returns the list of witnessed names; raises Inconclusive if one has no witness."""
    base = open(os.path.join(SPECS, base_cfg)).read()
    # drop the normal invariants/properties so only the witness is evaluated
    kept, skip = [], False
    for line in base.splitlines():
        st = line.strip()
        if re.match(r"^VIEW\b", st):
            continue  # witnesses may mention variables outside the view
        if re.match(r"^(INVARIANTS?|PROPERTY|PROPERTIES|POSTCONDITION)\b", st):
            skip = not re.match(r"^(POSTCONDITION)\b", st) or True
            if re.match(r"^(INVARIANTS?|PROPERTY|PROPERTIES|POSTCONDITION)\s+\S", st):
                skip = False
            continue
        if skip and (line.startswith(" ") or line.startswith("\t")) and st:
            continue
        skip = False
        kept.append(line)
    out = []
    for w in names:
        text = "\n".join(kept) + "\nINVARIANT %s\n" % w
        text = re.sub(r'DumpFile\s*=\s*"[^"]*"', 'DumpFile = ""', text)
        r = tlc(spec, "wit_%s.cfg" % w, wd, timeout=timeout, workers=workers, cfg_text=text)
        if r.violated != w:
            raise Inconclusive("witness %s not found (vacuity): exit %s\n%s" % (w, r.exit, r.output[-1500:]))
        out.append(w)
    return out


def parse_trace_output(output):
    """Parse what the trace specs print: <<"CLASS", c>>, <<"DIFF", line, name, {fields}>>, <<"DONE", n>>.
    TLC wraps long values over several lines, so white space is normalised first."""
    flat = re.sub(r"\s+", " ", output)
    classes = {}
    for m in re.finditer(r'<<\s*"CLASS",\s*"([a-z_]+)"\s*>>', flat):
        classes[m.group(1)] = classes.get(m.group(1), 0) + 1
    diffs, seen = [], set()
    for m in re.finditer(r'<<\s*"DIFF",\s*(\d+),\s*"([a-z_]+)",\s*\{([^}]*)\}\s*>>', flat):
        ln = int(m.group(1))
        if ln in seen:
            continue
        seen.add(ln)
        fields = sorted(x.strip().strip('"') for x in m.group(3).split(",") if x.strip())
        diffs.append((ln, m.group(2), fields))
    done = re.search(r'<<\s*"DONE",\s*(\d+)\s*>>', flat)
    return classes, diffs, (int(done.group(1)) if done else None)


def unquote_tla_string(s):
    """Turn a TLA+ printed string literal (as PrintT shows it) into the Python string."""
    s = s.strip()
    if s.startswith('"') and s.endswith('"'):
        s = s[1:-1]
    return s.replace('\\"', '"').replace("\\\\", "\\")


def read_ndjson(path):
    out = []
    with open(path) as f:
        for line in f:
            line = line.strip()
            if line:
                out.append(json.loads(line))
    return out


def write_ndjson(path, recs):
    with open(path, "w") as f:
        for r in recs:
            f.write(json.dumps(r, sort_keys=True) + "\n")


# ---------------------------------------------------------------- known findings, verdicts, evidence

def load_known():
    out = []
    for p in [os.path.join(VERIF, "known_findings.json")] + sorted(glob.glob(os.path.join(VERIF, "known_findings.d", "*.json"))):
        if os.path.exists(p):
            out += json.load(open(p)).get("findings", [])
    return out


class Verdict:
    """Collects violations for one property run and applies the known-findings rule."""

    def __init__(self, pid, tier, seed):
        self.pid, self.tier, self.seed = pid, tier, seed
        self.t0 = time.time()
        self.known = [k for k in load_known() if k["property"] == pid and k.get("status") == "open"]
        self.known_hit = {}
        self.violations = []
        self.notes = []

    def violation(self, signature, what, replay):
        # what is printed on the VIOLATION / KNOWN-FINDING lines: keep it one line of printable text
        what = "".join(ch if (ch.isprintable() or ch == " ") else "\\x%02x" % ord(ch) for ch in str(what).replace("\n", " | "))
        signature = "".join(ch if ch.isprintable() else "?" for ch in str(signature))
        for k in self.known:
            if k["signature"] == signature:
                if signature not in self.known_hit:
                    self.known_hit[signature] = what
                return False
        self.violations.append((signature, what, replay))
        return True

    def finish(self, level, coverage, assumptions=()):
        for sig, what in self.known_hit.items():
            print("KNOWN-FINDING: property=%s %s: %s" % (self.pid, sig, what), flush=True)
        nviol = len(self.violations)
        ev = {
            "property_id": self.pid, "tier": self.tier, "seed": int(self.seed), "level": level,
            "coverage": coverage, "assumptions": list(assumptions),
            "wall_s": round(time.time() - self.t0, 2), "violations": nviol,
        }
        if self.known_hit:
            ev["coverage"]["known_findings_reproduced"] = sorted(self.known_hit)
        os.makedirs(os.path.join(OUTBASE, "evidence"), exist_ok=True)
        with open(os.path.join(OUTBASE, "evidence", self.pid + ".json"), "w") as f:
            json.dump(ev, f, indent=1, sort_keys=True)
        if nviol:
            os.makedirs(os.path.join(OUTBASE, "replays"), exist_ok=True)
            seen = set()
            for sig, what, replay in self.violations:
                if sig in seen:
                    continue
                seen.add(sig)
                h = hashlib.sha1((sig + json.dumps(replay, sort_keys=True, default=str)).encode()).hexdigest()[:10]
                path = os.path.join(OUTBASE, "replays", "%s_%s.json" % (self.pid, h))
                with open(path, "w") as f:
                    json.dump({"property": self.pid, "signature": sig, "what": what, "replay": replay}, f, indent=1, default=str)
                print("VIOLATION property=%s replay=%s" % (self.pid, path), flush=True)
                print("  signature=%s: %s" % (sig, what), flush=True)
            return 1
        return 0


def harness_json(binary, args, wd, timeout=900, env=None, name="harness"):
    """Run a harness command that writes a JSON result to <wd>/<name>.json; returns the parsed result."""
    out = os.path.join(wd, name + ".json")
    if os.path.exists(out):
        os.remove(out)
    e = go_env()
    if env:
        e.update(env)
    p = run([binary] + args + ["-out", out], cwd=wd, env=e, timeout=timeout, check=False)
    if not os.path.exists(out):
        raise Inconclusive("harness produced no result (exit %d):\n%s" % (p.returncode, (p.stdout or "")[-4000:]))
    res = json.load(open(out))
    res["_stdout"] = (p.stdout or "")[-2000:]
    res["_exit"] = p.returncode
    return res
