"""Helpers shared by the decision-table checks C09 and C20 (engine E4)."""
import json, os, re
import vlib


def strip_invariants(cfg_text):
    kept, skip = [], False
    for line in cfg_text.splitlines():
        st = line.strip()
        if re.match(r"^(INVARIANTS?|PROPERTY|PROPERTIES)\b", st):
            skip = not re.match(r"^(INVARIANTS?|PROPERTY|PROPERTIES)\s+\S", st)
            continue
        if skip and (line.startswith(" ") or line.startswith("\t")) and st:
            continue
        skip = False
        kept.append(line)
    return "\n".join(kept) + "\n"


def witnesses_once(spec, base_cfg, names, wd, timeout=600):
    """Anti-vacuity for decision-table specs: every named predicate, used as an invariant, must be violated by
    some vector.  One TLC run with -continue reports all of them; names not reported are re-run one by one
    through vlib.witnesses (which raises Inconclusive when a witness really does not exist)."""
    base = strip_invariants(open(os.path.join(vlib.SPECS, base_cfg)).read())
    base = re.sub(r'DumpFile\s*=\s*"[^"]*"', 'DumpFile = ""', base)
    text = base + "INVARIANTS\n" + "".join("  %s\n" % n for n in names)
    r = vlib.tlc(spec, "wit_all_" + base_cfg, wd, timeout=timeout, workers=1, cfg_text=text, extra=["-continue"])
    found = set(re.findall(r"Invariant (\S+) is violated", r.output))
    missing = [n for n in names if n not in found]
    if missing:
        vlib.log("witnesses not reported by the combined run, re-running singly:", missing)
        vlib.witnesses(spec, base_cfg, missing, wd, workers=1, timeout=timeout)
    return list(names)


def replay_vector(replay):
    """Extract the abstract vector of a replay file written by Verdict.finish."""
    d = json.load(open(replay))
    rep = d.get("replay", d)
    if isinstance(rep, dict) and "vector" in rep:
        return rep["vector"], rep
    raise vlib.Inconclusive("replay file %s carries no vector" % replay)
