"""Pre-pass and driver for SessionLifeTrace.tla: validates raw verifhook events recorded by harness/cmd/vsl
(NDJSON, many node instances, backend-loop events carrying their owner) against SessionCore's session automaton."""
import os, shutil
import vlib

SLACK_MS = 5000   # tolerated lateness of an idle cut beyond max idle + poll (loaded machine); earliness is never tolerated

GEXIT = {"reader_exit": "reader", "writer_exit": "writer", "init_exit": "init"}
REQ = {"req_update": "update", "req_rebuild": "rebuild", "req_skip": "skip"}
PLAIN = {"idle_scan_end", "shutdown", "h_cancel", "h_waitdone", "h_quiet", "h_end"}


def _line(e):
    ev = e.get("ev")
    if ev in ("sess_start", "init_giveup", "init_done", "established", "sess_end"):
        return {"ev": ev, "sess": e["sess"]}
    if ev == "rx":
        return {"ev": ev, "sess": e["sess"], "t": int(e["t"])}
    if ev == "init_send":
        return {"ev": ev, "sess": e["sess"], "count": int(e["count"]), "t": int(e["t"])}
    if ev in GEXIT:
        return {"ev": "gexit", "sess": e["sess"], "who": GEXIT[ev]}
    if ev == "conn_add":
        return {"ev": ev, "sess": e["sess"], "peer": e["peer"]}
    if ev in ("known_add", "conn_del", "known_del"):
        return {"ev": ev, "peer": e["peer"]}
    if ev == "known_del_skipped":
        return {"ev": "known_keep", "peer": e["peer"]}
    if ev == "reject":
        return {"ev": ev, "sess": e["sess"], "why": e["why"]}
    if ev in REQ:
        return {"ev": "req", "peer": e.get("peer", ""), "what": REQ[ev]}
    if ev == "idle_tick":
        return {"ev": ev, "t": int(e["t"])}
    if ev == "idle_cut":
        return {"ev": ev, "peer": e["peer"], "sess": e["sess"], "idle": int(e["idle_ms"]), "max": int(e["max_ms"])}
    if ev in PLAIN:
        return {"ev": ev}
    if ev == "dialer_start":
        return {"ev": "d_start", "d": e["d"], "redial": bool(e["redial"]), "delay": int(e["delay_ms"])}
    if ev == "dial":
        return {"ev": ev, "d": e["d"], "ok": bool(e["ok"]), "sess": e.get("sess", ""), "ctxdone": bool(e.get("ctxdone"))}
    if ev in ("dial_handed", "dial_closed"):
        return {"ev": ev, "d": e["d"], "sess": e.get("sess", "")}
    if ev == "redial_wait":
        return {"ev": ev, "d": e["d"], "delay": int(e["delay_ms"]), "failed": bool(e["failed"]), "t": int(e["t"])}
    if ev == "redial":
        return {"ev": ev, "d": e["d"], "t": int(e["t"])}
    if ev == "dialer_exit":
        return {"ev": "d_exit", "d": e["d"]}
    if ev == "listener_start":
        return {"ev": "l_start", "d": e["d"]}
    if ev == "accept":
        return {"ev": ev, "d": e["d"], "ok": bool(e["ok"]), "sess": e.get("sess", ""), "ctxdone": bool(e.get("ctxdone"))}
    if ev == "listener_exit":
        return {"ev": "l_exit", "d": e["d"]}
    return None


def normalise(raw):
    """raw hook events -> (lines, index) where index[k] = (scenario, node instance) of line k's instance"""
    by, order = {}, []
    for e in raw:
        n = e.get("owner") if e.get("n") == "backend" else e.get("n")
        if not n or "@" not in str(n):
            continue
        k = (e.get("sc", 0), n)
        if k not in by:
            by[k] = []
            order.append(k)
        by[k].append(e)
    out = []
    for k in order:
        evs = sorted(by[k], key=lambda e: e.get("i", 0))
        hn = next((e for e in evs if e.get("ev") == "h_node"), None)
        if hn is None:
            continue
        out.append({"ev": "reset", "self": k[1], "sc": k[0], "maxidle": int(hn["maxidle_ms"]), "poll": int(hn["poll_ms"]), "slack": SLACK_MS})
        for e in evs:
            try:
                ln = _line(e)
            except (KeyError, TypeError, ValueError):
                ln = {"ev": "other"}
            if ln is not None:
                out.append(ln)
    return out


def validate(wd, raw_files, tag="sessionlife", timeout=1800):
    raw = []
    for f in raw_files:
        raw += vlib.read_ndjson(f)
    lines = normalise(raw)
    if not lines:
        raise vlib.Inconclusive("no session events recorded")
    path = os.path.join(wd, tag + ".ndjson")
    vlib.write_ndjson(path, lines)
    tmp = os.path.join(wd, "trace.ndjson")
    shutil.copyfile(path, tmp)
    r = vlib.tlc("SessionLifeTrace", "SessionLifeTrace.cfg", wd, workers=1, timeout=timeout, files=[tmp])
    if not r.ok:
        raise vlib.Inconclusive("SessionLifeTrace validation did not complete (exit %s, violated=%s)\n%s" % (r.exit, r.violated, r.output[-2500:]))
    classes, pdiffs, done = vlib.parse_trace_output(r.output)
    if done != len(lines):
        raise vlib.Inconclusive("session trace not consumed completely: %s of %d lines" % (done, len(lines)))
    diffs = []
    for ln, name, fields in pdiffs:
        start = ln - 1
        while start > 0 and lines[start]["ev"] != "reset":
            start -= 1
        diffs.append({"line": ln, "event": name, "what": fields, "instance": lines[start], "context": lines[max(start, ln - 25):ln]})
    return {"lines": len(lines), "diffs": diffs, "classes": classes, "tlc": r, "path": path,
            "instances": sum(1 for x in lines if x["ev"] == "reset")}
