"""Shared driver: real node + adversarial scripted neighbours, validated by TLC against NetLocalTrace.tla.
Used by the C06 check (routing knowledge / relays), C11 (post-establishment rejections) and C01 (table validity)."""
import json, os, re, shutil
import vlib


def run_netlocal(wd, seed, segments, steps, par=8, tag="nl", race_rounds=600):
    vh = vlib.build_harness()
    trace = os.path.join(wd, tag + "_trace.ndjson")
    hooks = os.path.join(wd, tag + "_hooks.ndjson")
    res = vlib.harness_json(vh, ["netlocal", "-segments", str(segments), "-steps", str(steps), "-seed", str(seed),
                                 "-par", str(par), "-race-rounds", str(race_rounds), "-trace", trace, "-hooktrace", hooks], wd, timeout=3000, name=tag)
    if res.get("inconclusive"):
        raise vlib.Inconclusive("netlocal harness: " + "; ".join(res["inconclusive"][:3]))
    lines = vlib.read_ndjson(trace)
    if not lines:
        raise vlib.Inconclusive("empty trace")
    # TLC reads "trace.ndjson" from its working directory
    tmp = os.path.join(wd, "trace.ndjson")
    shutil.copyfile(trace, tmp)
    r = vlib.tlc("NetLocalTrace", "NetLocalTrace.cfg", wd, workers=1, timeout=1800, files=[tmp])
    if not r.ok:
        raise vlib.Inconclusive("trace validation did not complete (exit %s, violated=%s)\n%s" % (r.exit, r.violated, r.output[-2000:]))
    classes, pdiffs, done = vlib.parse_trace_output(r.output)
    if done != len(lines):
        raise vlib.Inconclusive("trace not consumed completely: %s of %d lines" % (done, len(lines)))
    nsteps = sum(1 for l in lines if l["ev"] not in ("reset", "end"))
    total = sum(classes.values())
    if nsteps and total % nsteps == 0 and total // nsteps > 1:
        k = total // nsteps
        classes = {c: v // k for c, v in classes.items()}
    diffs = []
    for ln, name, fields in pdiffs:
        start = ln - 1
        while start > 0 and lines[start]["ev"] != "reset":
            start -= 1
        diffs.append({"line": ln, "class": name, "fields": fields, "segment": lines[start:ln]})
    return {"harness": res, "tlc": r, "lines": lines, "classes": classes, "diffs": diffs,
            "steps": sum(1 for l in lines if l["ev"] == "step"), "segments": sum(1 for l in lines if l["ev"] == "reset"),
            "hooks": hooks}
