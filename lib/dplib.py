"""Shared machinery of the data-plane checks C02 / C10 / C16 (specs DataPlane*.tla, Framer.tla; harness cmd/vdp)."""
import json, os, re, shutil
from concurrent.futures import ThreadPoolExecutor
import vlib


def parallel(*thunks):
    """Run independent steps (TLC runs, the harness) concurrently; re-raise the first failure."""
    with ThreadPoolExecutor(max_workers=len(thunks)) as ex:
        futs = [ex.submit(t) for t in thunks]
        return [f.result() for f in futs]


def witnesses(groups, wd, timeout=900):
    """groups: [(spec, base_cfg, [names])]; every witness is its own TLC run, all run concurrently."""
    if SELFTEST:
        return []
    jobs = [(spec, cfg, n) for spec, cfg, names in groups for n in names]
    out = parallel(*[(lambda j=j: vlib.witnesses(j[0], j[1], [j[2]], wd, workers=1, timeout=timeout)) for j in jobs])
    return [w for ws in out for w in ws]


def legend(trace_file):
    p = trace_file + ".legend.json"
    if not os.path.exists(p):
        return []
    return json.load(open(p))


def detok(obj, leg):
    """Replace name tokens t<k> in a trace line by the readable name (hex for non-printable names)."""
    if isinstance(obj, dict):
        return {k: detok(v, leg) for k, v in obj.items()}
    if isinstance(obj, list):
        return [detok(v, leg) for v in obj]
    if isinstance(obj, str) and re.fullmatch(r"t\d+", obj) and int(obj[1:]) < len(leg):
        raw = bytes.fromhex(leg[int(obj[1:])])
        try:
            s = raw.decode("utf-8")
            if s.isprintable() and len(s) <= 40:
                return s
        except UnicodeDecodeError:
            pass
        return "0x" + raw.hex()[:40] + ("..(%d bytes)" % len(raw) if len(raw) > 20 else "")
    return obj


def validate_trace(pid, wd, trace_files, timeout=1800, allow_empty=False):
    """Validate the concatenation of the harness's trace files with TLC against DataPlaneTrace.tla.
    Returns dict(lines, segments, diffs=[{sig, what, replay}], tlc). Raises Inconclusive if TLC cannot consume the trace."""
    lines = []
    for tf in trace_files:
        if not os.path.exists(tf):
            continue
        leg = legend(tf)
        for l in vlib.read_ndjson(tf):
            lines.append((l, leg))
    if not lines:
        if allow_empty:   # the harness stopped early because violations were already certain
            return None
        raise vlib.Inconclusive("no trace lines were recorded")
    tmp = os.path.join(wd, "trace.ndjson")
    vlib.write_ndjson(tmp, [l for l, _ in lines])
    r = vlib.tlc("DataPlaneTrace", "DataPlaneTrace.cfg", wd, workers=1, timeout=timeout, files=[tmp])
    if not r.ok:
        raise vlib.Inconclusive("trace validation did not complete (exit %s, violated=%s)\n%s" % (r.exit, r.violated, r.output[-2500:]))
    done = re.search(r'<<"DONE", (\d+)>>', r.output)
    if not done or int(done.group(1)) != len(lines):
        raise vlib.Inconclusive("trace not consumed completely: %s of %d lines" % (done.group(1) if done else "?", len(lines)))
    diffs, seen = [], set()
    for m in re.finditer(r'<<"DIFF", (\d+), "([a-z_]+)", \{([^}]*)\}>>', r.output):
        ln = int(m.group(1))
        if ln in seen:
            continue
        seen.add(ln)
        why = sorted(x.strip().strip('"') for x in m.group(3).split(",") if x.strip())
        start = ln - 1
        while start > 0 and lines[start][0]["ev"] != "reset":
            start -= 1
        seg = [detok(l, leg) for l, leg in lines[max(start, ln - 60):ln]]
        diffs.append({"sig": "%s:trace:%s:%s" % (pid, m.group(2), "+".join(why)),
                      "what": "hook trace of the real nodes is not a behaviour of DataPlaneTrace.tla: at trace line %d the event %s is not the step "
                              "the data-plane rules prescribe (%s)" % (ln, json.dumps(seg[-1], sort_keys=True)[:400], ", ".join(why)),
                      "replay": {"trace_line": ln, "segment_tail": seg}})
    by_ev = {}
    for l, _ in lines:
        by_ev[l["ev"]] = by_ev.get(l["ev"], 0) + 1
    return {"lines": len(lines), "segments": by_ev.get("reset", 0), "diffs": diffs, "tlc": r, "events": by_ev,
            "sample": [detok(l, leg) for l, leg in lines[1:6]]}


SELFTEST = bool(os.environ.get("VERIF_DP_SELFTEST"))   # mutation self-test: conformance part only (see checks/dp_selftest.py)


def build_vdp():
    """vlib.build_harness("vdp"), or - for the mutation self-test - a build of a copy of the harness module whose go.mod points at a mutated copy of /repo."""
    hdir = os.environ.get("VERIF_HARNESS_DIR")
    if not hdir:
        return vlib.build_harness("vdp")
    out = os.path.join(os.path.dirname(hdir.rstrip("/")), "bin", "vdp")
    os.makedirs(os.path.dirname(out), exist_ok=True)
    p = vlib.run(["go", "build", "-tags", "verif", "-o", out, "./cmd/vdp"], cwd=hdir, env=vlib.go_env(), timeout=1500, check=False)
    if p.returncode != 0:
        raise vlib.Inconclusive("harness build failed:\n" + p.stdout[-4000:])
    return out


def design_runs(cfgs, wd, workers=6, timeout=3000):
    if SELFTEST:
        return []
    return [("DataPlane.tla", c, vlib.tlc_must_pass("DataPlaneMC", c, wd, workers=workers, timeout=timeout)) for c in cfgs]


def run_vdp(pid, wd, args, timeout=3000):
    vdp = build_vdp()
    res = vlib.harness_json(vdp, args, wd, timeout=timeout, name=pid.lower() + "_vdp")
    return res


def apply(v, res, tv):
    """Feed harness violations and trace diffs into the verdict; raise Inconclusive when the harness could not decide."""
    for viol in res["violations"]:
        v.violation(viol["sig"], viol["what"], viol["replay"])
    if tv:
        for d in tv["diffs"]:
            v.violation(d["sig"], d["what"], d["replay"])
    if res.get("inconclusive") and not v.violations:
        raise vlib.Inconclusive("harness: " + "; ".join(res["inconclusive"][:4]))


def tlc_summary(rs):
    return [{"spec": name, "cfg": cfg, "generated": r.generated, "distinct": r.distinct, "wall_s": round(r.wall, 1)} for name, cfg, r in rs]
