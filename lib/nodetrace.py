"""Pre-pass and driver for NodeTrace.tla: validates raw verifhook event files (NDJSON, many node instances)
against the per-critical-section operators of NetCore.tla."""
import json, os, re, shutil
import vlib

KEEP = {"sess_start", "recv", "reject", "conn_add", "known_add", "established", "conn_del", "known_del", "sess_end",
        "ru_self", "ru_seen", "ru_dupnotice", "ru_apply", "flood", "mk_update", "rebuild", "shutdown", "h_status", "seen_expire", "node_new", "ad_send", "ad_local", "ad_withdraw", "ad_recv"}


def _num(x, scale):
    v = float(x) * scale
    if abs(v - round(v)) > 1e-9:
        raise ValueError("non-integral cost %r" % x)
    return int(round(v))


def _costs(m, scale):
    return {k: _num(v, scale) for k, v in (m or {}).items()}


def _known(m, scale):
    return {k: _costs(v, scale) for k, v in (m or {}).items()}


def _update_from_body(b, rank, scale):
    """routing update body (decoded JSON of the wire message) -> spec record, or None if ill-formed"""
    try:
        if not isinstance(b, dict):
            return None
        conns = b.get("Connections")
        if conns is None:
            conns = {}
        if not isinstance(conns, dict):
            return None
        for f in ("NodeID", "UpdateID", "ForwardingNode"):
            if not isinstance(b.get(f, ""), str):
                return None
        return {"node": b.get("NodeID", ""), "id": b.get("UpdateID", ""), "epoch": rank(b.get("UpdateEpoch", 0)),
                "seq": int(b.get("UpdateSequence", 0)), "conns": _costs(conns, scale), "fwd": b.get("ForwardingNode", ""),
                "susp": rank(b.get("SuspectedDuplicate", 0))}
    except (ValueError, TypeError):
        return None


def normalise(raw_events):
    """raw hook events (dicts) -> list of NodeTrace lines; node instances in order of first appearance"""
    by_node, order = {}, []
    for e in raw_events:
        n = e.get("n")
        if n is None or "@" not in str(n):
            continue
        if n not in by_node:
            by_node[n] = []
            order.append(n)
        by_node[n].append(e)
    out = []
    for n in order:
        evs = by_node[n]
        evs.sort(key=lambda e: e.get("i", 0))
        self_id, own_epoch = n.rsplit("@", 1)
        own_epoch = int(own_epoch)
        # all epochs that appear in this instance's trace, ranked together (0 = "none")
        eps = {own_epoch}
        scale = 1
        def walk_costs(m):
            nonlocal scale
            for v in (m or {}).values():
                if isinstance(v, dict):
                    walk_costs(v)
                elif isinstance(v, (int, float)) and abs(v - round(v)) > 1e-9:
                    scale = 1000
        for e in evs:
            for k in ("epoch", "susp"):
                if isinstance(e.get(k), (int, float)):
                    eps.add(int(e[k]))
            info = e.get("info")
            if isinstance(info, dict) and "epoch" in info:
                eps.add(int(info["epoch"]))
            b = ((e.get("msg") or {}).get("body")) if isinstance(e.get("msg"), dict) else None
            if isinstance(b, dict):
                for k in ("UpdateEpoch", "SuspectedDuplicate"):
                    if isinstance(b.get(k), (int, float)):
                        eps.add(int(b[k]))
                walk_costs(b.get("Connections") if isinstance(b.get("Connections"), dict) else None)
            for k in ("known", "conns", "costs", "nodecost"):
                if isinstance(e.get(k), dict):
                    walk_costs(e[k])
            if isinstance(e.get("cost"), float) and abs(e["cost"] - round(e["cost"])) > 1e-9:
                scale = 1000
        times = sorted({int(e["time"]) for e in evs if e.get("ev") in ("ad_local", "ad_withdraw", "ad_recv", "ad_send") and isinstance(e.get("time"), (int, float))})
        trank = {v: i + 1 for i, v in enumerate(times)}
        eps.discard(0)
        ranks = {v: i + 1 for i, v in enumerate(sorted(eps))}
        rank = lambda v: 0 if not v else ranks[int(v)]
        out.append({"ev": "reset", "self": self_id, "epoch": rank(own_epoch)})
        lives = 0
        for e in evs:
            ev = e.get("ev")
            if ev not in KEEP:
                continue
            try:
                if ev == "sess_start":
                    allow = e.get("allow")
                    out.append({"ev": ev, "sess": e["sess"], "cost": _num(e.get("cost", 1), scale), "allowany": allow is None,
                                "allow": list(allow or []), "nodecost": _costs(e.get("nodecost"), scale)})
                elif ev == "recv":
                    msg = e.get("msg") or {}
                    u = _update_from_body(msg.get("body"), rank, scale) if msg.get("type") == 1 else None
                    out.append({"ev": ev, "sess": e["sess"], "est": bool(e.get("est")), "hasu": u is not None,
                                "u": u or {"node": "", "id": "", "epoch": 0, "seq": 0, "conns": {}, "fwd": "", "susp": 0}})
                elif ev == "reject":
                    out.append({"ev": ev, "sess": e["sess"], "peer": e.get("peer", ""), "why": e["why"]})
                elif ev == "conn_add":
                    out.append({"ev": ev, "sess": e["sess"], "peer": e["peer"], "cost": _num(e["cost"], scale)})
                elif ev == "known_add":
                    out.append({"ev": ev, "peer": e["peer"], "cost": _num(e["cost"], scale), "known": _known(e.get("known"), scale)})
                elif ev == "established":
                    out.append({"ev": ev, "sess": e["sess"], "peer": e.get("peer", "")})
                elif ev == "conn_del":
                    out.append({"ev": ev, "peer": e["peer"]})
                elif ev == "known_del":
                    out.append({"ev": ev, "peer": e["peer"], "known": _known(e.get("known"), scale)})
                elif ev == "sess_end":
                    out.append({"ev": ev, "sess": e["sess"]})
                elif ev == "ru_self":
                    out.append({"ev": ev, "epoch": rank(e.get("epoch", 0)), "susp": rank(e.get("susp", 0))})
                elif ev == "ru_seen":
                    out.append({"ev": ev, "id": e["id"], "hit": bool(e["hit"])})
                elif ev == "ru_dupnotice":
                    info = e.get("info")
                    out.append({"ev": ev, "origin": e["origin"], "id": e["id"], "epoch": rank(e["epoch"]), "seq": int(e["seq"]),
                                "susp": rank(e["susp"]), "hasinfo": isinstance(info, dict),
                                "info": [rank(info["epoch"]), int(info["seq"])] if isinstance(info, dict) else [0, 0]})
                elif ev == "ru_apply":
                    out.append({"ev": ev, "origin": e["origin"], "id": e["id"], "epoch": rank(e["epoch"]), "seq": int(e["seq"]),
                                "result": e["result"], "changed": bool(e.get("changed", False)),
                                "conns": _costs(e.get("conns"), scale), "known": _known(e.get("known"), scale)})
                elif ev == "flood":
                    msg = e.get("msg") or {}
                    u = _update_from_body(msg.get("body"), rank, scale) if e.get("mtype") == 1 else None
                    out.append({"ev": ev, "mtype": int(e.get("mtype", -1)), "exclude": e.get("exclude", ""), "targets": list(e.get("targets") or []),
                                "hasu": u is not None,
                                "u": u or {"node": "", "id": "", "epoch": 0, "seq": 0, "conns": {}, "fwd": "", "susp": 0}})
                elif ev == "mk_update":
                    out.append({"ev": ev, "seq": int(e["seq"]), "id": e["id"], "conns": _costs(e.get("conns"), scale), "susp": rank(e.get("susp", 0))})
                elif ev == "rebuild":
                    out.append({"ev": ev, "table": dict(e.get("table") or {}), "costs": _costs(e.get("costs"), scale),
                                "known": _known(e.get("known"), scale)})
                elif ev == "shutdown":
                    out.append({"ev": ev})
                elif ev == "node_new":
                    lives += 1
                    if lives > 1:
                        # a later instance of this node ID was created with the very same start epoch
                        out.append({"ev": "node_new", "k": lives})
                elif ev == "seen_expire":
                    out.append({"ev": ev, "id": e["id"]})
                elif ev == "ad_local":
                    out.append({"ev": ev, "svc": e["svc"], "time": trank[int(e["time"])], "ctype": int(e.get("ctype", 0))})
                elif ev == "ad_send":
                    out.append({"ev": ev, "svc": e["svc"], "time": trank[int(e["time"])]})
                elif ev == "ad_withdraw":
                    out.append({"ev": ev, "svc": e["svc"], "time": trank[int(e["time"])]})
                elif ev == "ad_recv":
                    out.append({"ev": ev, "owner": e["owner"], "svc": e["svc"], "time": trank[int(e["time"])], "cancel": bool(e["cancel"]),
                                "result": e["result"], "ctype": int(e.get("ctype", 0))})
                elif ev == "h_status":
                    out.append({"ev": ev, "conns": _costs(e.get("conns"), scale), "table": dict(e.get("table") or {}),
                                "costs": _costs(e.get("costs"), scale), "known": _known(e.get("known"), scale)})
            except (KeyError, ValueError, TypeError):
                out.append({"ev": "other"})
    return out


def validate(wd, raw_files, tag="nodetrace", timeout=1800):
    """Returns dict(lines, diffs, classes, instances). Raises Inconclusive when TLC cannot consume the trace."""
    raw = []
    for f in raw_files:
        raw += vlib.read_ndjson(f)
    lines = normalise(raw)
    if not lines:
        raise vlib.Inconclusive("no node events recorded")
    path = os.path.join(wd, tag + ".ndjson")
    vlib.write_ndjson(path, lines)
    tmp = os.path.join(wd, "trace.ndjson")
    shutil.copyfile(path, tmp)
    r = vlib.tlc("NodeTrace", "NodeTrace.cfg", wd, workers=1, timeout=timeout, files=[tmp])
    if not r.ok:
        raise vlib.Inconclusive("NodeTrace validation did not complete (exit %s, violated=%s)\n%s" % (r.exit, r.violated, r.output[-2500:]))
    classes, pdiffs, done = vlib.parse_trace_output(r.output)
    if done != len(lines):
        raise vlib.Inconclusive("node trace not consumed completely: %s of %d lines" % (done, len(lines)))
    diffs = []
    for ln, name, fields in pdiffs:
        start = ln - 1
        while start > 0 and lines[start]["ev"] != "reset":
            start -= 1
        diffs.append({"line": ln, "event": name, "what": fields, "instance": lines[start], "context": lines[max(start, ln - 12):ln]})
    # across instances: NetCore orders the instances of one node ID by their start epochs and by nothing else, so an
    # instance created later (in this process: a larger event index of its creation event) must have the larger epoch
    born = {}
    for e in raw:
        if e.get("ev") == "node_new" and "@" in str(e.get("n", "")):
            born.setdefault(e["n"], e.get("i", 0))
    by_id = {}
    for label, i in born.items():
        nid, ep = label.rsplit("@", 1)
        by_id.setdefault(nid, []).append((i, int(ep), label))
    for nid, lst in by_id.items():
        lst.sort()
        for (i1, e1, l1), (i2, e2, l2) in zip(lst, lst[1:]):
            if e2 < e1:
                diffs.append({"line": 0, "event": "node_new", "what": ["later_instance_has_smaller_start_epoch"],
                              "instance": {"ev": "reset", "self": nid}, "context": [{"ev": "node_new", "earlier": l1, "later": l2}]})
    return {"lines": len(lines), "diffs": diffs, "classes": classes, "tlc": r,
            "instances": sum(1 for x in lines if x["ev"] == "reset")}


REPO_TESTS = "TestHopCountLimit|TestLotsOfPings|TestDuplicateNodeDetection|TestAllowedPeers|TestFirewalling|TestNetwork"


def repo_test_traces(wd, timeout=1200):
    """Runs a selection of the repository's own pkg/netceptor tests with the hooks on and returns the trace file.
    (These are the meshes the pinned suite builds; their executions are validated like our own.)"""
    path = os.path.join(wd, "repo_tests_hooks.ndjson")
    if os.path.exists(path):
        os.remove(path)
    env = vlib.go_env()
    env["VERIF_TRACE"] = path
    p = vlib.run(["go", "test", "-tags", "verif", "-vet=off", "-count=1", "-run", REPO_TESTS, "./pkg/netceptor/"],
                 cwd=vlib.REPO, env=env, timeout=timeout, check=False)
    if p.returncode != 0 or not os.path.exists(path):
        tail = "\n".join(l for l in (p.stdout or "").splitlines() if l.startswith(("---", "FAIL", "ok", "panic")))[-1500:]
        raise vlib.Inconclusive("the repository's own netceptor tests did not pass with hooks on:\n" + tail)
    return path
