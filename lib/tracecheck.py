"""Generic driver: run a harness command that records a trace, validate it with a TLC trace spec that
prints <<"CLASS", c>>, <<"DIFF", line, class, {fields}>> and <<"DONE", n>>."""
import os, re, shutil
import vlib


def run(wd, harness_args, trace_spec, trace_cfg, tag, timeout=3000):
    vh = vlib.build_harness()
    trace = os.path.join(wd, tag + "_trace.ndjson")
    res = vlib.harness_json(vh, harness_args + ["-trace", trace], wd, timeout=timeout, name=tag)
    if res.get("inconclusive"):
        raise vlib.Inconclusive("%s harness: %s" % (tag, "; ".join(res["inconclusive"][:3])))
    lines = vlib.read_ndjson(trace)
    if not lines:
        raise vlib.Inconclusive("empty trace")
    tmp = os.path.join(wd, "trace.ndjson")
    shutil.copyfile(trace, tmp)
    r = vlib.tlc(trace_spec, trace_cfg, wd, workers=1, timeout=1800, files=[tmp])
    if not r.ok:
        raise vlib.Inconclusive("trace validation did not complete (exit %s, violated=%s)\n%s" % (r.exit, r.violated, r.output[-2000:]))
    classes, pdiffs, done = vlib.parse_trace_output(r.output)
    if done != len(lines):
        raise vlib.Inconclusive("trace not consumed completely: %s of %d lines" % (done, len(lines)))
    nsteps = sum(1 for l in lines if l["ev"] not in ("reset", "end"))
    total = sum(classes.values())
    if nsteps and total % nsteps == 0 and total // nsteps > 1:
        k = total // nsteps
        classes = {c: v // k for c, v in classes.items()}
    diffs = []
    for ln, name, fields in pdiffs:
        start = ln - 1
        while start > 0 and lines[start]["ev"] != "reset":
            start -= 1
        diffs.append({"line": ln, "class": name, "fields": fields, "segment": lines[start:ln]})
    return {"harness": res, "tlc": r, "lines": lines, "classes": classes, "diffs": diffs, "steps": nsteps,
            "segments": sum(1 for l in lines if l["ev"] == "reset")}
