#!/usr/bin/env python3
"""Regenerates MANIFEST.json from the table below (single source for the interface file)."""
import json, os, subprocess
V = os.path.dirname(os.path.dirname(os.path.abspath(__file__)))
ALL = ["C%02d" % i for i in range(1, 21)]

CHECKS = {}
def check(pid, level, text, note, technique, engine, ref):
    CHECKS[pid] = dict(level=level, text=text, note=note, technique=technique, engine=engine, ref=ref)

NOT_YET = {}
import glob
for _f in sorted(glob.glob(os.path.join(V, "bin", "manifest.d", "*.py"))):
    exec(open(_f).read())

hooks_commits = subprocess.run(["git", "-C", "/repo", "log", "--format=%h %s", "--grep=^verif hooks"],
                               capture_output=True, text=True).stdout.strip().splitlines()
m = {
    "version": 1,
    "setup_cmd": "bin/setup",
    "hooks": {
        "guard": "verif",
        "enable": "go build -tags verif (harness module /verif/harness replaces github.com/ansible/receptor => /repo)",
        "baseline_off_cmd": "cd /repo && GOFLAGS=-mod=mod go test -json -vet=off -count=1 -timeout 25m ./...",
        "source_commits": [c.split()[0] for c in hooks_commits],
        "add_only": True,
    },
    "engines": [
        {"name": "E1 nodeconf", "path": "harness/e1, harness/peer", "serves_properties": ["C06", "C07", "C10", "C11", "C12", "C18"],
         "kind_free_text": "one real Netceptor + scripted peers over in-memory sessions; TLC-generated inputs; hook-event barriers"},
        {"name": "E2 meshsim", "path": "harness/memnet, harness/mesh", "serves_properties": ["C01", "C02", "C03", "C16", "C17"],
         "kind_free_text": "N real Netceptors over controllable in-memory links; TLC-generated environment behaviours; trace validation"},
        {"name": "E3 daemon", "path": "harness/daemon", "serves_properties": ["C04", "C05", "C08", "C13", "C14", "C15", "C19"],
         "kind_free_text": "the real receptor binary built with -tags verif; crash points; control-socket clients"},
        {"name": "E4 tables", "path": "harness/cmd/vh", "serves_properties": ["C09", "C12", "C20"],
         "kind_free_text": "TLC-enumerated decision tables concretised into real artefacts and compared with the real function"},
    ],
    "checks": [],
    "not_applicable": [],
    "notes": "Model-based verification with explicit TLA+ specifications (specs/), TLC for the design level, conformance of the real code by replaying TLC-generated vectors/behaviours and validating recorded traces. See DESIGN.md.",
}
ENABLED = set(open(os.path.join(V, "bin", "manifest.d", "ENABLED")).read().split())
for pid in ALL:
    if pid in CHECKS and pid in ENABLED:
        c = CHECKS[pid]
        m["checks"].append({
            "property_id": pid,
            "quick_cmd": "bin/check %s quick" % pid,
            "thorough_cmd": "bin/check %s thorough" % pid,
            "evidence_file": "evidence/%s.json" % pid,
            "replay_cmd_template": "bin/check %s --replay {path}" % pid,
            "engine": c["engine"],
            "level_claimed": {"category": c["level"], "text": c["text"], "design_ref": c["ref"]},
            "level_note": c["note"],
            "technique": c["technique"],
        })
    else:
        m["not_applicable"].append({"property_id": pid, "reason": NOT_YET.get(pid, "check not built yet in this session; see DESIGN.md section 6 for the planned decision procedure")})
json.dump(m, open(os.path.join(V, "MANIFEST.json"), "w"), indent=1)
print("claimed:", sorted(CHECKS), "n/a:", [x["property_id"] for x in m["not_applicable"]])
