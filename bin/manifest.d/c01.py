check("C01", "model_checking",
      "Netceptor.tla (mesh of NetCore nodes, unordered outboxes in front of FIFO wires, link up/down/restart events) is checked "
      "exhaustively by TLC for StableImpliesConverged against an independent Bellman-Ford oracle; seeded topology/event scenarios on "
      "meshes of real nodes are then validated by TLC twice: the final tables/costs/connections against the same oracle on the real "
      "topology (Converged.tla), and every node's hook trace against NodeTrace.tla, which checks every table rebuild against the "
      "node's adjacency picture at that instant and every picture change against NetCore.",
      "Trusted: in-order control delivery per link, hook events as linearization points, wall-clock ceilings for 'bounded number of update periods'. "
      "Exhaustive only for the small constants of the cfg; real meshes are sampled (seeded).",
      "TLA+ spec + TLC exhaustive small scope; trace validation of real-mesh executions and final states (B2)", "E2 meshsim", "DESIGN.md section 6 C01")
