check("C16", "model_checking",
      "DataPlane.tla is checked by TLC (a notification goes to exactly the socket named by its From fields and echoes the packet; one 'service unknown' notice per remote unknown "
      "service, a synchronous error and no notice locally; never both delivered and answered; no notice about a notice). On real meshes every (sender, target, unbound service) is "
      "probed with 4 subscribed sockets per node and per-socket sentinel notices as barrier before the complete notification lists are compared; firewall drops are silent at "
      "destination and in transit; DialContext to a never-bound and to a just-closed service must end because of the notice (cancelled by the unreachable monitor) and not by running out of time although notices had reached its socket; the close-while-sending "
      "race runs in a child process and every arrival is classified from the hook events (delivered / answered / overtaken by Close, never both, never lost otherwise, no crash); traces validated by TLC against DataPlaneTrace.tla.",
      "Trusted: per-socket FIFO of notifications behind the node's broker; a datagram waiting for the reader when Close() runs may vanish without notice (one per deliverer); dials judged by cause (cancelled by the monitor vs. ran out of time with notices at the socket), not by a stopwatch.",
      "TLA+ spec + TLC exhaustive small scope; real-mesh conformance with barriers; trace validation (B2)", "E2 meshsim", "DESIGN.md section 6 C16")
