check("C14", "model_checking",
      "TLC checks Mutex / NoLostUpdate / NoTornRead of StatusFile.tla (lock, read, apply, truncate, write, unlock per system call) for every interleaving of 3 actors x 2 "
      "operations (4 in thorough) and shows the torn read / lost update when Load, Save or the re-read lose their protection; cmd/vsf then runs M in {1..4} processes x N in {1..8} "
      "goroutines on ONE status file through the real exported UpdateFullStatus/UpdateBasicStatus/Load/Save, every step traced through the hooks into one O_APPEND file, which TLC "
      "validates against StatusFileTrace.tla (sections contiguous, read = last write, every Load parses) next to an independent Go acceptor and the end-state count.",
      "Trusted: flock(2), O_APPEND write atomicity for the event order, hooks emitted inside the lock. Actors in traces are processes (goroutine ids are not logged). "
      "Thorough bulk runs (1500 ops/goroutine, SIGSTOP jitter) are checked by the Go acceptor and end state only.",
      "TLA+ spec + TLC exhaustive; trace validation of real multi-process executions (B2)", "E3 daemon (cmd/vsf helper)", "DESIGN.md section 6 C14")
