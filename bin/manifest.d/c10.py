check("C10", "model_checking",
      "DataPlane.tla is checked by TLC over every next-hop table of a small mesh (2- and 3-node loops, black holes, phantom routes): forward count <= initial budget, a "
      "strictly decreasing measure (termination), arrival <=> table path length <= budget, otherwise exactly one expiry notice by the node at table distance h, no notice "
      "about a notice, and agreement of the closed-form Ping/Traceroute operators with the state machine. DataPlanePing.tla exports the expected Ping/Traceroute/send results "
      "for chains and trees of up to 6 real nodes, which are replayed for every (src, dst, budget); real nodes with scripted neighbours that advertise a phantom node and bounce "
      "packets give 2- and 3-node loops where TTL bytes, forward counts, the reporting node and the absence of notices about notices are observed; all hook events are validated by TLC against DataPlaneTrace.tla.",
      "Trusted: unique least-cost tables on trees; scripted neighbours are environment steps of the trace spec; a timed-out Ping counts only when the mesh was idle.",
      "TLA+ spec + TLC exhaustive over all tables; vector replay (B1) and trace validation (B2)", "E1 nodeconf + E2 meshsim", "DESIGN.md section 6 C10")
