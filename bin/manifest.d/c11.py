check("C11", "model_checking",
      "Admit.tla (three sessions, every interleaving of admission, adjacency registration, peer updates and session ends, on NetCore's "
      "operators) is checked exhaustively by TLC for OnePerID, AdmittedOnly, ConnIffOpenSession and NoEdgeLeftBehind; seeded handshake "
      "scenarios are played by scripted peers against a real node and the node's hook events are validated by TLC against NodeTrace.tla "
      "(verdict and reason of every admission decision, cost, API-visible connection set, no route via a non-neighbour), while the peers "
      "check closure of rejected / misbehaving sessions and survival of admissible ones.",
      "Trusted: hook events emitted under connLock/knownNodeLock as linearization points; in-order delivery per session. The duplicate-node (same ID) clause is covered by E2 scenarios.",
      "TLA+ spec + TLC exhaustive small scope; trace validation of real-node hook events (B2)", "E1 nodeconf", "DESIGN.md section 6 C11")
