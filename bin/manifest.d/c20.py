# exec'd by bin/gen_manifest.py: one check(...) call per claimed property

check("C20", "exploration",
      "TLC enumerates the request shapes of CertNames.tla: node-id list (empty/one/several/duplicates) x byte-length class (the boundaries +-1 at which "
      "any DER header of the otherName changes size, computed by the LenOctets sub-model) x character class x DNS list x IP list x key mode x validity "
      "window, SAN-threshold requests, foreign-made SANs, and a real-time clock family (verifier built, certificate issued later, verified at later ticks). Each shape is concretised several times with seeded strings of exactly the prescribed byte "
      "length and pushed through the real CreateCertReq(WithKey)/GetReqNames/SignCertReq, MakeReq/SignReq on files, x509 parsing, ReceptorNames and "
      "ReceptorVerifyFunc for every candidate id; names, window, chain, key, SAN bytes and sizes are compared with the request and the DER model.",
      "Exploration: the partition, the boundary arithmetic and the oracle come from the TLA+ model; inside a (length, character class) cell strings are "
      "sampled from the seed. Inputs outside the quantifier (non-UTF-8 ids, non-IA5 DNS names, odd-sized IPs) may be refused or unreadable but never "
      "read back as a different name. Fixed: C20:req-names-unreadable (ids of 113 bytes and more).",
      "TLA+ request/DER-length model, TLC enumeration of shapes, seeded concretisation, differential check against independent DER encoder/decoder (B1)",
      "E4 tables", "DESIGN.md section 6 C20")
