check("C15", "model_checking",
      "TLC enumerates the complete decision table Effect(command, connection kind, work-type class, token class) of ControlSession.tla (5 x 3 x 5 x 10 = 750 "
      "vectors) and proves NoEffectWithoutToken, UnexpectedTokenRefused and ValidTokenSuffices on it; every vector is executed on the real receptor binary "
      "(verifying / non-verifying command types, remote units with and without signwork, a unit of an unknown type) over the Unix socket, the TCP control "
      "listener and a mesh stream from a second daemon with freshly built JWTs; before/after snapshots of work list, the data directory, the runner pid "
      "and the bytes received decide whether the command took effect; compared with the vector.",
      "A sequence model (part c15seq: one token used again while time passes and across a restart; a verifier that remembers verified tokens is refuted by TLC) is replayed too: a 3-4 s token is accepted, then the identical string must be refused >= 1.5 s after its expiry, for all five commands over TCP and the mesh, for a submit token replayed on cancel/release/results, and after a daemon restart. Token classes are represented by a few concrete variants each (quick: a seeded stratified subset of about 185 of the 750 vectors - two rotating token classes in every command x connection x work-type cell plus valid and absent in the 20 protected cells - once; thorough: all 750 vectors x 2 variants). Trusted: golang-jwt, crypto/rsa. TLS-wrapped TCP "
      "control listeners are not a separate connection kind.",
      "TLA+ decision table, TLC exhaustive enumeration, vector replay into the real daemon (B1)", "E3 daemon / E4 tables (harness/ctl, cmd/vctl)", "DESIGN.md section 6 C15")
