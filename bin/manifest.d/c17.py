check("C17", "model_checking",
      "Lifecycle.tla (socket and delivery path, stream dial/close on both ends, Listener.Close against the QUIC transport, ping; one action per "
      "critical section or blocking point) is checked exhaustively by TLC for NoPanic, Released, NoLockCycle, ShutdownStops, with the code as found "
      "kept as counter-examples that must still fail; the counter-example schedules are replayed on real objects in child processes (exit status = "
      "oracle, gates park deliverers between lookup and select), and a seeded 200/2000-operation history over three real nodes with concurrent "
      "senders must leave registries and the goroutine profile at their baseline, end all goroutines on Shutdown, and produce per-object event "
      "orders that TLC accepts as behaviours of the spec.",
      "Trusted: quic-go ends its own goroutines when closed; goroutines attributed by entry function. A residue is a leak only if it grows with a "
      "history twice as long. Streams closed by Close() on both ends only are an open finding exercised separately.",
      "TLA+ spec + TLC exhaustive small scope; schedule replay in child processes (B1); long seeded histories with resource accounting and trace validation (B2)",
      "E2 meshsim", "DESIGN.md section 6 C17")
