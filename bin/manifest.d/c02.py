check("C02", "model_checking",
      "DataPlane.tla (hop-by-hop datagram plane over arbitrary next-hop tables, two packets in flight: delivered only at the addressee, true source, at most once, "
      "intact, delivered when routed) and Framer.tla (every chunking of the length-prefixed stream yields the messages sent) are checked exhaustively by TLC. TLC's Framer "
      "vectors are replayed into the real framer and netMessageConn; real meshes (memnet chains up to the hop limit, diamond, star; real TCP back-ends; netMessageConn "
      "over a pipe re-chunked by TLC's schedules and at random) carry concurrent senders with boundary payload lengths, binary payloads and adversarial node/service names "
      "while readers on every open socket compare arrivals with what was written; the hook trace (send/forward/deliver with digests) is validated by TLC against DataPlaneTrace.tla.",
      "Trusted: links deliver frames unchanged (lossy/duplicating links only for the subset claims); 8-byte digest prefixes in hook events; node ids valid UTF-8; firewall stage covered by C12.",
      "TLA+ specs + TLC exhaustive small scope; vector replay (B1) and trace validation (B2) on real nodes", "E2 meshsim + real TCP / netMessageConn back-ends", "DESIGN.md section 6 C02")
