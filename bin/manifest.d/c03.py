check("C03", "model_checking",
      "Stream.tla (per-direction written/available/read counters, half close, EOF; datagram layer as an explicit assumption; origin-side send "
      "error distinguished from transit loss) and Bridge.tla (two pipes through the two halves of BridgeConns, half-close vs full-close endpoints) "
      "are checked exhaustively by TLC for Prefix, EOFOnlyAfterAll, completion under transit cuts and end-to-end close propagation, with the "
      "cases that cannot hold kept as counter-examples that must still fail; real meshes of 1..4 hops and a diamond over links that lose, "
      "duplicate, delay and re-order data frames, with endpoint-adjacent and transit cuts of the active path, carry seeded bidirectional patterned "
      "transfers (1 B..256 KiB writes) directly, through the control service's connect bridge and through a TCP proxy pair; every "
      "Write/Read/Close/EOF is validated by TLC against StreamTrace.tla; a serial scenario cancels the dial context right after DialContext "
      "returned, with the dial-time watcher held at a gate (a stream must survive the end of its dial context).",
      "Trusted: quic-go as the reliability layer; the path is never dead longer than the idle timeout. Through full-close endpoints the property is "
      "demanded for orderly closes only (shown necessary by Bridge.tla). Origin-side re-route error is an open finding.",
      "TLA+ spec + TLC exhaustive small scope; trace validation of real transfers under seeded datagram faults and re-routing (B2)",
      "E2 meshsim", "DESIGN.md section 6 C03")
