check("C08", "exploration",
      "Class-exhaustive, byte-sampled: TLC checks the table of 433 control-session line classes of ControlSession.tla (every built-in command x every "
      "parameter present/absent x every JSON type, plain forms with 0..n arguments, framing/EOF/abort/64 KiB/binary classes, unit ids existing/unknown/"
      "disk-only/statusless/with path characters) and all pairs of concurrent sessions over 14 line kinds with a model of the unit-index RW lock "
      "(NoDeadlock, Isolation, SessionContinues; the as-found locking is shown to deadlock), exports them, and every class / pair is sent as seeded concrete "
      "bytes to the real receptor binary over Unix and TCP control sessions; oracle: process alive, reply class and prefix per spec, session goes on, "
      "and status + work list on a fresh session answered after every input (10.5 s deadline, re-confirmed).",
      "Mixed sessions (a line that decodes into a JSON object of any shape, then a well-formed plain or JSON command on the same session, whose answer must equal the fresh-session answer in class and content; 2552 carrier x follower pairs enumerated by TLC, 200 replayed in quick, all in thorough) check per-line independence. Bytes within a class are sampled (2 instances quick, 6 thorough); session pairs are replayed within a time budget in quick. Lenient acceptance of "
      "ignored optional fields / extra arguments is modelled as the code behaves and listed, not judged. Trusted: the harness's line builder per class.",
      "TLA+ line-class table + session/lock model, TLC enumeration, vector replay into the real daemon (B1)", "E3 daemon (harness/ctl, cmd/vctl)", "DESIGN.md section 6 C08")
