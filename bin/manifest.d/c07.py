check("C07", "exploration",
      "Wire.tla gives the session state machine per message class and protocol phase; TLC enumerates every class sequence up to the bound "
      "(no sequence reaches 'crashed') and exports them; each is concretised into bytes and played over TCP, UDP, websocket and an "
      "embedded backend against a real node in a child process, whose liveness and service to a well-behaved peer are the oracle.",
      "Class-exhaustive, byte-sampled (the byte space is infinite). Trusted: the class partition; gorilla/websocket and the kernel's UDP/TCP.",
      "TLA+ class/phase state machine, TLC enumeration of class sequences, replay into real node process (B1)", "E1 nodeconf (child process)", "DESIGN.md section 6 C07")
