check("C07", "exploration",
      "Wire.tla gives the session state machine per message class and protocol phase; TLC enumerates every class sequence up to the bound "
      "(no sequence reaches 'crashed') and exports them; each is concretised into bytes and played over TCP, UDP, websocket and an "
      "embedded backend against a real node in a child process, whose liveness and service to two well-behaved peers (TCP and UDP: periodic update taken, relayed notice taken, ping answered) are the oracle. "
      "Beyond single sessions: a cross-session phase (what one session says about a node, then a session as that node), stalled clients of a TLS listener, "
      "and several sessions sending well-formed traffic about the same things at once against a race-detector build of the node (a report with a map access = a crash).",
      "Class-exhaustive, byte-sampled (the byte space is infinite). Trusted: the class partition; the race detector's reports; gorilla/websocket and the kernel's UDP/TCP.",
      "TLA+ class/phase state machine, TLC enumeration of class sequences, replay into real node process (B1)", "E1 nodeconf (child process)", "DESIGN.md section 6 C07")
