check("C13", "model_checking",
      "TLC checks StageMonotone / SucceededIsFinal / SizeMonotone / CancelStops / ReleaseRemoves / UniqueIDs of WorkUnit.tla for every interleaving of 2 client sessions with 2+1 (quick) / 2+2 (thorough) "
      "operations with runner, payload and daemon goroutines on one unit (plus a two-id configuration with forced id collisions); the real daemon is then driven with seeded "
      "3-client histories, a concurrent-submit burst and the TLC-found cancel-vs-completion schedule (SIGSTOP as gate); every sf_apply event of daemon and runner processes and every "
      "control-socket answer is checked, /proc decides CancelStops, the data directory ReleaseRemoves; each unit's rewrite stream is validated by TLC against WorkUnitTrace.tla and its status-file event stream against StatusFileTrace.tla.",
      "Unit kinds: local command, remote (two real daemons), one in-process type (harness-built daemon variant); no kubernetes/python units. WorkUnitTrace.tla binds the status-rewrite stream (sf_apply) to WorkUnit's update table; the other life-cycle events are checked by Go oracles only. Cross-session answer order is not used.",
      "TLA+ spec + TLC exhaustive; randomized concurrent histories on the real binary with hook observers; TLC lead replay", "E3 daemon", "DESIGN.md section 6 C13")
