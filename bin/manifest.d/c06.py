check("C06", "model_checking",
      "NetLocal.tla (one node, adversarial neighbours) is checked exhaustively by TLC for the action properties NoChangeOnStale, "
      "InfoMonotone, NeverBack, SelfFilter, RelayOnce/SeenGrows and GenuineIsRelayed; a real node is then driven by seeded adversarial "
      "update sequences from three scripted peers and every step (frames relayed to which neighbour, adjacency picture, per-origin "
      "epoch/sequence, own-update counts) is validated by TLC against the same actions (NetLocalTrace.tla); a concurrent-updates scenario (two updates of one origin through two neighbours at the same instant, thousands of rounds), replayed notices, a known node connecting directly and restart scenarios of real meshes are validated event by event against NodeTrace.tla.",
      "Trusted: in-order delivery per session (memnet), the hook events used as barriers (recv/sess_end/flood/mk_update), TLC. "
      "Exhaustive only for the small constants of NetLocal_quick.cfg; the real node is sampled (seeded), not enumerated.",
      "TLA+ spec + TLC exhaustive small scope; trace validation of real-node executions (B2)", "E1 nodeconf", "DESIGN.md section 6 C06")
