check("C18", "model_checking",
      "AdsLocal.tla is checked exhaustively by TLC (an older advertisement never replaces a newer one; a processed withdrawal is never "
      "undone by an older advertisement; nothing that changes nothing is relayed; a newer advertisement is accepted again), with the "
      "pre-repair variant kept as a documented counter-example; a real node with scripted neighbours is then driven through seeded "
      "advertisement/withdrawal/open/close sequences and every step's relays and advertisement table are validated by TLC against the same actions.",
      "Trusted: per-session in-order delivery, hook events used as barriers, owner clocks strictly increasing. Mesh-wide convergence is covered by the E2 scenarios.",
      "TLA+ spec + TLC exhaustive small scope; trace validation of real-node executions (B2)", "E1 nodeconf", "DESIGN.md section 6 C18")
