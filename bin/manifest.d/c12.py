# exec'd by bin/gen_manifest.py: one check(...) call per claimed property

check("C12", "model_checking",
      "TLC enumerates the complete (rule list x packet) space of Firewall.tla's two families and proves first-match/default-accept/"
      "refusal/notice properties on it; every vector is then replayed through the real parser and a real node at origin, transit and "
      "destination positions and the observable outcome (delivery, forwarding, 'blocked by firewall' notice, silence) must equal the spec's - also for the same packet without hops left (the rules decide first, then expiry) and for service names with an inner zero byte.",
      "Trusted: Go regexp; the tabulated match languages for the listed patterns; hook events for negative observation. Patterns outside the table are not covered.",
      "TLA+ decision-table spec, TLC exhaustive enumeration, vector replay into real node (B1)", "E1 nodeconf / E4 tables", "DESIGN.md section 6 C12")
