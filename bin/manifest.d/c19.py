check("C19", "model_checking",
      "TLC explores every history (subset of six key-spelling classes x TLS profile named or not x up to 3/4 operations of status, list, list-one, cancel, "
      "release, restart-daemon) of ControlSession.tla part c19 and proves NoSecretInReplies, OthersUnchanged and RefuseWithoutTLS; the exported histories are "
      "replayed on the real receptor binary submitting remote work (values are unique random markers; every byte received on every control connection and "
      "the daemon log are searched for secret markers; non-secret parameters must be reported verbatim, also after reload from disk); a secret without a "
      "TLS profile must be refused with no unit, no directory, nothing on the other node and no control-service data message on the harness-owned relays.",
      "Submit outcome classes accepted / refused-before-allocation / failed-after-allocation (malformed ttl: the allocated unit stays, without a recorded TLS profile) / crashed between the allocation steps / refused by the executing node on the first connection (the error text is returned and kept as Detail) are modelled and replayed, with a concurrent lister during all submissions. Quick replays a seeded sample (450 plain-submit histories, 4 crash histories, all other variants), thorough everything. Mesh traffic is QUIC-encrypted, so 'nothing sent' is judged by message headers and by the other node's unit list rather than by payload bytes. "
      "Key spellings per class are sampled. Status files on disk keep secrets by design and are outside the property.",
      "TLA+ history model, TLC exhaustive exploration, history replay into real daemons (B1)", "E3 daemon (harness/ctl, cmd/vctl)", "DESIGN.md section 6 C19")
