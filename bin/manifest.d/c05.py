# exec'd by bin/gen_manifest.py: one check(...) call per claimed property

check("C05", "model_checking",
      "Results.tla models the payload/runner (StdoutSize recorded later than the bytes), the daemon's in-memory status copy, GetResults at the "
      "grain of its loop and the two remote monitors with link cuts, relay restarts and remote daemon restarts between any two steps; TLC proves "
      "NoGapNoRepeat, NoEarlyEnd, CloseOnlyWhenFinal, EndsWhenDone, MirrorPrefix and MirrorConverges for all chunkings, offsets and interleavings "
      "within the constants and writes session vectors and fault schedules; cmd/vres replays them on REAL receptor daemons (bytes received from "
      "'work results <id> <p>' vs. the unit's output from p; end of stream vs. completion; local copy vs. remote output after every observation "
      "under cut/heal, relay restart and remote daemon restart, and equality at the end).",
      "Trusted: the file-system view of the harness (local file read before remote file), status files as the completion event, payloads that stop "
      "writing when they exit. Not covered: restart of the remote daemon while the unit is still Pending (C04/C13), restart of the submitting node, "
      "TLS/signed work, Kubernetes work. A convergence deadline without a wrong value is exit 2.",
      "TLA+ spec + TLC exhaustive (safety and liveness), TLC-generated vectors and fault schedules replayed into the real binary (B1)",
      "E3 daemon (harness/resd, harness/cmd/vres)", "DESIGN.md section 6 C05")
