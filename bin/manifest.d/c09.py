# exec'd by bin/gen_manifest.py: one check(...) call per claimed property

check("C09", "model_checking",
      "TLC enumerates the complete product of TLSVerify.tla (issuer x validity x key usage x name set x pin list x role x name mode, plus the "
      "stream-listener family and the history family: call sequences on one long-lived instance; the clock family: verifier creation and handshake as two steps in time; the lookup family: repeated lookups of one named client configuration are independent) and proves on it: the verdict is a function of (certificate, configuration), acceptance implies all five conditions, every single-condition failure refuses, role separation, "
      "dNSNames never stand in for receptor names, pins only restrict, the listener binds the certificate to the packet source. Every vector is then "
      "concretised into real X.509 chains, pins and configurations (several 'other name' variants, two SAN encoders) and the real code's verdict is "
      "observed at four layers: ReceptorVerifyFunc, the verifier installed by Prepare*Config/GetClientTLSConfig, a crypto/tls handshake over an "
      "in-memory pipe, and DialContext/Accept between real nodes. Real accepts must imply spec accepts; for well-formed pin lists the converse too.",
      "Trusted: Go crypto/x509 and crypto/tls. Time is tested 2 h inside/outside the window in the table and 1 s (half a real-time tick) in the clock family, not at the boundary instant. Handshakes cover all vectors "
      "with at most one failing condition plus a seeded sample; the quick tier dials a stratified sample of the stream vectors (thorough: all). "
      "Fixed: C09:stream-name-colon-split (8d11383; node ids containing ':'); the legacy rule is kept as the failing variant TLSVerify_colonsplit.cfg.",
      "TLA+ decision-table spec, TLC exhaustive enumeration, vector replay into the real verifier/configuration/handshake/mesh (B1)",
      "E4 tables (+ two-node memnet mesh)", "DESIGN.md section 6 C09")
