check("C04", "fault_enumeration",
      "WorkUnit.tla (CrashDaemon/CrashRunner enabled in every state, Restart + scan as scanForUnit does it) is model-checked for Durable (the expectation-policy table) with 1 crash "
      "(quick) / 2 crashes (thorough); on the real binary a dry run of each workload {finish, long-running, cancel, release, remote unit executed by a second daemon} lists every reachable (crash point, k, role daemon|runner), "
      "and for each selected point a fresh daemon is killed there (SIGKILL from the hook), restarted on the same directory and queried (work list/status/results with deadlines); answers are "
      "compared with Durable instantiated with what the client had been told. Thorough enumerates all points (about 250) plus crashes during recovery; quick a prioritised sample of 24.",
      "Process crashes only (no file-system/power-loss semantics); no crash points inside remote_work.go; scripted scenarios: unit on disk only, live runner marked failed (TLC leads), executor node killed while a remote unit runs, daemon and runner killed together before the payload starts. "
      "Open findings: empty status after a kill between truncate and write; live runner marked 'Pending at restart'.",
      "TLA+ spec + TLC; crash-point enumeration on the real binary with a policy oracle (B1)", "E3 daemon", "DESIGN.md section 6 C04")
