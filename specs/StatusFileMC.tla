---------------------------- MODULE StatusFileMC ----------------------------
(* Model-checking instance of StatusFile: 3 actors = two goroutines of the   *)
(* daemon sharing one BaseWorkUnit (o1) + the runner process (o2); or four   *)
(* actors in the full configuration (a second private object in the daemon). *)
EXTENDS StatusFile
CONSTANTS a1, a2, a3, a4, o1, o2, o3
MC_ObjOf3 == (a1 :> o1) @@ (a2 :> o1) @@ (a3 :> o2)
MC_ObjOf4 == (a1 :> o1) @@ (a2 :> o1) @@ (a3 :> o2) @@ (a4 :> o3)
=============================================================================
