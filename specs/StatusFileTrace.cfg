SPECIFICATION TSpec
CONSTANTS
  Actors = {"p1", "p2", "p3", "p4", "p5", "p6"}
  ObjOf <- T_ObjOf
  Creator = "p1"
  MaxOps = 1000000000
  Tags = {}
  LoadLocks = TRUE
  SaveLocks = TRUE
  TruncFirst = FALSE
  UnlinkLockWhenFinal = FALSE
  Kinds = {"inc", "blind"}
  KeepAbsentFields = FALSE
  StatBeforeLock = FALSE
  FreshUpdates = FALSE
  Reread = TRUE
  TraceFile = "sf_trace.ndjson"
INVARIANTS
  Mutex
  NoTornRead
  T_NoLostUpdate
  EmptyOnlyInside
POSTCONDITION TraceAccepted
CHECK_DEADLOCK FALSE
