SPECIFICATION FairSpec
CONSTANTS
  Ctl = {1}
  MaxReloads = 2
  MaxEdits = 1
  MaxSess = 8
  MaxFail = 0
  EditNames = {"start", "drop_D", "cost_D", "add_E", "mod_B"}
  KF_StaleFlags = FALSE
  KF_NoReloadMutex = FALSE
  DumpFile = ""
  KF_PortFreedAfterDone = FALSE
  KF_MidEstablishLeak = FALSE
PROPERTIES
  EveryReloadEnds
  PeersReestablished
