SPECIFICATION LiveSpec
CONSTANTS
  MaxOut = 1
  MaxFlaps = 1
  MaxCrashes = 1
  ClientOps = {"cancel"}
  RestartIfIdKnown = FALSE
  IdStoredLate = FALSE
  RestartSkipsComplete = FALSE
  StdoutFromZero = FALSE
  ReleaseSkipsRemote = FALSE
PROPERTIES
  OutputEventuallyComplete
  CancelEventuallyReachesE
