SPECIFICATION FairSpec
CONSTANTS
  Nodes = {"a", "b", "c"}
  Cand <- CandLine
  MaxSeq = 3
  MaxEv = 2
  Restartable = {}
INVARIANTS
  StableImpliesConverged
PROPERTIES
  Converges
  EventuallyStable
