SPECIFICATION Spec
CONSTANTS
  MaxLen = 66000
  Families = {"ids", "names", "san", "decode", "clock"}
  LegacyStrip = FALSE
  MaxTick = 2
  KF_TimeFrozenAtCreation = FALSE
  DumpFile = "vectors.ndjson"
INVARIANTS
  RoundTrip
  EntrySizes
  VerifyExactly
  SanOnThreshold
  ValidityJudgedAtVerification
