SPECIFICATION Spec
CONSTANTS
  MaxBytes = 2
  Cuts = {"transit", "stall"}
  AcceptorCloseKillsSocket = FALSE
  ForwarderWaitsOnNode = FALSE
  AcceptLeavesDeadline = TRUE
  MaxNotices = 1
  NoticeEndsStream = FALSE
  OriginErrorFatal = TRUE
INVARIANTS
  Prefix
  EOFOnlyAfterAll
  NoSpontaneousClose
  NoReadErrorWhileUp
  NoAbort
PROPERTIES
  Complete
  AllDelivered
