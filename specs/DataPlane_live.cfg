SPECIFICATION FairSpec
CONSTANTS
  Node = {"n1", "n2", "n3"}
  Ghost = {"g"}
  Nbr <- Tri_Nbr
  Bound <- Bound_ab
  VarCols = {"n1", "n3", "g"}
  SrcSet = {"n1"}
  SrcSvcs = {"a"}
  DstSet = {"n3", "g"}
  DstSvcs = {"a", "u", "ping"}
  TTLs = {0, 1, 3}
  MaxSends = 1
  DefTTL = 3
INVARIANTS
  FwdBound
PROPERTIES
  Terminates
  Decreases
