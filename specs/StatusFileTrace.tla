-------------------------- MODULE StatusFileTrace --------------------------
(***************************************************************************)
(* Trace validation for C14: is the event sequence recorded from the real  *)
(* code (hooks in pkg/workceptor/workunitbase.go, all processes appending  *)
(* to one O_APPEND file, normalised by harness/sftrace) a behaviour of     *)
(* StatusFile?  Every event is bound to the StatusFile action of the same  *)
(* name; logged values must equal the values the specification computes:   *)
(*   - lock/unlock alternate and every event between them belongs to the   *)
(*     lock holder (the events of one critical section are contiguous);    *)
(*   - a read inside an update and a Load return exactly the record left   *)
(*     by the last write (never an empty or partial one);                  *)
(*   - an update writes the record it applied to the record it read, the   *)
(*     counters being +1/own+1 or unchanged.                               *)
(* Actors are operating-system processes (the goroutine is not logged);    *)
(* the in-process statusLock is not observable, its acquisition is the one *)
(* silent step allowed in front of a lock event.                           *)
(* Deviations from StatusFile, both harness-only: Save is accepted at any  *)
(* time with the logged content (Save_Enter / Save_WriteC), and an update  *)
(* of an empty file starts from the logged in-memory copy (UFS_ReadC).     *)
(* Several traces are concatenated, separated by "reset" events.           *)
(* Traces of crash experiments carry a "crash" event after the last event  *)
(* of every process (TCrash); they are checked with StatusFileTraceCrash   *)
(* .cfg, i.e. without NoTornRead / EmptyOnlyInside, which a kill between   *)
(* truncate and write is known to break (finding C04:empty-status-...).    *)
(***************************************************************************)
EXTENDS StatusFile, Json, Sequences

CONSTANT TraceFile

Trace == ndJsonDeserialize(TraceFile)

VARIABLES l,        \* index of the next event to consume
          tmode     \* mode of the current trace: "rmw" (counters meaningful) or "save"

tvars == <<vars, l, tmode>>

T_ObjOf == [a \in Actors |-> a]

Has(e) == l <= Len(Trace) /\ Trace[l].ev = e
E == Trace[l]
C(e) == Rec(e.cnt, [a \in Actors |-> e.own[a]], e.h)
Consume == l' = l + 1 /\ UNCHANGED tmode

TInit == Init /\ l = 1 /\ tmode = "rmw"

TReset ==
  /\ Has("reset")
  /\ file' = Absent /\ fver' = 0 /\ lock' = None
  /\ olock' = [o \in Obj |-> None]
  /\ mem' = [o \in Obj |-> Rec(0, ZeroOwn, "init")]
  /\ rver' = [a \in Actors |-> 0]
  /\ pc' = [a \in Actors |-> "idle"]
  /\ kind' = [a \in Actors |-> "inc"]
  /\ left' = [a \in Actors |-> MaxOps]
  /\ done' = 0 /\ doneBy' = [a \in Actors |-> 0]
  /\ torn' = [a \in Actors |-> FALSE]
  /\ lost' = FALSE
  /\ sawRec' = [a \in Actors |-> FALSE] /\ oldlock' = None /\ oldq' = {}
  /\ l' = l + 1 /\ tmode' = E.h

\* silent: the actor of the next lock event enters an operation (takes the in-process lock)
TEnter ==
  /\ Has("lock") /\ pc[E.a] = "idle"
  /\ \/ \E k \in {"inc", "blind"} : ObjLock(E.a, "u_want") /\ kind' = [kind EXCEPT ![E.a] = k]
                                    /\ UNCHANGED <<file, fver, lock, mem, rver, done, doneBy, torn, lost, sawRec, oldlock, oldq>>
     \/ Load_Begin(E.a)
     \/ Save_Enter(E.a)
  /\ UNCHANGED <<l, tmode>>

TLock   == Has("lock") /\ (UFS_Lock(E.a) \/ Load_Lock(E.a) \/ Save_Lock(E.a)) /\ Consume

TRead   == /\ Has("read") /\ E.ok
           /\ IF E.z THEN ~IsRec(file) ELSE IsRec(file) /\ file = C(E)
           /\ UFS_ReadC(E.a, C(E))
           /\ Consume

TApply  == /\ Has("apply")
           /\ UFS_Apply(E.a, E.h)
           /\ mem'[E.a] = C(E)
           /\ Consume

TTrunc  == Has("trunc") /\ UFS_Trunc(E.a) /\ Consume

TWrite  == /\ Has("write")
           /\ UFS_Write(E.a)
           /\ file' = C(E)
           /\ Consume

TLoad   == /\ Has("load")
           /\ IF E.ok THEN IsRec(file) /\ file = C(E)
                       ELSE (E.z /\ file = Absent) \/ (~E.z /\ file = Empty)   \* (Empty: flagged by NoTornRead; legitimate only after a crash)
           /\ Load_Read(E.a)
           /\ Consume

TSaveTrunc == Has("save_trunc") /\ Save_Trunc(E.a) /\ Consume
TSaveWrite == Has("save_write") /\ Save_WriteC(E.a, C(E)) /\ Consume

TUnlock == Has("unlock") /\ (UFS_Unlock(E.a) \/ Load_Unlock(E.a) \/ Save_Unlock(E.a)) /\ Consume

\* crash-aware traces (C04): the process of actor E.a is dead.  The kernel releases its flock, its goroutines are
\* gone; the file keeps whatever it contained (possibly nothing, if the process had truncated and not yet written).
TCrash == /\ Has("crash")
          /\ lock' = IF lock = E.a THEN None ELSE lock
          /\ oldlock' = (IF oldlock = E.a THEN None ELSE oldlock)
          /\ oldq' = oldq \ {E.a}
          /\ olock' = [olock EXCEPT ![ObjOf[E.a]] = None]
          /\ pc' = [pc EXCEPT ![E.a] = "idle"]
          \* a writer that dies after its apply step may already have done the write(2) (the hook that logs the write follows
          \* the system call): the file holds either the old record or the applied one
          /\ \/ UNCHANGED <<file, fver>>
             \/ pc[E.a] = "u_applied" /\ ~TruncFirst /\ file' = mem[ObjOf[E.a]] /\ fver' = fver + 1
          /\ UNCHANGED <<mem, rver, kind, left, done, doneBy, torn, lost, sawRec>>
          /\ Consume

TNext == TCrash \/ TReset \/ TEnter \/ TLock \/ TRead \/ TApply \/ TTrunc \/ TWrite \/ TLoad \/ TSaveTrunc \/ TSaveWrite \/ TUnlock

TSpec == TInit /\ [][TNext]_tvars

\* invariants evaluated at every step of the trace
T_NoLostUpdate == ~lost /\ (tmode = "rmw" => NoLostUpdate)

NLocks == Cardinality({i \in 1..Len(Trace) : Trace[i].ev = "lock"})

\* every event was consumed (each lock event costs one extra silent step)
TraceAccepted == TLCGet("stats").diameter - 1 = Len(Trace) + NLocks
=============================================================================
