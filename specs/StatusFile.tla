----------------------------- MODULE StatusFile -----------------------------
(***************************************************************************)
(* C14 - the lock / read-modify-write core of a work unit's status record. *)
(*                                                                         *)
(* Code: pkg/workceptor/workunitbase.go                                    *)
(*   lockStatusFile / unlockStatusFile  flock(2) on "<status>.lock" through *)
(*                                      lockedfile.OpenFile(O_WRONLY)      *)
(*   StatusFileData.UpdateFullStatus    lock, open, (size>0: read), apply, *)
(*                                      write in place, truncate to the    *)
(*                                      new length, unlock (before the     *)
(*                                      repair: truncate(0), then write)   *)
(*   StatusFileData.Load                lock, open, read+parse, unlock     *)
(*   StatusFileData.Save                lock, open(O_TRUNC), write, unlock *)
(*   BaseWorkUnit.{UpdateFullStatus,UpdateBasicStatus,Load}  additionally  *)
(*     take the in-process statusLock (write side) around the call and use *)
(*     the unit's shared in-memory copy; BaseWorkUnit.Save takes the read  *)
(*     side.  The runner process (command.go commandRunner) and            *)
(*     saveStdoutSize (stdio_utils.go) use private StatusFileData objects. *)
(*                                                                         *)
(* Actors are goroutines; ObjOf maps an actor to the in-memory object it   *)
(* works on (actors of one process sharing a BaseWorkUnit share an object  *)
(* and its statusLock; a private StatusFileData is an object of its own).  *)
(* One action per system call / critical-section step, so that every       *)
(* interleaving of N goroutines in M processes is explored.                *)
(*                                                                         *)
(* The three constants LoadLocks, SaveLocks, Reread are TRUE for the code  *)
(* as it is; setting one to FALSE documents what that mechanism is for     *)
(* (the witnesses in StatusFile_wit_*.cfg: torn read, lost update).        *)
(***************************************************************************)
EXTENDS Naturals, FiniteSets, TLC

CONSTANTS Actors,      \* goroutines
          ObjOf,       \* [Actors -> Obj]: the in-memory object (and its statusLock) an actor uses
          Creator,     \* the actor that may Save (AllocateUnit) - Save is a blind write of the in-memory copy
          MaxOps,      \* operations per actor
          Tags,        \* opaque part of a record (stands for State/Detail/StdoutSize...) written by updates
          LoadLocks,   \* TRUE: Load takes the file lock                       (code: TRUE)
          SaveLocks,   \* TRUE: Save takes the file lock                       (code: TRUE)
          Reread,      \* TRUE: UpdateFullStatus re-reads the file under lock  (code: TRUE)
          StatBeforeLock, \* TRUE: "is there a record to load?" is decided (os.Stat) BEFORE the file lock is taken (seeded
                          \* defect c14-size-check-before-lock); FALSE: by Seek(0,2) on the locked, open file (code: FALSE)
          FreshUpdates,   \* TRUE: updates may run before anybody has created the record (first updates race on an absent file)
          Kinds,          \* kinds of updates the actors make: subset of {"inc", "blind", "set", "clear"}
          KeepAbsentFields, \* TRUE: a field that is absent from the stored text keeps its old in-memory value on a re-read (seeded
                          \* defect c14-extradata-omitempty: a cleared ExtraData is stored without its key); FALSE: every field of
                          \* the in-memory copy is replaced by the stored record (the code: all keys are always written)
          UnlinkLockWhenFinal, \* TRUE: UpdateFullStatus removes "status.lock" inside its critical section (seeded defect
                          \* c14-lockfile-removed-when-final; the configuration stands for a record that is and stays final)
          TruncFirst   \* TRUE: UpdateFullStatus truncates, then writes (the code before its repair);
                       \* FALSE: writes the new record in place, then cuts the file to its length (code: FALSE)

None   == "none"
Absent == [k |-> "absent"]   \* the file does not exist
Empty  == [k |-> "empty"]    \* the file exists with length 0 (between truncate and write)

Obj == { ObjOf[a] : a \in Actors }

\* A stored record: a shared counter, one private field per actor, an opaque tag.
ZeroOwn    == [a \in Actors |-> 0]
\* x stands for a field that an update may CLEAR (ExtraData): 1 = present, 0 = cleared (stored as null - or, seeded, not at all)
Rec(c,o,h) == [k |-> "rec", cnt |-> c, own |-> o, h |-> h, x |-> 1]
IsRec(x)   == x.k = "rec"

\* The possible results of the update callback of actor a applied to record m:
\*  "inc"   - the harness' counting update: shared counter + 1, own field + 1
\*  "blind" - UpdateBasicStatus-like: only the opaque part changes
SuccInc(m, a, h)   == [Rec(m.cnt + 1, [m.own EXCEPT ![a] = @ + 1], h) EXCEPT !.x = m.x]
SuccBlind(m, a, h) == [Rec(m.cnt, m.own, h) EXCEPT !.x = m.x]
SuccSet(m, a, h)   == [Rec(m.cnt, m.own, h) EXCEPT !.x = 1]
SuccClear(m, a, h) == [Rec(m.cnt, m.own, h) EXCEPT !.x = 0]
\* what a re-read leaves in the in-memory copy old when the stored record is f
ReadInto(old, f) == IF KeepAbsentFields /\ f.x = 0 THEN [f EXCEPT !.x = old.x] ELSE f

VARIABLES
  file,      \* Absent | Empty | record          - the content of "status"
  fver,      \* ghost: number of completed writes to the file (the version counter)
  lock,      \* None | actor                      - holder of flock("status.lock")
  olock,     \* [Obj -> None | actor]             - holder of the object's statusLock
  mem,       \* [Obj -> record]                   - in-memory copy
  rver,      \* [Actors -> Nat]                   - ghost: version the actor's update is based on
  pc,        \* [Actors -> step]
  kind,      \* [Actors -> "inc"|"blind"]         - what the running update does
  left,      \* [Actors -> Nat]                   - operations left
  done,      \* ghost: number of completed counting updates
  doneBy,    \* ghost: [Actors -> Nat]
  torn,      \* ghost: [Actors -> BOOLEAN]  a completed read saw Empty
  lost,      \* ghost: BOOLEAN  a write was based on an older version than the one it replaced
  sawRec,    \* [Actors -> BOOLEAN]  result of the "size > 0" test of the running update
  \* the lock is an flock on the INODE the name "status.lock" pointed to when the actor opened it (at the start of its
  \* operation).  `lock` is the holder on the inode the name points to now; when the name is unlinked, the actors that
  \* had already opened it (oldq) keep contending on the old inode (oldlock) while new arrivals create a fresh file.
  oldlock,   \* None | actor   holder of the flock on the unlinked inode
  oldq       \* set of actors bound to the unlinked inode

vars == <<file, fver, lock, olock, mem, rver, pc, kind, left, done, doneBy, torn, lost, sawRec, oldlock, oldq>>

Init ==
  /\ file = Absent /\ fver = 0 /\ lock = None
  /\ olock = [o \in Obj |-> None]
  /\ mem = [o \in Obj |-> Rec(0, ZeroOwn, "init")]
  /\ rver = [a \in Actors |-> 0]
  /\ pc = [a \in Actors |-> "idle"]
  /\ kind = [a \in Actors |-> "inc"]
  /\ left = [a \in Actors |-> MaxOps]
  /\ done = 0 /\ doneBy = [a \in Actors |-> 0]
  /\ torn = [a \in Actors |-> FALSE]
  /\ lost = FALSE
  /\ sawRec = [a \in Actors |-> FALSE]
  /\ oldlock = None /\ oldq = {}

Created == fver > 0            \* Save has completed at least once: the unit is visible to others

\* ---------------------------------------------------------------- in-process lock, file lock
\* BaseWorkUnit.X: statusLock.Lock() ; then sfd.X -> lockStatusFile
ObjLock(a, next) ==
  /\ pc[a] = "idle" /\ left[a] > 0
  /\ olock[ObjOf[a]] = None
  /\ olock' = [olock EXCEPT ![ObjOf[a]] = a]
  /\ pc' = [pc EXCEPT ![a] = next]
  /\ left' = [left EXCEPT ![a] = @ - 1]

FLock(a, from, to) ==
  /\ pc[a] = from
  /\ IF a \in oldq THEN oldlock = None /\ oldlock' = a /\ UNCHANGED lock
                    ELSE lock = None /\ lock' = a /\ UNCHANGED oldlock
  /\ pc' = [pc EXCEPT ![a] = to]

Release(a) ==   \* deferred unlockStatusFile, then statusLock.Unlock()
  /\ lock' = IF lock = a THEN None ELSE lock
  /\ oldlock' = IF oldlock = a THEN None ELSE oldlock
  /\ oldq' = oldq \ {a}
  /\ olock' = [olock EXCEPT ![ObjOf[a]] = None]
  /\ pc' = [pc EXCEPT ![a] = "idle"]

\* ---------------------------------------------------------------- UpdateFullStatus
UFS_Begin(a, k) ==
  /\ Created \/ FreshUpdates
  /\ ObjLock(a, "u_want")
  /\ kind' = [kind EXCEPT ![a] = k]
  /\ sawRec' = [sawRec EXCEPT ![a] = IsRec(file)]       \* (used only when StatBeforeLock)
  /\ UNCHANGED <<file, fver, lock, mem, rver, done, doneBy, torn, lost, oldlock, oldq>>

UFS_Lock(a) ==
  /\ FLock(a, "u_want", "u_locked")
  /\ UNCHANGED <<file, fver, olock, mem, rver, kind, left, done, doneBy, torn, lost, sawRec, oldq>>

\* size := Seek(0,2); if size > 0 { loadFromFile }  - an empty or new file keeps the in-memory copy
\* m0 = the in-memory copy the object holds when nothing is loaded
UFS_ReadC(a, m0) ==
  /\ pc[a] = "u_locked"
  \* size := Seek(0,2) on the locked file - one step with the load, inside the lock
  /\ IF Reread /\ (IF StatBeforeLock THEN sawRec[a] /\ IsRec(file) ELSE IsRec(file))
       THEN mem' = [mem EXCEPT ![ObjOf[a]] = ReadInto(@, file)] /\ rver' = [rver EXCEPT ![a] = fver]
       ELSE mem' = [mem EXCEPT ![ObjOf[a]] = m0] /\ rver' = [rver EXCEPT ![a] = IF Reread /\ ~IsRec(file) THEN fver ELSE @]
  /\ pc' = [pc EXCEPT ![a] = "u_read"]
  /\ UNCHANGED <<file, fver, lock, olock, kind, left, done, doneBy, torn, lost, sawRec, oldlock, oldq>>

UFS_Read(a) == UFS_ReadC(a, mem[ObjOf[a]])

\* statusFunc(sfd)
UFS_Apply(a, h) ==
  /\ pc[a] = "u_read"
  /\ mem' = [mem EXCEPT ![ObjOf[a]] = CASE kind[a] = "inc" -> SuccInc(@, a, h) [] kind[a] = "set" -> SuccSet(@, a, h)
                                          [] kind[a] = "clear" -> SuccClear(@, a, h) [] OTHER -> SuccBlind(@, a, h)]
  /\ pc' = [pc EXCEPT ![a] = "u_applied"]
  /\ UNCHANGED <<file, fver, lock, olock, rver, kind, left, done, doneBy, torn, lost, sawRec, oldlock, oldq>>

\* before the repair: file.Truncate(0) ahead of the write - the file is empty in between;
\* since: file.Truncate(length of the new record) after the write - a stale tail behind the first JSON value is cut,
\* which no reader can tell (loadFromFile decodes the first value only)
UFS_Trunc(a) ==
  /\ IF TruncFirst THEN pc[a] = "u_applied" /\ file' = Empty /\ pc' = [pc EXCEPT ![a] = "u_truncd"]
                   ELSE pc[a] = "u_wrote" /\ UNCHANGED file /\ pc' = [pc EXCEPT ![a] = "u_written"]
  \* seeded: os.Remove(status.lock) here, still inside the section.  The actors that are blocked on the lock have opened
  \* the old inode and stay on it - with the holder - while the name is free for anybody who arrives from now on.
  \* (one unlinked generation at a time is modelled)
  /\ IF UnlinkLockWhenFinal /\ ~TruncFirst /\ lock = a /\ oldlock = None /\ oldq = {}
       THEN /\ lock' = None /\ oldlock' = a
            /\ oldq' = {b \in Actors : pc[b] \in {"u_want", "l_want", "s_want"}}
       ELSE UNCHANGED <<lock, oldlock, oldq>>
  /\ UNCHANGED <<fver, olock, mem, rver, kind, left, done, doneBy, torn, lost, sawRec>>

\* saveToFile(file)
UFS_Write(a) ==
  /\ pc[a] = IF TruncFirst THEN "u_truncd" ELSE "u_applied"
  /\ file' = mem[ObjOf[a]]
  /\ fver' = fver + 1
  /\ lost' = (lost \/ rver[a] # fver)
  /\ IF kind[a] = "inc"
       THEN done' = done + 1 /\ doneBy' = [doneBy EXCEPT ![a] = @ + 1]
       ELSE UNCHANGED <<done, doneBy, sawRec, oldlock, oldq>>
  /\ pc' = [pc EXCEPT ![a] = IF TruncFirst THEN "u_written" ELSE "u_wrote"]
  /\ UNCHANGED <<lock, olock, mem, rver, kind, left, torn, sawRec, oldlock, oldq>>

UFS_Unlock(a) ==
  /\ pc[a] = "u_written"
  /\ Release(a)
  /\ UNCHANGED <<file, fver, mem, rver, kind, left, done, doneBy, torn, lost, sawRec>>

\* ---------------------------------------------------------------- Load
Load_Begin(a) ==
  /\ ObjLock(a, "l_want")
  /\ UNCHANGED <<file, fver, lock, mem, rver, kind, done, doneBy, torn, lost, sawRec, oldlock, oldq>>

Load_Lock(a) ==
  /\ IF LoadLocks THEN FLock(a, "l_want", "l_locked")
                  ELSE pc[a] = "l_want" /\ pc' = [pc EXCEPT ![a] = "l_locked"] /\ UNCHANGED <<lock, oldlock>>
  /\ UNCHANGED <<file, fver, olock, mem, rver, kind, left, done, doneBy, torn, lost, sawRec, oldq>>

\* os.Open + ReadAll + Unmarshal: ENOENT when Absent (an error, not a torn read), parse error when Empty
Load_Read(a) ==
  /\ pc[a] = "l_locked"
  /\ IF IsRec(file) THEN mem' = [mem EXCEPT ![ObjOf[a]] = ReadInto(@, file)] ELSE UNCHANGED mem
  /\ torn' = [torn EXCEPT ![a] = @ \/ file = Empty]
  /\ pc' = [pc EXCEPT ![a] = "l_read"]
  /\ UNCHANGED <<file, fver, lock, olock, rver, kind, left, done, doneBy, lost, sawRec, oldlock, oldq>>

Load_Unlock(a) ==
  /\ pc[a] = "l_read"
  /\ Release(a)
  /\ UNCHANGED <<file, fver, mem, rver, kind, left, done, doneBy, torn, lost, sawRec>>

\* ---------------------------------------------------------------- Save (AllocateUnit: before the unit is visible)
Save_Enter(a) ==
  /\ ObjLock(a, "s_want")      \* (read side of statusLock in the code; the creator is alone on its object)
  /\ UNCHANGED <<file, fver, lock, mem, rver, kind, done, doneBy, torn, lost, sawRec, oldlock, oldq>>

\* A Save is a blind write: the design uses it only to create the record, before the unit is visible.
Save_Begin(a) == a = Creator /\ ~Created /\ Save_Enter(a)

Save_Lock(a) ==
  /\ IF SaveLocks THEN FLock(a, "s_want", "s_locked")
                  ELSE pc[a] = "s_want" /\ pc' = [pc EXCEPT ![a] = "s_locked"] /\ UNCHANGED <<lock, oldlock>>
  /\ UNCHANGED <<file, fver, olock, mem, rver, kind, left, done, doneBy, torn, lost, sawRec, oldq>>

\* os.OpenFile(O_CREATE|O_WRONLY|O_TRUNC)
Save_Trunc(a) ==
  /\ pc[a] = "s_locked"
  /\ file' = Empty
  /\ pc' = [pc EXCEPT ![a] = "s_truncd"]
  /\ UNCHANGED <<fver, lock, olock, mem, rver, kind, left, done, doneBy, torn, lost, sawRec, oldlock, oldq>>

Save_WriteC(a, c) ==
  /\ pc[a] = "s_truncd"
  /\ file' = c
  /\ fver' = fver + 1
  /\ pc' = [pc EXCEPT ![a] = "s_written"]
  /\ UNCHANGED <<lock, olock, mem, rver, kind, left, done, doneBy, torn, lost, sawRec, oldlock, oldq>>

Save_Write(a) == Save_WriteC(a, mem[ObjOf[a]])

Save_Unlock(a) ==
  /\ pc[a] = "s_written"
  /\ Release(a)
  /\ UNCHANGED <<file, fver, mem, rver, kind, left, done, doneBy, torn, lost, sawRec>>

\* ----------------------------------------------------------------
Step(a) ==
  \/ \E k \in Kinds : UFS_Begin(a, k)
  \/ UFS_Lock(a) \/ UFS_Read(a) \/ (\E h \in Tags : UFS_Apply(a, h)) \/ UFS_Trunc(a) \/ UFS_Write(a) \/ UFS_Unlock(a)
  \/ Load_Begin(a) \/ Load_Lock(a) \/ Load_Read(a) \/ Load_Unlock(a)
  \/ Save_Begin(a) \/ Save_Lock(a) \/ Save_Trunc(a) \/ Save_Write(a) \/ Save_Unlock(a)

Next == \E a \in Actors : Step(a)

Spec == Init /\ [][Next]_vars

\* ---------------------------------------------------------------- properties (C14)
InFileCS(a) == pc[a] \in {"u_locked", "u_read", "u_applied", "u_truncd", "u_wrote", "u_written",
                          "l_locked", "l_read", "s_locked", "s_truncd", "s_written"}

TypeOK ==
  /\ file \in {Absent, Empty} \/ (IsRec(file) /\ file.cnt \in Nat /\ DOMAIN file.own = Actors)
  /\ lock \in Actors \cup {None}

\* at most one actor is between Lock and Unlock of the file
Mutex == Cardinality({a \in Actors : InFileCS(a)}) <= 1

\* updates are applied one at a time to the latest stored record: nothing is lost, nobody's field is wiped
NoLostUpdate ==
  /\ ~lost
  /\ (IsRec(file) /\ \A a \in Actors : pc[a] \notin {"u_applied", "u_truncd"}) =>
        /\ file.cnt = done
        /\ \A a \in Actors : file.own[a] = doneBy[a]

\* the update is applied to the LATEST STORED record: after the read step the in-memory copy is the stored record, field by field
ReadReplacesAll == \A a \in Actors : (pc[a] = "u_read" /\ IsRec(file) /\ Reread /\ ~StatBeforeLock) => mem[ObjOf[a]] = file
\* a reader never sees a partially written (here: truncated, not yet rewritten) record
NoTornRead == \A a \in Actors : ~torn[a]

\* the file is empty only while its truncating writer holds the lock
EmptyOnlyInside == file = Empty => \E a \in Actors : pc[a] \in {"u_truncd", "s_truncd"}

\* anti-vacuity witnesses (each must be violated)
W_NoContention  == ~(\E a, b \in Actors : a # b /\ pc[a] \in {"u_truncd", "u_wrote"} /\ pc[b] \in {"u_want", "l_want"})
W_NoTwoUpdates  == done < 2
W_NoLoadOfRec   == ~(\E a \in Actors : pc[a] = "l_read" /\ IsRec(file) /\ done >= 1)
W_AllDone       == ~(\A a \in Actors : left[a] = 0 /\ pc[a] = "idle")
=============================================================================
