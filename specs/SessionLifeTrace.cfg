SPECIFICATION TSpec
INVARIANTS
  OnePerPeer
  PhasesOK
  Done
