SPECIFICATION TSpec
CONSTANTS
  Part = "socket"
  Deliverers = {d1, d2, d3, d4, d5, d6, d7, d8}
  Closers = {c1}
  MaxReads = 1
  ChanClosedBy = "nobody"
  WatcherQuitsOnDone = FALSE
  ListenerOrder = "ql_first"
  PingReaderCtx = "ping"
  PingErrSend = "select"
  PingUnrMax = 1
  EarlyWatcherFollows = "cctx"
  DeliveryHoldsRLock = FALSE
  KF_HalfCloseOnly = TRUE
INVARIANTS
  NoPanic
  Done
CHECK_DEADLOCK FALSE
