------------------------------- MODULE Admit -------------------------------
(***************************************************************************)
(* C11 at design level: one node, several backend sessions whose peers     *)
(* announce arbitrary ids at arbitrary moments and then behave or          *)
(* misbehave.  Every interleaving of the sessions' steps is explored,      *)
(* including two sessions announcing the same id "at once" (the            *)
(* already-connected test and the registration are one critical section,   *)
(* the adjacency update is a second one).  Actions are NetCore's.          *)
(***************************************************************************)
EXTENDS NetCore

CONSTANTS Self, Sessions, AnnIds, AllowAny, AllowSet, BaseCost, NodeCost

VARIABLES ns,
          ss    \* session -> [phase, id, cost, listed]   phase: fresh | admitted | est | closed
vars == <<ns, ss>>

NC == [x \in {"pa"} |-> 2]
CostFor(id) == IF Has(NodeCost, id) THEN NodeCost[id] ELSE BaseCost

Init == /\ ns = NewNode(Self, 5)
        /\ ss = [s \in Sessions |-> [phase |-> "fresh", id |-> "", cost |-> 0, listed |-> FALSE]]

\* first routing message of session s announces id: admission test + registration under connLock
Announce(s, id) ==
  /\ ss[s].phase = "fresh"
  /\ IF AdmitVerdict(ns, id, AllowAny, AllowSet) = "ok"
     THEN /\ ns' = EstConn(ns, id, CostFor(id))
          /\ ss' = [ss EXCEPT ![s] = [phase |-> "admitted", id |-> id, cost |-> CostFor(id), listed |-> FALSE]]
     ELSE /\ UNCHANGED ns
          /\ ss' = [ss EXCEPT ![s].phase = "closed"]

\* second critical section of the establishment
Adjacency(s) ==
  /\ ss[s].phase = "admitted"
  /\ ns' = EstKnown(ns, ss[s].id, ss[s].cost)
  /\ ss' = [ss EXCEPT ![s].phase = "est"]

\* an established peer sends its own update: lists us with cost c, or does not list us; forwarder f
PeerUpdate(s, lists, c, f, q) ==
  /\ ss[s].phase = "est"
  /\ LET id == ss[s].id
         u == Update(id, "x", 9, q, IF lists THEN [x \in {Self} |-> c] ELSE EmptyF, f, 0)
         r == RecvRoute([ns EXCEPT !.seen = {}], u, id)
     IN /\ ns' = r.ns
        /\ ss' = IF r.reject # "" THEN [ss EXCEPT ![s].phase = "closed"]
                 ELSE [ss EXCEPT ![s].listed = @ \/ (lists /\ f = id)]

\* the session ends for any other reason (peer closes, reject frame, idle timeout)
End(s) ==
  /\ ss[s].phase \in {"admitted", "est"}
  /\ ns' = RemoveConn(ns, ss[s].id)
  /\ ss' = [ss EXCEPT ![s].phase = "closed"]

Next == \E s \in Sessions :
          \/ \E id \in AnnIds : Announce(s, id)
          \/ Adjacency(s)
          \/ \E lists \in BOOLEAN, c \in {BaseCost, BaseCost + 1}, q \in 1..2 :
               \E f \in {ss[s].id, "other"} : PeerUpdate(s, lists, c, f, q)
          \/ End(s)
Spec == Init /\ [][Next]_vars

\* ---------------------------------------------------------------- C11
Open(s) == ss[s].phase \in {"admitted", "est"}

OnePerID == \A a, b \in Sessions : Open(a) /\ Open(b) /\ ss[a].id = ss[b].id => a = b

AdmittedOnly == \A p \in DOMAIN ns.conn : /\ p # "" /\ p # Self
                                          /\ (AllowAny \/ p \in AllowSet)
                                          /\ ns.conn[p] = CostFor(p)

ConnIffOpenSession == DOMAIN ns.conn = {ss[s].id : s \in {x \in Sessions : Open(x)}}

\* once no session is half-way through establishment, the node's own adjacency row is exactly its connections:
\* a rejected or ended session leaves no edge (hence no route) behind
NoEdgeLeftBehind ==
  (\A s \in Sessions : ss[s].phase # "admitted") =>
     /\ (ns.conn # EmptyF => Has(ns.known, Self))
     /\ (Has(ns.known, Self) => ns.known[Self] = ns.conn)
     /\ \A p \in (DOMAIN ns.known) \ {Self} : Has(ns.known[p], Self) => Has(ns.conn, p)

\* a peer that has listed us and then stops doing so, changes id, or disagrees about the cost is disconnected
MisbehaviourDisconnects ==
  [][ \A s \in Sessions :
        (ss[s].phase = "est" /\ ss'[s].phase = "est" /\ ns'.conn = ns.conn) \/ ss'[s].phase # "est" \/ ss[s].phase # "est"
    ]_vars

W_NoTwoSame == ~(\E a, b \in Sessions : a # b /\ ss[a].id = ss[b].id /\ ss[a].id # "" /\ ss[a].phase = "est" /\ ss[b].phase = "closed")
W_NoRejectCost == ~(\E s \in Sessions : ss[s].phase = "closed" /\ ss[s].listed)
=============================================================================
