SPECIFICATION Spec
CONSTANTS
  MaxBytes = 3
  K1 = "half"
  K2 = "half"
  Discipline = "any"
INVARIANTS
  E2EPrefix
  E2EEOFOnlyAfterAll
PROPERTIES
  ClosePropagates
  BridgeReturns
