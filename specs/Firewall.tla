------------------------------ MODULE Firewall ------------------------------
(***************************************************************************)
(* C12 - the packet filter of a Netceptor node as a decision procedure.    *)
(*                                                                         *)
(* Code: pkg/netceptor/firewall_rules.go (ParseFirewallRules, rule         *)
(* functions) and the first-match loop at the top of handleMessageData     *)
(* (pkg/netceptor/netceptor.go), including the notice path: a rejected     *)
(* packet is answered with an "unreach" packet which is itself passed      *)
(* through the same rule list, and a packet that is itself a notice is     *)
(* never answered.                                                         *)
(*                                                                         *)
(* Strings are concrete: a pattern is the very text a user would write,    *)
(* and PatInfo tabulates, for the finite string universe BU, whether the   *)
(* text is well-formed and which strings it fully matches.  The harness    *)
(* (cmd/vh firewall) feeds the same texts to the real parser and the same  *)
(* packets to a real node, so the table below is the independent oracle.   *)
(***************************************************************************)
EXTENDS Naturals, Sequences, FiniteSets, TLC, Json, SequencesExt

CONSTANTS MaxList,      \* maximal length of rule lists in family "list"
          Families,     \* subset of {"single","list"} to enumerate
          DumpFile      \* "" or the name of the NDJSON file to which all vectors are written

Self == "a"             \* id of the node under test

U  == {"a", "b", "ab", "aXb", "A", "axx", "xxb"}   \* node / service names in packets
BU == U \cup {"unreach"}                            \* plus the reserved notice service

FieldSet == {"fromnode", "tonode", "fromservice", "toservice"}

\* ---------------------------------------------------------------- patterns
GoodPats == {"a", "b", "ab", "A", "unreach", "/a/", "/a|b/", "/a.*b/", "/(?i)a/", "/.*/", "/[ab]+/", "//", "/a|ab/", "/a.*?/"}
BadPats  == {"/", "/[/", "/ab", "/(/", "/a)/", "/a)|(b/"}
AllPats  == GoodPats \cup BadPats

\* Full-match language of a well-formed pattern over BU.
Lang(p) ==
  CASE p = "a"        -> {"a"}
    [] p = "b"        -> {"b"}
    [] p = "ab"       -> {"ab"}
    [] p = "A"        -> {"A"}
    [] p = "unreach"  -> {"unreach"}
    [] p = "/a/"      -> {"a"}
    [] p = "/a|b/"    -> {"a", "b"}
    [] p = "/a.*b/"   -> {"ab", "aXb"}
    [] p = "/(?i)a/"  -> {"a", "A"}
    [] p = "/.*/"     -> BU
    [] p = "/[ab]+/"  -> {"a", "b", "ab"}
    [] p = "//"       -> {}
    [] p = "/a|ab/"   -> {"a", "ab"}                   \* leftmost-first alternation must still be a FULL match
    [] p = "/a.*?/"   -> {"a", "ab", "aXb", "axx"}     \* so must a trailing non-greedy quantifier
    [] OTHER          -> {}

PatOK(p) == p \in GoodPats

\* ---------------------------------------------------------------- rules
\* A rule as written in the configuration.  "" means the key is not given.
\* extra: a further malformed element of the rule map.
ActionKind(a) ==
  CASE a \in {"accept", "ACCEPT", "Accept"} -> "accept"
    [] a \in {"reject", "REJECT"}           -> "reject"
    [] a \in {"drop", "Drop"}               -> "drop"
    [] OTHER                                -> "bad"       \* "", "deny", ...

\* a value that is not a string, one variant per YAML/JSON type (nil = a key written without a value)
NonStringTypes == {"int", "bool", "nil", "list", "map", "float"}
Extras == {"none", "unknownkey", "unknownkey_nil", "nonstring_action"} \cup {"nonstring_field_" \o t : t \in NonStringTypes}
                \cup {"nonstring_action_nil"}

MkRule(act, fn, tn, fs, ts, extra, kc) ==
  [action |-> act, fromnode |-> fn, tonode |-> tn, fromservice |-> fs, toservice |-> ts,
   extra |-> extra, keycase |-> kc]

RuleOK(r) == /\ r.extra = "none"
             /\ ActionKind(r.action) # "bad"
             /\ \A f \in FieldSet : r[f] = "" \/ PatOK(r[f])

ParseOK(rs) == \A i \in 1..Len(rs) : RuleOK(rs[i])

\* A rule matches when all of its given fields fully match the packet's fields.
Matches(r, p) == \A f \in FieldSet : r[f] = "" \/ p[f] \in Lang(r[f])

\* First matching rule decides; accept when none matches.
Decide(rs, p) ==
  LET hits == {i \in 1..Len(rs) : Matches(rs[i], p)} IN
  IF hits = {} THEN "accept"
  ELSE ActionKind(rs[CHOOSE i \in hits : \A j \in hits : i <= j].action)

\* The notice a node builds for a rejected packet.
NoticePkt(p) == [fromnode |-> Self, fromservice |-> "unreach", tonode |-> p.fromnode, toservice |-> "unreach"]

\* What the node does with packet p:
\*   "pass"    normal processing (local delivery or forwarding)
\*   "silent"  nothing leaves the node
\*   "notice"  a 'blocked by firewall' notice is sent towards p.fromnode
Outcome(rs, p) ==
  LET d == Decide(rs, p) IN
  IF d = "accept" THEN "pass"
  ELSE IF d = "drop" THEN "silent"
  ELSE IF p.fromservice = "unreach" THEN "silent"            \* never answer a notice
  ELSE IF Decide(rs, NoticePkt(p)) = "accept" THEN "notice"  \* the notice is filtered too
  ELSE "silent"

\* The same packet arriving (or being sent) with no hops left.  The rule list is consulted FIRST - a dropped packet stays
\* silent and a rejected one is answered "blocked by firewall" whatever its hop count; only a packet the rules let pass
\* and that is for another node expires: the source is told "message expired" (a notice, filtered like any other),
\* unless the packet is itself a notice.
Outcome0(rs, p) ==
  LET o == Outcome(rs, p) IN
  IF o # "pass" \/ p.tonode = Self THEN o
  ELSE IF p.fromservice = "unreach" THEN "silent"
  ELSE IF Decide(rs, NoticePkt(p)) = "accept" THEN "expired"
  ELSE "silent"

\* ---------------------------------------------------------------- vector families
Pkt(fn, tn, fs, ts) == [fromnode |-> fn, tonode |-> tn, fromservice |-> fs, toservice |-> ts]

\* family "single": one rule; one focus field carries any pattern, at most one other field is "a".
SingleRules ==
  LET base(act) == MkRule(act, "", "", "", "", "none", "lower") IN
  { [[base(act) EXCEPT ![f] = pat] EXCEPT ![g] = IF g = f THEN pat ELSE "a"] :
      act \in {"accept", "reject", "drop"}, f \in FieldSet, pat \in AllPats, g \in FieldSet }

\* every malformed-element variant on an otherwise well-formed rule (all must be refused)
ExtraRules == { MkRule(act, fn, "", "", "", x, kc) : act \in {"accept", "drop"}, fn \in {"", "a"}, x \in Extras \ {"none"}, kc \in {"lower", "upper"} }

SinglePkts(r) ==
  \* the focus value ranges over U on every field the rule constrains; other fields are "a"/"b"
  { Pkt(fn, tn, fs, ts) :
      fn \in (IF r.fromnode = "" THEN {"a"} ELSE IF r.fromnode = "a" THEN {"a", "b"} ELSE U),
      tn \in (IF r.tonode = "" THEN {"a", "b"} ELSE IF r.tonode = "a" THEN {"a", "b"} ELSE U),
      fs \in (IF r.fromservice = "" THEN {"b"} ELSE IF r.fromservice = "a" THEN {"a", "b"} ELSE U),
      ts \in (IF r.toservice = "" THEN {"ab"} ELSE IF r.toservice = "a" THEN {"a", "b"} ELSE U) }

\* family "list": ordered lists of representative rules, valid and malformed.
Kinds ==
  { MkRule("accept", "", "", "", "", "none", "lower"),
    MkRule("drop",   "", "", "", "", "none", "lower"),
    MkRule("reject", "", "", "", "", "none", "lower"),
    MkRule("reject", "b", "", "", "", "none", "lower"),
    MkRule("Drop",   "", "b", "", "", "none", "upper"),
    MkRule("ACCEPT", "/a|b/", "", "", "", "none", "mixed"),
    MkRule("reject", "", "", "", "ab", "none", "lower"),
    MkRule("accept", "", "", "unreach", "", "none", "lower"),
    MkRule("reject", "/[/", "", "", "", "none", "lower"),
    MkRule("deny",   "", "", "", "", "none", "lower"),
    MkRule("",       "a", "", "", "", "none", "lower"),
    MkRule("drop",   "", "", "", "", "unknownkey", "lower"),
    MkRule("drop",   "", "", "", "", "nonstring_field_int", "lower"),
    MkRule("drop",   "", "", "", "", "nonstring_field_nil", "lower"),
    MkRule("drop",   "", "", "", "", "nonstring_field_list", "lower"),
    MkRule("accept", "", "", "", "", "unknownkey_nil", "lower"),
    MkRule("drop",   "", "", "", "", "nonstring_action", "lower") }

ListPkts == { Pkt(fn, tn, fs, ts) : fn \in {"a", "b", "ab"}, tn \in {"a", "b"}, fs \in {"ab", "unreach"}, ts \in {"ab", "b"} }

Lists(n) == UNION { [1..k -> Kinds] : k \in 0..n }

NoPkt == Pkt("", "", "", "")

Vec(fam, rs, p) ==
  [fam |-> fam, rules |-> rs, pkt |-> p,
   expect |-> IF ParseOK(rs)
              THEN [parse |-> "ok", decision |-> Decide(rs, p), outcome |-> Outcome(rs, p), outcome0 |-> Outcome0(rs, p)]
              ELSE [parse |-> "refused", decision |-> "-", outcome |-> "-", outcome0 |-> "-"]]

SingleVectors ==
  UNION { IF RuleOK(r) THEN { Vec("single", <<r>>, p) : p \in SinglePkts(r) }
                       ELSE { Vec("single", <<r>>, NoPkt) } : r \in SingleRules \cup ExtraRules }

ListVectors ==
  UNION { IF ParseOK(rs) THEN { Vec("list", rs, p) : p \in ListPkts }
                         ELSE { Vec("list", rs, NoPkt) } : rs \in Lists(MaxList) }

AllVectors == (IF "single" \in Families THEN SingleVectors ELSE {})
              \cup (IF "list" \in Families THEN ListVectors ELSE {})

\* ---------------------------------------------------------------- state machine: one state per vector
VARIABLE vec
Init == vec \in AllVectors
Next == UNCHANGED vec
Spec == Init /\ [][Next]_vec

\* ---------------------------------------------------------------- design-level properties (C12)
FirstMatchDecides ==
  vec.expect.parse = "ok" =>
    LET rs == vec.rules  p == vec.pkt IN
    \/ /\ \A i \in 1..Len(rs) : ~Matches(rs[i], p)
       /\ vec.expect.decision = "accept"                                  \* default accept
    \/ \E i \in 1..Len(rs) : /\ Matches(rs[i], p)
                             /\ \A j \in 1..(i-1) : ~Matches(rs[j], p)
                             /\ vec.expect.decision = ActionKind(rs[i].action)

BadRuleRefusesWholeList ==
  (\E i \in 1..Len(vec.rules) : ~RuleOK(vec.rules[i])) <=> vec.expect.parse = "refused"

DropIsSilent == vec.expect.parse = "ok" /\ vec.expect.decision = "drop" => vec.expect.outcome = "silent"

NoNoticeAboutNotice ==
  vec.expect.parse = "ok" /\ vec.pkt.fromservice = "unreach" => vec.expect.outcome # "notice"

NoticeOnlyOnReject == vec.expect.outcome = "notice" => vec.expect.decision = "reject"

\* the hop count never changes what the rules decide: without hops left a packet is treated as with hops, except that a
\* packet the rules let pass expires instead of being forwarded
RulesBeforeHopCount ==
  vec.expect.parse = "ok" =>
    /\ (vec.expect.outcome # "pass" => vec.expect.outcome0 = vec.expect.outcome)
    /\ (vec.expect.outcome = "pass" => vec.expect.outcome0 \in {"pass", "expired", "silent"})
W_NoExpired == vec.expect.outcome0 # "expired"

\* anti-vacuity witnesses (each must be violated by some vector)
W_NoNotice       == vec.expect.outcome # "notice"
W_NoBlockedNotice == ~(vec.expect.parse = "ok" /\ vec.expect.decision = "reject"
                        /\ vec.pkt.fromservice # "unreach" /\ vec.expect.outcome = "silent")
W_NoSecondRule   == ~(vec.expect.parse = "ok" /\ Len(vec.rules) >= 2
                        /\ ~Matches(vec.rules[1], vec.pkt) /\ Matches(vec.rules[2], vec.pkt))

\* ---------------------------------------------------------------- export
ASSUME DumpFile = "" \/ ndJsonSerialize(DumpFile, SetToSeq(AllVectors))
=============================================================================
