------------------------------ MODULE SessionLife ------------------------------
(***************************************************************************)
(* The life of a backend session around the routing protocol, at the       *)
(* code's grain (pkg/netceptor/netceptor.go: AddBackend, runProtocol,       *)
(* protoReader, protoWriter, sendInitialConnectMessage, removeConnection,   *)
(* monitorConnectionAging, tick runners; pkg/backends/utils.go:             *)
(* dialerSession, listenerSession).                                         *)
(*                                                                         *)
(* Two nodes: "a" owns one redialling dialer backend per link, "b" one      *)
(* listener backend per link.  A link carries at most two transport         *)
(* connections at a time (connection objects <<k,0>>, <<k,1>>): the dialer  *)
(* has one session per link at a time, but the listener may still hold the  *)
(* previous, silent one while the next arrives.  A connection object has a  *)
(* dialer end and a listener end and a FIFO per direction.                  *)
(*                                                                         *)
(* Message kinds: "U1" routing update of the sender that lists the          *)
(* receiver among its connections, "U0" one that does not (the initial      *)
(* connect message of a node without connection to the receiver), "RJ"      *)
(* type-3 reject frame.                                                     *)
(*                                                                         *)
(* Time.  Sync = TRUE: discrete ticks; timers are count-downs, a timer at 0 *)
(* must fire before time advances (urgency) and time advances only when no  *)
(* internal step is enabled (delivery and goroutine steps are faster than   *)
(* the timers: the assumption under which the liveness properties and the   *)
(* bound on silence are stated).  Sync = FALSE: no clocks at all; every     *)
(* timer may fire at any moment and the ageing monitor may cut any listed   *)
(* connection (a superset of what any timing and any slow goroutine can     *)
(* produce: the safety properties are checked there).                      *)
(*                                                                         *)
(* Deviations of the model from the code, and of the code from the plain    *)
(* reading of the requirements, are marked DEVIATION below.                 *)
(***************************************************************************)
EXTENDS SessionCore, TLC

CONSTANTS Links,          \* e.g. {1} or {1, 2}
          MaxIdle,        \* maxConnectionIdleTime in ticks
          Poll,           \* period of monitorConnectionAging (fixed 5 s in the code)
          KA,             \* routeUpdateTime: period of the own routing update, the keep-alive
          MaxInit,        \* the init sender gives up after this many messages (11 in the code: count > 10)
          MaxLev,         \* redial delay levels 0..MaxLev: delay = level + 1 ticks (5 s * 1.5^n, capped at 20 s, in the code)
          QLen,           \* capacity of one direction of a connection (a full direction blocks the writer)
          Sync,           \* see above
          CancelOnReturn, \* TRUE: runProtocol cancels ci.Context when it returns (code after the repair); FALSE: code as found
          SkipOnBackendCancel, \* FALSE: the deferred requests are abandoned only when the NODE context is done (code after the
                          \* second repair); TRUE: also when the backend context is done, i.e. after CancelBackends (code as found)
          EdgeGuard,      \* TRUE: removeConnection leaves the adjacency edge alone when the peer is connected again (code after the
                          \* third repair); FALSE: it deletes the edge by peer id whatever has happened since its first section
          Coarse,         \* TRUE: a main loop that is between two of its sequential steps runs on before anything else moves
          RealNodes,      \* nodes modelled at the code's grain; the other node (if any) is an adversary owning its connection ends
          BSilence, BCut, ShutNodes, CancelNodes, BReborn, BAdv, BIdle, BDial,   \* environment budgets
          Wit             \* TRUE: keep the witness counters

Nodes == {"a", "b"}
Peer(n) == IF n = "a" THEN "b" ELSE "a"
Side(n) == IF n = "a" THEN "d" ELSE "l"
Oth(e) == IF e = "d" THEN "l" ELSE "d"
CO == Links \X {0, 1}
None == <<0, 0>>
Lk(c) == c[1]
AgeCap == MaxIdle + Poll + 1
T0(x) == IF Sync THEN x ELSE 0          \* value a timer is set to
Due(x) == ~Sync \/ x = 0               \* the timer may fire

VARIABLES ctx,     \* node -> "up" | "bcancel" (CancelBackends: backend contexts cancelled, node alive) | "down" (Shutdown)
          listed,  \* node -> connection object whose session is s.connections[peer], or None
          adj,     \* node -> the own row of knownConnectionCosts has the edge to the peer
          table,   \* node -> the routing table has a route to the peer
          req,     \* node -> [upd, reb]: requests pending in the two tick runners
          tm,      \* node -> [ka, poll]: count-downs of the periodic update and of the ageing monitor
          ss,      \* node -> connection object -> session record
          co,      \* connection object -> [d, l, cut, qd, ql]
          mode,    \* link -> "ok" | "silent" (black hole: nothing is delivered, not even the close)
          dl,      \* link -> dialer goroutine of node a: [st, cur, cc, t, lev]
          ls,      \* link -> listener goroutine of node b: [st, cur, sock]
          bud,     \* remaining environment budget
          wit      \* witness counters

vars == <<ctx, listed, adj, table, req, tm, ss, co, mode, dl, ls, bud, wit>>

NoSess == [ph |-> "none", nxt |-> "ret", reg |-> FALSE, can |-> FALSE, rest |-> FALSE, rd |-> "off", rb |-> "no",
           wr |-> "off", ig |-> "off", ic |-> 0, it |-> 0, fl |-> "no", age |-> 0]
NewSess == [NoSess EXCEPT !.ph = "fresh", !.rd = "recv", !.wr = "run", !.ig = "send"]
NoCo == [d |-> "none", l |-> "none", cut |-> FALSE, qd |-> <<>>, ql |-> <<>>]

\* a session whose main loop and goroutines are all gone is forgotten (canonical form)
Norm(s) == IF s.ph = "none" /\ s.rd = "off" /\ s.wr = "off" /\ s.ig = "off" /\ s.fl = "no" THEN NoSess ELSE s

S(n, c) == ss[n][c]
\* ci.Context is a child of the backend context, which is a child of the node context
CanX(n, c) == ss[n][c].can \/ ctx[n] # "up"
SetS(n, c, r) == ss' = [ss EXCEPT ![n][c] = Norm(r)]

Init ==
  /\ ctx = [n \in Nodes |-> "up"]
  /\ listed = [n \in Nodes |-> None]
  /\ adj = [n \in Nodes |-> FALSE]
  /\ table = [n \in Nodes |-> FALSE]
  /\ req = [n \in Nodes |-> [upd |-> FALSE, reb |-> FALSE]]
  /\ tm = [n \in Nodes |-> [ka |-> T0(KA), poll |-> T0(Poll)]]
  /\ ss = [n \in Nodes |-> [c \in CO |-> NoSess]]
  /\ co = [c \in CO |-> NoCo]
  /\ mode = [k \in Links |-> "ok"]
  /\ dl = [k \in Links |-> [st |-> "dial", cur |-> None, cc |-> FALSE, t |-> 0, lev |-> 0]]
  /\ ls = [k \in Links |-> [st |-> "accept", cur |-> None, sock |-> TRUE]]
  /\ bud = [silence |-> BSilence, cut |-> BCut, shut |-> ShutNodes, cancel |-> CancelNodes, reborn |-> BReborn, adv |-> BAdv, idle |-> BIdle, dial |-> BDial]
  /\ wit = [redial |-> 0, idlecut |-> FALSE, reest |-> FALSE]

(***************************************************************************)
(* The transport                                                           *)
(***************************************************************************)
InQ(n, c) == IF n = "a" THEN co[c].qd ELSE co[c].ql
MyEnd(n, c) == IF n = "a" THEN co[c].d ELSE co[c].l
OthEnd(n, c) == IF n = "a" THEN co[c].l ELSE co[c].d
\* Recv of this end fails: own end closed, or nothing queued and the link was cut or the peer's close is visible
RecvErr(n, c) == \/ MyEnd(n, c) = "closed"
                 \/ /\ InQ(n, c) = <<>>
                    /\ co[c].cut \/ (OthEnd(n, c) = "closed" /\ mode[Lk(c)] = "ok")
\* the writer can take one more message (a closed own end makes Send fail instead of block)
CanSend(n, c) == /\ S(n, c).wr = "run"
                 /\ \/ MyEnd(n, c) # "open"
                    \/ mode[Lk(c)] = "silent"
                    \/ Len(IF n = "a" THEN co[c].ql ELSE co[c].qd) < QLen
SendFails(n, c) == MyEnd(n, c) # "open"
CoAfterSend(n, c, m) ==
  IF MyEnd(n, c) = "open" /\ mode[Lk(c)] = "ok" /\ ~co[c].cut
  THEN IF Peer(n) \notin RealNodes THEN co      \* DEVIATION (model): an adversary reads at once (never blocks the writer)
       ELSE IF n = "a" THEN [co EXCEPT ![c].ql = Append(@, m)] ELSE [co EXCEPT ![c].qd = Append(@, m)]
  ELSE co
\* protoWriter: Send error -> ci.CancelFunc(), return
AfterSend(n, c, r) == IF SendFails(n, c) THEN [r EXCEPT !.can = TRUE, !.wr = "off"] ELSE r

\* a connection object can be used for a new connection of its link
Reusable(c) == /\ co[c].d \in {"none", "closed"} /\ co[c].l \in {"none", "closed"}
               /\ ss["a"][c] = NoSess /\ ss["b"][c] = NoSess

(***************************************************************************)
(* dialerSession (pkg/backends/utils.go), one goroutine per dialer backend *)
(***************************************************************************)
Delay(lev) == T0(lev + 1)

\* df(closeChan) succeeds: the listening socket exists (the connection waits in its backlog)
DialOk(k) ==
  /\ dl[k].st = "dial" /\ ctx["a"] = "up" /\ ls[k].sock
  /\ Sync \/ bud.dial > 0                       \* untimed runs: the number of successful dials is bounded
  /\ bud' = IF Sync THEN bud ELSE [bud EXCEPT !.dial = @ - 1]
  /\ \E c \in CO : /\ Lk(c) = k /\ Reusable(c)
                   /\ \A c2 \in CO : (Lk(c2) = k /\ Reusable(c2)) => c[2] <= c2[2]
                   /\ co' = [co EXCEPT ![c] = [NoCo EXCEPT !.d = "open", !.l = "backlog"]]
                   /\ dl' = [dl EXCEPT ![k] = [st |-> "hand", cur |-> c, cc |-> FALSE, t |-> 0, lev |-> 0]]   \* redialDelayInc.Reset()
  /\ UNCHANGED <<ctx, listed, adj, table, req, tm, ss, mode, ls, wit>>

\* df fails (no listener, or the context is cancelled): wait and retry while `redial && ctx.Err() == nil`
DialFail(k) ==
  /\ dl[k].st = "dial" /\ (~ls[k].sock \/ ctx["a"] # "up")
  /\ dl' = [dl EXCEPT ![k] = IF ctx["a"] = "up"
                             THEN [@ EXCEPT !.st = "backoff", !.t = Delay(dl[k].lev), !.lev = IF @ < MaxLev THEN @ + 1 ELSE @]
                             ELSE [@ EXCEPT !.st = "off", !.cur = None, !.t = 0, !.lev = 0]]
  /\ UNCHANGED <<ctx, listed, adj, table, req, tm, ss, co, mode, ls, bud, wit>>

\* select { sessChan <- sess | ctx.Done() }: the AddBackend loop starts runProtocol
DialHand(k) ==
  /\ dl[k].st = "hand"
  /\ \/ /\ ss' = [ss EXCEPT !["a"][dl[k].cur] = NewSess]       \* with a cancelled context both branches are ready
        /\ dl' = [dl EXCEPT ![k].st = "wait"]
     \/ /\ ctx["a"] # "up"                                       \* DEVIATION (code): the session is dropped without Close()
        /\ dl' = [dl EXCEPT ![k] = [@ EXCEPT !.st = "off", !.t = 0, !.lev = 0]]
        /\ UNCHANGED ss
  /\ UNCHANGED <<ctx, listed, adj, table, req, tm, co, mode, ls, bud, wit>>

\* select { <-closeChan | ctx.Done() }; then `redial && ctx.Err() == nil` -> wait NextTimeout()
DialClosed(k) ==
  /\ dl[k].st = "wait"
  /\ \/ /\ dl[k].cc /\ ctx["a"] = "up"
        /\ dl' = [dl EXCEPT ![k] = [@ EXCEPT !.st = "backoff", !.t = Delay(dl[k].lev), !.lev = IF @ < MaxLev THEN @ + 1 ELSE @]]
     \/ /\ ctx["a"] # "up"
        /\ dl' = [dl EXCEPT ![k] = [@ EXCEPT !.st = "off", !.t = 0, !.lev = 0]]
  /\ UNCHANGED <<ctx, listed, adj, table, req, tm, ss, co, mode, ls, bud, wit>>

\* select { <-NextTimeout() -> continue | ctx.Done() -> return }
Redial(k) ==
  /\ dl[k].st = "backoff"
  /\ \/ /\ Due(dl[k].t)
        /\ dl' = [dl EXCEPT ![k].st = "dial"]
        /\ wit' = IF Wit THEN [wit EXCEPT !.redial = IF @ < 2 THEN @ + 1 ELSE @] ELSE wit
     \/ /\ ctx["a"] # "up"
        /\ dl' = [dl EXCEPT ![k] = [@ EXCEPT !.st = "off", !.t = 0, !.lev = 0]]
        /\ UNCHANGED wit
  /\ UNCHANGED <<ctx, listed, adj, table, req, tm, ss, co, mode, ls, bud>>

DialStep(k) == "a" \in RealNodes /\ (DialOk(k) \/ DialFail(k) \/ DialHand(k) \/ DialClosed(k) \/ Redial(k))

(***************************************************************************)
(* listenerSession, one goroutine per listener backend                     *)
(***************************************************************************)
Accept(k) ==
  /\ ls[k].st = "accept" /\ ls[k].sock /\ ctx["b"] = "up"
  /\ \E c \in CO : /\ Lk(c) = k /\ co[c].l = "backlog"
                   /\ co' = [co EXCEPT ![c].l = "open"]
                   /\ ls' = [ls EXCEPT ![k].st = "hand", ![k].cur = c]
  /\ UNCHANGED <<ctx, listed, adj, table, req, tm, ss, mode, dl, bud, wit>>

LisHand(k) ==
  /\ ls[k].st = "hand"
  /\ \/ /\ ss' = [ss EXCEPT !["b"][ls[k].cur] = NewSess]
        /\ ls' = [ls EXCEPT ![k].st = "accept", ![k].cur = None]
        /\ UNCHANGED co
     \/ /\ ctx["b"] # "up"                                       \* DEVIATION (code): the accepted connection is not closed
        /\ ls' = [ls EXCEPT ![k] = [st |-> "off", cur |-> None, sock |-> FALSE]]
        /\ co' = [c \in CO |-> IF Lk(c) = k /\ co[c].l = "backlog" THEN [co[c] EXCEPT !.l = "closed"] ELSE co[c]]
        /\ UNCHANGED ss
  /\ UNCHANGED <<ctx, listed, adj, table, req, tm, mode, dl, bud, wit>>

\* the accept loop polls its context once a second; lcf() closes the listening socket (the kernel resets the backlog)
LisExit(k) ==
  /\ ls[k].st = "accept" /\ ctx["b"] # "up"
  /\ ls' = [ls EXCEPT ![k] = [st |-> "off", cur |-> None, sock |-> FALSE]]
  /\ co' = [c \in CO |-> IF Lk(c) = k /\ co[c].l = "backlog" THEN [co[c] EXCEPT !.l = "closed"] ELSE co[c]]
  /\ UNCHANGED <<ctx, listed, adj, table, req, tm, ss, mode, dl, bud, wit>>

LisStep(k) == "b" \in RealNodes /\ (Accept(k) \/ LisHand(k) \/ LisExit(k))

(***************************************************************************)
(* protoReader                                                             *)
(***************************************************************************)
ReaderRecv(n, c) ==
  /\ S(n, c).rd = "recv" /\ MyEnd(n, c) = "open" /\ InQ(n, c) # <<>>
  /\ SetS(n, c, [S(n, c) EXCEPT !.rd = "have", !.rb = Head(InQ(n, c)), !.age = 0])   \* lastReceivedData = now
  /\ co' = IF n = "a" THEN [co EXCEPT ![c].qd = Tail(@)] ELSE [co EXCEPT ![c].ql = Tail(@)]
  /\ UNCHANGED <<ctx, listed, adj, table, req, tm, mode, dl, ls, bud, wit>>

ReaderErr(n, c) ==
  /\ S(n, c).rd = "recv" /\ RecvErr(n, c)
  /\ SetS(n, c, [S(n, c) EXCEPT !.rd = "off", !.can = TRUE])
  /\ UNCHANGED <<ctx, listed, adj, table, req, tm, co, mode, dl, ls, bud, wit>>

\* Every goroutine of the session that waits in a select with `<-ci.Context.Done()` returns once the context is
\* cancelled: the reader holding a message for ReadChan, the writer, the init sender, the flood goroutines.
\* DEVIATION (model): these independent exits are one step (they do not interact; a goroutine may still take its
\* other select branch before this step, see InitSend / FloodWrite / the main loop's receive actions).
Reap(n, c) ==
  /\ CanX(n, c)
  /\ S(n, c).rd = "have" \/ S(n, c).wr = "run" \/ S(n, c).ig # "off" \/ S(n, c).fl # "no"
  /\ SetS(n, c, [S(n, c) EXCEPT !.rd = IF @ = "have" THEN "off" ELSE @, !.rb = "no", !.wr = "off", !.ig = "off", !.it = 0, !.fl = "no"])
  /\ UNCHANGED <<ctx, listed, adj, table, req, tm, co, mode, dl, ls, bud, wit>>

(***************************************************************************)
(* protoWriter, flood goroutines, sendInitialConnectMessage                *)
(***************************************************************************)
\* one goroutine per flooded message: select { WriteChan <- message | ci.Context.Done() }
FloodWrite(n, c) ==
  /\ S(n, c).fl # "no"
  /\ CanSend(n, c)
  /\ co' = CoAfterSend(n, c, S(n, c).fl)
  /\ SetS(n, c, AfterSend(n, c, [S(n, c) EXCEPT !.fl = "no"]))
  /\ UNCHANGED <<ctx, listed, adj, table, req, tm, mode, dl, ls, bud, wit>>

\* makeRoutingUpdate(0) lists the current connections: "U1" iff the peer is connected (over whichever session)
InitSend(n, c) ==
  /\ S(n, c).ig = "send" /\ CanSend(n, c)
  /\ LET m == IF listed[n] # None THEN "U1" ELSE "U0"
         k == S(n, c).ic + 1
         r == IF k >= MaxInit
              THEN [S(n, c) EXCEPT !.ic = k, !.ig = "off", !.it = 0, !.can = TRUE]      \* "Giving up on connection initialization"
              ELSE [S(n, c) EXCEPT !.ic = k, !.ig = "wait", !.it = T0(1)]
     IN /\ co' = CoAfterSend(n, c, m)
        /\ SetS(n, c, AfterSend(n, c, r))
  /\ UNCHANGED <<ctx, listed, adj, table, req, tm, mode, dl, ls, bud, wit>>

InitWake(n, c) ==
  /\ S(n, c).ig = "wait" /\ Due(S(n, c).it) /\ ~CanX(n, c)
  /\ SetS(n, c, [S(n, c) EXCEPT !.ig = "send"])
  /\ UNCHANGED <<ctx, listed, adj, table, req, tm, co, mode, dl, ls, bud, wit>>

(***************************************************************************)
(* runProtocol main loop: one action per critical section (SessionCore)    *)
(***************************************************************************)
Go(n, c, ev, r) == SetS(n, c, [r EXCEPT !.ph = After(S(n, c).ph, ev, r.reg, r.nxt)])

\* first routing message on a fresh session (the peer's id is its ForwardingNode: always the other node here)
RecvFirst(n, c) ==
  /\ S(n, c).ph = "fresh" /\ S(n, c).rd = "have" /\ S(n, c).rb \in {"U0", "U1"}
  /\ LET r == [S(n, c) EXCEPT !.rd = "recv", !.rb = "no"]
     IN IF listed[n] # None
        THEN Go(n, c, "refuse", r) /\ UNCHANGED listed                             \* already_connected
        ELSE Go(n, c, "admit", [r EXCEPT !.reg = TRUE]) /\ listed' = [listed EXCEPT ![n] = c]
  /\ UNCHANGED <<ctx, adj, table, req, tm, co, mode, dl, ls, bud, wit>>

RecvRejectFresh(n, c) ==
  /\ S(n, c).ph = "fresh" /\ S(n, c).rd = "have" /\ S(n, c).rb = "RJ"
  /\ Go(n, c, "peer_reject", [S(n, c) EXCEPT !.rd = "recv", !.rb = "no"])
  /\ UNCHANGED <<ctx, listed, adj, table, req, tm, co, mode, dl, ls, bud, wit>>

\* initDoneChan <- true: possible only while the init sender is in its second select
InitDone(n, c) ==
  /\ S(n, c).ph = "reg" /\ S(n, c).ig = "wait"
  /\ Go(n, c, "init_done", [S(n, c) EXCEPT !.ig = "off", !.it = 0])
  /\ UNCHANGED <<ctx, listed, adj, table, req, tm, co, mode, dl, ls, bud, wit>>

KnownAdd(n, c) ==
  /\ S(n, c).ph = "idone"
  /\ adj' = [adj EXCEPT ![n] = TRUE]
  /\ Go(n, c, "known_add", S(n, c))
  /\ UNCHANGED <<ctx, listed, table, req, tm, co, mode, dl, ls, bud, wit>>

\* the tick runners exist as long as the node context; with only the backend context cancelled both select branches are ready
ReqUpdate(n, c) ==
  /\ S(n, c).ph \in {"adj", "end1"} /\ ctx[n] # "down"
  /\ req' = [req EXCEPT ![n].upd = TRUE]
  /\ Go(n, c, "req_update", S(n, c))
  /\ UNCHANGED <<ctx, listed, adj, table, tm, co, mode, dl, ls, bud, wit>>

ReqRebuild(n, c) ==
  /\ S(n, c).ph \in {"upd", "end2"} /\ ctx[n] # "down"
  /\ req' = [req EXCEPT ![n].reb = TRUE]
  /\ Go(n, c, "req_rebuild", S(n, c))
  /\ wit' = IF Wit /\ S(n, c).ph = "upd" /\ wit.redial > 0 /\ (\E c2 \in CO : ss[Peer(n)][c2].ph = "est")
            THEN [wit EXCEPT !.reest = TRUE] ELSE wit
  /\ UNCHANGED <<ctx, listed, adj, table, tm, co, mode, dl, ls, bud>>

\* the deferred requests are abandoned when the node context is done (the tick runners are gone then).  As found, the
\* code looked at the BACKEND context, which is also done after CancelBackends on a node that lives on: its routing
\* table then kept the route via the removed connection (SkipOnBackendCancel = TRUE, SessionLife_asis_cancel.cfg).
ReqSkip(n, c) ==
  /\ S(n, c).ph \in {"end1", "end2"} /\ (ctx[n] = "down" \/ (SkipOnBackendCancel /\ ctx[n] = "bcancel"))
  /\ Go(n, c, "req_skip", S(n, c))
  /\ UNCHANGED <<ctx, listed, adj, table, req, tm, co, mode, dl, ls, bud, wit>>

\* a message on an established session
RecvEst(n, c) ==
  /\ S(n, c).ph = "est" /\ S(n, c).rd = "have"
  /\ LET r == [S(n, c) EXCEPT !.rd = "recv", !.rb = "no"]
         m == S(n, c).rb
     IN CASE m = "U1" -> SetS(n, c, [r EXCEPT !.rest = TRUE])                        \* remoteEstablished; handleRoutingUpdate
          [] m = "U0" -> IF S(n, c).rest
                         THEN Go(n, c, "drop", [r EXCEPT !.nxt = "rej"])              \* "remote node no longer lists us"
                         ELSE SetS(n, c, r)                                           \* late initialization request: ignored
          [] m = "RJ" -> Go(n, c, "peer_reject", [r EXCEPT !.nxt = "ret"])
  /\ UNCHANGED <<ctx, listed, adj, table, req, tm, co, mode, dl, ls, bud, wit>>

\* <-ci.Context.Done() / <-ctx.Done() in one of the main loop's selects
MainCancel(n, c) ==
  /\ S(n, c).ph \in CancelPh /\ CanX(n, c)
  /\ Go(n, c, "cancel", [S(n, c) EXCEPT !.nxt = "ret"])
  /\ UNCHANGED <<ctx, listed, adj, table, req, tm, co, mode, dl, ls, bud, wit>>

\* removeConnection, first critical section (connLock): delete(s.connections, remoteNodeID) -- by peer id
ConnDel(n, c) ==
  /\ S(n, c).ph = "rmc"
  /\ listed' = [listed EXCEPT ![n] = None]
  /\ Go(n, c, "conn_del", S(n, c))
  /\ UNCHANGED <<ctx, adj, table, req, tm, co, mode, dl, ls, bud, wit>>

\* removeConnection, second critical section (knownNodeLock, and inside it a look at s.connections): delete both
\* directions of the edge -- by peer id, unless a new session of the peer has been admitted since the first section
KnownDel(n, c) ==
  /\ S(n, c).ph = "rmk"
  /\ adj' = [adj EXCEPT ![n] = IF EdgeGuard /\ listed[n] # None THEN @ ELSE FALSE]
  /\ Go(n, c, "known_del", S(n, c))
  /\ UNCHANGED <<ctx, listed, table, req, tm, co, mode, dl, ls, bud, wit>>

\* sendRejectMessage: select { ci.Context.Done() | WriteChan <- rejMsg }  (the second branch of MainCancel covers Done)
SendReject(n, c) ==
  /\ S(n, c).ph = "rej" /\ CanSend(n, c)
  /\ co' = CoAfterSend(n, c, "RJ")
  /\ Go(n, c, "reject_sent", AfterSend(n, c, S(n, c)))
  /\ UNCHANGED <<ctx, listed, adj, table, req, tm, mode, dl, ls, bud, wit>>

\* the deferred function: sess_end, sess.Close() (which also closes the dialer's closeChan)
SessEnd(n, c) ==
  /\ S(n, c).ph = "ret"
  /\ Go(n, c, "sess_end", IF CancelOnReturn THEN [S(n, c) EXCEPT !.can = TRUE] ELSE S(n, c))
  /\ co' = IF n = "a" THEN [co EXCEPT ![c].d = "closed", ![c].qd = <<>>] ELSE [co EXCEPT ![c].l = "closed", ![c].ql = <<>>]
  /\ dl' = IF n = "a" /\ dl[Lk(c)].cur = c THEN [dl EXCEPT ![Lk(c)].cc = TRUE] ELSE dl
  /\ UNCHANGED <<ctx, listed, adj, table, req, tm, mode, ls, bud, wit>>

GoStep(n, c) == ReaderRecv(n, c) \/ ReaderErr(n, c) \/ Reap(n, c) \/ FloodWrite(n, c) \/ InitSend(n, c) \/ InitWake(n, c)
MainStep(n, c) ==
  \/ RecvFirst(n, c) \/ RecvRejectFresh(n, c) \/ InitDone(n, c) \/ KnownAdd(n, c) \/ ReqUpdate(n, c) \/ ReqRebuild(n, c)
  \/ ReqSkip(n, c) \/ RecvEst(n, c) \/ MainCancel(n, c) \/ ConnDel(n, c) \/ KnownDel(n, c) \/ SendReject(n, c) \/ SessEnd(n, c)

\* Coarse = TRUE (used with Sync for the liveness runs, to keep them small): a main loop that is between two of its
\* sequential steps (these phases always have an enabled step) runs on before any other internal step is taken.
\* The races this hides are explored with Coarse = FALSE.
Urgent(n, c) == S(n, c).ph \in {"idone", "adj", "upd", "rmc", "rmk", "ret", "end1", "end2"}
UrgentSet == {x \in RealNodes \X CO : Urgent(x[1], x[2])}
Hold == Coarse /\ UrgentSet # {}
Chosen == CHOOSE x \in UrgentSet : TRUE
SessStepH(n, c) == IF Hold THEN <<n, c>> = Chosen /\ MainStep(n, c) ELSE GoStep(n, c) \/ MainStep(n, c)

(***************************************************************************)
(* Node-level goroutines                                                   *)
(***************************************************************************)
\* sendRoutingUpdate: nothing without connections; else makeRoutingUpdate + flood to every entry of s.connections.
\* DEVIATION (model): the two RLock sections (make, flood) are one step.
Flood(n) == IF listed[n] # None THEN ss' = [ss EXCEPT ![n][listed[n]].fl = "U1"] ELSE UNCHANGED ss
OwnUpdate(n) ==
  /\ req[n].upd /\ ctx[n] # "down"
  /\ req' = [req EXCEPT ![n].upd = FALSE]
  /\ Flood(n)
  /\ UNCHANGED <<ctx, listed, adj, table, tm, co, mode, dl, ls, bud, wit>>

Rebuild(n) ==
  /\ req[n].reb /\ ctx[n] # "down"
  /\ req' = [req EXCEPT ![n].reb = FALSE]
  /\ table' = [table EXCEPT ![n] = adj[n]]
  /\ UNCHANGED <<ctx, listed, adj, tm, ss, co, mode, dl, ls, bud, wit>>

\* the periodic routing update is the keep-alive
KATick(n) ==
  /\ Due(tm[n].ka) /\ ctx[n] # "down" /\ (Sync \/ (listed[n] # None /\ ss[n][listed[n]].fl = "no"))
  /\ tm' = [tm EXCEPT ![n].ka = T0(KA)]
  /\ Flood(n)                                   \* the tick runner calls sendRoutingUpdate itself
  /\ UNCHANGED <<ctx, listed, adj, table, req, co, mode, dl, ls, bud, wit>>

\* monitorConnectionAging: cancel every listed connection with time.Since(lastReceivedData) > maxConnectionIdleTime
PollTick(n) ==
  /\ Due(tm[n].poll) /\ ctx[n] # "down"
  /\ Sync \/ (listed[n] # None /\ ~ss[n][listed[n]].can /\ bud.idle > 0)
  /\ bud' = IF Sync THEN bud ELSE [bud EXCEPT !.idle = @ - 1]
  /\ tm' = [tm EXCEPT ![n].poll = T0(Poll)]
  /\ IF listed[n] # None /\ (~Sync \/ ss[n][listed[n]].age > MaxIdle)
     THEN /\ ss' = [ss EXCEPT ![n][listed[n]].can = TRUE]
          /\ wit' = IF Wit THEN [wit EXCEPT !.idlecut = TRUE] ELSE wit
     ELSE UNCHANGED <<ss, wit>>
  /\ UNCHANGED <<ctx, listed, adj, table, req, co, mode, dl, ls>>

NodeStepH(n) == ~Hold /\ (OwnUpdate(n) \/ Rebuild(n) \/ KATick(n) \/ PollTick(n))

\* Coarse also lets node a finish what it can do before node b moves (the nodes interact through the queues only)
AInternal == "a" \in RealNodes /\ (NodeStepH("a") \/ (\E c \in CO : SessStepH("a", c)) \/ (~Hold /\ \E k \in Links : DialStep(k)))
Turn(n) == ~Coarse \/ n = "a" \/ ~ENABLED AInternal
SessStep(n, c) == Turn(n) /\ SessStepH(n, c)
NodeStep(n) == Turn(n) /\ NodeStepH(n)
LisTurn(k) == Turn("b") /\ LisStep(k)
Internal == \/ \E n \in RealNodes : NodeStep(n) \/ (\E c \in CO : SessStep(n, c))
            \/ ~Hold /\ \E k \in Links : DialStep(k) \/ LisTurn(k)

(***************************************************************************)
(* Time                                                                    *)
(***************************************************************************)
TimersOK == /\ \A n \in Nodes : ctx[n] # "down" => tm[n].ka > 0 /\ tm[n].poll > 0
            /\ \A n \in Nodes, c \in CO : (S(n, c).ig = "wait" /\ ~CanX(n, c)) => S(n, c).it > 0
            /\ \A k \in Links : (dl[k].st = "backoff" /\ ctx["a"] = "up") => dl[k].t > 0

Dec(x) == IF x > 0 THEN x - 1 ELSE 0

Tick ==
  /\ Sync /\ TimersOK
  /\ ~ENABLED Internal
  /\ tm' = [n \in Nodes |-> IF ctx[n] # "down" THEN [ka |-> Dec(tm[n].ka), poll |-> Dec(tm[n].poll)] ELSE tm[n]]
  /\ ss' = [n \in Nodes |-> [c \in CO |->
              IF ss[n][c] = NoSess THEN NoSess
              ELSE [ss[n][c] EXCEPT !.it = Dec(@), !.age = IF @ < AgeCap THEN @ + 1 ELSE @]]]
  /\ dl' = [k \in Links |-> [dl[k] EXCEPT !.t = Dec(@)]]
  /\ UNCHANGED <<ctx, listed, adj, table, req, co, mode, ls, bud, wit>>

(***************************************************************************)
(* Environment                                                             *)
(***************************************************************************)
Silence(k) == /\ mode[k] = "ok" /\ bud.silence > 0
              /\ mode' = [mode EXCEPT ![k] = "silent"] /\ bud' = [bud EXCEPT !.silence = @ - 1]
              /\ UNCHANGED <<ctx, listed, adj, table, req, tm, ss, co, dl, ls, wit>>
Heal(k) == /\ mode[k] = "silent"
           /\ mode' = [mode EXCEPT ![k] = "ok"]
           /\ UNCHANGED <<ctx, listed, adj, table, req, tm, ss, co, dl, ls, bud, wit>>
\* the transport connection breaks: both ends see an error once they have drained what was queued
CutConn(c) == /\ co[c].d = "open" /\ ~co[c].cut /\ bud.cut > 0
              /\ co' = [co EXCEPT ![c].cut = TRUE] /\ bud' = [bud EXCEPT !.cut = @ - 1]
              /\ UNCHANGED <<ctx, listed, adj, table, req, tm, ss, mode, dl, ls, wit>>
Shutdown(n) == /\ n \in bud.shut /\ n \in RealNodes /\ ctx[n] # "down"
               /\ ctx' = [ctx EXCEPT ![n] = "down"] /\ bud' = [bud EXCEPT !.shut = @ \ {n}]
               /\ UNCHANGED <<listed, adj, table, req, tm, ss, co, mode, dl, ls, wit>>
CancelBackends(n) == /\ n \in bud.cancel /\ n \in RealNodes /\ ctx[n] = "up"
                     /\ ctx' = [ctx EXCEPT ![n] = "bcancel"] /\ bud' = [bud EXCEPT !.cancel = @ \ {n}]
                     /\ UNCHANGED <<listed, adj, table, req, tm, ss, co, mode, dl, ls, wit>>

QuietSessions(n) == \A c \in CO : ss[n][c] = NoSess
Quiet(n) == /\ QuietSessions(n)
            /\ n = "a" => \A k \in Links : dl[k].st = "off"
            /\ n = "b" => \A k \in Links : ls[k].st = "off"

\* the listener node is restarted (a new instance with the same id listens on the same address)
Reborn == /\ "b" \in RealNodes /\ ctx["b"] = "down" /\ Quiet("b") /\ bud.reborn > 0
          /\ ctx' = [ctx EXCEPT !["b"] = "up"] /\ bud' = [bud EXCEPT !.reborn = @ - 1]
          /\ listed' = [listed EXCEPT !["b"] = None] /\ adj' = [adj EXCEPT !["b"] = FALSE] /\ table' = [table EXCEPT !["b"] = FALSE]
          /\ req' = [req EXCEPT !["b"] = [upd |-> FALSE, reb |-> FALSE]]
          /\ tm' = [tm EXCEPT !["b"] = [ka |-> T0(KA), poll |-> T0(Poll)]]
          /\ co' = [c \in CO |-> IF co[c].l \in {"open", "backlog"} THEN [co[c] EXCEPT !.l = "closed", !.ql = <<>>] ELSE co[c]]
          /\ ls' = [k \in Links |-> [st |-> "accept", cur |-> None, sock |-> TRUE]]
          /\ UNCHANGED <<ss, mode, dl, wit>>

(***************************************************************************)
(* The adversary: a node outside RealNodes is not modelled; its connection  *)
(* ends do anything a peer or a transport can do (budget BAdv).             *)
(***************************************************************************)
Ghost(n) == n \notin RealNodes
Spend == bud' = [bud EXCEPT !.adv = @ - 1]
AdvSend(n, c, m) ==
  /\ Ghost(n) /\ bud.adv > 0 /\ MyEnd(n, c) = "open" /\ Len(IF n = "a" THEN co[c].ql ELSE co[c].qd) < QLen
  /\ co' = CoAfterSend(n, c, m) /\ Spend
  /\ UNCHANGED <<ctx, listed, adj, table, req, tm, ss, mode, dl, ls, wit>>
AdvDrain(n, c) ==
  /\ Ghost(n) /\ InQ(n, c) # <<>>
  /\ co' = IF n = "a" THEN [co EXCEPT ![c].qd = Tail(@)] ELSE [co EXCEPT ![c].ql = Tail(@)]
  /\ UNCHANGED <<ctx, listed, adj, table, req, tm, ss, mode, dl, ls, bud, wit>>
AdvClose(n, c) ==
  /\ Ghost(n) /\ bud.adv > 0 /\ MyEnd(n, c) \in {"open", "backlog"}
  /\ co' = IF n = "a" THEN [co EXCEPT ![c].d = "closed", ![c].qd = <<>>] ELSE [co EXCEPT ![c].l = "closed", ![c].ql = <<>>]
  /\ Spend
  /\ UNCHANGED <<ctx, listed, adj, table, req, tm, ss, mode, dl, ls, wit>>
\* the adversary dials the real listener / accepts the real dialer's connection
AdvDial(k) ==
  /\ Ghost("a") /\ bud.adv > 0 /\ ls[k].sock
  /\ \E c \in CO : /\ Lk(c) = k /\ Reusable(c)
                   /\ \A c2 \in CO : (Lk(c2) = k /\ Reusable(c2)) => c[2] <= c2[2]
                   /\ co' = [co EXCEPT ![c] = [NoCo EXCEPT !.d = "open", !.l = "backlog"]]
  /\ Spend
  /\ UNCHANGED <<ctx, listed, adj, table, req, tm, ss, mode, dl, ls, wit>>
AdvAccept(c) ==
  /\ Ghost("b") /\ co[c].l = "backlog"
  /\ co' = [co EXCEPT ![c].l = "open"]
  /\ UNCHANGED <<ctx, listed, adj, table, req, tm, ss, mode, dl, ls, bud, wit>>
\* the adversary's listening socket goes away / comes back
AdvListen(k) ==
  /\ Ghost("b") /\ bud.adv > 0
  /\ ls' = [ls EXCEPT ![k].sock = ~@] /\ Spend
  /\ co' = IF ls[k].sock THEN [c \in CO |-> IF Lk(c) = k /\ co[c].l = "backlog" THEN [co[c] EXCEPT !.l = "closed"] ELSE co[c]] ELSE co
  /\ UNCHANGED <<ctx, listed, adj, table, req, tm, ss, mode, dl, wit>>
Adversary == \/ \E n \in Nodes, c \in CO : AdvDrain(n, c) \/ AdvClose(n, c) \/ AdvAccept(c) \/ (\E m \in {"U0", "U1", "RJ"} : AdvSend(n, c, m))
             \/ \E k \in Links : AdvDial(k) \/ AdvListen(k)

Env == \/ \E k \in Links : Silence(k) \/ Heal(k)
       \/ Adversary
       \/ \E c \in CO : CutConn(c)
       \/ \E n \in Nodes : Shutdown(n) \/ CancelBackends(n)
       \/ Reborn

Next == Internal \/ Tick \/ Env

Spec == Init /\ [][Next]_vars

Fairness == /\ WF_vars(Tick)
            /\ \A n \in RealNodes : WF_vars(NodeStep(n)) /\ \A c \in CO : WF_vars(SessStep(n, c))
            /\ \A k \in Links : WF_vars(~Hold /\ DialStep(k)) /\ WF_vars(~Hold /\ LisTurn(k))
FairSpec == Spec /\ Fairness

(***************************************************************************)
(* Safety                                                                  *)
(***************************************************************************)
TypeOK ==
  /\ \A n \in Nodes : /\ ctx[n] \in {"up", "bcancel", "down"} /\ listed[n] \in CO \cup {None}
                      /\ \A c \in CO : /\ S(n, c).ph \in Phases /\ S(n, c).ph # "BAD"
                                       /\ S(n, c).ic \in 0..MaxInit /\ S(n, c).age \in 0..AgeCap
  /\ \A c \in CO : Len(co[c].qd) <= QLen /\ Len(co[c].ql) <= QLen

\* at most one session per peer id is entered in s.connections
OnePerPeer == \A n \in Nodes : Cardinality({c \in CO : S(n, c).ph \in ListedPh}) <= 1

\* a connection is listed exactly while its session is in a listed phase (in particular only while the session is open)
ListedIffOpen == \A n \in Nodes, c \in CO : (listed[n] = c) <=> (S(n, c).ph \in ListedPh)

\* after the session's clean-up nothing of it is left: connection entry (above), adjacency edge ...
EdgeOnlyWhileHeld == \A n \in Nodes : adj[n] => \E c \in CO : S(n, c).ph \in EdgePh \cup ListedPh
\* ... and an established session has its edge (fails with EdgeGuard = FALSE: an older session deletes the newer one's edge)
EstHasEdge == \A n \in Nodes, c \in CO : S(n, c).ph \in {"adj", "upd", "est"} => adj[n]

\* ... a table that differs from the adjacency picture has a rebuild coming as long as the node lives
WillRebuild(s) == s.ph \in {"idone", "adj", "upd"} \/ (s.reg /\ s.ph \in {"rmc", "rmk", "rej", "ret", "end1", "end2"})
RebuildComing == \A n \in Nodes : (ctx[n] # "down" /\ table[n] # adj[n]) => (req[n].reb \/ \E c \in CO : WillRebuild(S(n, c)))

\* ... and no goroutine of it: whatever still runs after the main loop is gone has been cancelled or is about to fail
Orphan(n, c) == /\ S(n, c).ph = "none" /\ S(n, c) # NoSess
                /\ ~CanX(n, c)
                /\ ~(S(n, c).rd = "recv" /\ RecvErr(n, c))
                /\ ~(S(n, c).rd = "off" /\ S(n, c).ig = "off" /\ S(n, c).fl = "no")   \* a lone writer ends with the context
NoOrphan == \A n \in Nodes, c \in CO : ~Orphan(n, c)

\* no initial-connect message is handed to the writer once the rendezvous has taken place
NoInitAfterDone == \A n \in Nodes, c \in CO : S(n, c).ph \in {"idone", "adj", "upd", "est"} => S(n, c).ig = "off"

\* a listed connection is never silent for more than MaxIdle + Poll ticks without being cancelled
AgeBound == Sync => \A n \in Nodes : (ctx[n] # "down" /\ listed[n] # None /\ ~S(n, listed[n]).can) => S(n, listed[n]).age <= MaxIdle + Poll

\* the dialer has at most one session per backend, and re-dials only when that one has been closed
OneDialSession == \A k \in Links : Cardinality({c \in CO : Lk(c) = k /\ ss["a"][c].ph \in RunPh \cup {"ret"}}) <= 1
DialerWaits == \A k \in Links : dl[k].st \in {"dial", "backoff"} => \A c \in CO : Lk(c) = k => ss["a"][c].ph \in {"none", "end1", "end2"}

\* after Shutdown / CancelBackends and the end of what was running, nothing of the node's backends can move
DownStaysQuiet == \A n \in Nodes : (ctx[n] # "up" /\ Quiet(n)) =>
                    ~ENABLED (\/ \E c \in CO : SessStep(n, c)
                              \/ (n = "a" /\ \E k \in Links : DialStep(k))
                              \/ (n = "b" /\ \E k \in Links : LisStep(k)))

(***************************************************************************)
(* Liveness (FairSpec, Sync = TRUE)                                        *)
(***************************************************************************)
EnvGood == /\ \A n \in Nodes : ctx[n] = "up"
           /\ \A k \in Links : mode[k] = "ok" /\ ls[k].sock
BothEst == \E c \in CO : ss["a"][c].ph = "est" /\ ss["b"][c].ph = "est" /\ listed["a"] = c /\ listed["b"] = c /\ table["a"] /\ table["b"]

\* both nodes stay up and the link works from some point on => they end up established with each other, with routes
EventuallyConnected == (<>[]EnvGood) => (<>[]BothEst)

\* a listed connection over a link that went silent is removed (or the link heals / the node stops)
SilentIsCut == \A n \in Nodes, c \in CO :
                 (listed[n] = c /\ mode[Lk(c)] = "silent") ~> (listed[n] # c \/ mode[Lk(c)] = "ok" \/ ctx[n] = "down")
\* the dialer whose session was closed dials again (or stops because its context is cancelled)
DialerRedials == \A k \in Links : (dl[k].st = "wait" /\ dl[k].cc) ~> (dl[k].st \in {"dial", "off"})
\* after Shutdown / CancelBackends everything of the node's backends ends
CancelEndsAll == \A n \in Nodes : (ctx[n] # "up") ~> (Quiet(n) \/ ctx[n] = "up")
\* the routing table follows the adjacency picture
TableFollows == \A n \in Nodes : (ctx[n] # "down" /\ table[n] # adj[n]) ~> (table[n] = adj[n] \/ ctx[n] = "down")

(***************************************************************************)
(* Witnesses (each must be VIOLATED)                                       *)
(***************************************************************************)
W_NoRedial == wit.redial = 0
W_NoIdleCut == ~wit.idlecut
W_NoInitTwice == \A n \in Nodes, c \in CO : S(n, c).ic < 3
W_NoBothEst == ~BothEst
W_NoReEst == ~wit.reest
W_NoCutThenReEst == ~(wit.idlecut /\ wit.redial > 0 /\ BothEst)
W_NoRefuse == \A n \in Nodes, c \in CO : ~(S(n, c).ph = "rej" /\ ~S(n, c).reg)
W_NoSkip == \A n \in Nodes, c \in CO : ~(S(n, c).ph \in {"end1", "end2"} /\ ctx[n] = "bcancel")
=============================================================================
