SPECIFICATION SimSpec
CONSTANTS
  Self = "n1"
  SelfEpoch = 5
  Peers = {"p1", "p2", "p3"}
  Origins = {"p1", "p2", "x", "y", "n1"}
  Ids = {"u1", "u2", "u3", "u4"}
  ConnSets <- CS_full
  MaxSeq = 3
  MaxSteps = 10
  WithExpire = FALSE
  DumpHist = TRUE
INVARIANTS
  TypeOK
  KnownSelfIsConn
  Export
PROPERTIES
  NoChangeOnStale
  InfoMonotone
  NeverBack
  SelfFilter
  RelayOnce
  SeenGrows
  GenuineIsRelayed
