SPECIFICATION Spec
CONSTANTS
  MaxFrames = 3
  MaxLen = 3
  VecFrames = 2
  VecLen = 3
  DumpFile = "framer_vectors.ndjson"
INVARIANTS
  OutIsPrefix
  Complete
  Aligned
PROPERTIES
  AllOut
