--------------------------- MODULE LifecycleTrace ---------------------------
(***************************************************************************)
(* Trace validation for C17 (B2): the hook events of a real history are    *)
(* projected on (node, service) objects by "vlc c17hist"; every object's   *)
(* event order must be a behaviour of the socket part of Lifecycle.tla:    *)
(*   reset                    next object (the previous one must be        *)
(*                            released: not registered, nobody parked)     *)
(*   open     pc_open         the name must be free                        *)
(*   begin    dp_begin        Deliver_Begin finding the socket registered  *)
(*                            with a live context (under the registry lock)*)
(*   unknown  dp_unknown      Deliver_Begin finding it absent or cancelled *)
(*   deliver  dp_deliver      Deliver_Send by a deliverer that had begun   *)
(*                            (Read_Begin/Read_Return of the unobserved    *)
(*                            reader are composed with it)                 *)
(*   drop     dp_deliver_closed  Deliver_Wake: only with a cancelled context*)
(*   close    pc_close        Close / CloseAgain                           *)
(* A line no action accepts is printed as <<"REJECT", l, ...>> and the     *)
(* rest of that object is skipped, so every object is judged.              *)
(***************************************************************************)
EXTENDS Lifecycle, Sequences, Json

Trace == ndJsonDeserialize("trace.ndjson")

VARIABLES l, skip, nobj
tvars == <<vars, l, skip, nobj>>

Fresh ==
  /\ sctx = "live"
  /\ reg = FALSE /\ ctx = "cancelled" /\ chan = "open" /\ adv = FALSE
  /\ dl = [d \in Deliverers |-> "idle"] /\ rd = "idle" /\ nreads = 0
  /\ cl = [c \in Closers |-> "idle"] /\ ncl = 0
  /\ gUnsub = "done" /\ gFwd = "done" /\ gBroker = "done" /\ nodeSub = FALSE

OtherParts ==
  /\ dial = "none" /\ ereg = FALSE /\ ectx = "none" /\ okCh = FALSE /\ cctx = FALSE /\ uctx = FALSE
  /\ g1 = "none" /\ gmon = "none" /\ g2 = "none" /\ dDone = FALSE /\ qc = "none"
  /\ dOps = {} /\ aOps = {} /\ aDone = FALSE /\ acctx = FALSE /\ gaw = "none" /\ gam = "none"
  /\ lpc = "open" /\ lsrv = TRUE /\ tmutex = "free" /\ once = "free" /\ lc = "idle" /\ tr = "reading"
  /\ preg = FALSE /\ pctx = "none" /\ pingctx = "live" /\ parent = "live" /\ pmain = "idle" /\ pDone = FALSE
  /\ gRead = "none" /\ gErr = "none" /\ gS1 = "none" /\ gS2 = "none" /\ unr = 0 /\ replied = FALSE

TInit == Fresh /\ OtherParts /\ l = 1 /\ skip = FALSE /\ nobj = 0

Ev(e) == l <= Len(Trace) /\ Trace[l].ev = e
Step == l' = l + 1
Parked == {d \in Deliverers : dl[d] \in {"looked", "blocked"}}
UnSocket == UNCHANGED <<sctx, streamVars, listenerVars, pingVars>>

\* released at the end of an object's life: unregistered, nobody parked in a delivery
ReleasedAtEnd == ~reg /\ Parked = {}

TReset ==
  /\ Ev("reset") /\ Step /\ nobj' = nobj + 1 /\ skip' = FALSE
  /\ IF skip \/ l = 1 \/ ReleasedAtEnd THEN TRUE
     ELSE PrintT(<<"REJECT", l, "not_released_at_end", [reg |-> reg, ctx |-> ctx, chan |-> chan, parked |-> Cardinality(Parked)]>>)
  /\ reg' = FALSE /\ ctx' = "cancelled" /\ chan' = "open" /\ adv' = FALSE
  /\ dl' = [d \in Deliverers |-> "idle"] /\ rd' = "idle" /\ nreads' = 0
  /\ cl' = [c \in Closers |-> "idle"] /\ ncl' = 0
  /\ gUnsub' = "done" /\ gFwd' = "done" /\ gBroker' = "done" /\ nodeSub' = FALSE
  /\ UnSocket

G_open == ~reg
TOpen ==    \* NewPacketConn / listen(): registered, fresh context and channel, StartUnreachable
  /\ Ev("open") /\ ~skip /\ G_open /\ Step
  /\ reg' = TRUE /\ ctx' = "live" /\ chan' = "open" /\ adv' = Trace[l].adv
  /\ gUnsub' = "alive" /\ gFwd' = "alive" /\ gBroker' = "alive" /\ nodeSub' = TRUE
  /\ UNCHANGED <<dl, rd, nreads, cl, ncl, skip, nobj>> /\ UnSocket

G_begin == reg /\ ctx = "live" /\ \E d \in Deliverers : dl[d] = "idle"
TBegin ==
  /\ Ev("begin") /\ ~skip /\ G_begin /\ Step
  /\ LET d == CHOOSE x \in Deliverers : dl[x] = "idle" IN Deliver_Begin(d) /\ dl'[d] = "looked"
  /\ UNCHANGED <<skip, nobj>> /\ UnSocket

G_unknown == ~(reg /\ ctx = "live")
TUnknown ==
  /\ Ev("unknown") /\ ~skip /\ G_unknown /\ Step
  /\ UNCHANGED <<socketVars, skip, nobj>> /\ UnSocket

G_deliver == Parked # {} /\ chan = "open"
TDeliver == \* Read_Begin ; Deliver_Send(d) ; Read_Return, and the deliverer's slot is reused
  /\ Ev("deliver") /\ ~skip /\ G_deliver /\ Step
  /\ LET d == CHOOSE x \in Parked : TRUE IN dl' = [dl EXCEPT ![d] = "idle"]
  /\ UNCHANGED <<reg, ctx, chan, adv, rd, nreads, cl, ncl, gUnsub, gFwd, gBroker, nodeSub, skip, nobj>> /\ UnSocket

G_drop == Parked # {} /\ ctx = "cancelled"
TDrop ==    \* Deliver_Wake(d) (its guard: the context is cancelled); slot reused
  /\ Ev("drop") /\ ~skip /\ G_drop /\ Step
  /\ LET d == CHOOSE x \in Parked : TRUE IN dl' = [dl EXCEPT ![d] = "idle"]
  /\ chan' = IF ChanClosedBy = "deliverer" THEN (IF chan = "open" THEN "closed" ELSE "PANIC") ELSE chan
  /\ UNCHANGED <<reg, ctx, adv, rd, nreads, cl, ncl, gUnsub, gFwd, gBroker, nodeSub, skip, nobj>> /\ UnSocket

TClose ==   \* Close(c): always enabled; the closer's slot is reused (CloseAgain)
  /\ Ev("close") /\ ~skip /\ Step
  /\ reg' = FALSE /\ ctx' = "cancelled" /\ adv' = FALSE /\ ncl' = IF ncl < 3 THEN ncl + 1 ELSE ncl
  /\ gUnsub' = "done" /\ gFwd' = "done" /\ gBroker' = "done" /\ nodeSub' = FALSE
  /\ UNCHANGED <<chan, dl, rd, nreads, cl, skip, nobj>> /\ UnSocket

Accepts ==
  \/ (Ev("open") /\ G_open) \/ (Ev("begin") /\ G_begin) \/ (Ev("unknown") /\ G_unknown)
  \/ (Ev("deliver") /\ G_deliver) \/ (Ev("drop") /\ G_drop) \/ Ev("close")
TBad ==
  /\ l <= Len(Trace) /\ Trace[l].ev # "reset" /\ Step
  /\ \/ skip /\ skip' = TRUE
     \/ ~skip /\ ~Accepts /\ skip' = TRUE
        /\ PrintT(<<"REJECT", l, Trace[l].ev, [reg |-> reg, ctx |-> ctx, chan |-> chan, parked |-> Cardinality(Parked)]>>)
  /\ UNCHANGED <<socketVars, nobj>> /\ UnSocket

TNext == TReset \/ TOpen \/ TBegin \/ TUnknown \/ TDeliver \/ TDrop \/ TClose \/ TBad
TSpec == TInit /\ [][TNext]_tvars

Done == l = Len(Trace) + 1 =>
          /\ PrintT(<<"DONE", l - 1, nobj>>)
          /\ IF skip \/ ReleasedAtEnd THEN TRUE
             ELSE PrintT(<<"REJECT", l, "not_released_at_end", [reg |-> reg, ctx |-> ctx, chan |-> chan, parked |-> Cardinality(Parked)]>>)
=============================================================================
