------------------------------ MODULE TLSVerify ------------------------------
(***************************************************************************)
(* C09 - the accept/refuse decision for a TLS peer as a decision table.    *)
(*                                                                         *)
(* Code: netceptor.ReceptorVerifyFunc (pkg/netceptor/netceptor.go), the    *)
(* way Netceptor.GetClientTLSConfig and TLSServerConfig / TLSClientConfig  *)
(* Prepare functions install it (tlsconfig.go), and the stream-listener    *)
(* rule of conn.go (GetConfigForClient: the expected name of a client      *)
(* certificate is the node the packets come from).                         *)
(*                                                                         *)
(* A vector is one abstract (certificate, configuration) pair.  Two        *)
(* verdicts are tabulated:                                                 *)
(*   prop - the conjunction of the conditions of property C09 (the upper   *)
(*          bound: whatever the code accepts must be accepted here);       *)
(*   code - what the code is meant to do.  It is stricter in one named     *)
(*          respect: a pin list containing an entry whose length is not    *)
(*          that of a sha224/256/384/512 digest refuses, even next to a    *)
(*          matching entry (the loop in ReceptorVerifyFunc returns on the  *)
(*          first entry of unknown length).  Stricter is not a violation.  *)
(* The harness (cmd/vtab tls) builds real X.509 artefacts for every vector *)
(* and requires  real accepts => prop  and, when the pin list is           *)
(* well-formed,  code => real accepts.                                     *)
(***************************************************************************)
EXTENDS Naturals, Sequences, FiniteSets, TLC, Json, SequencesExt

CONSTANTS Issuers,       \* subset of {"trusted","trusted_inter","otherca","selfsigned"}
          Validities,    \* subset of {"valid","expired","notyet"}
          Usages,        \* subset of {"server","client","both","neither","absent"}
          NameSets,      \* subset of NameSetUniverse
          PinLists,      \* set of sequences over PinKinds
          Roles,         \* subset of {"server","client"}: the role of the PEER being verified
          Modes,         \* subset of {"receptor","dns","dns_noname"}
          StreamSrcs,    \* set of node ids (token sequences) for the stream-listener family
          MaxTick,       \* the abstract clock of the "clock" family runs over 0..MaxTick
          KF_LookupMutatesStored, \* FALSE: the code.  TRUE: the counter-example variant in which GetClientTLSConfig applies the
                         \* name-mode switch to the STORED named configuration before cloning it: the first receptor-mode lookup leaves
                         \* InsecureSkipVerify set on the stored object and every later lookup of that name returns a configuration
                         \* without verifier; it must FAIL LookupsIndependent (TLSVerify_variants.cfg)
          KF_TimeFrozenAtCreation, \* FALSE: the code.  TRUE: the counter-example variant in which the verifier reads the clock
                         \* when it is CREATED (x509.VerifyOptions / time.Now() hoisted out of the per-handshake closure) and
                         \* judges every later certificate against that instant; it must FAIL ValidityJudgedAtHandshake
                         \* (TLSVerify_timefrozen.cfg)
          KF_DigestCachedAcrossCalls, \* FALSE: the code.  TRUE: the counter-example variant in which one verify-function
                         \* instance keeps the digest of the FIRST certificate it saw (digest cache hoisted out of the
                         \* per-call scope); it must FAIL HistoryIndependent (TLSVerify_digestcache.cfg)
          KF_ColonSplit, \* FALSE: the code as repaired (8d11383).  TRUE: the counter-example variant - the listener
                         \* splits "node:service" at the first ':' (finding C09:stream-name-colon-split); it must FAIL
                         \* AcceptImpliesAll / CodeWithinProp / StreamBindsSource (TLSVerify_colonsplit.cfg)
          DumpFile

\* Range(s) (the set of elements of a sequence) comes from Functions via SequencesExt

\* ---------------------------------------------------------------- certificate names
\* Names are relative to the identifier the verifier expects: "E" is that identifier, "O" and
\* "O2" are different ones (the harness tries a case variant, a proper prefix, an extension and
\* an unrelated string for every O).
NameSetUniverse == {"expected", "other", "several", "none", "dnsonly", "dnsother", "both", "rec_other_dns_expected"}

RNames(ns) ==    \* receptor names (otherName entries with the receptor OID) in the SAN
  CASE ns = "expected" -> <<"E">>
    [] ns = "other"    -> <<"O">>
    [] ns = "several"  -> <<"O", "E", "O2">>
    [] ns = "both"     -> <<"E">>
    [] ns = "rec_other_dns_expected" -> <<"O">>
    [] OTHER           -> <<>>

DNames(ns) ==    \* dNSName entries in the SAN
  CASE ns = "dnsonly"  -> <<"E">>
    [] ns = "dnsother" -> <<"O">>
    [] ns = "both"     -> <<"E">>
    [] ns = "rec_other_dns_expected" -> <<"E">>
    [] OTHER           -> <<>>

\* ---------------------------------------------------------------- pins
\* m<bits>: the digest of that size of the presented certificate; x<bits>: some other digest of
\* that size; n<bits>: the matching digest with one bit flipped (n256: in the last byte, n512: in the first);
\* w<bytes>: a byte string that is no digest length at all.
PinKinds == {"m224", "m256", "m384", "m512", "x256", "x512", "n256", "n512", "w20", "w33"}
PinMatches(k)    == k \in {"m224", "m256", "m384", "m512"}
PinWellFormed(k) == k \notin {"w20", "w33"}
PinConfigurable(k) == k \in {"m256", "m512", "x256", "x512", "n256", "n512"}   \* decodeFingerprints: 32 or 64 bytes only

PinsWellFormed(p)   == \A i \in 1..Len(p) : PinWellFormed(p[i])
PinsConfigurable(p) == \A i \in 1..Len(p) : PinConfigurable(p[i])

\* pin lists and stream sources for the configurations (the cfg syntax has no tuples)
PinListsQuick == {<<>>, <<"m256">>, <<"m512">>, <<"x256">>, <<"w20">>, <<"x256", "m256">>, <<"m256", "w20">>,
                  <<"x512", "x256">>, <<"m384">>, <<"n256">>, <<"n512", "x256">>}
PinListsFull  == PinListsQuick \cup
                 {<<"m224">>, <<"x512">>, <<"w33">>, <<"x512", "m512">>, <<"m256", "x512">>, <<"w20", "m256">>,
                  <<"x256", "w33", "m512">>}
PinListsWit   == {<<>>, <<"x256">>, <<"m256", "w20">>, <<"x256", "m256">>}   \* small space for the witness runs
StreamSrcsQuick == {<<"a">>, <<"a", ":", "b">>}
StreamSrcsFull  == StreamSrcsQuick \cup {<<"a", ":", "b", ":", "c">>}

\* ---------------------------------------------------------------- the five conditions of C09
ChainOK(v) == v.issuer \in {"trusted", "trusted_inter"}
TimeOK(v)  == v.validity = "valid"
UsageOK(v) == v.usage \in {"both", "absent"} \/ v.usage = v.role     \* no EKU extension = unrestricted
PinOK(v)   == v.pins = <<>> \/ \E i \in 1..Len(v.pins) : PinMatches(v.pins[i])
NameOK(v)  == CASE v.mode = "receptor"   -> "E" \in Range(RNames(v.names))
                [] v.mode = "dns"        -> "E" \in Range(DNames(v.names))
                [] v.mode = "dns_noname" -> TRUE       \* what PrepareTLSServerConfig installs: no name expected

Conds(v) == [chain |-> ChainOK(v), time |-> TimeOK(v), usage |-> UsageOK(v), pin |-> PinOK(v), name |-> NameOK(v)]
CondNames == {"chain", "time", "usage", "pin", "name"}
Failed(v) == {c \in CondNames : ~Conds(v)[c]}

PropAccept(v) == Failed(v) = {}
CodeAccept(v) == PropAccept(v) /\ PinsWellFormed(v.pins)

OnlyFailure(v) == IF Cardinality(Failed(v)) = 1 THEN CHOOSE c \in Failed(v) : TRUE ELSE "-"

\* ---------------------------------------------------------------- the stream-listener rule
\* A node id is a sequence of tokens; ":" is the separator the code splits the packet source
\* address "node:service" at.  The property: the expected name is the node the packets claim to
\* come from.  The code takes the node of the typed source address - the same thing.  Before the
\* repair it took the text before the first ':' of "node:service" (LegacyStreamExpected), which
\* differs for node ids that contain ':'; that variant is kept under KF_ColonSplit = TRUE.
HasColon(src) == ":" \in Range(src)
FirstColon(src) == CHOOSE i \in 1..Len(src) : src[i] = ":" /\ \A j \in 1..(i-1) : src[j] # ":"
LegacyStreamExpected(src) == IF HasColon(src) THEN SubSeq(src, 1, FirstColon(src) - 1) ELSE src
CodeStreamExpected(src) == IF KF_ColonSplit THEN LegacyStreamExpected(src) ELSE src
PropStreamExpected(src) == src

\* which id the client certificate names, relative to the source node
StreamNameKinds == {"src", "codeprefix", "other", "none"}
StreamCertName(src, k) ==
  CASE k = "src"        -> <<src>>
    [] k = "codeprefix" -> <<LegacyStreamExpected(src)>>     \* the near miss the legacy split would accept
    [] k = "other"      -> <<<<"o">>>>
    [] k = "none"       -> <<>>

\* ---------------------------------------------------------------- vectors
Base(fam, is, va, us, ns, pl, ro, mo) ==
  [fam |-> fam, issuer |-> is, validity |-> va, usage |-> us, names |-> ns, pins |-> pl, role |-> ro, mode |-> mo]

\* (an explicit record: merging with @@ makes TLC build function values and costs 3-4 times the CPU, measured)
TableVec(b) ==       \* conds = Conds(b), fl = Failed(b); prop = PropAccept(b), code = CodeAccept(b), computed once
  LET cs == Conds(b)
      fl == {c \in CondNames : ~cs[c]}
      wf == PinsWellFormed(b.pins)
  IN
  [fam |-> b.fam, issuer |-> b.issuer, validity |-> b.validity, usage |-> b.usage, names |-> b.names, pins |-> b.pins, role |-> b.role, mode |-> b.mode,
   src |-> <<>>, namekind |-> "-", certnames |-> <<>>, seqpins |-> <<>>, calls |-> <<>>,
   conds |-> cs, nfail |-> Cardinality(fl), only |-> IF Cardinality(fl) = 1 THEN CHOOSE c \in fl : TRUE ELSE "-",
   pins_wellformed |-> wf, pins_configurable |-> PinsConfigurable(b.pins),
   expect |-> [prop |-> fl = {}, code |-> fl = {} /\ wf]]

TableVectors ==
  { TableVec(Base("table", is, va, us, ns, pl, ro, mo)) :
      is \in Issuers, va \in Validities, us \in Usages, ns \in NameSets, pl \in PinLists, ro \in Roles, mo \in Modes }

\* stream family: a client certificate presented to a RequireAndVerifyClientCert stream listener
\* by the node src; chain/time/usage vary, pins are not configurable on this path.
StreamVec(is, va, us, src, k) ==
  LET names  == StreamCertName(src, k)
      chain  == is \in {"trusted", "trusted_inter"}
      time   == va = "valid"
      usage  == us \in {"both", "absent", "client"}
      pname  == PropStreamExpected(src) \in Range(names)
      cname  == CodeStreamExpected(src) \in Range(names)
      other  == chain /\ time /\ usage
      nfailp == Cardinality({c \in {1, 2, 3, 4} : ~(<<chain, time, usage, pname>>[c])})
  IN [fam |-> "stream", issuer |-> is, validity |-> va, usage |-> us, names |-> "-", pins |-> <<>>,
      role |-> "client", mode |-> "receptor", src |-> src, namekind |-> k, certnames |-> names, seqpins |-> <<>>, calls |-> <<>>,
      conds |-> [chain |-> chain, time |-> time, usage |-> usage, pin |-> TRUE, name |-> pname],
      nfail |-> nfailp,
      only |-> IF nfailp # 1 THEN "-" ELSE IF ~chain THEN "chain" ELSE IF ~time THEN "time" ELSE IF ~usage THEN "usage" ELSE "name",
      pins_wellformed |-> TRUE, pins_configurable |-> TRUE,
      expect |-> [prop |-> other /\ pname, code |-> other /\ cname]]

StreamVectors ==
  { StreamVec(is, va, us, src, k) :
      is \in Issuers, va \in Validities, us \in Usages, src \in StreamSrcs, k \in StreamNameKinds }

\* ---------------------------------------------------------------- history independence (family "seq")
\* In production one verify-function instance / one tls.Config lives for many connections
\* (PrepareTLSServerConfig builds one function per tls-server entry and GetServerTLSConfig's Clone copies
\* that very function value; a client configuration is reused for redials).  The decision must be a
\* FUNCTION of (certificate, configuration): the verdict of the k-th call on an instance is
\* Accept(calls[k], cfg) whatever was presented before.
\* Certificates: A, B and C satisfy every condition other than the pin (trusted chain, valid, usable for
\* both roles, carrying the expected name as receptor name and dNSName) and differ only in identity
\* (C is never pinned); X differs from them in the chain only (other authority).  A pin names a digest algorithm and the
\* certificate it is the digest of.
SeqCerts == {"A", "B", "C", "X"}
SeqOtherOK(c) == c \in {"A", "B", "C"}
Pin(alg, c) == [alg |-> alg, of |-> c]
SeqPinLists == {<<>>, <<Pin("256", "A")>>, <<Pin("512", "A")>>, <<Pin("256", "A"), Pin("512", "B")>>,
                <<Pin("512", "B"), Pin("256", "A")>>, <<Pin("256", "A"), Pin("512", "A")>>}
SeqPinOK(c, pins) == pins = <<>> \/ \E i \in 1..Len(pins) : pins[i].of = c
SeqAccept(c, pins) == SeqOtherOK(c) /\ SeqPinOK(c, pins)          \* the table's verdict for one call

\* the counter-example variant: digests are computed lazily per algorithm and then kept by the instance.
\* cache[alg] is the certificate whose digest of that algorithm the instance holds ("-" = none yet).
\* The pin loop runs before chain verification, on every call of an instance that has pins.
Algs == {"256", "512"}
CacheAfter(calls, pins, k) ==       \* cache after the first k calls
  [a \in Algs |-> IF k = 0 \/ ~\E i \in 1..Len(pins) : pins[i].alg = a THEN "-" ELSE calls[1]]
CachedPinOK(calls, pins, k) ==
  pins = <<>> \/ \E i \in 1..Len(pins) :
     LET held == CacheAfter(calls, pins, k - 1)[pins[i].alg] IN
       pins[i].of = (IF held = "-" THEN calls[k] ELSE held)
ModelVerdict(calls, pins, k) ==
  IF KF_DigestCachedAcrossCalls THEN SeqOtherOK(calls[k]) /\ CachedPinOK(calls, pins, k)
  ELSE SeqAccept(calls[k], pins)

CallSeqs == { <<a>> : a \in SeqCerts } \cup { <<a, b>> : a, b \in SeqCerts }
            \cup { <<a, b, c>> : a, b, c \in {"A", "B", "C"} }
SeqVec(ro, mo, pins, cs) ==
  [fam |-> "seq", issuer |-> "-", validity |-> "-", usage |-> "-", names |-> "-", pins |-> <<>>, role |-> ro, mode |-> mo,
   src |-> <<>>, namekind |-> "-", certnames |-> <<>>, seqpins |-> pins,
   calls |-> LET C(k) == [cert |-> cs[k], accept |-> ModelVerdict(cs, pins, k),
                          pinok |-> SeqPinOK(cs[k], pins), otherok |-> SeqOtherOK(cs[k])]
             IN IF Len(cs) = 1 THEN <<C(1)>> ELSE IF Len(cs) = 2 THEN <<C(1), C(2)>> ELSE <<C(1), C(2), C(3)>>,   \* a tuple, not a function
   conds |-> [chain |-> TRUE, time |-> TRUE, usage |-> TRUE, pin |-> TRUE, name |-> TRUE], nfail |-> 0, only |-> "-",
   pins_wellformed |-> TRUE, pins_configurable |-> TRUE, expect |-> [prop |-> TRUE, code |-> TRUE]]
SeqVectors == { SeqVec(ro, mo, pins, cs) : ro \in Roles, mo \in Modes, pins \in SeqPinLists, cs \in CallSeqs }

\* ---------------------------------------------------------------- creation and handshake are two steps (family "clock")
\* A verifier (the function returned by ReceptorVerifyFunc, the tls.Config that carries it) is CREATED at
\* one instant and used for HANDSHAKES at later instants: a client configuration fetched once by a tcp/unix
\* proxy, the verifier PrepareTLSServerConfig builds at start-up.  "Currently valid" refers to the clock at the
\* handshake step.  The abstract clock has ticks 0..MaxTick; a certificate window [nb, na] has its bounds in
\* -1..MaxTick+1 and contains tick t iff nb <= t <= na (the harness maps a tick to a real instant and puts the
\* real NotBefore/NotAfter half a tick before/after the bound).  Everything other than time is fine here
\* (trusted chain, usable for both roles, expected name present, no pins).
Ticks   == 0..MaxTick
Bounds  == (0 - 1)..(MaxTick + 1)
Windows == {w \in Bounds \X Bounds : w[1] <= w[2]}
InWindow(t, w) == w[1] <= t /\ t <= w[2]
HandshakeTimes(tc) == { <<t>> : t \in tc..MaxTick } \cup { h \in (tc..MaxTick) \X (tc..MaxTick) : h[1] < h[2] }
ClockVerdict(tc, t, w) == InWindow(IF KF_TimeFrozenAtCreation THEN tc ELSE t, w)
ClockClass(tc, t, w) ==
  CASE InWindow(tc, w) /\ InWindow(t, w) -> "valid_both"
    [] InWindow(tc, w) /\ t > w[2]       -> "valid_at_creation_expired_at_handshake"
    [] tc < w[1] /\ InWindow(t, w)       -> "notyet_at_creation_valid_at_handshake"
    [] tc < w[1] /\ t > w[2]             -> "notyet_at_creation_expired_at_handshake"
    [] t < w[1]                          -> "notyet_both"
    [] OTHER                             -> "expired_both"
ClockVec(ro, mo, tc, w, hs) ==
  [fam |-> "clock", issuer |-> "trusted", validity |-> "-", usage |-> "both", names |-> "both", pins |-> <<>>, role |-> ro, mode |-> mo,
   src |-> <<>>, namekind |-> "-", certnames |-> <<>>, seqpins |-> <<>>, calls |-> <<>>,
   clock |-> [tc |-> tc, nb |-> w[1], na |-> w[2],
              hs |-> LET H(k) == [at |-> hs[k], accept |-> ClockVerdict(tc, hs[k], w), class |-> ClockClass(tc, hs[k], w)]
                     IN IF Len(hs) = 1 THEN <<H(1)>> ELSE <<H(1), H(2)>>],
   conds |-> [chain |-> TRUE, time |-> TRUE, usage |-> TRUE, pin |-> TRUE, name |-> TRUE], nfail |-> 0, only |-> "-",
   pins_wellformed |-> TRUE, pins_configurable |-> TRUE, expect |-> [prop |-> TRUE, code |-> TRUE]]
ClockVectors ==
  UNION { { ClockVec(ro, mo, tc, w, hs) : ro \in Roles, mo \in Modes, w \in Windows, hs \in HandshakeTimes(tc) } : tc \in Ticks }

\* ---------------------------------------------------------------- lookups of a named client configuration (family "lookup")
\* One node holds one named tls-client configuration (SetClientTLSConfig) and looks it up repeatedly
\* (GetClientTLSConfig): workceptor's validation lookup with the dummy host "testhost", receptor-name-mode lookups for
\* streams to a node, DNS-mode lookups for backend peers.  Lookups are independent: the stored configuration is never
\* changed by a lookup, so the k-th lookup judges every certificate exactly like a first lookup with the same
\* arguments.  After every lookup each certificate class is presented to the configuration it returned.
LookupCerts == {"good", "selfsigned", "expired", "othername", "unpinned"}
\*   good: trusted, valid, names the expected id E (receptor name and dNSName), the pinned one when pins are configured
\*   unpinned: like good but another certificate; the others differ from good in one condition each
LkR == [mode |-> "receptor", name |-> "E"]
LkD == [mode |-> "dns", name |-> "E"]
LkT == [mode |-> "receptor", name |-> "testhost"]       \* no certificate names "testhost"
LookupSeqs == {<<LkR, LkR>>, <<LkR, LkD>>, <<LkD, LkR>>, <<LkD, LkD>>, <<LkT, LkR>>, <<LkT, LkD>>, <<LkD, LkT, LkD>>, <<LkR, LkD, LkR>>}
LookupFailed(l, c, pinned) ==
  (IF c = "selfsigned" THEN {"chain"} ELSE {}) \cup (IF c = "expired" THEN {"time"} ELSE {})
  \cup (IF c = "othername" \/ l.name = "testhost" THEN {"name"} ELSE {}) \cup (IF c = "unpinned" /\ pinned THEN {"pin"} ELSE {})
LookupAccept(l, c, pinned) == LookupFailed(l, c, pinned) = {}
Poisoned(ls, k) == KF_LookupMutatesStored /\ \E j \in 1..(k - 1) : ls[j].mode = "receptor"
LookupVec(pinned, ls) ==
  [fam |-> "lookup", issuer |-> "-", validity |-> "-", usage |-> "-", names |-> "-", pins |-> <<>>, role |-> "server", mode |-> "-",
   src |-> <<>>, namekind |-> "-", certnames |-> <<>>, seqpins |-> <<>>, calls |-> <<>>,
   lookup |-> [pinned |-> pinned,
               steps |-> LET S(k) == [mode |-> ls[k].mode, name |-> ls[k].name,
                                      accept |-> [c \in LookupCerts |-> Poisoned(ls, k) \/ LookupAccept(ls[k], c, pinned)]]
                         IN IF Len(ls) = 2 THEN <<S(1), S(2)>> ELSE <<S(1), S(2), S(3)>>],
   conds |-> [chain |-> TRUE, time |-> TRUE, usage |-> TRUE, pin |-> TRUE, name |-> TRUE], nfail |-> 0, only |-> "-",
   pins_wellformed |-> TRUE, pins_configurable |-> TRUE, expect |-> [prop |-> TRUE, code |-> TRUE]]
LookupVectors == { LookupVec(pinned, ls) : pinned \in BOOLEAN, ls \in LookupSeqs }

AllVectors == TableVectors \cup StreamVectors \cup SeqVectors \cup ClockVectors \cup LookupVectors

\* ---------------------------------------------------------------- state machine: one state per vector
VARIABLE vec
\* the families are disjoint (field fam); enumerating them one by one spares TLC the element-wise
\* de-duplication of a union of lazily enumerated sets (measured: 140 s instead of 30 s)
Init == vec \in TableVectors \/ vec \in StreamVectors \/ vec \in SeqVectors \/ vec \in ClockVectors \/ vec \in LookupVectors
Next == UNCHANGED vec
Spec == Init /\ [][Next]_vec

\* ---------------------------------------------------------------- design-level properties (C09)
IsTable  == vec.fam = "table"
IsStream == vec.fam = "stream"

\* the verdicts stored in a table vector are the operators' values
VerdictsAreDefinitions ==
  IsTable => vec.expect.prop = PropAccept(vec) /\ vec.expect.code = CodeAccept(vec) /\ vec.only = OnlyFailure(vec)

\* acceptance implies every condition
AcceptImpliesAll ==
  vec.expect.code => \A c \in CondNames : vec.conds[c]

\* failure of any single condition refuses
SingleFailureRefuses ==
  vec.nfail >= 1 => ~vec.expect.prop /\ (IsTable => ~vec.expect.code)

\* the code never accepts what the property refuses
CodeWithinProp ==
  vec.expect.code => vec.expect.prop

\* apart from malformed pin lists the code accepts everything the property allows
WellFormedEquiv ==
  IsTable /\ vec.pins_wellformed => (vec.expect.code <=> vec.expect.prop)

\* a server certificate is not a client certificate and vice versa
RoleSeparation ==
  IsTable /\ vec.usage \in {"server", "client", "neither"} /\ vec.usage # vec.role => ~vec.expect.code

\* a dNSName never stands in for a receptor name, and in receptor mode dNSNames are irrelevant
ReceptorModeIgnoresDNS ==
  IsTable /\ vec.mode = "receptor" =>
     /\ (vec.names \in {"dnsonly", "dnsother", "none"} => ~vec.expect.code)
     /\ CodeAccept([vec EXCEPT !.names = "both"]) = CodeAccept([vec EXCEPT !.names = "expected"])
     /\ CodeAccept([vec EXCEPT !.names = "rec_other_dns_expected"]) = CodeAccept([vec EXCEPT !.names = "other"])

\* pins are an additional condition: they never turn a refusal into an acceptance
PinsOnlyRestrict ==
  IsTable /\ vec.expect.code => CodeAccept([vec EXCEPT !.pins = <<>>])

\* the stream listener binds the certificate to the packet source
StreamBindsSource ==
  IsStream /\ vec.expect.code => vec.src \in Range(vec.certnames)

\* on the stream path the code is exactly the property (no pins there)
StreamCodeIsProp ==
  IsStream => (vec.expect.code <=> vec.expect.prop)

\* the verdict is a function of (certificate, configuration): every call of an instance gets the table's verdict,
\* and presenting the same certificate twice gives the same verdict
IsSeq == vec.fam = "seq"
HistoryIndependent ==
  IsSeq => /\ \A k \in 1..Len(vec.calls) : vec.calls[k].accept = SeqAccept(vec.calls[k].cert, vec.seqpins)
           /\ \A j, k \in 1..Len(vec.calls) : vec.calls[j].cert = vec.calls[k].cert => vec.calls[j].accept = vec.calls[k].accept
\* an unpinned certificate is refused by a pinned instance also after a pinned one was accepted
PinnedThenUnpinnedRefused ==
  IsSeq /\ vec.seqpins # <<>> =>
     \A k \in 2..Len(vec.calls) : vec.calls[k - 1].accept /\ ~vec.calls[k].pinok => ~vec.calls[k].accept

\* lookups of a named configuration are independent: the k-th lookup judges like a first one with the same arguments,
\* and equal lookups give equal verdicts wherever they stand in the sequence
IsLookup == vec.fam = "lookup"
LookupsIndependent ==
  IsLookup => LET st == vec.lookup.steps IN
     /\ \A k \in 1..Len(st) : \A c \in LookupCerts :
           st[k].accept[c] = LookupAccept([mode |-> st[k].mode, name |-> st[k].name], c, vec.lookup.pinned)
     /\ \A j, k \in 1..Len(st) : st[j].mode = st[k].mode /\ st[j].name = st[k].name => st[j].accept = st[k].accept
\* whatever was looked up before, a configuration handed out never accepts a self-signed or an expired certificate
LaterLookupStillVerifies ==
  IsLookup => \A k \in 1..Len(vec.lookup.steps) : ~vec.lookup.steps[k].accept["selfsigned"] /\ ~vec.lookup.steps[k].accept["expired"]

\* validity is judged against the clock at the handshake, whenever the verifier was created
IsClock == vec.fam = "clock"
ValidityJudgedAtHandshake ==
  IsClock => \A k \in 1..Len(vec.clock.hs) :
     /\ vec.clock.hs[k].accept = InWindow(vec.clock.hs[k].at, <<vec.clock.nb, vec.clock.na>>)
     /\ \A tc2 \in 0..vec.clock.hs[k].at :        \* the creation instant is irrelevant
           ClockVerdict(tc2, vec.clock.hs[k].at, <<vec.clock.nb, vec.clock.na>>) = vec.clock.hs[k].accept
\* a certificate that expires while the verifier lives is refused afterwards; one that becomes valid is accepted
ExpiryAndOnsetObserved ==
  IsClock => \A k \in 1..Len(vec.clock.hs) :
     /\ vec.clock.hs[k].class = "valid_at_creation_expired_at_handshake" => ~vec.clock.hs[k].accept
     /\ vec.clock.hs[k].class = "notyet_at_creation_valid_at_handshake" => vec.clock.hs[k].accept

\* ---------------------------------------------------------------- anti-vacuity witnesses (each must be violated)
W_NoAccept        == ~(IsTable /\ vec.expect.code)
W_NoOnlyChain     == ~(IsTable /\ vec.only = "chain")
W_NoOnlyTime      == ~(IsTable /\ vec.only = "time")
W_NoOnlyUsage     == ~(IsTable /\ vec.only = "usage")
W_NoOnlyPin       == ~(IsTable /\ vec.only = "pin")
W_NoOnlyName      == ~(IsTable /\ vec.only = "name")
W_NoStricter      == ~(IsTable /\ vec.expect.prop /\ ~vec.expect.code)
W_NoSeveralAccept == ~(IsTable /\ vec.expect.code /\ vec.names = "several" /\ Len(vec.pins) >= 2)
W_NoStreamAccept  == ~(IsStream /\ vec.expect.code /\ vec.expect.prop)
W_NoStreamOnlyName == ~(IsStream /\ vec.only = "name")
W_NoPinnedThenUnpinned == ~(IsSeq /\ Len(vec.calls) >= 2 /\ vec.calls[1].accept /\ vec.calls[1].pinok /\ vec.seqpins # <<>>
                              /\ vec.calls[2].otherok /\ ~vec.calls[2].pinok /\ ~vec.calls[2].accept)
W_NoUnpinnedThenPinned == ~(IsSeq /\ Len(vec.calls) >= 2 /\ vec.calls[1].otherok /\ ~vec.calls[1].pinok /\ vec.calls[2].accept
                              /\ vec.seqpins # <<>>)
W_NoTwoAlgs            == ~(IsSeq /\ Len(vec.seqpins) = 2 /\ vec.seqpins[1].of # vec.seqpins[2].of
                              /\ Len(vec.calls) = 3 /\ vec.calls[1].accept /\ vec.calls[2].accept
                              /\ vec.calls[1].cert # vec.calls[2].cert /\ ~vec.calls[3].accept /\ vec.calls[3].otherok)
W_NoLookupAfterReceptor == ~(IsLookup /\ vec.lookup.steps[1].mode = "receptor" /\ vec.lookup.steps[2].mode = "dns"
                               /\ vec.lookup.steps[2].accept["good"] /\ ~vec.lookup.steps[2].accept["othername"])
W_NoLookupAfterTesthost == ~(IsLookup /\ vec.lookup.steps[1].name = "testhost" /\ ~vec.lookup.steps[1].accept["good"]
                               /\ vec.lookup.steps[2].accept["good"] /\ vec.lookup.pinned /\ ~vec.lookup.steps[2].accept["unpinned"])
W_NoExpiresWhileAlive == ~(IsClock /\ Len(vec.clock.hs) = 2 /\ vec.clock.hs[1].accept
                             /\ vec.clock.hs[2].class = "valid_at_creation_expired_at_handshake" /\ ~vec.clock.hs[2].accept)
W_NoBecomesValid      == ~(IsClock /\ Len(vec.clock.hs) = 2 /\ ~vec.clock.hs[1].accept
                             /\ vec.clock.hs[2].class = "notyet_at_creation_valid_at_handshake" /\ vec.clock.hs[2].accept)
\* a source id containing ':' is accepted with its own full name, and its prefix is a refused near miss
W_NoColonSrcAccept == ~(IsStream /\ HasColon(vec.src) /\ vec.namekind = "src" /\ vec.expect.code)
W_NoColonPrefixRefused == ~(IsStream /\ HasColon(vec.src) /\ vec.namekind = "codeprefix" /\ vec.only = "name" /\ ~vec.expect.code)

\* ---------------------------------------------------------------- export
ASSUME NameSets \subseteq NameSetUniverse
ASSUME \A p \in PinLists : Range(p) \subseteq PinKinds
ASSUME DumpFile = "" \/ ndJsonSerialize(DumpFile, SetToSeq(TableVectors) \o SetToSeq(StreamVectors) \o SetToSeq(SeqVectors) \o SetToSeq(ClockVectors) \o SetToSeq(LookupVectors))
=============================================================================
