SPECIFICATION Spec
CONSTANTS
  Topos <- QuickTopos
  DumpFile = "ping_vectors.ndjson"
INVARIANTS
  ReachIffVec
  TracerouteVec
  PathIsAPath
