SPECIFICATION Spec
CONSTANTS
  DefTTL = 6
  Topos = {"chain2", "chain4", "chain6", "ytree5"}
  DumpFile = "ping_vectors.ndjson"
INVARIANTS
  ReachIffVec
  TracerouteVec
  PathIsAPath
