SPECIFICATION Spec
CONSTANTS
  Part = "sessions"
  MaxLinesA = 2
  MaxLinesB = 1
  KF_ScanRecheckLeak = FALSE
  KF_FindUnitRelock = FALSE
  MaxOps = 0
  ExportOps = 0
  RequestStateKeptAcrossLines = TRUE
  ConnectionRemembersToken = FALSE
  VerifierRemembersTokens = FALSE
  RedactNeedsTLSRecord = FALSE
  KeyFamily = "cover"
  DumpFile = ""
INVARIANTS
  LineIndependence
