\* EXPECTED VIOLATION (code as found, before the second repair): after CancelBackends the deferred requests of an ending session are skipped and the routing table keeps the route via the removed connection
SPECIFICATION Spec
CONSTANTS
  Links = {1}
  MaxIdle = 2
  Poll = 1
  KA = 1
  MaxInit = 2
  MaxLev = 1
  QLen = 1
  Sync = FALSE
  Coarse = FALSE
  RealNodes = {"b"}
  CancelOnReturn = TRUE
  SkipOnBackendCancel = TRUE
  EdgeGuard = TRUE
  BSilence = 0
  BCut = 0
  ShutNodes = {}
  CancelNodes = {"b"}
  BReborn = 0
  BAdv = 3
  BIdle = 1
  BDial = 2
  Wit = FALSE
INVARIANTS
  RebuildComing
