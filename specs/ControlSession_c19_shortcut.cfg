SPECIFICATION Spec
CONSTANTS
  Part = "c19"
  MaxLinesA = 1
  MaxLinesB = 1
  KF_ScanRecheckLeak = FALSE
  KF_FindUnitRelock = FALSE
  MaxOps = 3
  ExportOps = 2
  RequestStateKeptAcrossLines = FALSE
  ConnectionRemembersToken = FALSE
  VerifierRemembersTokens = FALSE
  RedactNeedsTLSRecord = TRUE
  KeyFamily = "cover"
  DumpFile = ""
INVARIANTS
  NoSecretInReplies
