SPECIFICATION TSpec
CONSTANT ExpectMutex = TRUE
INVARIANT Done
