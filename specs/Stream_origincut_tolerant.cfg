SPECIFICATION Spec
CONSTANTS
  MaxBytes = 2
  Cuts = {"origin", "transit"}
  AcceptorCloseKillsSocket = FALSE
  ForwarderWaitsOnNode = FALSE
  AcceptLeavesDeadline = FALSE
  MaxNotices = 1
  NoticeEndsStream = FALSE
  OriginErrorFatal = FALSE
INVARIANTS
  Prefix
  EOFOnlyAfterAll
  NoSpontaneousClose
  NoReadErrorWhileUp
  NoAbort
PROPERTIES
  Complete
  AllDelivered
