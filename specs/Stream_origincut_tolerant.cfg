SPECIFICATION Spec
CONSTANTS
  MaxBytes = 3
  Cuts = {"origin", "transit"}
  OriginErrorFatal = FALSE
INVARIANTS
  Prefix
  EOFOnlyAfterAll
  NoAbort
PROPERTIES
  Complete
  AllDelivered
