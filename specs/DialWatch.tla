------------------------------- MODULE DialWatch -------------------------------
(* The life of the goroutine that watches the dial context inside Netceptor.DialContext (pkg/netceptor/conn.go).

   DialContext opens an ephemeral socket, starts a watcher goroutine, runs the QUIC handshake, opens the stream and then
   closes okChan to tell the watcher that the dial is over. The watcher sits in ONE select over okChan, the dial
   context and the node's context; Go picks at random among the cases that are ready when the goroutine gets to run.
   The context governs the dial only: a caller that cancels it after DialContext has returned ("defer cancel()") must
   keep a working stream (C03: the stream stays a reliable pipe as long as the nodes can reach each other).

   Recheck = FALSE is the code as it was: whichever case is picked acts. Recheck = TRUE is the repaired code
   (fix abe971f): a watcher woken by a context looks at okChan once more before it closes the socket.
   Bound to the code by the scenario dialctx/cancel-after-dial of harness/cmd/vlc, which parks the watcher at the hook
   gate dial_watch_before_select until the dial has returned and the context has been cancelled. *)
EXTENDS Naturals

CONSTANT Recheck

VARIABLES dial,        \* "dialing" | "established" | "failed"        (the goroutine that called DialContext)
          ok,          \* okChan is closed
          ctxDone,     \* the dial context is done (caller's cancel, its deadline, or monitorUnreachable's cancel)
          lateCancel,  \* the context became done only after DialContext had returned the connection
          watcher,     \* "parked" (not yet at its select) | "woken" (a context case was picked) | "closing" | "gone"
          sockOpen     \* the ephemeral PacketConn of this dial is open

vars == <<dial, ok, ctxDone, lateCancel, watcher, sockOpen>>

Init == /\ dial = "dialing" /\ ok = FALSE /\ ctxDone = FALSE /\ lateCancel = FALSE
        /\ watcher = "parked" /\ sockOpen = TRUE

(* handshake + OpenStreamSync + first byte succeeded: close(okChan), return the Conn *)
DialSucceeds == /\ dial = "dialing" /\ sockOpen
                /\ dial' = "established" /\ ok' = TRUE
                /\ UNCHANGED <<ctxDone, lateCancel, watcher, sockOpen>>

(* any error path of DialContext: close(okChan); pcClose() *)
DialFails == /\ dial = "dialing"
             /\ dial' = "failed" /\ ok' = TRUE /\ sockOpen' = FALSE
             /\ UNCHANGED <<ctxDone, lateCancel, watcher>>

CtxCancel == /\ ~ctxDone
             /\ ctxDone' = TRUE
             /\ lateCancel' = (dial = "established")
             /\ UNCHANGED <<dial, ok, watcher, sockOpen>>

(* the select: one of the READY cases, chosen by the runtime *)
SelectOk  == /\ watcher = "parked" /\ ok
             /\ watcher' = "gone"
             /\ UNCHANGED <<dial, ok, ctxDone, lateCancel, sockOpen>>
SelectCtx == /\ watcher = "parked" /\ ctxDone
             /\ watcher' = "woken"
             /\ UNCHANGED <<dial, ok, ctxDone, lateCancel, sockOpen>>

(* after a context case: the repaired code polls okChan (select with default) before pcClose(); the two are not atomic *)
AfterWake == /\ watcher = "woken"
             /\ watcher' = IF Recheck /\ ok THEN "gone" ELSE "closing"
             /\ UNCHANGED <<dial, ok, ctxDone, lateCancel, sockOpen>>
PcClose   == /\ watcher = "closing"
             /\ watcher' = "gone" /\ sockOpen' = FALSE
             /\ UNCHANGED <<dial, ok, ctxDone, lateCancel>>

Next == DialSucceeds \/ DialFails \/ CtxCancel \/ SelectOk \/ SelectCtx \/ AfterWake \/ PcClose

Spec == Init /\ [][Next]_vars /\ WF_vars(SelectOk \/ SelectCtx) /\ WF_vars(AfterWake) /\ WF_vars(PcClose)

TypeOK == /\ dial \in {"dialing", "established", "failed"} /\ ok \in BOOLEAN /\ ctxDone \in BOOLEAN
          /\ lateCancel \in BOOLEAN /\ watcher \in {"parked", "woken", "closing", "gone"} /\ sockOpen \in BOOLEAN

(* C03 at this grain: a connection that DialContext returned while its context was still live keeps its socket, whatever
   happens to the context afterwards. (A context that was done before the dial returned is the caller cancelling the
   dial itself: the connection may or may not survive, and nothing is claimed.) *)
LateCancelHarmless == (dial = "established" /\ (~ctxDone \/ lateCancel)) => sockOpen

(* a dial that failed (cancelled or not) has released its socket *)
CancelledDialCloses == [](dial = "failed" => ~sockOpen)

(* witnesses: must be violated *)
W_NoLateCancelSurvives == ~(dial = "established" /\ lateCancel /\ watcher = "gone" /\ sockOpen)
W_NoWokenThenSpared    == ~(watcher = "woken" /\ ok /\ dial = "established")
=============================================================================
