SPECIFICATION Spec
CONSTANTS
  Ids = {"u1"}
  Sess = {"c1"}
  MaxOut = 1
  MaxTicks = 1
  MaxCrashes = 2
  MaxOps = 3
  MaxOps2 = 3
  FirstSess = "c1"
  RunEnabled = TRUE
  Ops = {"submit", "status", "cancel"}
  FindUnitHoldsRLock = FALSE
  TruncFirst = FALSE
  UnregFirst = FALSE
  ScanRegistersAlias = FALSE
  KF_EmptyStatus = FALSE
  KF_CancelOverS = FALSE
  CancelKeepsSucceeded = TRUE
  KF_LiveRunnerFailed = TRUE
INVARIANTS
  TypeOK
  Durable
  NoStatusBlocks
  UniqueIDs
