SPECIFICATION Spec
CONSTANTS
  a1 = a1
  a2 = a2
  a3 = a3
  a4 = a4
  o1 = o1
  o2 = o2
  o3 = o3
  Actors = {a1, a2, a3}
  ObjOf <- MC_ObjOf3
  Creator = a1
  MaxOps = 2
  Tags = {"t"}
  LoadLocks = TRUE
  SaveLocks = TRUE
  TruncFirst = FALSE
  UnlinkLockWhenFinal = TRUE
  Kinds = {"inc", "blind"}
  KeepAbsentFields = FALSE
  StatBeforeLock = FALSE
  FreshUpdates = FALSE
  Reread = TRUE
INVARIANTS
  TypeOK
  Mutex
  NoLostUpdate
  NoTornRead
  EmptyOnlyInside
