SPECIFICATION Spec
CONSTANT Recheck = TRUE
INVARIANTS TypeOK LateCancelHarmless
PROPERTIES CancelledDialCloses
