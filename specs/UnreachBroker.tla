---------------------------- MODULE UnreachBroker ----------------------------
(***************************************************************************)
(* C16 - the hand-off between a node's unreachable broker                   *)
(* (pkg/utils/broker.go: one goroutine; a published message is handed to    *)
(* EVERY subscriber and the broker waits until each has taken it; only then *)
(* does it look at its subscribe / unsubscribe / publish channels again)    *)
(* and the per-socket feed of pkg/netceptor/packetconn.go                   *)
(* StartUnreachable (a reader of the subscription channel iChan, and the    *)
(* un-subscription when the socket's context ends).                         *)
(*                                                                         *)
(* Drain = TRUE is the code: the reader keeps taking messages from iChan    *)
(* until the broker closes it, i.e. until the broker has processed the      *)
(* Unsubscribe; the Unsubscribe is issued by a second goroutine.            *)
(* Drain = FALSE is the variant in which one goroutine selects on the       *)
(* socket's context and iChan, stops reading when the context is cancelled  *)
(* and only then unsubscribes (kept as a documented counter-example: a      *)
(* notice accepted by the broker between the cancel and the Unsubscribe     *)
(* wedges the broker for ever, and with it every later notice of the node). *)
(***************************************************************************)
EXTENDS Naturals, FiniteSets

CONSTANTS Socks,     \* sockets subscribed at the start
          Closers,   \* the sockets that may be closed during the behaviour (the others stay open)
          MaxPub,    \* notices arriving at the node
          Drain

VARIABLES bstate,    \* "idle" | "fanout"
          pending,   \* subscribers that have not yet taken the message being fanned out
          subs,      \* subscription channels registered in the broker
          pubq,      \* handleUnreachable calls blocked in Publish (and with them their link's receive loop)
          arrived,   \* notices that have reached the node so far
          unsubq,    \* sockets whose Unsubscribe call waits for the broker
          sock,      \* "open" | "cancelled" | "gone"
          reader,    \* "reading" | "stopped"
          got        \* messages taken per socket
vars == <<bstate, pending, subs, pubq, arrived, unsubq, sock, reader, got>>

Init == /\ bstate = "idle" /\ pending = {} /\ subs = Socks /\ pubq = 0 /\ arrived = 0 /\ unsubq = {}
        /\ sock = [s \in Socks |-> "open"] /\ reader = [s \in Socks |-> "reading"] /\ got = [s \in Socks |-> 0]

\* a notice arrives from the mesh: handleUnreachable -> Broker.Publish (blocks until the broker takes it)
Arrive == /\ arrived < MaxPub /\ arrived' = arrived + 1 /\ pubq' = pubq + 1
          /\ UNCHANGED <<bstate, pending, subs, unsubq, sock, reader, got>>

\* broker loop, case msg := <-publishCh: start handing the message to every subscriber
BrokerTakePublish == /\ bstate = "idle" /\ pubq > 0
                     /\ bstate' = "fanout" /\ pending' = subs /\ pubq' = pubq - 1
                     /\ UNCHANGED <<subs, arrived, unsubq, sock, reader, got>>

\* one fan-out goroutine hands the message over: needs the socket's reader to receive from iChan
Take(s) == /\ bstate = "fanout" /\ s \in pending /\ reader[s] = "reading"
           /\ pending' = pending \ {s} /\ got' = [got EXCEPT ![s] = @ + 1]
           /\ UNCHANGED <<bstate, subs, pubq, arrived, unsubq, sock, reader>>

\* wg.Wait() returns
FanoutDone == /\ bstate = "fanout" /\ pending = {} /\ bstate' = "idle"
              /\ UNCHANGED <<pending, subs, pubq, arrived, unsubq, sock, reader, got>>

\* broker loop, case msgCh := <-unsubCh: delete and close the channel (the reader's range loop ends)
BrokerTakeUnsub(s) == /\ bstate = "idle" /\ s \in unsubq
                      /\ subs' = subs \ {s} /\ unsubq' = unsubq \ {s}
                      /\ sock' = [sock EXCEPT ![s] = "gone"] /\ reader' = [reader EXCEPT ![s] = "stopped"]
                      /\ UNCHANGED <<bstate, pending, pubq, arrived, got>>

\* PacketConn.Close: the socket's context is cancelled
Close(s) == /\ s \in Closers /\ sock[s] = "open" /\ sock' = [sock EXCEPT ![s] = "cancelled"]
            /\ UNCHANGED <<bstate, pending, subs, pubq, arrived, unsubq, reader, got>>

\* the goroutine that notices the cancellation calls Unsubscribe (and blocks until the broker takes it);
\* in the Drain = FALSE variant it is the reader itself, which has therefore stopped reading
NoticeCancel(s) == /\ sock[s] = "cancelled" /\ s \notin unsubq /\ s \in subs
                   /\ unsubq' = unsubq \cup {s}
                   /\ reader' = IF Drain THEN reader ELSE [reader EXCEPT ![s] = "stopped"]
                   /\ UNCHANGED <<bstate, pending, subs, pubq, arrived, sock, got>>

System == BrokerTakePublish \/ FanoutDone \/ (\E s \in Socks : Take(s) \/ BrokerTakeUnsub(s) \/ NoticeCancel(s))
Next == Arrive \/ (\E s \in Socks : Close(s)) \/ System
Spec == Init /\ [][Next]_vars /\ WF_vars(System)

\* the broker waits for a subscriber nobody reads for any more: nothing on this node is ever published again
Wedged == bstate = "fanout" /\ pending # {} /\ \A s \in pending : reader[s] = "stopped"
NeverWedged == ~Wedged

\* every notice that reaches the node is eventually published completely ...
AllPublished == <>[](arrived = MaxPub => (bstate = "idle" /\ pubq = 0))
\* ... and a socket that stays open takes every one of them
OpenSocketsGetAll == (arrived = MaxPub /\ bstate = "idle" /\ pubq = 0) => \A s \in Socks \ Closers : got[s] = MaxPub

\* witnesses
W_NoCloseDuringFanout == ~(bstate = "fanout" /\ \E s \in pending : sock[s] = "cancelled")
W_NoUnsubWhilePublishWaits == ~(pubq > 0 /\ unsubq # {})
=============================================================================
