------------------------------- MODULE Framer -------------------------------
(***************************************************************************)
(* C02 - length-prefixed framing over stream back-ends                      *)
(* (pkg/framer/framer.go; used by backends.TCPSession and by                *)
(* netceptor.netMessageConn).                                               *)
(*                                                                         *)
(* A frame is a 2-byte little-endian length followed by the body.  The      *)
(* receiver appends whatever the stream hands it (RecvData) to a buffer     *)
(* and takes a message off the front whenever the buffer holds a complete   *)
(* one (MessageReady / GetMessage).  The stream may cut the bytes anywhere: *)
(* inside the header, inside a body, or deliver several frames at once.     *)
(*                                                                         *)
(* Bodies range over the alphabet {0, 1}: these are exactly the byte values *)
(* that also occur in headers here, so a body can look like a header.       *)
(***************************************************************************)
EXTENDS Naturals, Sequences, FiniteSets, TLC, Json, SequencesExt

CONSTANTS MaxFrames,    \* input sequences of 0..MaxFrames frames are explored by the state machine
          MaxLen,       \* bodies of 0..MaxLen bytes
          VecFrames,    \* vectors (input, chunking) are exported for 1..VecFrames frames
          VecLen,       \*   with bodies of 0..VecLen bytes
          DumpFile

Sym == {0, 1}
Bodies == UNION { [1..k -> Sym] : k \in 0..MaxLen }
BodiesTo(m) == UNION { [1..k -> Sym] : k \in 0..m }
Inputs(n) == UNION { [1..k -> Bodies] : k \in 0..n }
VecInputs == UNION { [1..k -> BodiesTo(VecLen)] : k \in 1..VecFrames }

\* SendData: 2-byte little-endian length, then the body
Header(b) == << Len(b) % 256, Len(b) \div 256 >>
Framed(b) == Header(b) \o b

RECURSIVE Stream(_)
Stream(fs) == IF fs = <<>> THEN <<>> ELSE Framed(Head(fs)) \o Stream(Tail(fs))

\* ---------------------------------------------------------------- the receiver (framer.go)
Size(buf)  == buf[1] + 256 * buf[2]
Ready(buf) == Len(buf) >= 2 /\ Len(buf) >= Size(buf) + 2              \* messageReady
Msg(buf)   == SubSeq(buf, 3, Size(buf) + 2)                            \* GetMessage: data
Rest(buf)  == SubSeq(buf, Size(buf) + 3, Len(buf))                     \*             remaining buffer

VARIABLES frames, pos, buf, out
vars == <<frames, pos, buf, out>>

Init == /\ frames \in Inputs(MaxFrames)
        /\ pos = 0 /\ buf = <<>> /\ out = <<>>

\* the stream hands over the next k bytes (conn.Read + RecvData); any k
Read == \E k \in 1..(Len(Stream(frames)) - pos) :
          /\ buf' = buf \o SubSeq(Stream(frames), pos + 1, pos + k)
          /\ pos' = pos + k
          /\ UNCHANGED <<frames, out>>

\* GetMessage when MessageReady
Get == /\ Ready(buf)
       /\ out' = Append(out, Msg(buf))
       /\ buf' = Rest(buf)
       /\ UNCHANGED <<frames, pos>>

Next == Read \/ Get
Spec == Init /\ [][Next]_vars /\ WF_vars(Get)

PrefixOf(s, t) == Len(s) <= Len(t) /\ SubSeq(t, 1, Len(s)) = s

\* whatever the chunking, the messages handed out are the messages sent, in order
OutIsPrefix == PrefixOf(out, frames)
\* when the whole stream has been read and no message is pending, everything has come out and nothing is left over
Complete == (pos = Len(Stream(frames)) /\ ~Ready(buf)) => (out = frames /\ buf = <<>>)
\* a partial header or partial body is never consumed: the buffer always starts at a frame boundary
RECURSIVE Offset(_, _)
Offset(fs, n) == IF n = 0 THEN 0 ELSE Len(Framed(fs[n])) + Offset(fs, n - 1)
Aligned == Len(out) <= Len(frames) /\ pos - Len(buf) = Offset(frames, Len(out))
\* a complete message in the buffer is eventually handed out
AllOut == <>[](pos = Len(Stream(frames)) => out = frames)

\* ---------------------------------------------------------------- witnesses
W_NoSplitHeader == ~(Len(buf) = 1 /\ pos < Len(Stream(frames)))                     \* a cut inside a header
W_NoSplitBody   == ~(Len(buf) >= 3 /\ ~Ready(buf))                                  \* a cut inside a body
W_NoCoalesced   == ~(Ready(buf) /\ Ready(Rest(buf)))                                \* two complete frames in one buffer
W_NoEmptyFrame  == ~(\E i \in 1..Len(out) : out[i] = <<>>)

\* ---------------------------------------------------------------- vectors for replay into the real framer
RECURSIVE Compositions(_)
Compositions(n) == IF n = 0 THEN { <<>> } ELSE UNION { { <<k>> \o c : c \in Compositions(n - k) } : k \in 1..n }

\* number of messages that can be taken out after the first n bytes of the stream have arrived
RECURSIVE Avail(_, _)
Avail(fs, n) == IF fs = <<>> \/ n < Len(Framed(Head(fs))) THEN 0 ELSE 1 + Avail(Tail(fs), n - Len(Framed(Head(fs))))

RECURSIVE Cum(_, _)
Cum(c, i) == IF i = 0 THEN 0 ELSE c[i] + Cum(c, i - 1)

Vec(fs, c) == [frames |-> fs, chunks |-> c, avail |-> [i \in 1..Len(c) |-> Avail(fs, Cum(c, i))]]

AllVectors == UNION { { Vec(fs, c) : c \in Compositions(Len(Stream(fs))) } : fs \in VecInputs }

ASSUME DumpFile = "" \/ ndJsonSerialize(DumpFile, SetToSeq(AllVectors))
ASSUME DumpFile = "" \/ PrintT(<<"VECTORS", Cardinality(AllVectors)>>)
=============================================================================
