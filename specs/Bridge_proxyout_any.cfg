SPECIFICATION Spec
CONSTANTS
  MaxBytes = 2
  K1 = "half"
  K2 = "full"
  Discipline = "any"
INVARIANTS
  E2EPrefix
  E2EEOFOnlyAfterAll
PROPERTIES
  ClosePropagates
  BridgeReturns
