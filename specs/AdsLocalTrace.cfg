SPECIFICATION TSpec
CONSTANTS
  Tombstones = TRUE
  Owners = {"o1"}
  Svcs = {"s1"}
  Times = {1}
  MaxSteps = 1
  Self = "n1"
  Peers = {"p1", "p2"}
INVARIANTS
  NoResurrection
  Done
PROPERTIES
  NoOlderReplaces
