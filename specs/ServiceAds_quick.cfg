SPECIFICATION Spec
CONSTANTS
  Tombstones = TRUE
  Nodes = {"o", "b", "c"}
  Links = {{"o", "b"}, {"b", "c"}, {"o", "c"}}
  Owner = "o"
  Svcs = {"s1"}
  MaxOps = 3
  MaxSent = 60
INVARIANTS
  NoResurrection
  FloodTerminates
  StableImpliesExact
PROPERTIES
  NoOlderReplaces
