\* Counter-example variant: a verify-function instance that keeps the digest of the first certificate it saw
\* (seeded/c09-pin-digest-cache-hoisted).  TLC must report a violation of HistoryIndependent here (checks/c09.py
\* requires it); never used as a passing configuration.
SPECIFICATION Spec
CONSTANTS
  Issuers = {"trusted", "otherca"}
  Validities = {"valid", "expired"}
  Usages = {"server", "client"}
  NameSets = {"expected", "other", "several"}
  PinLists <- PinListsWit
  Roles = {"server", "client"}
  Modes = {"receptor", "dns"}
  StreamSrcs <- StreamSrcsQuick
  MaxTick = 1
  KF_LookupMutatesStored = FALSE
  KF_TimeFrozenAtCreation = FALSE
  KF_DigestCachedAcrossCalls = TRUE
  KF_ColonSplit = FALSE
  DumpFile = ""
INVARIANTS
  HistoryIndependent
