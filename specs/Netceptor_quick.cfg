SPECIFICATION Spec
CONSTANTS
  Nodes = {"a", "b", "c"}
  Cand <- CandTriangle
  MaxSeq = 2
  MaxEv = 2
  Restartable = {}
VIEW vw
INVARIANTS
  StableImpliesConverged
PROPERTIES
  InfoMonotone
