SPECIFICATION Spec
CONSTANTS
  MaxBytes = 2
  Cuts = {"transit", "stall", "sibling"}
  AcceptorCloseKillsSocket = FALSE
  ForwarderWaitsOnNode = FALSE
  AcceptLeavesDeadline = FALSE
  MaxNotices = 1
  NoticeEndsStream = FALSE
  OriginErrorFatal = TRUE
INVARIANTS
  Prefix
  EOFOnlyAfterAll
  NoSpontaneousClose
  NoReadErrorWhileUp
  NoAbort
PROPERTIES
  Complete
  AllDelivered
