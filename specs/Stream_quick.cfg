SPECIFICATION Spec
CONSTANTS
  MaxBytes = 3
  Cuts = {"transit"}
  OriginErrorFatal = TRUE
INVARIANTS
  Prefix
  EOFOnlyAfterAll
  NoAbort
PROPERTIES
  Complete
  AllDelivered
