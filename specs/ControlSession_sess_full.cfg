SPECIFICATION Spec
CONSTANTS
  Part = "sessions"
  MaxLinesA = 3
  MaxLinesB = 1
  KF_ScanRecheckLeak = FALSE
  KF_FindUnitRelock = FALSE
  MaxOps = 0
  ExportOps = 0
  RequestStateKeptAcrossLines = FALSE
  ConnectionRemembersToken = FALSE
  VerifierRemembersTokens = FALSE
  RedactNeedsTLSRecord = FALSE
  KeyFamily = "cover"
  DumpFile = "sessions.ndjson"
INVARIANTS
  NoDeadlock
  ProbeServable
  Isolation
  SessionContinues
  AlwaysAnswersS
  LineIndependence
