SPECIFICATION Spec
CONSTANTS
  Part = "listener"
  Deliverers = {d1, d2}
  Closers = {c1, c2}
  MaxReads = 2
  ChanClosedBy = "nobody"
  WatcherQuitsOnDone = FALSE
  ListenerOrder = "pc_first"
  PingReaderCtx = "ping"
  PingErrSend = "select"
  PingUnrMax = 2
  EarlyWatcherFollows = "cctx"
  DeliveryHoldsRLock = FALSE
  KF_HalfCloseOnly = TRUE
INVARIANTS
  TypeOK
  NoPanic
  Released
  NoLockCycle
PROPERTIES
  ShutdownStops
  CloseReturns
  ListenerCloseReturns
