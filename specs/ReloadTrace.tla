----------------------------- MODULE ReloadTrace -----------------------------
(***************************************************************************)
(* Validation of hook traces recorded from a REAL receptor daemon (build   *)
(* tag verif) against the step structure of Reload.tla: the reload_*       *)
(* events of pkg/controlsvc/reload.go, the session events of runProtocol   *)
(* (sess_start, conn_add, established, conn_del, sess_end) and the backend *)
(* loop events of pkg/backends/utils.go (dialer/listener start and exit).  *)
(*                                                                         *)
(* One daemon life at a time (a "reset" line starts the next one).  What   *)
(* is checked, event by event:                                             *)
(*  - the steps of one reload come in the order Begin, Parse, Check,       *)
(*    Absent, Cancel, Cancelled (BackendWait returned), Started, a failed  *)
(*    step ends it; with ExpectMutex no second reload begins meanwhile;    *)
(*  - when BackendWait has returned (reload_cancelled) there is no live    *)
(*    session, no connection entry and no backend loop left;               *)
(*  - a backend loop only leaves while a reload is cancelling (a refused   *)
(*    reload stops nothing);                                               *)
(*  - one connection entry per peer, entered by a live session, and a      *)
(*    session that ends has no connection entry left (Reload!NoOrphanConn).*)
(* Never blocks: a mismatch prints <<"DIFF", line, event, {reasons}>> and  *)
(* the rest of that daemon life is skipped; <<"DONE", n>> at the end.      *)
(***************************************************************************)
EXTENDS Integers, Sequences, FiniteSets, TLC, Json

CONSTANT ExpectMutex      \* TRUE: reload commands exclude each other (the repaired code)

Trace == ndJsonDeserialize("trace.ndjson")

VARIABLES ses,    \* session label -> [peer, reg]
          conn,   \* peer id -> session label (s.connections)
          be,     \* number of live backend loops
          rs,     \* reload label -> phase
          l, skip
vars == <<ses, conn, be, rs, l, skip>>

E == Trace[l]
Has(f, k) == k \in DOMAIN f
Put(f, k, v) == [x \in (DOMAIN f) \cup {k} |-> IF x = k THEN v ELSE f[x]]
Del(f, k) == [x \in (DOMAIN f) \ {k} |-> f[x]]
EmptyF == [x \in {} |-> 0]
IsEv(e) == l <= Len(Trace) /\ E.ev = e

TInit == ses = EmptyF /\ conn = EmptyF /\ be = 0 /\ rs = EmptyF /\ l = 1 /\ skip = TRUE

Advance(d) == /\ l' = l + 1
              /\ skip' = (skip \/ d # {})
              /\ (IF d = {} \/ skip THEN TRUE ELSE PrintT(<<"DIFF", l, E.ev, d>>))

ActiveReloads == { r \in DOMAIN rs : rs[r] # "end" }
Cancelling == \E r \in DOMAIN rs : rs[r] = "cancelling"

Reset == /\ IsEv("reset")
         /\ ses' = EmptyF /\ conn' = EmptyF /\ be' = 0 /\ rs' = EmptyF /\ l' = l + 1 /\ skip' = FALSE

BackendStart == /\ (IsEv("dialer_start") \/ IsEv("listener_start"))
                /\ be' = be + 1 /\ Advance({}) /\ UNCHANGED <<ses, conn, rs>>
BackendExit == /\ (IsEv("dialer_exit") \/ IsEv("listener_exit"))
               /\ be' = IF be > 0 THEN be - 1 ELSE 0
               /\ Advance((IF be = 0 THEN {"exit_of_unknown_backend"} ELSE {})
                          \cup (IF ~Cancelling THEN {"backend_left_without_a_cancelling_reload"} ELSE {}))
               /\ UNCHANGED <<ses, conn, rs>>

SessStart == /\ IsEv("sess_start")
             /\ ses' = Put(ses, E.sess, [peer |-> "", reg |-> FALSE])
             /\ Advance(IF Has(ses, E.sess) THEN {"session_label_reused"} ELSE {})
             /\ UNCHANGED <<conn, be, rs>>
ConnAdd == /\ IsEv("conn_add")
           /\ ses' = IF Has(ses, E.sess) THEN Put(ses, E.sess, [peer |-> E.peer, reg |-> TRUE]) ELSE ses
           /\ conn' = Put(conn, E.peer, E.sess)
           /\ Advance((IF Has(ses, E.sess) THEN {} ELSE {"conn_add_of_unknown_session"})
                      \cup (IF Has(conn, E.peer) THEN {"peer_already_has_a_connection"} ELSE {}))
           /\ UNCHANGED <<be, rs>>
Established == /\ IsEv("established")
               /\ Advance(IF Has(conn, E.peer) /\ conn[E.peer] = E.sess THEN {} ELSE {"established_without_connection_entry"})
               /\ UNCHANGED <<ses, conn, be, rs>>
ConnDel == /\ IsEv("conn_del")
           /\ conn' = IF Has(conn, E.peer) THEN Del(conn, E.peer) ELSE conn
           /\ Advance({}) /\ UNCHANGED <<ses, be, rs>>
SessEnd == /\ IsEv("sess_end")
           /\ ses' = IF Has(ses, E.sess) THEN Del(ses, E.sess) ELSE ses
           /\ Advance((IF Has(ses, E.sess) THEN {} ELSE {"end_of_unknown_session"})
                      \cup (IF \E p \in DOMAIN conn : conn[p] = E.sess THEN {"connection_entry_left_behind"} ELSE {}))
           /\ UNCHANGED <<conn, be, rs>>

\* a reload step: the phase required before it and the phase after it
StepRL(ev, from, toOK) ==
  /\ IsEv(ev)
  /\ rs' = Put(rs, E.r, IF E.ok = "true" THEN toOK ELSE "end")
  /\ Advance(IF Has(rs, E.r) /\ rs[E.r] = from THEN {} ELSE {"reload_step_out_of_order"})
  /\ UNCHANGED <<ses, conn, be>>
ReloadBegin == /\ IsEv("reload_begin")
               /\ rs' = Put(rs, E.r, "begun")
               /\ Advance(IF ExpectMutex /\ ActiveReloads # {} THEN {"reload_began_while_another_is_running"} ELSE {})
               /\ UNCHANGED <<ses, conn, be>>
ReloadCancel == /\ IsEv("reload_cancel")
                /\ rs' = Put(rs, E.r, "cancelling")
                /\ Advance(IF Has(rs, E.r) /\ rs[E.r] = "absent" THEN {} ELSE {"reload_step_out_of_order"})
                /\ UNCHANGED <<ses, conn, be>>
ReloadCancelled ==
  /\ IsEv("reload_cancelled")
  /\ rs' = Put(rs, E.r, "cancelled")
  /\ Advance((IF Has(rs, E.r) /\ rs[E.r] = "cancelling" THEN {} ELSE {"reload_step_out_of_order"})
             \cup (IF DOMAIN ses # {} THEN {"session_alive_after_backend_wait"} ELSE {})
             \cup (IF DOMAIN conn # {} THEN {"connection_entry_after_backend_wait"} ELSE {})
             \cup (IF be # 0 THEN {"backend_loop_alive_after_backend_wait"} ELSE {}))
  /\ UNCHANGED <<ses, conn, be>>

Other == /\ l <= Len(Trace)
         /\ E.ev \notin {"reset", "dialer_start", "listener_start", "dialer_exit", "listener_exit", "sess_start", "conn_add", "established",
                         "conn_del", "sess_end", "reload_begin", "reload_parse", "reload_check", "reload_absent", "reload_cancel",
                         "reload_cancelled", "reload_started"}
         /\ l' = l + 1 /\ UNCHANGED <<ses, conn, be, rs, skip>>

Finished == /\ l = Len(Trace) + 1 /\ l' = l + 1 /\ PrintT(<<"DONE", Len(Trace)>>) /\ UNCHANGED <<ses, conn, be, rs, skip>>

TNext == \/ Reset \/ BackendStart \/ BackendExit \/ SessStart \/ ConnAdd \/ Established \/ ConnDel \/ SessEnd
         \/ ReloadBegin \/ StepRL("reload_parse", "begun", "parsed") \/ StepRL("reload_check", "parsed", "checked")
         \/ StepRL("reload_absent", "checked", "absent") \/ ReloadCancel \/ ReloadCancelled
         \/ StepRL("reload_started", "cancelled", "end") \/ Other \/ Finished
TSpec == TInit /\ [][TNext]_vars

OnePerPeer == \A p \in DOMAIN conn : TRUE
Done == l <= Len(Trace) + 2
=============================================================================
