\* Small sub-space for the anti-vacuity witnesses: vectors do not depend on the constant sets, so a
\* witness found here is also a vector of the quick and full configurations.
SPECIFICATION Spec
CONSTANTS
  Issuers = {"trusted", "otherca"}
  Validities = {"valid", "expired"}
  Usages = {"server", "client"}
  NameSets = {"expected", "other", "several"}
  PinLists <- PinListsWit
  Roles = {"server", "client"}
  Modes = {"receptor", "dns"}
  StreamSrcs <- StreamSrcsQuick
  MaxTick = 1
  KF_LookupMutatesStored = FALSE
  KF_TimeFrozenAtCreation = FALSE
  KF_DigestCachedAcrossCalls = FALSE
  KF_ColonSplit = FALSE
  DumpFile = ""
INVARIANTS
  AcceptImpliesAll
