----------------------------- MODULE Converged -----------------------------
(***************************************************************************)
(* C01 oracle for real meshes: each trace line is the final state of one   *)
(* scenario played on real nodes (engine E2): the real topology (links     *)
(* that are up, established on both sides and not silent, with their       *)
(* costs) and every running node's routing table, path costs and           *)
(* connection set.  The line is accepted when, for every node, the table   *)
(* contains exactly the reachable nodes, each via a directly connected     *)
(* neighbour on a least-cost path (NetCore's Bellman-Ford oracle, written  *)
(* independently of the code's algorithm), the reported cost is that least *)
(* cost, the connection set is the node's real neighbourhood, and          *)
(* following next hops reaches every destination without visiting a node   *)
(* twice.                                                                  *)
(***************************************************************************)
EXTENDS NetCore, Json

Trace == ndJsonDeserialize("trace.ndjson")

VARIABLE l
E == Trace[l]

RECURSIVE Follow(_, _, _, _)
\* walks the next hops from n towards d; TRUE iff d is reached within `fuel` steps without a repeat
Follow(tables, n, d, visited) ==
  IF n = d THEN TRUE
  ELSE IF n \in visited \/ ~Has(tables, n) \/ ~Has(tables[n], d) THEN FALSE
  ELSE Follow(tables, tables[n][d], d, visited \cup {n})

NodeDiff(n) ==
     (IF ~ValidTable(E.real, n, E.tables[n], E.costs[n]) THEN {<<n, "table">>} ELSE {})
  \cup (IF E.conns[n] # E.real[n] THEN {<<n, "connections">>} ELSE {})
  \cup (IF \E d \in DOMAIN E.tables[n] : ~Follow(E.tables, n, d, {}) THEN {<<n, "loop">>} ELSE {})

LineDiff == UNION { NodeDiff(n) : n \in DOMAIN E.real }

Init == l = 1
Next == /\ l <= Len(Trace)
        /\ l' = l + 1
        /\ PrintT(<<"CLASS", "final">>)
        /\ (LineDiff = {} \/ PrintT(<<"DIFF", l, "final", { x[1] \o ":" \o x[2] : x \in LineDiff }>>))
Spec == Init /\ [][Next]_l

Done == l = Len(Trace) + 1 => PrintT(<<"DONE", l - 1>>)
=============================================================================
