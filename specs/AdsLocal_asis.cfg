SPECIFICATION Spec
CONSTANTS
  Tombstones = FALSE
  Owners = {"o1", "o2"}
  Svcs = {"s1", "s2"}
  Times = {1, 2, 3}
  MaxSteps = 6
VIEW vw
INVARIANTS
  NoResurrection
PROPERTIES
  NoOlderReplaces
  NoChangeNoRelay
  NewerAccepted
