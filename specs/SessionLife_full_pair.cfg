\* full, safety incl. the bound on silence: both nodes, discrete time, run-to-completion main loops, node a before node b; the link may go silent and heal, one connection may be cut; 3 initial messages
SPECIFICATION Spec
CONSTANTS
  Links = {1}
  MaxIdle = 2
  Poll = 1
  KA = 1
  MaxInit = 3
  MaxLev = 1
  QLen = 1
  Sync = TRUE
  Coarse = TRUE
  RealNodes = {"a", "b"}
  CancelOnReturn = TRUE
  SkipOnBackendCancel = FALSE
  EdgeGuard = TRUE
  BSilence = 1
  BCut = 1
  ShutNodes = {}
  CancelNodes = {}
  BReborn = 0
  BAdv = 0
  BIdle = 0
  BDial = 0
  Wit = FALSE
INVARIANTS
  TypeOK
  OnePerPeer
  ListedIffOpen
  EdgeOnlyWhileHeld
  EstHasEdge
  RebuildComing
  NoOrphan
  NoInitAfterDone
  AgeBound
  OneDialSession
  DialerWaits
  DownStaysQuiet
