SPECIFICATION Spec
CONSTANTS
  Ctl = {1}
  MaxReloads = 0
  MaxEdits = 0
  MaxSess = 0
  MaxFail = 1
  EditNames = {"start", "drop_D", "cost_D", "add_E", "drop_L", "mod_B", "rm_A", "add_item", "mod_B_drop_D", "unparsable", "unreadable", "badcost", "failstart"}
  KF_StaleFlags = FALSE
  KF_NoReloadMutex = FALSE
  DumpFile = "scenarios.ndjson"
  KF_PortFreedAfterDone = FALSE
  KF_MidEstablishLeak = FALSE
