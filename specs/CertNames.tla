------------------------------ MODULE CertNames ------------------------------
(***************************************************************************)
(* C20 - names in certificates issued by the built-in tooling.             *)
(*                                                                         *)
(* Code: utils.MakeReceptorSAN / utils.ReceptorNames                       *)
(* (pkg/utils/other_name.go), certificates.CreateCertReq, GetReqNames,     *)
(* SignCertReq (pkg/certificates/ca.go), MakeReq / SignReq (cli.go),       *)
(* utils.ParseReceptorNamesFromCert and netceptor.ReceptorVerifyFunc.      *)
(*                                                                         *)
(* The model has three parts.                                              *)
(*  1. A DER length sub-model.  MakeReceptorSAN builds the otherName by    *)
(*     marshalling SEQUENCE {OID, [0] {UTF8String}} and re-wrapping the    *)
(*     SEQUENCE's content in a context tag; for that it must strip the     *)
(*     SEQUENCE header, whose size depends on the node id's byte length.   *)
(*     LenOctets/TLV give the header sizes and therefore the boundary      *)
(*     classes of node-id length at which any header changes size.         *)
(*     LegacyStrip = TRUE models the code before the repair (a fixed       *)
(*     2-byte strip): RoundTrip then fails from 113 bytes on.              *)
(*  2. Request shapes: node-id list (empty / one / several / duplicates)   *)
(*     x byte-length class x character class, DNS list, IP list, key,      *)
(*     validity window, and the candidate ids used to verify the result.   *)
(*  3. The oracle: names read back = names requested; VerifyAs(id) <=> id  *)
(*     requested (and the window contains now); decoding yields the        *)
(*     encoded ids or an error.                                            *)
(* The harness (cmd/vtab certs) concretises every vector several times     *)
(* with seeded strings of exactly the prescribed byte lengths.             *)
(***************************************************************************)
EXTENDS Naturals, Sequences, FiniteSets, TLC, Json, SequencesExt

CONSTANTS MaxLen,        \* largest node-id byte length considered
          Families,      \* subset of {"ids", "names", "san", "decode"}
          LegacyStrip,   \* TRUE: the encoder strips a fixed 2-byte header (the code before the repair)
          MaxTick,       \* the abstract clock of the "clock" family runs over 0..MaxTick
          KF_TimeFrozenAtCreation,  \* FALSE: the code.  TRUE: the counter-example variant in which receptor's peer verification reads
                         \* the clock when the verifier is BUILT, so that a certificate issued later is "not yet valid" for it and
                         \* one that expires later stays acceptable; it must FAIL ValidityJudgedAtVerification
          DumpFile

\* ---------------------------------------------------------------- DER length sub-model
LenOctets(n) == IF n <= 127 THEN 1 ELSE IF n <= 255 THEN 2 ELSE IF n <= 65535 THEN 3 ELSE 4
Hdr(n) == 1 + LenOctets(n)              \* one tag octet + length octets for a content of n bytes
TLV(n) == Hdr(n) + n

OIDTLV == 11                            \* 06 09 2B 06 01 04 01 92 08 13 01
Utf8TLV(n)  == TLV(n)                   \* UTF8String of n bytes
ValueTLV(n) == TLV(Utf8TLV(n))          \* [0] around it
OtherNameContent(n) == OIDTLV + ValueTLV(n)
SeqHdr(n)   == Hdr(OtherNameContent(n)) \* header of the SEQUENCE that asn1.Marshal produces
EntryTLV(n) == TLV(OtherNameContent(n)) \* the [0] GeneralName as it must appear in the SAN

StripLen(n) == IF LegacyStrip THEN 2 ELSE SeqHdr(n)
EntryWellFormed(n) == StripLen(n) = SeqHdr(n)

Shape(n) == <<LenOctets(n), LenOctets(Utf8TLV(n)), LenOctets(OtherNameContent(n))>>
Boundaries == {n \in 1..MaxLen : Shape(n) # Shape(n - 1)}
LenClasses == ({0, 1, 2, 8, 64} \cup UNION {{b - 1, b, b + 1} : b \in Boundaries}) \cap 0..MaxLen

\* the prediction that made the sub-model worth having: with a 2-byte strip the first malformed length is 113
FirstLongHeader == CHOOSE n \in 0..MaxLen : SeqHdr(n) # 2 /\ \A m \in 0..(n - 1) : SeqHdr(m) = 2
ASSUME MaxLen >= 130 => FirstLongHeader = 113
ASSUME MaxLen >= 130 => {112, 113, 114, 125, 126, 127, 128, 129} \subseteq LenClasses

\* ---------------------------------------------------------------- request shapes
Charsets == {"ascii", "utf8_2", "utf8_3", "utf8_4", "mixed", "controls", "invalid"}
ValidCharset(c) == c # "invalid"       \* "invalid": not UTF-8 at all; the tooling must refuse or keep the bytes

Id(l, c, r) == [len |-> l, cs |-> c, ref |-> r,    \* equal ref = the same string
                der |-> [entry |-> EntryTLV(l), utf8hdr |-> Hdr(l), valhdr |-> Hdr(Utf8TLV(l)), seqhdr |-> SeqHdr(l)]]

ShortA == Id(8, "ascii", 8)
ShortB == Id(5, "utf8_2", 9)

IdShapesFull ==
  {<<>>}
  \cup { <<Id(l, c, 1)>> : l \in LenClasses, c \in Charsets }
  \cup { <<Id(l, c, 1), ShortA, ShortB>> : l \in LenClasses, c \in Charsets }
  \cup { <<ShortA, Id(l, c, 1), ShortB>> : l \in LenClasses, c \in Charsets }
  \cup { <<ShortA, ShortB, Id(l, c, 1)>> : l \in LenClasses, c \in Charsets }
  \cup { <<Id(l, c, 1), ShortA, Id(l, c, 1)>> : l \in LenClasses, c \in Charsets }      \* duplicates

IdShapesFew ==
  {<<>>, <<ShortA>>, <<Id(113, "utf8_2", 1)>>, <<ShortA, Id(128, "ascii", 1), ShortA>>}

DnsKinds == {"none", "one", "several", "long", "nonascii"}
IpKinds  == {"none", "v4", "v6", "both", "mapped", "badlen"}
KeyKinds == {"existing", "new"}
Windows  == {"default", "explicit", "expired", "future", "gentime"}
WindowValid(w) == w \in {"default", "explicit", "gentime"}        \* contains the time of verification

DnsOK(d) == d # "nonascii"            \* dNSName is an IA5String
IpOK(i)  == i # "badlen"              \* 4 or 16 bytes

\* candidates for verification; "of" is the position of the id they derive from (0 = none)
CandKinds == {"same", "prefix", "extended", "case", "otherclass"}
Candidates(ids, w) ==
  { [kind |-> k, of |-> i, accept |-> (k = "same" /\ WindowValid(w))] : k \in CandKinds, i \in 1..Len(ids) }
  \cup { [kind |-> k, of |-> 0, accept |-> FALSE] : k \in {"empty", "dnsname", "cn", "unrelated"} }

\* what reading the names back from the tool-made request/certificate gives
ReadBack(ids) == IF \A i \in 1..Len(ids) : EntryWellFormed(ids[i].len) THEN "exact" ELSE "error"

SanContentOf(ids, dnslen) ==
  LET RECURSIVE Sum(_)
      Sum(i) == IF i = 0 THEN 0 ELSE Sum(i - 1) + EntryTLV(ids[i].len)
  IN Sum(Len(ids)) + (IF dnslen = 0 THEN 0 ELSE TLV(dnslen))

ReqVec(fam, ids, d, padlen, ip, key, w) ==
  [fam |-> fam, ids |-> ids, dns |-> d, padlen |-> padlen, ip |-> ip, key |-> key, window |-> w, entries |-> <<>>,
   cands |-> SetToSeq(Candidates(ids, w)),
   expect |-> [ \* if anything is produced, its names are exactly the requested ones
                wellformed |-> (\A i \in 1..Len(ids) : ValidCharset(ids[i].cs)) /\ DnsOK(d) /\ IpOK(ip),
                readback |-> ReadBack(ids),
                window_valid |-> WindowValid(w),
                nonames |-> (Len(ids) = 0 /\ d = "none" /\ ip = "none"),   \* the CLI refuses to sign such a request
                san_content |-> IF d = "pad" THEN SanContentOf(ids, padlen) ELSE 0 ]]

IdsVectors ==
  { ReqVec("ids", ids, d, 0, ip, "existing", "default") : ids \in IdShapesFull, d \in {"none", "one"}, ip \in {"none", "v4"} }

NamesVectors ==
  { ReqVec("names", ids, d, 0, ip, k, w) : ids \in IdShapesFew, d \in DnsKinds, ip \in IpKinds, k \in KeyKinds, w \in Windows }

\* SAN SEQUENCE thresholds: one id plus a padding dNSName so that the SEQUENCE content is exactly t bytes
SanTargets == {t \in {126, 127, 128, 129, 254, 255, 256, 257} : t <= MaxLen}
SanVectors ==
  UNION { { ReqVec("san", <<Id(l, "ascii", 1)>>, "pad", p, "none", "existing", "default") :
              p \in {q \in 1..MaxLen : EntryTLV(l) + TLV(q) = t} } : t \in SanTargets, l \in {1, 8, 64} }

\* decoding SANs the tooling did not make (independent encoder in the harness): entry kinds
\*   id        well-formed receptor otherName        foreign   otherName with another OID (not a node id)
\*   id_ia5    receptor OID, IA5String value         id_ber    non-minimal length octets (BER)
\*   id_trunc  explicit tag longer than its content  id_legacy the malformed entry a fixed 2-byte strip produces
Entry(k, l, c) == [kind |-> k, len |-> l, cs |-> c]
DecodeLists ==
  { <<Entry("id", l, c)>> : l \in LenClasses, c \in {"ascii", "utf8_3"} }
  \cup { <<Entry("id", 8, "ascii"), Entry(k, l, "ascii"), Entry("id", 5, "utf8_2")>> :
           k \in {"foreign", "id_ia5", "id_ber", "id_trunc", "id_legacy", "dns"}, l \in {8, 64, 113, 128} \cap LenClasses }
\* ids that a correct reader returns: every receptor entry's text; malformed ones admit only an error
DecodeExpect(es) ==
  IF \E i \in 1..Len(es) : es[i].kind \in {"id_trunc"} \/ (es[i].kind = "id_legacy" /\ SeqHdr(es[i].len) # 2)
  THEN "error"
  ELSE IF \E i \in 1..Len(es) : es[i].kind = "id_ber" THEN "error_or_exact"     \* a lenient BER reader may return the name
  ELSE "exact"
DecodeVec(es) ==
  [fam |-> "decode", ids |-> <<>>, dns |-> "none", padlen |-> 0, ip |-> "none", key |-> "existing", window |-> "default",
   entries |-> es, cands |-> <<>>,
   expect |-> [wellformed |-> TRUE, readback |-> DecodeExpect(es), window_valid |-> TRUE, nonames |-> FALSE, san_content |-> 0]]
DecodeVectors == { DecodeVec(es) : es \in DecodeLists }

\* ---------------------------------------------------------------- building the verifier, issuing and verifying are separate steps
\* Family "clock": the verifier for an id is built at tick tc, the certificate is issued by the tooling at tick ti >= tc
\* and verified at every tick from ti on.  Windows: "default" - the tooling's own (NotBefore = the time of signing, one
\* year); "short" - requested NotAfter half a tick after ti; "late" - requested NotBefore half a tick before ti + 1.
\* A window is a pair of tick bounds and contains tick t iff nb <= t <= na.
Ticks == 0..MaxTick
ClockWindows == {"default", "short", "late"}
WindowOf(k, ti) == CASE k = "default" -> <<ti, MaxTick + 1>>
                     [] k = "short"   -> <<0 - 1, ti>>
                     [] k = "late"    -> <<ti + 1, MaxTick + 1>>
InWindow(t, w) == w[1] <= t /\ t <= w[2]
ClockVerdict(tc, t, w) == InWindow(IF KF_TimeFrozenAtCreation THEN tc ELSE t, w)
ClockVec(ids, k, tc, ti) ==
  [fam |-> "clock", ids |-> ids, dns |-> "none", padlen |-> 0, ip |-> "none", key |-> "existing", window |-> k, entries |-> <<>>,
   cands |-> <<>>,
   clock |-> [tc |-> tc, ti |-> ti, nb |-> WindowOf(k, ti)[1], na |-> WindowOf(k, ti)[2],
              verify |-> [j \in 1..(MaxTick - ti + 1) |-> [at |-> ti + j - 1, accept |-> ClockVerdict(tc, ti + j - 1, WindowOf(k, ti))]]],
   expect |-> [wellformed |-> TRUE, readback |-> ReadBack(ids), window_valid |-> TRUE, nonames |-> FALSE, san_content |-> 0]]
ClockVectors ==
  UNION { { ClockVec(ids, k, tc, ti) : ids \in {<<ShortA>>, <<Id(113, "ascii", 1)>>}, k \in ClockWindows, tc \in 0..ti } : ti \in Ticks }

AllVectors == (IF "ids" \in Families THEN IdsVectors ELSE {})
              \cup (IF "names" \in Families THEN NamesVectors ELSE {})
              \cup (IF "san" \in Families THEN SanVectors ELSE {})
              \cup (IF "decode" \in Families THEN DecodeVectors ELSE {})
              \cup (IF "clock" \in Families THEN ClockVectors ELSE {})

\* ---------------------------------------------------------------- state machine: one state per vector
VARIABLE vec
Init == vec \in AllVectors
Next == UNCHANGED vec
Spec == Init /\ [][Next]_vec

IsReq == vec.fam \in {"ids", "names", "san"}

\* ---------------------------------------------------------------- design-level properties (C20)
\* the names of whatever the tooling produces can be read back exactly (fails with LegacyStrip from 113 bytes on)
RoundTrip == IsReq => vec.expect.readback = "exact"

\* the entry the encoder emits has the size DER prescribes: header of the right size around OID + value
EntrySizes ==
  IsReq => \A i \in 1..Len(vec.ids) :
     LET n == vec.ids[i].len IN
       /\ vec.ids[i].der.entry = vec.ids[i].der.seqhdr + OIDTLV + vec.ids[i].der.valhdr + vec.ids[i].der.utf8hdr + n
       /\ vec.ids[i].der.seqhdr \in {2, 3, 4, 5} /\ (vec.ids[i].der.seqhdr = 2 <=> n <= 112)

\* verification accepts exactly the requested ids, and only inside the validity window
VerifyExactly ==
  IsReq => \A i \in 1..Len(vec.cands) :
     vec.cands[i].accept <=> (vec.cands[i].kind = "same" /\ vec.expect.window_valid)

\* a padded request really sits on the SAN threshold it was built for
SanOnThreshold == vec.fam = "san" => vec.expect.san_content \in SanTargets

\* a certificate verifies as its requested id exactly while the clock AT THE VERIFICATION is inside its window,
\* whenever the verifier was built
IsClock == vec.fam = "clock"
ValidityJudgedAtVerification ==
  IsClock => \A j \in 1..Len(vec.clock.verify) :
     vec.clock.verify[j].accept = InWindow(vec.clock.verify[j].at, <<vec.clock.nb, vec.clock.na>>)

\* ---------------------------------------------------------------- anti-vacuity witnesses
W_NoLongHeader   == ~(IsReq /\ \E i \in 1..Len(vec.ids) : vec.ids[i].der.seqhdr = 3)
W_NoFourByteHdr  == ~(IsReq /\ \E i \in 1..Len(vec.ids) : vec.ids[i].der.seqhdr = 4)
W_NoDuplicates   == ~(IsReq /\ Len(vec.ids) = 3 /\ vec.ids[1].ref = vec.ids[3].ref)
W_NoExpired      == ~(IsReq /\ ~vec.expect.window_valid /\ Len(vec.ids) > 0)
W_NoThreshold128 == ~(vec.fam = "san" /\ vec.expect.san_content = 128)
W_NoDecodeError  == ~(vec.fam = "decode" /\ vec.expect.readback = "error")
W_NoIssuedAfterVerifier == ~(IsClock /\ vec.clock.tc < vec.clock.ti /\ vec.window = "default" /\ vec.clock.verify[1].accept)
W_NoExpiresLater        == ~(IsClock /\ vec.window = "short" /\ Len(vec.clock.verify) >= 2
                               /\ vec.clock.verify[1].accept /\ ~vec.clock.verify[2].accept)
W_NoNewKey       == ~(IsReq /\ vec.key = "new" /\ Len(vec.ids) > 0)

\* ---------------------------------------------------------------- export
ASSUME DumpFile = "" \/ ndJsonSerialize(DumpFile, SetToSeq(AllVectors))
=============================================================================
