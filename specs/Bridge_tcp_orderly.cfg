SPECIFICATION Spec
CONSTANTS
  MaxBytes = 2
  K1 = "full"
  K2 = "full"
  Discipline = "orderly"
INVARIANTS
  E2EPrefix
  E2EEOFOnlyAfterAll
PROPERTIES
  ClosePropagates
  BridgeReturns
