SPECIFICATION Spec
CONSTANTS
  MaxBytes = 3
  Cuts = {"transit"}
  MaxNotices = 1
  NoticeEndsStream = TRUE
  OriginErrorFatal = TRUE
INVARIANTS
  Prefix
  EOFOnlyAfterAll
  NoSpontaneousClose
  NoAbort
PROPERTIES
  Complete
  AllDelivered
