SPECIFICATION Spec
CONSTANTS
  MaxBytes = 2
  Cuts = {"transit", "stall"}
  AcceptorCloseKillsSocket = FALSE
  ForwarderWaitsOnNode = FALSE
  AcceptLeavesDeadline = FALSE
  MaxNotices = 1
  NoticeEndsStream = TRUE
  OriginErrorFatal = TRUE
INVARIANTS
  Prefix
  EOFOnlyAfterAll
  NoSpontaneousClose
  NoReadErrorWhileUp
  NoAbort
PROPERTIES
  Complete
  AllDelivered
