SPECIFICATION TSpec
CONSTANTS
  MaxBytes = 1
  Cuts = {"origin", "transit", "stall", "sibling"}
  AcceptorCloseKillsSocket = FALSE
  ForwarderWaitsOnNode = FALSE
  AcceptLeavesDeadline = FALSE
  MaxNotices = 1000000
  NoticeEndsStream = FALSE
  OriginErrorFatal = TRUE
INVARIANTS
  Prefix
  EOFOnlyAfterAll
  NoSpontaneousClose
  NoReadErrorWhileUp
  Done
CHECK_DEADLOCK FALSE
