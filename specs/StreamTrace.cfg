SPECIFICATION TSpec
CONSTANTS
  MaxBytes = 1
  Cuts = {"origin", "transit"}
  OriginErrorFatal = TRUE
INVARIANTS
  Prefix
  EOFOnlyAfterAll
  Done
CHECK_DEADLOCK FALSE
