SPECIFICATION TSpec
CONSTANTS
  MaxBytes = 1
  Cuts = {"origin", "transit"}
  MaxNotices = 1000000
  NoticeEndsStream = FALSE
  OriginErrorFatal = TRUE
INVARIANTS
  Prefix
  EOFOnlyAfterAll
  NoSpontaneousClose
  Done
CHECK_DEADLOCK FALSE
