SPECIFICATION Spec
CONSTANTS
  Issuers = {"trusted", "trusted_inter", "otherca", "selfsigned"}
  Validities = {"valid", "expired", "notyet"}
  Usages = {"server", "client", "both", "neither", "absent"}
  NameSets = {"expected", "other", "several", "none", "dnsonly", "both", "rec_other_dns_expected"}
  PinLists <- PinListsQuick
  Roles = {"server", "client"}
  Modes = {"receptor", "dns", "dns_noname"}
  StreamSrcs <- StreamSrcsQuick
  MaxTick = 1
  KF_LookupMutatesStored = FALSE
  KF_TimeFrozenAtCreation = FALSE
  KF_DigestCachedAcrossCalls = FALSE
  KF_ColonSplit = FALSE
  DumpFile = "vectors.ndjson"
INVARIANTS
  VerdictsAreDefinitions
  AcceptImpliesAll
  SingleFailureRefuses
  CodeWithinProp
  WellFormedEquiv
  RoleSeparation
  ReceptorModeIgnoresDNS
  PinsOnlyRestrict
  StreamBindsSource
  StreamCodeIsProp
  HistoryIndependent
  PinnedThenUnpinnedRefused
  ValidityJudgedAtHandshake
  LookupsIndependent
  LaterLookupStillVerifies
  ExpiryAndOnsetObserved
