SPECIFICATION Spec
CONSTANTS
  Node = {"n1", "n2", "n3", "n4"}
  Ghost = {}
  Nbr <- Four_Nbr
  Bound <- Bound_ab
  VarCols = {"n1", "n4"}
  SrcSet = {"n1", "n4"}
  SrcSvcs = {"a"}
  DstSet = {"n1", "n4"}
  DstSvcs = {"a", "u", "ping"}
  TTLs = {0, 1, 2, 3, 4, 5}
  MaxSends = 1
  DefTTL = 4
INVARIANTS
  TypeOK
  DeliveredOnlyAtAddressee
  TrueSource
  AtMostOnce
  Intact
  DeliveredWhenRouted
  FwdBound
  ReachIff
  ReachIffDist
  NoNoticeAboutNotice
  AtMostOneNotice
  PingConsistent
  TracerouteOK
  NoticeToSenderOnly
  UnknownServiceReported
  NeverBoth
PROPERTIES
  Decreases
