SPECIFICATION Spec
CONSTANTS
  Node = {"n1", "n2", "n3", "n4"}
  Ghost = {}
  Nbr <- Four_Nbr
  Bound <- Bound_ab
  VarCols = {"n1", "n4"}
  SrcSet = {"n1"}
  SrcSvcs = {"a", "b"}
  DstSet = {"n4"}
  DstSvcs = {"a", "u", "ping"}
  TTLs = {0, 1, 2, 3, 4}
  MaxSends = 2
  DefTTL = 4
INVARIANTS
  TypeOK
  DeliveredOnlyAtAddressee
  TrueSource
  AtMostOnce
  Intact
  DeliveredWhenRouted
  FwdBound
  ReachIff
  ReachIffDist
  NoNoticeAboutNotice
  AtMostOneNotice
  PingConsistent
  TracerouteOK
  NoticeToSenderOnly
  UnknownServiceReported
  NeverBoth
PROPERTIES
  Decreases
