--------------------------- MODULE SessionLifeTrace ---------------------------
(***************************************************************************)
(* Validation of hook traces recorded from REAL Netceptor nodes (build tag *)
(* verif; driver harness/cmd/vsl) against the session automaton of         *)
(* SessionCore.tla, which SessionLife.tla checks at the design level.      *)
(*                                                                         *)
(* One node instance at a time (a "reset" line starts the next one).  The   *)
(* main-loop events of a session (sess_start, conn_add, known_add,         *)
(* established, reject, conn_del, known_del, sess_end, req_xxx) must be a   *)
(* path of SessionCore!After, where the steps the code does not report      *)
(* (rendezvous with the init sender, the two requests before `established`, *)
(* a cancellation seen in a select, the reject frame handed to the writer)  *)
(* are filled in.  On top of that: one connection per peer id; the          *)
(* adjacency edge and the clean-up requests of an ended session; the        *)
(* initial-connect sender (count, spacing, never after the rendezvous, give *)
(* up after 11); the ageing monitor (every listed connection that is        *)
(* overdue at a scan is cut in that scan, nothing is cut early or later     *)
(* than max idle + poll + slack); the goroutines of an ended session; the   *)
(* dialer loop of pkg/backends/utils.go (states, delays 5 s * 1.5^n capped  *)
(* at 20 s and reset by a successful dial, no activity after its context    *)
(* is cancelled); silence after BackendWait.                                *)
(*                                                                         *)
(* Never blocks: a mismatch prints <<"DIFF", line, event, {reasons}>> and   *)
(* the rest of that instance is skipped; <<"DONE", n>> at the end.          *)
(***************************************************************************)
EXTENDS SessionCore, Integers, TLC, Json

Trace == ndJsonDeserialize("trace.ndjson")

VARIABLES sess,   \* session label -> [ph, reg, nxt, peer, ic, it, idone, gr, lastrx]
          conn,   \* peer id -> session label (s.connections)
          edge,   \* peer ids with an adjacency edge in the own row
          owed,   \* peers the current ageing scan has to cut
          dlr,    \* dialer label -> [st, sess, redial, base, next, wt, wd, cd]
          nd,     \* [stopped, down, waited, maxidle, poll, slack]: Shutdown/CancelBackends announced, Shutdown announced, BackendWait returned, constants
          l, skip

vars == <<sess, conn, edge, owed, dlr, nd, l, skip>>

E == Trace[l]
Has(f, k) == k \in DOMAIN f
Put(f, k, v) == [x \in (DOMAIN f) \cup {k} |-> IF x = k THEN v ELSE f[x]]
Del(f, k) == [x \in (DOMAIN f) \ {k} |-> f[x]]
EmptyF == [x \in {} |-> 0]
IsEv(e) == l <= Len(Trace) /\ E.ev = e
Live(e) == IsEv(e) /\ ~skip

NoNd == [stopped |-> FALSE, down |-> FALSE, waited |-> FALSE, maxidle |-> 0, poll |-> 0, slack |-> 0]
NewS == [ph |-> "fresh", reg |-> FALSE, nxt |-> "ret", peer |-> "", ic |-> 0, it |-> 0, idone |-> FALSE,
         gr |-> {"reader", "writer", "init"}, lastrx |-> -1]

TInit == sess = EmptyF /\ conn = EmptyF /\ edge = {} /\ owed = {} /\ dlr = EmptyF /\ nd = NoNd /\ l = 1 /\ skip = TRUE

Advance(d) == /\ l' = l + 1
              /\ skip' = (skip \/ d # {})
              /\ (IF d = {} THEN TRUE ELSE PrintT(<<"DIFF", l, E.ev, d>>))
              /\ PrintT(<<"CLASS", E.ev>>)

\* several main-loop steps in a row: the phase after them, "BAD" as soon as one is impossible
RECURSIVE Run(_, _, _, _)
Run(ph, evs, reg, nxt) == IF ph = "BAD" \/ evs = <<>> THEN ph ELSE Run(After(ph, Head(evs), reg, nxt), Tail(evs), reg, nxt)

Bad(tag, ph) == {tag \o "_in_phase_" \o ph}

TReset == /\ IsEv("reset")
          /\ sess' = EmptyF /\ conn' = EmptyF /\ edge' = {} /\ owed' = {} /\ dlr' = EmptyF
          /\ nd' = [NoNd EXCEPT !.maxidle = E.maxidle, !.poll = E.poll, !.slack = E.slack]
          /\ l' = l + 1 /\ skip' = FALSE

Skipped == /\ l <= Len(Trace) /\ E.ev # "reset" /\ skip
           /\ l' = l + 1 /\ UNCHANGED <<sess, conn, edge, owed, dlr, nd, skip>>

TSessStart ==
  /\ Live("sess_start")
  /\ LET old == Has(sess, E.sess)
         d == (IF old /\ (sess[E.sess].ph # "none" \/ sess[E.sess].gr # {}) THEN {"label_reused_while_session_or_goroutines_live"} ELSE {})
              \cup (IF nd.waited THEN {"session_started_after_backend_wait"} ELSE {})
     IN /\ sess' = Put(sess, E.sess, NewS)
        /\ UNCHANGED <<conn, edge, owed, dlr, nd>> /\ Advance(d)

TRx ==
  /\ Live("rx")
  /\ sess' = IF Has(sess, E.sess) THEN [sess EXCEPT ![E.sess].lastrx = E.t] ELSE sess
  /\ owed' = {p \in owed : ~(Has(conn, p) /\ conn[p] = E.sess)}
  /\ UNCHANGED <<conn, edge, dlr, nd>> /\ Advance({})

TInitSend ==
  /\ Live("init_send")
  /\ LET known == Has(sess, E.sess)
         s == IF known THEN sess[E.sess] ELSE NewS
         d == IF ~known THEN {"init_send_of_unknown_session"}
              ELSE (IF E.count # s.ic + 1 THEN {"init_count"} ELSE {})
                   \cup (IF s.ic >= 1 /\ E.t - s.it < 999 THEN {"init_resent_sooner_than_1s"} ELSE {})
                   \cup (IF s.idone \/ s.ph \in {"idone", "adj", "upd", "est"} THEN {"init_after_establishment"} ELSE {})
                   \cup (IF E.count > InitGiveUpAfter THEN {"init_more_than_11"} ELSE {})
     IN /\ sess' = IF known THEN [sess EXCEPT ![E.sess].ic = E.count, ![E.sess].it = E.t] ELSE sess
        /\ UNCHANGED <<conn, edge, owed, dlr, nd>> /\ Advance(d)

TInitGiveup ==
  /\ Live("init_giveup")
  /\ LET d == IF Has(sess, E.sess) /\ sess[E.sess].ic # InitGiveUpAfter THEN {"giveup_count"} ELSE {}
     IN UNCHANGED <<sess, conn, edge, owed, dlr, nd>> /\ Advance(d)

TInitDone ==
  /\ Live("init_done")
  /\ sess' = IF Has(sess, E.sess) THEN [sess EXCEPT ![E.sess].idone = TRUE] ELSE sess
  /\ UNCHANGED <<conn, edge, owed, dlr, nd>> /\ Advance({})

TGExit ==
  /\ Live("gexit")
  /\ sess' = IF Has(sess, E.sess) THEN [sess EXCEPT ![E.sess].gr = @ \ {E.who}] ELSE sess
  /\ UNCHANGED <<conn, edge, owed, dlr, nd>> /\ Advance({})

TConnAdd ==
  /\ Live("conn_add")
  /\ LET known == Has(sess, E.sess)
         ph == IF known THEN sess[E.sess].ph ELSE "none"
         d == (IF After(ph, "admit", FALSE, "ret") = "BAD" THEN Bad("conn_add", ph) ELSE {})
              \cup (IF Has(conn, E.peer) THEN {"second_connection_for_peer"} ELSE {})
     IN /\ sess' = IF known THEN [sess EXCEPT ![E.sess].ph = "reg", ![E.sess].reg = TRUE, ![E.sess].peer = E.peer] ELSE sess
        /\ conn' = Put(conn, E.peer, E.sess)
        /\ UNCHANGED <<edge, owed, dlr, nd>> /\ Advance(d)

TKnownAdd ==
  /\ Live("known_add")
  /\ LET has == Has(conn, E.peer) /\ Has(sess, conn[E.peer])
         s == IF has THEN conn[E.peer] ELSE ""
         ph == IF has THEN Run(sess[s].ph, Before("known_add") \o <<"known_add">>, TRUE, "ret") ELSE "BAD"
         d == IF ~has THEN {"known_add_without_connection"} ELSE IF ph = "BAD" THEN Bad("known_add", sess[s].ph) ELSE {}
     IN /\ sess' = IF has /\ ph # "BAD" THEN [sess EXCEPT ![s].ph = ph] ELSE sess
        /\ edge' = edge \cup {E.peer}
        /\ UNCHANGED <<conn, owed, dlr, nd>> /\ Advance(d)

TEstablished ==
  /\ Live("established")
  /\ LET known == Has(sess, E.sess)
         ph == IF known THEN Run(sess[E.sess].ph, Before("established"), TRUE, "ret") ELSE "BAD"
         d == IF ph # "est" THEN Bad("established", IF known THEN sess[E.sess].ph ELSE "none") ELSE {}
     IN /\ sess' = IF known /\ ph = "est" THEN [sess EXCEPT ![E.sess].ph = "est"] ELSE sess
        /\ UNCHANGED <<conn, edge, owed, dlr, nd>> /\ Advance(d)

TReject ==
  /\ Live("reject")
  /\ LET known == Has(sess, E.sess)
         ph0 == IF known THEN sess[E.sess].ph ELSE "none"
         ev == IF E.why \in {"empty_id", "self", "not_allowed", "already_connected"} THEN "refuse"
               ELSE IF E.why = "peer_rejected" THEN "peer_reject" ELSE "drop"
         ph == After(ph0, ev, FALSE, "ret")
         d == IF ph = "BAD" THEN Bad("reject_" \o E.why, ph0) ELSE {}
     IN /\ sess' = IF known /\ ph # "BAD" THEN [sess EXCEPT ![E.sess].ph = ph, ![E.sess].nxt = NxtOf(ev)] ELSE sess
        /\ UNCHANGED <<conn, edge, owed, dlr, nd>> /\ Advance(d)

\* removeConnection, first section.  A session that was listed and saw its context cancelled reports nothing before this.
TConnDel ==
  /\ Live("conn_del")
  /\ LET has == Has(conn, E.peer) /\ Has(sess, conn[E.peer])
         s == IF has THEN conn[E.peer] ELSE ""
         ph0 == IF has THEN sess[s].ph ELSE "none"
         viaCancel == ph0 \in {"reg", "adj", "upd", "est"}
         ph == IF viaCancel THEN Run(ph0, <<"cancel", "conn_del">>, TRUE, "ret") ELSE After(ph0, "conn_del", TRUE, "ret")
         d == IF ~has THEN {"conn_del_without_connection"} ELSE IF ph = "BAD" THEN Bad("conn_del", ph0) ELSE {}
     IN /\ sess' = IF has /\ ph # "BAD" THEN [sess EXCEPT ![s].ph = ph, ![s].nxt = IF viaCancel THEN "ret" ELSE @] ELSE sess
        /\ conn' = Del(conn, E.peer)
        /\ owed' = owed \ {E.peer}
        /\ UNCHANGED <<edge, dlr, nd>> /\ Advance(d)

\* removeConnection, second section: deletes the edge by peer id
TKnownDel ==
  /\ Live("known_del")
  /\ LET cand == {s \in DOMAIN sess : sess[s].peer = E.peer /\ sess[s].ph = "rmk"}
         s == IF cand # {} THEN CHOOSE x \in cand : TRUE ELSE ""
         newer == {x \in DOMAIN sess : sess[x].peer = E.peer /\ sess[x].ph \in {"adj", "upd", "est"}}
         d == (IF cand = {} THEN {"known_del_without_removal_in_progress"} ELSE {})
              \cup (IF newer # {} \/ Has(conn, E.peer) THEN {"known_del_removed_edge_of_newer_session"} ELSE {})
     IN /\ sess' = IF cand # {} THEN [sess EXCEPT ![s].ph = sess[s].nxt] ELSE sess
        /\ edge' = edge \ {E.peer}
        /\ UNCHANGED <<conn, owed, dlr, nd>> /\ Advance(d)

\* removeConnection, second section, when a new session of the peer has been admitted meanwhile: the edge stays
TKnownKeep ==
  /\ Live("known_keep")
  /\ LET cand == {s \in DOMAIN sess : sess[s].peer = E.peer /\ sess[s].ph = "rmk"}
         s == IF cand # {} THEN CHOOSE x \in cand : TRUE ELSE ""
         d == (IF cand = {} THEN {"known_keep_without_removal_in_progress"} ELSE {})
              \cup (IF ~Has(conn, E.peer) THEN {"edge_kept_without_connection"} ELSE {})
     IN /\ sess' = IF cand # {} THEN [sess EXCEPT ![s].ph = sess[s].nxt] ELSE sess
        /\ UNCHANGED <<conn, edge, owed, dlr, nd>> /\ Advance(d)

\* the deferred function of runProtocol starts: everything of the session must have been taken out before
TSessEnd ==
  /\ Live("sess_end")
  /\ LET known == Has(sess, E.sess)
         ph0 == IF known THEN sess[E.sess].ph ELSE "none"
         reg == known /\ sess[E.sess].reg
         pre == IF ph0 = "fresh" THEN <<"cancel">> ELSE IF ph0 = "rej" THEN <<"reject_sent">> ELSE <<>>
         ph == Run(ph0, pre \o <<"sess_end">>, reg, "ret")
         d == IF ~known THEN {"end_of_unknown_session"}
              ELSE IF ph0 \in ListedPh THEN {"session_ended_while_listed"}
              ELSE IF ph0 = "rmk" THEN {"session_ended_with_adjacency_edge"}
              ELSE IF ph = "BAD" THEN Bad("sess_end", ph0) ELSE {}
     IN /\ sess' = IF known THEN [sess EXCEPT ![E.sess].ph = IF ph = "BAD" THEN "none" ELSE ph] ELSE sess
        /\ UNCHANGED <<conn, edge, owed, dlr, nd>> /\ Advance(d)

\* the deferred requests of a registered session (req_update, req_rebuild, req_skip)
TReq ==
  /\ Live("req")
  /\ LET want == IF E.what = "update" THEN {"end1"} ELSE IF E.what = "rebuild" THEN {"end2"} ELSE {"end1", "end2"}
         cand == {s \in DOMAIN sess : sess[s].peer = E.peer /\ sess[s].ph \in want}
         s == IF cand # {} THEN CHOOSE x \in cand : TRUE ELSE ""
         ev == IF E.what = "update" THEN "req_update" ELSE IF E.what = "rebuild" THEN "req_rebuild" ELSE "req_skip"
         d == (IF cand = {} THEN {"request_" \o E.what \o "_without_ended_session"} ELSE {})
              \cup (IF E.what = "skip" /\ ~nd.down THEN {"request_skipped_while_node_context_alive"} ELSE {})
     IN /\ sess' = IF cand # {} THEN [sess EXCEPT ![s].ph = After(sess[s].ph, ev, TRUE, "ret")] ELSE sess
        /\ UNCHANGED <<conn, edge, owed, dlr, nd>> /\ Advance(d)

\* monitorConnectionAging: what is overdue when the scan starts must be cut by this scan (a message in between pays)
TIdleTick ==
  /\ Live("idle_tick")
  /\ owed' = {p \in DOMAIN conn : Has(sess, conn[p]) /\ sess[conn[p]].lastrx >= 0 /\ E.t - sess[conn[p]].lastrx > nd.maxidle}
  /\ UNCHANGED <<sess, conn, edge, dlr, nd>> /\ Advance({})

TIdleCut ==
  /\ Live("idle_cut")
  /\ LET d == (IF E.idle < E.max THEN {"cut_before_max_idle"} ELSE {})     \* both in whole ms: equality is not early
              \cup (IF E.idle > E.max + nd.poll + nd.slack THEN {"cut_later_than_max_idle_plus_poll"} ELSE {})
              \cup (IF E.max # nd.maxidle THEN {"max_idle_differs_from_configuration"} ELSE {})
              \cup (IF ~(Has(conn, E.peer) /\ conn[E.peer] = E.sess) THEN {"cut_of_unlisted_session"} ELSE {})
     IN /\ owed' = owed \ {E.peer}
        /\ UNCHANGED <<sess, conn, edge, dlr, nd>> /\ Advance(d)

TIdleScanEnd ==
  /\ Live("idle_scan_end")
  /\ owed' = {}
  /\ UNCHANGED <<sess, conn, edge, dlr, nd>> /\ Advance(IF owed # {} THEN {"idle_connection_not_cut"} ELSE {})

TStop == /\ (Live("shutdown") \/ Live("h_cancel"))
         /\ nd' = [nd EXCEPT !.stopped = TRUE, !.down = @ \/ E.ev = "shutdown"]
         /\ UNCHANGED <<sess, conn, edge, owed, dlr>> /\ Advance({})

THWaitDone == /\ Live("h_waitdone")
              /\ nd' = [nd EXCEPT !.waited = nd.stopped]
              /\ UNCHANGED <<sess, conn, edge, owed, dlr>> /\ Advance({})

\* the harness found the node quiet: nothing half-done, nothing of an ended session left
Leftovers ==
  (IF \E s \in DOMAIN sess : sess[s].ph \in {"rmc", "rmk", "rej", "ret", "end1", "end2"} THEN {"clean_up_unfinished"} ELSE {})
  \cup (IF \E s \in DOMAIN sess : sess[s].ph = "none" /\ sess[s].gr # {} THEN {"goroutines_left_after_session_end"} ELSE {})
  \cup (IF \E p \in edge : ~\E s \in DOMAIN sess : sess[s].peer = p /\ sess[s].ph \in EdgePh \cup ListedPh THEN {"adjacency_edge_without_session"} ELSE {})
  \cup (IF \E p \in DOMAIN conn : ~(Has(sess, conn[p]) /\ sess[conn[p]].ph \in ListedPh) THEN {"connection_without_open_session"} ELSE {})
  \cup (IF \E s \in DOMAIN sess : sess[s].ph \in {"adj", "upd", "est"} /\ sess[s].peer \notin edge THEN {"established_session_without_adjacency_edge"} ELSE {})

THQuiet == /\ Live("h_quiet")
           /\ UNCHANGED <<sess, conn, edge, owed, dlr, nd>> /\ Advance(Leftovers)

\* after Shutdown and BackendWait: nothing at all is left
THEnd ==
  /\ Live("h_end")
  /\ LET d == (IF \E s \in DOMAIN sess : sess[s].ph # "none" \/ sess[s].gr # {} THEN {"session_or_goroutine_left_after_backend_wait"} ELSE {})
              \cup (IF \E x \in DOMAIN dlr : dlr[x].st # "exited" THEN {"backend_loop_left_after_backend_wait"} ELSE {})
              \cup (IF conn # EmptyF THEN {"connection_left_after_backend_wait"} ELSE {})
     IN UNCHANGED <<sess, conn, edge, owed, dlr, nd>> /\ Advance(IF nd.waited THEN d ELSE {})

\* ---- dialerSession / listenerSession (pkg/backends/utils.go)
NextDelay(x) == IF (x * 3) \div 2 > 20000 THEN 20000 ELSE (x * 3) \div 2
Gone(x) == Has(dlr, x) /\ dlr[x].st = "exited"
DState(x) == IF Has(dlr, x) THEN dlr[x].st ELSE "unknown"

TDStart ==
  /\ Live("d_start")
  /\ dlr' = Put(dlr, E.d, [st |-> "dial", sess |-> "", redial |-> E.redial, base |-> E.delay, next |-> E.delay, wt |-> 0, wd |-> 0, cd |-> FALSE])
  /\ UNCHANGED <<sess, conn, edge, owed, nd>> /\ Advance({})

TDial ==
  /\ Live("dial")
  /\ LET st == DState(E.d)
         d == (IF st # "dial" THEN {"dial_in_state_" \o st} ELSE {})
              \cup (IF nd.waited THEN {"dial_after_backend_wait"} ELSE {})
     IN /\ dlr' = IF Has(dlr, E.d)
                  THEN [dlr EXCEPT ![E.d].st = IF E.ok THEN "hand" ELSE "failed", ![E.d].sess = IF E.ok THEN E.sess ELSE "",
                                   ![E.d].next = IF E.ok THEN dlr[E.d].base ELSE @, ![E.d].cd = E.ctxdone]
                  ELSE dlr
        /\ UNCHANGED <<sess, conn, edge, owed, nd>> /\ Advance(d)

TDialHanded ==
  /\ Live("dial_handed")
  /\ LET st == DState(E.d)
     IN /\ dlr' = IF st = "hand" THEN [dlr EXCEPT ![E.d].st = "wait"] ELSE dlr
        /\ UNCHANGED <<sess, conn, edge, owed, nd>> /\ Advance(IF st # "hand" THEN {"handed_in_state_" \o st} ELSE {})

\* closeChan is closed by the session's Close(), i.e. after sess_end
TDialClosed ==
  /\ Live("dial_closed")
  /\ LET st == DState(E.d)
         d == (IF st # "wait" THEN {"closed_in_state_" \o st} ELSE {})
              \cup (IF Has(sess, E.sess) /\ sess[E.sess].ph \in RunPh \cup {"ret"} THEN {"dialer_released_before_session_end"} ELSE {})
     IN /\ dlr' = IF st = "wait" THEN [dlr EXCEPT ![E.d].st = "closed"] ELSE dlr
        /\ UNCHANGED <<sess, conn, edge, owed, nd>> /\ Advance(d)

TRedialWait ==
  /\ Live("redial_wait")
  /\ LET st == DState(E.d)
         ok == st \in {"failed", "closed"}
         d == (IF ~ok THEN {"redial_wait_in_state_" \o st} ELSE {})
              \cup (IF ok /\ ~dlr[E.d].redial THEN {"redial_without_redial_flag"} ELSE {})
              \cup (IF ok /\ dlr[E.d].cd THEN {"redial_after_context_cancelled"} ELSE {})
              \cup (IF ok /\ E.delay # dlr[E.d].next THEN {"backoff_delay"} ELSE {})
              \cup (IF ok /\ (E.failed # (st = "failed")) THEN {"failed_flag"} ELSE {})
     IN /\ dlr' = IF ok THEN [dlr EXCEPT ![E.d].st = "backoff", ![E.d].wt = E.t, ![E.d].wd = E.delay, ![E.d].next = NextDelay(E.delay)] ELSE dlr
        /\ UNCHANGED <<sess, conn, edge, owed, nd>> /\ Advance(d)

TRedial ==
  /\ Live("redial")
  /\ LET st == DState(E.d)
         d == (IF st # "backoff" THEN {"redial_in_state_" \o st} ELSE {})
              \cup (IF st = "backoff" /\ E.t - dlr[E.d].wt < dlr[E.d].wd - 1 THEN {"redial_before_delay"} ELSE {})
              \cup (IF nd.waited THEN {"redial_after_backend_wait"} ELSE {})
     IN /\ dlr' = IF st = "backoff" THEN [dlr EXCEPT ![E.d].st = "dial"] ELSE dlr
        /\ UNCHANGED <<sess, conn, edge, owed, nd>> /\ Advance(d)

TDExit ==
  /\ Live("d_exit")
  /\ LET st == DState(E.d)
         d == IF Has(dlr, E.d) /\ dlr[E.d].redial /\ ~nd.stopped THEN {"dialer_exit_while_context_alive"} ELSE {}
     IN /\ dlr' = IF Has(dlr, E.d) THEN [dlr EXCEPT ![E.d].st = "exited"] ELSE dlr
        /\ UNCHANGED <<sess, conn, edge, owed, nd>> /\ Advance(d)

TLStart ==
  /\ Live("l_start")
  /\ dlr' = Put(dlr, E.d, [st |-> "listen", sess |-> "", redial |-> FALSE, base |-> 0, next |-> 0, wt |-> 0, wd |-> 0, cd |-> FALSE])
  /\ UNCHANGED <<sess, conn, edge, owed, nd>> /\ Advance({})

TAccept ==
  /\ Live("accept")
  /\ LET st == DState(E.d)
         d == (IF st # "listen" THEN {"accept_in_state_" \o st} ELSE {})
              \cup (IF E.ok /\ nd.waited THEN {"accept_after_backend_wait"} ELSE {})
     IN UNCHANGED <<sess, conn, edge, owed, dlr, nd>> /\ Advance(d)

TLExit ==
  /\ Live("l_exit")
  /\ dlr' = IF Has(dlr, E.d) THEN [dlr EXCEPT ![E.d].st = "exited"] ELSE dlr
  /\ UNCHANGED <<sess, conn, edge, owed, nd>> /\ Advance(IF ~nd.stopped THEN {"listener_exit_while_context_alive"} ELSE {})

TOther == /\ Live("other") /\ UNCHANGED <<sess, conn, edge, owed, dlr, nd>> /\ Advance({})

TNext == TReset \/ Skipped \/ TKnownKeep \/ TSessStart \/ TRx \/ TInitSend \/ TInitGiveup \/ TInitDone \/ TGExit \/ TConnAdd \/ TKnownAdd
         \/ TEstablished \/ TReject \/ TConnDel \/ TKnownDel \/ TSessEnd \/ TReq \/ TIdleTick \/ TIdleCut \/ TIdleScanEnd
         \/ TStop \/ THWaitDone \/ THQuiet \/ THEnd \/ TDStart \/ TDial \/ TDialHanded \/ TDialClosed \/ TRedialWait \/ TRedial
         \/ TDExit \/ TLStart \/ TAccept \/ TLExit \/ TOther

TSpec == TInit /\ [][TNext]_vars

\* evaluated in every state of every real trace
OnePerPeer == skip \/ \A p \in DOMAIN conn : Cardinality({s \in DOMAIN sess : sess[s].peer = p /\ sess[s].ph \in ListedPh}) <= 1
PhasesOK == skip \/ \A s \in DOMAIN sess : sess[s].ph \in Phases

Done == l = Len(Trace) + 1 => PrintT(<<"DONE", l - 1>>)
=============================================================================
