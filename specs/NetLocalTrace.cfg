SPECIFICATION TSpec
CONSTANTS
  Self = "n1"
  SelfEpoch = 5
  Peers = {"p1", "p2", "p3"}
  Origins = {"p1"}
  Ids = {"u1"}
  ConnSets <- CS_small
  MaxSeq = 1
  MaxSteps = 1
  WithExpire = FALSE
  DumpHist = FALSE
INVARIANTS
  TypeOK
  KnownSelfIsConn
  Done
PROPERTIES
  NoChangeOnStale
  InfoMonotone
  NeverBack
  SelfFilter
  RelayOnce
  SeenGrows
  GenuineIsRelayed
