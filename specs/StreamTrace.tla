----------------------------- MODULE StreamTrace -----------------------------
(***************************************************************************)
(* Trace validation for C03: "vlc c03" logs every Write / Read / Close /   *)
(* EOF / error of the two applications of a transfer, in real-time order   *)
(* (a write is logged when it is handed to Write, before the call):        *)
(*   reset {name}              next transfer                               *)
(*   w     {dir, off, len}     Write(dir, len): off must be written[dir]   *)
(*   close {dir, off}          CloseWrite(dir)                             *)
(*   r     {dir, off, len, ok} Transmit (as far as needed) ; Read(dir,len):*)
(*                             off must be read[dir] (contiguous from 0),  *)
(*                             never beyond written, pattern intact        *)
(*   eof   {dir, off}          Transmit of the rest and the FIN ; EOF(dir):*)
(*                             only after close and with read = written    *)
(*   cut   {note}              Cut(where); note "stall" = Stall (a transit *)
(*                             link stops draining), followed by its cut;  *)
(*                             note "sibling" = SiblingTeardown            *)
(*   accepted {dir, note}      read deadline found armed on the stream that  *)
(*                             reads dir, right after Accept/Dial: "none"    *)
(*   notice {dir, note}        Notice(dir): a transient unreachable notice *)
(*                             was injected; it must change nothing        *)
(*   werr / rerr               only SendError ; ReadError: an origin-side  *)
(*                             cut happened and OriginErrorFatal           *)
(*   end   {note}              totals: every closed direction saw EOF with *)
(*                             read = written (unless aborted/inconclusive)*)
(* The actions are Stream.tla's; a line that no action accepts is printed  *)
(* as <<"REJECT", l, ev, why>> and the rest of the transfer is skipped.     *)
(***************************************************************************)
EXTENDS Stream, Sequences, Json

Trace == ndJsonDeserialize("trace.ndjson")

VARIABLES l, skip, nseg, full
tvars == <<vars, l, skip, nseg, full>>

TInit == Init /\ l = 1 /\ skip = FALSE /\ nseg = 0 /\ full = FALSE
OtherDir(d) == IF d = "ab" THEN "ba" ELSE "ab"
WriterEndedT(d) == appClosed[d] \/ (full /\ appClosed[OtherDir(d)])

Ev(e) == l <= Len(Trace) /\ Trace[l].ev = e
Step == l' = l + 1
D == Trace[l].dir

TReset ==
  /\ Ev("reset") /\ Step /\ skip' = FALSE /\ nseg' = nseg + 1 /\ full' = (Trace[l].note = "full")
  /\ written' = [d \in Dirs |-> 0] /\ avail' = [d \in Dirs |-> 0] /\ read' = [d \in Dirs |-> 0]
  /\ wClosed' = [d \in Dirs |-> FALSE] /\ finAvail' = [d \in Dirs |-> FALSE]
  /\ rEOF' = [d \in Dirs |-> FALSE] /\ rErr' = [d \in Dirs |-> FALSE]
  /\ conn' = "up" /\ path' = "ok" /\ cutsLeft' = Cuts
  /\ appClosed' = [d \in Dirs |-> FALSE] /\ notices' = 0

Why ==
  CASE Ev("w") -> IF Trace[l].off # written[D] THEN "write_offset" ELSE IF wClosed[D] THEN "write_after_close" ELSE "write"
    [] Ev("close") -> "close_twice"
    [] Ev("r") -> IF ~Trace[l].ok THEN "corrupt"
                  ELSE IF Trace[l].off < read[D] THEN "repeated"
                  ELSE IF Trace[l].off > read[D] THEN "gap"
                  ELSE IF read[D] + Trace[l].len > written[D] THEN "beyond_written"
                  ELSE IF rEOF[D] THEN "data_after_eof" ELSE "read"
    [] Ev("eof") -> IF ~WriterEndedT(D) THEN "eof_before_close" ELSE IF read[D] # written[D] THEN "eof_before_all_data" ELSE "eof"
    [] Ev("notice") -> "fatal_notice_kind"
    [] Ev("accepted") -> "library_read_deadline"
    [] Ev("rerr") -> "read_error"
    [] Ev("werr") -> "write_error"
    [] Ev("end") -> "totals"
    [] OTHER -> "unknown_event"

\* (a write is logged when it is offered: the application cannot know yet that the connection was aborted)
G_w == Trace[l].off = written[D] /\ ~wClosed[D]
TWrite ==
  /\ Ev("w") /\ ~skip /\ G_w /\ Step
  /\ written' = [written EXCEPT ![D] = @ + Trace[l].len]
  /\ UNCHANGED <<avail, read, wClosed, finAvail, rEOF, rErr, conn, path, cutsLeft, appClosed, notices, skip, nseg, full>>

G_close == ~wClosed[D] \/ full
TClose ==
  /\ Ev("close") /\ ~skip /\ G_close /\ Step
  /\ wClosed' = [wClosed EXCEPT ![D] = TRUE] /\ appClosed' = [appClosed EXCEPT ![D] = TRUE]
  /\ UNCHANGED <<written, avail, read, finAvail, rEOF, rErr, conn, path, cutsLeft, notices, skip, nseg, full>>

\* Transmit as far as this read needs (the datagram layer is not observed), then Read(dir, len)
G_r == /\ Trace[l].ok /\ Trace[l].off = read[D] /\ Trace[l].len > 0
       /\ read[D] + Trace[l].len <= written[D] /\ ~rEOF[D] /\ ~rErr[D]
TRead ==
  /\ Ev("r") /\ ~skip /\ G_r /\ Step
  /\ read' = [read EXCEPT ![D] = @ + Trace[l].len]
  /\ avail' = [avail EXCEPT ![D] = IF @ < read[D] + Trace[l].len THEN read[D] + Trace[l].len ELSE @]
  /\ UNCHANGED <<written, wClosed, finAvail, rEOF, rErr, conn, path, cutsLeft, appClosed, notices, skip, nseg, full>>

\* Transmit of the rest and of the FIN, then EOF(dir).  Deviation named in Bridge.tla (WriterEnded): when a
\* full-close endpoint (TCP / Unix socket) is in the path, the reader's own close tears both directions down,
\* which ends the other application's writing role: EOF then still requires read = written.
G_eof == WriterEndedT(D) /\ read[D] = written[D] /\ ~rEOF[D] /\ ~rErr[D]
TEOF ==
  /\ Ev("eof") /\ ~skip /\ G_eof /\ Step
  /\ avail' = [avail EXCEPT ![D] = written[D]] /\ finAvail' = [finAvail EXCEPT ![D] = TRUE]
  /\ rEOF' = [rEOF EXCEPT ![D] = TRUE]
  /\ wClosed' = [wClosed EXCEPT ![D] = TRUE] /\ appClosed' = [appClosed EXCEPT ![D] = TRUE]
  /\ UNCHANGED <<written, read, rErr, conn, path, cutsLeft, notices, skip, nseg, full>>

TCut ==
  /\ Ev("cut") /\ Step
  /\ LET where == Trace[l].note IN
       /\ cutsLeft' = cutsLeft \ {where}
       /\ path' = IF where = "origin" THEN "origin_window" ELSE path
  /\ UNCHANGED <<written, avail, read, wClosed, finAvail, rEOF, rErr, conn, appClosed, notices, skip, nseg, full>>

\* Notice(dir): a transient notice ('message expired' / 'blocked by firewall') about the connection's addresses was
\* injected at the node that writes direction dir; only these kinds are environment actions of Stream.tla
G_notice == Trace[l].note \in {"message expired", "blocked by firewall"}
TNotice ==
  /\ Ev("notice") /\ ~skip /\ G_notice /\ Step
  /\ notices' = notices + 1
  /\ wClosed' = IF NoticeEndsStream THEN [wClosed EXCEPT ![D] = TRUE] ELSE wClosed
  /\ UNCHANGED <<written, avail, read, finAvail, rEOF, rErr, conn, path, cutsLeft, appClosed, skip, nseg, full>>

\* right after Accept/Dial the harness reads the read deadline armed on each end's stream (verif accessor):
\* the application has set none, so "armed" is a behaviour only of the AcceptLeavesDeadline variant
G_accepted == (Trace[l].note = "armed") => (AcceptLeavesDeadline /\ D = "ab")
TAccepted ==
  /\ Ev("accepted") /\ ~skip /\ G_accepted /\ Step
  /\ UNCHANGED <<vars, skip, nseg, full>>

\* an error is a behaviour of the spec only as SendError (origin-side cut, code as it is) followed by ReadError
G_err == OriginErrorFatal /\ ~("origin" \in cutsLeft) /\ ("origin" \in Cuts)
TErr ==
  /\ (Ev("rerr") \/ Ev("werr")) /\ ~skip /\ G_err /\ Step
  /\ conn' = "aborted"
  /\ rErr' = IF Ev("rerr") THEN [rErr EXCEPT ![D] = TRUE] ELSE rErr
  /\ UNCHANGED <<written, avail, read, wClosed, finAvail, rEOF, path, cutsLeft, appClosed, notices, skip, nseg, full>>

\* a full-close endpoint may report the torn-down connection as a reset instead of EOF: accepted only as an
\* end-of-stream after a complete exchange (the reader itself has closed and has read everything)
G_reset == full /\ Ev("rerr") /\ appClosed[OtherDir(D)] /\ read[D] = written[D] /\ ~rEOF[D]
TResetAsEOF ==
  /\ Ev("rerr") /\ ~skip /\ ~G_err /\ G_reset /\ Step
  /\ rEOF' = [rEOF EXCEPT ![D] = TRUE] /\ wClosed' = [wClosed EXCEPT ![D] = TRUE] /\ appClosed' = [appClosed EXCEPT ![D] = TRUE]
  /\ avail' = [avail EXCEPT ![D] = written[D]] /\ finAvail' = [finAvail EXCEPT ![D] = TRUE]
  /\ UNCHANGED <<written, read, rErr, conn, path, cutsLeft, notices, skip, nseg, full>>

\* totals: unless the connection was aborted (or the harness gave up: note "inconclusive"), what was closed was seen to the end
G_end == \/ Trace[l].note = "inconclusive" \/ conn = "aborted"
         \/ \A d \in Dirs : wClosed[d] => (rEOF[d] /\ read[d] = written[d])
TEnd ==
  /\ Ev("end") /\ ~skip /\ G_end /\ Step
  /\ UNCHANGED <<vars, skip, nseg, full>>

Accepts == \/ (Ev("w") /\ G_w) \/ (Ev("close") /\ G_close) \/ (Ev("r") /\ G_r) \/ (Ev("eof") /\ G_eof)
           \/ (Ev("notice") /\ G_notice) \/ (Ev("accepted") /\ G_accepted) \/ ((Ev("rerr") \/ Ev("werr")) /\ G_err) \/ G_reset \/ (Ev("end") /\ G_end) \/ Ev("cut")
TBad ==
  /\ l <= Len(Trace) /\ Trace[l].ev \notin {"reset", "cut"} /\ Step
  /\ \/ skip /\ skip' = TRUE
     \/ ~skip /\ ~Accepts /\ skip' = TRUE /\ PrintT(<<"REJECT", l, Trace[l].ev, Why>>)
  /\ UNCHANGED <<vars, nseg, full>>

TNext == TAccepted \/ TNotice \/ TResetAsEOF \/ TReset \/ TWrite \/ TClose \/ TRead \/ TEOF \/ TCut \/ TErr \/ TEnd \/ TBad
TSpec == TInit /\ [][TNext]_tvars

Done == l = Len(Trace) + 1 => PrintT(<<"DONE", l - 1, nseg>>)
=============================================================================
