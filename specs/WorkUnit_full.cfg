SPECIFICATION Spec
CONSTANTS
  Ids = {"u1"}
  Sess = {"c1", "c2"}
  MaxOut = 2
  MaxTicks = 1
  MaxCrashes = 0
  MaxOps = 2
  MaxOps2 = 2
  FirstSess = "c1"
  RunEnabled = TRUE
  Ops = {"submit", "cancel", "release", "status"}
  FindUnitHoldsRLock = FALSE
  TruncFirst = FALSE
  UnregFirst = FALSE
  ScanRegistersAlias = FALSE
  KF_EmptyStatus = FALSE
  KF_CancelOverS = FALSE
  CancelKeepsSucceeded = TRUE
  KF_LiveRunnerFailed = TRUE
INVARIANTS
  TypeOK
  StageMonotone
  SucceededIsFinal
  SizeMonotone
  ReleaseRemoves
  UniqueIDs
  CancelStops
  NoStatusBlocks
