------------------------------ MODULE SessionCore ------------------------------
(***************************************************************************)
(* The main loop of ONE backend session (runProtocol in                    *)
(* pkg/netceptor/netceptor.go) as a phase automaton: pure operators, one    *)
(* step per critical section / blocking point.  Shared by SessionLife.tla   *)
(* (design level: two nodes, links, goroutines, clocks, exhaustive) and by  *)
(* SessionLifeTrace.tla (validation of hook traces of real nodes).          *)
(*                                                                         *)
(*  none   no session (runProtocol not running)                            *)
(*  fresh  sess_start done: reader, writer and init sender run, main loop   *)
(*         selects on ReadChan / ci.Context                                *)
(*  reg    first routing message admitted: s.connections[peer] = this       *)
(*         session (conn_add, under connLock); blocked on initDoneChan      *)
(*  idone  rendezvous with the init sender done (it sends no more)          *)
(*  adj    adjacency edge self<->peer entered (known_add, knownNodeLock)    *)
(*  upd    own update requested (sendRouteFloodChan <- 0)                   *)
(*  est    rebuild requested (updateRoutingTableChan <- 0), established     *)
(*  rmc    removeConnection called: about to delete s.connections[peer]     *)
(*  rmk    ... deleted (conn_del); about to delete the adjacency edge       *)
(*  rej    a type-3 reject frame is owed to the peer (sendRejectMessage)    *)
(*  ret    runProtocol has returned; deferred clean-up not yet run          *)
(*  end1   sess_end emitted and backend session closed; a registered       *)
(*         session still has to request an own update                      *)
(*  end2   ... and a rebuild                                               *)
(***************************************************************************)
EXTENDS Naturals, Sequences, FiniteSets

Phases == {"none", "fresh", "reg", "idone", "adj", "upd", "est", "rmc", "rmk", "rej", "ret", "end1", "end2"}

\* phases in which the session's connInfo is the entry s.connections[peer]
ListedPh == {"reg", "idone", "adj", "upd", "est", "rmc"}
\* phases in which the session holds the adjacency edge in knownConnectionCosts
EdgePh == {"adj", "upd", "est", "rmc", "rmk"}
\* phases in which the main loop blocks in a select that has a `ci.Context.Done()` / `ctx.Done()` alternative
CancelPh == {"fresh", "reg", "adj", "upd", "est", "rej"}
\* phases in which the main loop takes the next message from ReadChan
ReadPh == {"fresh", "est"}
\* runProtocol has not yet returned
RunPh == {"fresh", "reg", "idone", "adj", "upd", "est", "rmc", "rmk", "rej"}

(* After(ph, ev, reg, nxt): the phase after main-loop event ev, "BAD" when the code has no such step.
   reg = the `registered` flag (set by conn_add, never cleared); nxt = continuation of a removal ("rej" or "ret"). *)
After(ph, ev, reg, nxt) ==
  CASE ph = "fresh" /\ ev = "admit"       -> "reg"     \* conn_add
    [] ph = "fresh" /\ ev = "refuse"      -> "rej"     \* empty_id / self / not_allowed / already_connected: nothing to remove
    [] ph = "fresh" /\ ev = "peer_reject" -> "ret"     \* type-3 frame before anything was registered
    [] ph = "fresh" /\ ev = "cancel"      -> "ret"     \* removeConnection("") is a no-op
    [] ph = "reg"   /\ ev = "init_done"   -> "idone"
    [] ph = "idone" /\ ev = "known_add"   -> "adj"
    [] ph = "adj"   /\ ev = "req_update"  -> "upd"
    [] ph = "upd"   /\ ev = "req_rebuild" -> "est"
    [] ph \in {"reg", "adj", "upd", "est"} /\ ev = "cancel" -> "rmc"      \* continuation "ret"
    [] ph = "est"   /\ ev = "drop"        -> "rmc"     \* id_changed / dropped_us / cost: continuation "rej"
    [] ph = "est"   /\ ev = "peer_reject" -> "rmc"     \* continuation "ret"
    [] ph = "rmc"   /\ ev = "conn_del"    -> "rmk"
    [] ph = "rmk"   /\ ev = "known_del"   -> nxt
    [] ph = "rej"   /\ ev \in {"reject_sent", "cancel"} -> "ret"
    [] ph = "ret"   /\ ev = "sess_end"    -> IF reg THEN "end1" ELSE "none"
    [] ph = "end1"  /\ ev = "req_update"  -> "end2"
    [] ph = "end1"  /\ ev = "req_skip"    -> "none"
    [] ph = "end2"  /\ ev \in {"req_rebuild", "req_skip"} -> "none"
    [] OTHER -> "BAD"

\* continuation of the removal started by event ev
NxtOf(ev) == IF ev = "drop" THEN "rej" ELSE "ret"

\* the unobserved steps the code takes between two hook events of the main loop (used by the trace spec):
\* known_add is preceded by the initDoneChan rendezvous, `established` by the two requests
Before(ev) == CASE ev = "known_add"   -> <<"init_done">>
                [] ev = "established" -> <<"req_update", "req_rebuild">>
                [] OTHER -> <<>>

\* the init sender (sendInitialConnectMessage) gives up after this many messages (count > 10 after the 11th)
InitGiveUpAfter == 11
=============================================================================
