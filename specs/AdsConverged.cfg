SPECIFICATION Spec
INVARIANT Done
