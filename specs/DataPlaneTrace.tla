--------------------------- MODULE DataPlaneTrace ---------------------------
(***************************************************************************)
(* Trace validation for C02 / C10 / C16: the hook events recorded from real *)
(* Netceptor nodes (all nodes of a mesh live in one process, so the atomic  *)
(* event counter orders them consistently with causality) are replayed      *)
(* against the data-plane rules of DataPlaneCore.tla - the same Decide /    *)
(* NoticeFor / PongFor / PublishTo operators that DataPlane.tla's Handle    *)
(* action is made of.  `vdp` converts the events to the lines below; node   *)
(* and service names are hex tokens (names contain arbitrary bytes).        *)
(*                                                                         *)
(*  reset   {defttl}                        new segment (a fresh mesh)      *)
(*  open / close {n, svc}                   pc_open / pc_close              *)
(*  send    {n, fromsvc, to, tosvc, ttl, len, sha, note}      dp_send       *)
(*  forward {n, via, from, fromsvc, to, tosvc, ttl_in, ttl_out, len}        *)
(*  deliver {n, svc, from, fromsvc, len, sha}                 dp_deliver    *)
(*  expire  {n, from, fromsvc, to, tosvc, notice}             dp_expire     *)
(*  unknown {n, from, fromsvc, tosvc, local}                  dp_unknown    *)
(*  noroute {n, to}                                           dp_noroute    *)
(*  publish {n, note, via}                                    unr_publish   *)
(*  socket  {n, svc, problem, to, tosvc}                      unr_socket    *)
(*  inject / bounce / absorb                scripted neighbours (see below) *)
(*  end     {strict}                        the mesh is quiescent           *)
(*                                                                         *)
(* The state keeps every packet that was sent and has not yet reached its   *)
(* end (pk: where it is, its remaining budget, how often it was forwarded), *)
(* the digests sent and not yet delivered (und), the notices that a node    *)
(* owes after an expiry / unknown service (owed) and the notifications      *)
(* published and not yet taken by a socket (pub).  An event that is not the *)
(* step the rules prescribe for some packet that is where the event says    *)
(* is reported as <<"DIFF", line, class, {reasons}>>; the rest of that      *)
(* segment is skipped.                                                      *)
(*                                                                         *)
(* Forward events carry no digest, so positions are tracked per flow        *)
(* (addresses, length, budget) and digests per flow: a delivery needs a     *)
(* packet of that flow at that node AND an undelivered digest of that flow. *)
(***************************************************************************)
EXTENDS DataPlaneCore, TLC, Json

Trace == ndJsonDeserialize("trace.ndjson")

VARIABLES l, skip, defttl, pk, und, owed, pub, open, everopen
tvars == <<l, skip, defttl, pk, und, owed, pub, open, everopen>>

Ev == Trace[l]
Is(e) == l <= Len(Trace) /\ Trace[l].ev = e

Oldest(S) == CHOOSE x \in S : \A y \in S : x.id <= y.id

Flow(q) == <<q.src, q.srcsvc, q.dst, q.dstsvc, q.len>>
OneUnd(q) == LET us == {v \in und : Flow(v) = Flow(q)} IN IF us = {} THEN {} ELSE {Oldest(us)}

TInit == /\ l = 1 /\ skip = FALSE /\ defttl = 0
         /\ pk = {} /\ und = {} /\ owed = {} /\ pub = {} /\ open = {} /\ everopen = {}

Adv == l' = l + 1

Diff(class, why) == PrintT(<<"DIFF", l, class, why>>) /\ skip' = TRUE
                    /\ UNCHANGED <<defttl, pk, und, owed, pub, open, everopen>>

Skipped == skip /\ ~Is("reset") /\ l <= Len(Trace) /\ Adv /\ UNCHANGED <<skip, defttl, pk, und, owed, pub, open, everopen>>

TReset == /\ Is("reset") /\ Adv
          /\ skip' = FALSE /\ defttl' = Ev.defttl
          /\ pk' = {} /\ und' = {} /\ owed' = {} /\ pub' = {} /\ open' = {} /\ everopen' = {}

TOpen == /\ Is("open") /\ ~skip /\ Adv
         /\ open' = open \cup {<<Ev.n, Ev.svc>>} /\ everopen' = everopen \cup {<<Ev.n, Ev.svc>>}
         /\ UNCHANGED <<skip, defttl, pk, und, owed, pub>>

TClose == /\ Is("close") /\ ~skip /\ Adv
          /\ open' = open \ {<<Ev.n, Ev.svc>>}
          /\ UNCHANGED <<skip, defttl, pk, und, owed, pub, everopen>>

NewPk(kind, note) ==
  [id |-> l, kind |-> kind, src |-> Ev.n, srcsvc |-> Ev.fromsvc, dst |-> Ev.to, dstsvc |-> Ev.tosvc,
   ttl |-> Ev.ttl, ttl0 |-> Ev.ttl, len |-> Ev.len, at |-> Ev.n, nf |-> 0, note |-> note]

NewUnd == [id |-> l, src |-> Ev.n, srcsvc |-> Ev.fromsvc, dst |-> Ev.to, dstsvc |-> Ev.tosvc, len |-> Ev.len, sha |-> Ev.sha]

\* SendMessageWithHopsToLive: a user datagram, a ping reply (handlePing) or a notice (sendUnreachable)
TSend ==
  /\ Is("send") /\ ~skip /\ Adv
  /\ IF Ev.fromsvc = "unreach"
     THEN LET os == {o \in owed : o.n = Ev.n /\ o.note = Ev.note} IN
          IF os = {} \/ Ev.to # Ev.note.from \/ Ev.tosvc # "unreach" \/ Ev.ttl # defttl
          THEN Diff("notice_send", {"not_owed"})       \* a notice nobody owes: about a notice, a duplicate, or with other fields
          ELSE /\ owed' = owed \ {Oldest(os)}
               /\ pk' = pk \cup {NewPk("notice", Ev.note)}
               /\ UNCHANGED <<skip, defttl, und, pub, open, everopen>>
     ELSE IF Ev.fromsvc = "ping"
     THEN LET qs == {q \in pk : q.at = Ev.n /\ q.dst = Ev.n /\ q.dstsvc = "ping" /\ q.src = Ev.to /\ q.srcsvc = Ev.tosvc} IN
          IF qs = {} \/ Ev.ttl # defttl \/ Ev.len # 0
          THEN Diff("pong_send", {"no_ping_here"})
          ELSE LET q == Oldest(qs) IN
               /\ Decide(Ev.n, q, None, FALSE) = "ping"
               /\ pk' = (pk \ {q}) \cup {NewPk("pong", NoNote)}
               /\ und' = (und \ OneUnd(q)) \cup {NewUnd}
               /\ UNCHANGED <<skip, defttl, owed, pub, open, everopen>>
     ELSE /\ pk' = pk \cup {NewPk("data", NoNote)}
          /\ und' = und \cup {NewUnd}
          /\ UNCHANGED <<skip, defttl, owed, pub, open, everopen>>

\* forwardMessage, the relay branch
TForward ==
  /\ Is("forward") /\ ~skip /\ Adv
  /\ LET qs == {q \in pk : q.at = Ev.n /\ q.src = Ev.from /\ q.srcsvc = Ev.fromsvc /\ q.dst = Ev.to /\ q.dstsvc = Ev.tosvc
                            /\ q.len = Ev.len /\ q.ttl = Ev.ttl_in} IN
     IF qs = {} THEN Diff("forward", {"no_such_packet_here"})
     ELSE LET q == Oldest(qs)
              why == (IF Decide(Ev.n, q, Ev.via, FALSE) # "forward" THEN {"must_not_forward"} ELSE {})
                     \cup (IF Ev.ttl_out # Forwarded(q).ttl THEN {"ttl_out"} ELSE {})
                     \cup (IF q.nf + 1 > q.ttl0 THEN {"fwd_bound"} ELSE {})
          IN IF why # {} THEN Diff("forward", why)
             ELSE /\ pk' = (pk \ {q}) \cup {[Forwarded(q) EXCEPT !.at = Ev.via, !.nf = @ + 1]}
                  /\ UNCHANGED <<skip, defttl, und, owed, pub, open, everopen>>

\* pc.recvChan <- md
TDeliver ==
  /\ Is("deliver") /\ ~skip /\ Adv
  /\ LET qs == {q \in pk : q.at = Ev.n /\ q.dst = Ev.n /\ q.dstsvc = Ev.svc /\ q.src = Ev.from /\ q.srcsvc = Ev.fromsvc /\ q.len = Ev.len} IN
     IF qs = {} THEN Diff("deliver", {"no_such_packet_here"})   \* no matching send, second delivery, wrong listener or wrong source
     ELSE LET q == Oldest(qs)
              us == {u \in und : Flow(u) = Flow(q) /\ u.sha = Ev.sha}
              why == (IF Decide(Ev.n, q, None, TRUE) # "deliver" THEN {"must_not_deliver"} ELSE {})
                     \cup (IF us = {} THEN {"digest"} ELSE {})
                     \cup (IF <<Ev.n, Ev.svc>> \notin everopen THEN {"no_listener"} ELSE {})
          IN IF why # {} THEN Diff("deliver", why)
             ELSE /\ pk' = pk \ {q}
                  /\ und' = und \ {Oldest(us)}
                  /\ UNCHANGED <<skip, defttl, owed, pub, open, everopen>>

Owe(n, q, problem) == [id |-> l, n |-> n, note |-> NoticeFor(n, q, problem, defttl).note]

\* forwardMessage, HopsToLive = 0
TExpire ==
  /\ Is("expire") /\ ~skip /\ Adv
  /\ LET qs == {q \in pk : q.at = Ev.n /\ q.src = Ev.from /\ q.srcsvc = Ev.fromsvc /\ q.dst = Ev.to /\ q.dstsvc = Ev.tosvc /\ q.ttl = 0} IN
     IF qs = {} THEN Diff("expire", {"no_such_packet_here"})    \* includes: expired although budget was left
     ELSE LET q == Oldest(qs)
              dec == Decide(Ev.n, q, None, FALSE)
          IN IF dec \notin {"notice_expired", "drop_expired"} THEN Diff("expire", {"must_not_expire"})
             ELSE IF Ev.notice # (dec = "notice_expired") THEN Diff("expire", {"notice_flag"})
             ELSE /\ pk' = pk \ {q}
                  /\ owed' = IF dec = "notice_expired" THEN owed \cup {Owe(Ev.n, q, ProblemExpired)} ELSE owed
                  /\ UNCHANGED <<skip, defttl, und, pub, open, everopen>>

\* no live listener for md.ToService
TUnknown ==
  /\ Is("unknown") /\ ~skip /\ Adv
  /\ LET qs == {q \in pk : q.at = Ev.n /\ q.dst = Ev.n /\ q.dstsvc = Ev.tosvc /\ q.src = Ev.from /\ q.srcsvc = Ev.fromsvc} IN
     IF qs = {} THEN Diff("unknown", {"no_such_packet_here"})
     ELSE LET q == Oldest(qs)
              dec == Decide(Ev.n, q, None, FALSE)
              why == (IF dec \notin {"err_unknown", "drop_unknown", "notice_unknown"} THEN {"must_not_be_unknown"} ELSE {})
                     \cup (IF Ev.local # (dec = "err_unknown") THEN {"local_flag"} ELSE {})
                     \cup (IF <<Ev.n, Ev.tosvc>> \in open THEN {"listener_open"} ELSE {})
          IN IF why # {} THEN Diff("unknown", why)
             ELSE /\ pk' = pk \ {q}
                  /\ owed' = IF dec = "notice_unknown" THEN owed \cup {Owe(Ev.n, q, ProblemUnknown)} ELSE owed
                  /\ UNCHANGED <<skip, defttl, und, pub, open, everopen>>

TNoRoute ==
  /\ Is("noroute") /\ ~skip /\ Adv
  /\ LET qs == {q \in pk : q.at = Ev.n /\ q.dst = Ev.to /\ q.dst # Ev.n /\ q.ttl > 0} IN
     IF qs = {} THEN Diff("noroute", {"no_such_packet_here"})
     ELSE /\ pk' = pk \ {Oldest(qs)}
          /\ UNCHANGED <<skip, defttl, und, owed, pub, open, everopen>>

\* reserved service "unreach": handleUnreachable publishes to the broker
TPublish ==
  /\ Is("publish") /\ ~skip /\ Adv
  /\ LET qs == {q \in pk : q.at = Ev.n /\ q.dst = Ev.n /\ q.dstsvc = "unreach" /\ q.src = Ev.via /\ q.note = Ev.note} IN
     IF qs = {} THEN Diff("publish", {"no_such_notice_here"})
     ELSE LET q == Oldest(qs) IN
          /\ Decide(Ev.n, q, None, FALSE) = "publish"
          /\ pk' = pk \ {q}
          /\ pub' = pub \cup {[id |-> l, n |-> Ev.n, note |-> Ev.note]}
          /\ UNCHANGED <<skip, defttl, und, owed, open, everopen>>

\* packetconn.go: the socket whose (node, service) equals the notification's From fields takes it
TSocket ==
  /\ Is("socket") /\ ~skip /\ Adv
  /\ LET bs == {b \in pub : b.n = Ev.n /\ Ev.svc \in PublishTo(Ev.n, b.note, {Ev.svc})
                            /\ b.note.problem = Ev.problem /\ b.note.to = Ev.to /\ b.note.tosvc = Ev.tosvc} IN
     IF bs = {} THEN Diff("socket", {"not_the_senders_socket"})
     ELSE /\ pub' = pub \ {Oldest(bs)}
          /\ UNCHANGED <<skip, defttl, pk, und, owed, open, everopen>>

(***************************************************************************)
(* Environment steps of scripted, deliberately NON-conforming neighbours    *)
(* (vdp c10, adversarial tables): they inject packets of their own making,  *)
(* hand a packet back unchanged (no decrement) or keep it.  The budget      *)
(* bookkeeping (nf, ttl) of the packet is carried across these steps, so    *)
(* FwdBoundT speaks about all real-node traversals of one packet.           *)
(***************************************************************************)
TInject ==
  /\ Is("inject") /\ ~skip /\ Adv
  /\ pk' = pk \cup {[id |-> l, kind |-> "data", src |-> Ev.from, srcsvc |-> Ev.fromsvc, dst |-> Ev.to, dstsvc |-> Ev.tosvc,
                      ttl |-> Ev.ttl, ttl0 |-> Ev.ttl, len |-> Ev.len, at |-> Ev.n, nf |-> 0, note |-> NoNote]}
  /\ und' = und \cup {[id |-> l, src |-> Ev.from, srcsvc |-> Ev.fromsvc, dst |-> Ev.to, dstsvc |-> Ev.tosvc, len |-> Ev.len, sha |-> Ev.sha]}
  /\ UNCHANGED <<skip, defttl, owed, pub, open, everopen>>

AtPeer == {q \in pk : q.at = Ev.n /\ q.src = Ev.from /\ q.srcsvc = Ev.fromsvc /\ q.dst = Ev.to /\ q.dstsvc = Ev.tosvc
                      /\ q.len = Ev.len /\ q.ttl = Ev.ttl}

TBounce ==
  /\ Is("bounce") /\ ~skip /\ Adv
  /\ IF AtPeer = {} THEN Diff("bounce", {"no_such_packet_here"})      \* the real node changed the packet on its way to the peer
     ELSE /\ pk' = (pk \ {Oldest(AtPeer)}) \cup {[Oldest(AtPeer) EXCEPT !.at = Ev.via]}
          /\ UNCHANGED <<skip, defttl, und, owed, pub, open, everopen>>

TAbsorb ==
  /\ Is("absorb") /\ ~skip /\ Adv
  /\ IF AtPeer = {} THEN Diff("absorb", {"no_such_packet_here"})
     ELSE /\ pk' = pk \ {Oldest(AtPeer)}
          /\ UNCHANGED <<skip, defttl, und, owed, pub, open, everopen>>

TEnd ==
  /\ Is("end") /\ ~skip /\ Adv
  /\ LET why == (IF owed # {} THEN {"notice_owed"} ELSE {})
                \cup (IF Ev.strict /\ pk # {} THEN {"in_flight"} ELSE {})
     IN IF why # {} THEN Diff("end", why)
        ELSE UNCHANGED <<skip, defttl, pk, und, owed, pub, open, everopen>>

TNext == TReset \/ Skipped \/ TOpen \/ TClose \/ TSend \/ TForward \/ TDeliver \/ TExpire \/ TUnknown
         \/ TNoRoute \/ TPublish \/ TSocket \/ TInject \/ TBounce \/ TAbsorb \/ TEnd
TSpec == TInit /\ [][TNext]_tvars

\* the rules' own invariants evaluated on the recorded behaviour
FwdBoundT == \A q \in pk : q.nf <= q.ttl0 /\ q.ttl = q.ttl0 - q.nf
NoNoticeOwedAboutNotice == \A o \in owed : o.note.fromsvc # "unreach"

Done == l = Len(Trace) + 1 => PrintT(<<"DONE", l - 1>>)
=============================================================================
