SPECIFICATION Spec
CONSTANTS
  MaxCrashes = 2
  RestartIfIdKnown = FALSE
INVARIANTS
  BindingStable
  SubmittedOnce
  NeverStartedIsFailed
