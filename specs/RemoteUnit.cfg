SPECIFICATION Spec
CONSTANTS
  MaxOut = 2
  MaxFlaps = 2
  MaxCrashes = 1
  ClientOps = {"cancel", "release", "frelease"}
  RestartIfIdKnown = FALSE
  IdStoredLate = FALSE
  RestartSkipsComplete = FALSE
  StdoutFromZero = FALSE
  ReleaseSkipsRemote = FALSE
INVARIANTS
  ForwardOnly
  NeverContradictsE
  LocalOutputIsPrefix
  SubmittedOnce
  BoundOnceShipped
  MirrorNeverAbandoned
  NeverStartedIsFailed
  CancelSurvivesRestart
  ReleaseRemovesBoth
  ForcedReleaseRemovesLocal
