SPECIFICATION Spec
CONSTANTS
  MaxOut = 2
  MaxFlaps = 2
  MaxCrashes = 1
  ClientOps = {"cancel", "release", "frelease"}
  RestartIfIdKnown = FALSE
  IdStoredLate = FALSE
  StdoutFromZero = FALSE
  ReleaseSkipsRemote = FALSE
INVARIANTS
  ForwardOnly
  NeverContradictsE
  LocalOutputIsPrefix
  SubmittedOnce
  BoundOnceShipped
  NeverStartedIsFailed
  CancelSurvivesRestart
  ReleaseRemovesBoth
  ForcedReleaseRemovesLocal
