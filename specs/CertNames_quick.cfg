SPECIFICATION Spec
CONSTANTS
  MaxLen = 300
  Families = {"ids", "names", "san", "decode"}
  LegacyStrip = FALSE
  DumpFile = "vectors.ndjson"
INVARIANTS
  RoundTrip
  EntrySizes
  VerifyExactly
  SanOnThreshold
