SPECIFICATION Spec
CONSTANTS
  MaxLen = 300
  Families = {"ids", "names", "san", "decode", "clock"}
  LegacyStrip = FALSE
  MaxTick = 1
  KF_TimeFrozenAtCreation = FALSE
  DumpFile = "vectors.ndjson"
INVARIANTS
  RoundTrip
  EntrySizes
  VerifyExactly
  SanOnThreshold
  ValidityJudgedAtVerification
