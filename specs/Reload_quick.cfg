SPECIFICATION Spec
CONSTANTS
  Ctl = {1}
  MaxReloads = 2
  MaxEdits = 1
  MaxSess = 3
  MaxFail = 1
  EditNames = {"start", "drop_D", "cost_D", "add_E", "drop_L", "mod_B", "rm_A", "add_item", "mod_B_drop_D", "unparsable", "unreadable", "badcost", "failstart"}
  KF_StaleFlags = FALSE
  KF_NoReloadMutex = FALSE
  DumpFile = ""
  KF_PortFreedAfterDone = FALSE
  KF_MidEstablishLeak = FALSE
INVARIANTS
  NoSpuriousStartFailure
  FlagsClean
  AcceptOnlyBackendChanges
  NoOrphanConn
  NoOldConnAfterWait
  AcceptedExact
  NoDuplicateBackend
  EveryBackendCancellable
PROPERTIES
  RefusedChangesNothing
