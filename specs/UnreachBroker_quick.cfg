SPECIFICATION Spec
CONSTANTS
  Socks = {"s1", "s2", "s3"}
  Closers = {"s2", "s3"}
  MaxPub = 3
  Drain = TRUE
INVARIANTS
  NeverWedged
  OpenSocketsGetAll
PROPERTIES
  AllPublished
