--------------------------- MODULE DataPlaneCore ---------------------------
(***************************************************************************)
(* Constant-level operators of the Netceptor data plane (C02, C10, C16),    *)
(* shared by DataPlane.tla (the state machine checked exhaustively by TLC), *)
(* DataPlaneTrace.tla (validation of hook traces recorded from real nodes)  *)
(* and DataPlanePing.tla (expected Ping/Traceroute results for the real     *)
(* topologies used by the harness).                                         *)
(*                                                                         *)
(* Code: pkg/netceptor/netceptor.go handleMessageData, forwardMessage,      *)
(* SendMessageWithHopsToLive, handlePing, handleUnreachable,                *)
(* sendUnreachable; pkg/netceptor/packetconn.go StartUnreachable (filter);  *)
(* pkg/netceptor/ping.go SendPing / CreateTraceroute.                       *)
(*                                                                         *)
(* The firewall stage at the top of handleMessageData is omitted here       *)
(* (accept-all); Firewall.tla / C12 covers it.                              *)
(***************************************************************************)
EXTENDS Naturals, Sequences, FiniteSets

None == "-"                       \* no route / no node

ProblemUnknown == "service unknown"
ProblemExpired == "message expired"
ErrNoRoute     == "no route to node"
ErrTimeout     == "timeout"

NoNote == [problem |-> "", from |-> "", fromsvc |-> "", to |-> "", tosvc |-> ""]

\* A packet.  kind: "data" (user datagram), "pong" (ping reply), "ndata"/"npong" (notice about a data/pong packet).
\* id identifies the user send the packet stems from; pay is the opaque payload identity.
MkPkt(id, kind, src, srcsvc, dst, dstsvc, ttl, pay, note) ==
  [id |-> id, kind |-> kind, src |-> src, srcsvc |-> srcsvc, dst |-> dst, dstsvc |-> dstsvc,
   ttl |-> ttl, ttl0 |-> ttl, pay |-> pay, note |-> note]

Key(p) == <<p.id, p.kind>>
IsNotice(p) == p.srcsvc = "unreach"

(***************************************************************************)
(* What handleMessageData(md) does at node n.  nh is the routing table's    *)
(* next hop for md.ToNode (None when there is no entry or no live           *)
(* connection), bound says whether a live listener is registered for        *)
(* md.ToService at n.                                                       *)
(*                                                                         *)
(*   "ping"      reserved service: reply with an empty packet from "ping"   *)
(*   "publish"   reserved service "unreach": hand to the unreachable broker *)
(*   "deliver"   pc.recvChan <- md                                          *)
(*   "err_unknown"    sender is this node: synchronous error, no notice     *)
(*   "drop_unknown"   the packet is itself a notice: nothing                *)
(*   "notice_unknown" 'service unknown' notice to md.FromNode               *)
(*   "drop_expired" / "notice_expired"   HopsToLive = 0 at a transit node   *)
(*   "noroute"   error to the caller (visible only at the origin)           *)
(*   "forward"   decrement HopsToLive and write to the next hop             *)
(***************************************************************************)
Decide(n, p, nh, bound) ==
  IF p.dst = n
  THEN IF p.dstsvc = "ping" THEN "ping"
       ELSE IF p.dstsvc = "unreach" THEN "publish"
       ELSE IF bound THEN "deliver"
       ELSE IF p.src = n THEN "err_unknown"
       ELSE IF IsNotice(p) THEN "drop_unknown"
       ELSE "notice_unknown"
  ELSE IF p.ttl = 0 THEN (IF IsNotice(p) THEN "drop_expired" ELSE "notice_expired")
       ELSE IF nh = None THEN "noroute"
       ELSE "forward"

NoticeKind(k) == IF k = "data" THEN "ndata" ELSE "npong"

\* sendUnreachable(md.FromNode, {From*, To* of md, problem}) issued by node n with the node's default budget
NoticeFor(n, p, problem, defttl) ==
  MkPkt(p.id, NoticeKind(p.kind), n, "unreach", p.src, "unreach", defttl, 0,
        [problem |-> problem, from |-> p.src, fromsvc |-> p.srcsvc, to |-> p.dst, tosvc |-> p.dstsvc])

\* handlePing: sendMessage("ping", md.FromNode, md.FromService, {})
PongFor(n, p, defttl) == MkPkt(p.id, "pong", n, "ping", p.src, p.srcsvc, defttl, 0, NoNote)

Forwarded(p) == [p EXCEPT !.ttl = @ - 1]

\* packetconn.go StartUnreachable: which of the sockets open at n take a published notification
PublishTo(n, note, socks) == {s \in socks : note.from = n /\ note.fromsvc = s}

(***************************************************************************)
(* Routing tables: t[n] is a function from destinations to next hops.       *)
(***************************************************************************)
Route(t, n, d) == IF d \in DOMAIN t[n] THEN t[n][d] ELSE None

\* Fate of a packet handled at node n for destination d with remaining budget h, following table t.
RECURSIVE Fate(_, _, _, _)
Fate(t, n, d, h) ==
  IF n = d THEN [kind |-> "arrive", at |-> n, left |-> h]
  ELSE IF h = 0 THEN [kind |-> "expire", at |-> n, left |-> 0]
  ELSE IF Route(t, n, d) = None THEN [kind |-> "noroute", at |-> n, left |-> h]
  ELSE Fate(t, Route(t, n, d), d, h - 1)

\* node reached after k table steps from n towards d (stops at d; None after a missing entry)
RECURSIVE Step(_, _, _, _)
Step(t, n, d, k) ==
  IF k = 0 THEN n
  ELSE LET m == Step(t, n, d, k - 1) IN
       IF m = None THEN None ELSE IF m = d THEN d ELSE Route(t, m, d)

\* length of the table path from n to d, or Inf when the walk loops or ends
Inf == 9999
PathDist(t, n, d, bound) ==
  IF \E k \in 0..bound : Step(t, n, d, k) = d
  THEN CHOOSE k \in 0..bound : Step(t, n, d, k) = d /\ \A j \in 0..(k - 1) : Step(t, n, d, j) # d
  ELSE Inf

PathSeq(t, n, d, len) == [i \in 1..(len + 1) |-> Step(t, n, d, i - 1)]

(***************************************************************************)
(* Ping and Traceroute as functions of the tables (ping.go).                *)
(* Ping(src, dst, h) returns who answered and the error text:               *)
(*   the destination with no error when the request gets there within h     *)
(*   forwards and the reply gets back within the node default budget;       *)
(*   the node where the budget ran out with 'message expired' when its      *)
(*   notice gets back; the source itself with 'no route to node' when the   *)
(*   source has no route; otherwise nothing comes back (timeout).           *)
(***************************************************************************)
PingResult(t, src, dst, h, defttl) ==
  LET f == Fate(t, src, dst, h) IN
  IF f.kind = "arrive"
  THEN IF Fate(t, dst, src, defttl).kind = "arrive" THEN [from |-> dst, err |-> ""]
       ELSE [from |-> "", err |-> ErrTimeout]
  ELSE IF f.kind = "expire"
  THEN IF Fate(t, f.at, src, defttl).kind = "arrive" THEN [from |-> f.at, err |-> ProblemExpired]
       ELSE [from |-> "", err |-> ErrTimeout]
  ELSE IF f.at = src THEN [from |-> src, err |-> ErrNoRoute]
       ELSE [from |-> "", err |-> ErrTimeout]

\* CreateTraceroute: pings with budgets 0,1,2,... until one is not answered by 'message expired'
RECURSIVE TraceFrom(_, _, _, _, _, _)
TraceFrom(t, src, dst, i, maxhops, defttl) ==
  LET r == PingResult(t, src, dst, i, defttl) IN
  IF r.err = ProblemExpired /\ i < maxhops
  THEN <<r>> \o TraceFrom(t, src, dst, i + 1, maxhops, defttl)
  ELSE <<r>>

Traceroute(t, src, dst, maxhops, defttl) == TraceFrom(t, src, dst, 0, maxhops, defttl)

\* on a table whose walk from src reaches dst within the budgets, traceroute lists exactly the path nodes in order
TracerouteIsPath(t, src, dst, maxhops, defttl, nn) ==
  LET d == PathDist(t, src, dst, nn) IN
  (d # Inf /\ d <= maxhops /\ \A k \in 0..d : Fate(t, Step(t, src, dst, k), src, defttl).kind = "arrive")
    => LET tr == Traceroute(t, src, dst, maxhops, defttl) IN
       /\ Len(tr) = d + 1
       /\ \A i \in 1..(d + 1) : tr[i].from = Step(t, src, dst, i - 1)
       /\ \A i \in 1..d : tr[i].err = ProblemExpired
       /\ tr[d + 1].err = ""
=============================================================================
