SPECIFICATION Spec
CONSTANTS
  MaxLen = 1
  DumpFile = "vectors.ndjson"
INVARIANTS
  NeverCrashes
