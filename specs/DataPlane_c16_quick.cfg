SPECIFICATION Spec
CONSTANTS
  Node = {"n1", "n2", "n3"}
  Ghost = {}
  Nbr <- Tri_Nbr
  Bound <- Bound_ab
  VarCols = {"n1", "n3"}
  SrcSet = {"n1"}
  SrcSvcs = {"a", "b"}
  DstSet = {"n1", "n3"}
  DstSvcs = {"a", "u"}
  TTLs = {3}
  MaxSends = 2
  DefTTL = 3
INVARIANTS
  TypeOK
  NoticeToSenderOnly
  UnknownServiceReported
  NoNoticeAboutNotice
  AtMostOneNotice
  NeverBoth
  DeliveredOnlyAtAddressee
  FwdBound
PROPERTIES
  Decreases
