SPECIFICATION Spec
CONSTANTS
  Tombstones = TRUE
  Owners = {"o1", "o2"}
  Svcs = {"s1", "s2"}
  Times = {1, 2, 3, 4}
  MaxSteps = 8
VIEW vw
INVARIANTS
  NoResurrection
PROPERTIES
  NoOlderReplaces
  NoChangeNoRelay
  NewerAccepted
