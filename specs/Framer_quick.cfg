SPECIFICATION Spec
CONSTANTS
  MaxFrames = 2
  MaxLen = 3
  VecFrames = 2
  VecLen = 2
  DumpFile = "framer_vectors.ndjson"
INVARIANTS
  OutIsPrefix
  Complete
  Aligned
PROPERTIES
  AllOut
