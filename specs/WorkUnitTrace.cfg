SPECIFICATION USpec
CONSTANTS
  Ids = {"u1"}
  Sess = {"c1"}
  MaxOut = 1
  MaxTicks = 1
  MaxCrashes = 0
  MaxOps = 1
  MaxOps2 = 1
  FirstSess = "c1"
  RunEnabled = TRUE
  Ops = {"submit"}
  FindUnitHoldsRLock = FALSE
  TruncFirst = FALSE
  UnregFirst = FALSE
  ScanRegistersAlias = FALSE
  KF_EmptyStatus = FALSE
  KF_CancelOverS = FALSE
  CancelKeepsSucceeded = TRUE
  KF_LiveRunnerFailed = TRUE
  UnitTraceFile = "unit_trace.ndjson"
  CheckSteps = TRUE
POSTCONDITION UnitTraceAccepted
CHECK_DEADLOCK FALSE
