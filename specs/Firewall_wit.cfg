SPECIFICATION Spec
CONSTANTS
  MaxList = 2
  Families = {"single", "list"}
  DumpFile = ""
INVARIANTS
  W_NoNotice
