SPECIFICATION Spec
CONSTANTS
  Node = {"n1", "n2", "n3"}
  Ghost = {"g"}
  Nbr <- Tri_Nbr
  Bound <- Bound_ab
  VarCols = {"n1", "n3", "g"}
  SrcSet = {"n1"}
  SrcSvcs = {"a"}
  DstSet = {"n1", "n3", "g"}
  DstSvcs = {"a", "u", "ping"}
  TTLs = {0, 1, 2, 3, 4}
  MaxSends = 1
  DefTTL = 3
INVARIANTS
  TypeOK
  DeliveredOnlyAtAddressee
  TrueSource
  AtMostOnce
  Intact
  DeliveredWhenRouted
  FwdBound
  ReachIff
  ReachIffDist
  NoNoticeAboutNotice
  AtMostOneNotice
  PingConsistent
  TracerouteOK
  NoticeToSenderOnly
  UnknownServiceReported
  NeverBoth
PROPERTIES
  Decreases
