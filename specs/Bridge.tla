------------------------------- MODULE Bridge -------------------------------
(***************************************************************************)
(* C03: utils.BridgeConns(c1, c2) relays two connections into each other   *)
(* (control service "connect": c1 = Unix socket of the control client, c2 =*)
(* mesh stream; TCP proxy inbound: c1 = TCP, c2 = mesh; outbound: c1 =     *)
(* mesh, c2 = TCP).  X is the application at the far end of c1's pipe, Y   *)
(* the one at the far end of c2's pipe.  Each pipe is a Stream.tla pipe    *)
(* (taken as reliable here: avail = written); what is modelled is the glue:*)
(*   bridgeHalf(src, dst): loop { n, err = src.Read; if n > 0 dst.Write;   *)
(*                                if err or short write: dst.Close(); return }*)
(* and the two meanings of Close: HALF (mesh Conn: only the writing side,  *)
(* the other direction keeps flowing) and FULL (TCP / Unix socket: both    *)
(* directions; what the peer sends afterwards is discarded, a pending Read *)
(* on it fails).                                                           *)
(* Directions: "fwd" X -> c1 -> c2 -> Y, "rev" Y -> c2 -> c1 -> X.          *)
(***************************************************************************)
EXTENDS Naturals, TLC

CONSTANTS MaxBytes, K1, K2,      \* kind of c1 / c2: "half" or "full"
          Discipline             \* "any": endpoints close whenever they like; "orderly": an endpoint closes only
                                 \* when the other endpoint has finished writing and it has read all of it

ASSUME K1 \in {"half", "full"} /\ K2 \in {"half", "full"} /\ Discipline \in {"any", "orderly"}

VARIABLES
  w,        \* w[e]: bytes endpoint e \in {"X","Y"} has written
  wc,       \* wc[e]: endpoint e has closed its writing side
  inR,      \* inR[d]: bytes the bridge half of direction d has read from its source connection
  buf,      \* buf[d]: bytes read by that half and not yet written
  outW,     \* outW[d]: bytes the half has written to its destination connection
  fin,      \* fin[d]: the half has closed its destination's writing side (FIN towards the endpoint)
  dead,     \* dead[c]: bridge connection c \in {"c1","c2"} has been closed in both directions (FULL close)
  half,     \* half[d] \in {"run", "done"}
  r, eof, err  \* per endpoint: bytes read, saw EOF, saw an error

vars == <<w, wc, inR, buf, outW, fin, dead, half, r, eof, err>>
Ends == {"X", "Y"}
Dirs == {"fwd", "rev"}
Src(d) == IF d = "fwd" THEN "c1" ELSE "c2"     \* the bridge connection a half reads from
Dst(d) == IF d = "fwd" THEN "c2" ELSE "c1"
Kind(c) == IF c = "c1" THEN K1 ELSE K2
Writer(d) == IF d = "fwd" THEN "X" ELSE "Y"    \* the endpoint feeding direction d
Reader(d) == IF d = "fwd" THEN "Y" ELSE "X"
Other(d) == IF d = "fwd" THEN "rev" ELSE "fwd"

Init ==
  /\ w = [e \in Ends |-> 0] /\ wc = [e \in Ends |-> FALSE]
  /\ inR = [d \in Dirs |-> 0] /\ buf = [d \in Dirs |-> 0] /\ outW = [d \in Dirs |-> 0]
  /\ fin = [d \in Dirs |-> FALSE] /\ dead = [c \in {"c1", "c2"} |-> FALSE]
  /\ half = [d \in Dirs |-> "run"]
  /\ r = [e \in Ends |-> 0] /\ eof = [e \in Ends |-> FALSE] /\ err = [e \in Ends |-> FALSE]

\* the direction that feeds endpoint e, and the one e feeds
Feeds(e) == IF e = "Y" THEN "fwd" ELSE "rev"
PeerDone(e) == LET p == IF e = "X" THEN "Y" ELSE "X" IN (wc[p] \/ w[p] = MaxBytes) /\ r[e] = w[p]

ConnOf(e) == IF e = "X" THEN "c1" ELSE "c2"
\* an endpoint is finished as a writer when it closed, or when the bridge FULL-closed its connection
WriterEnded(e) == wc[e] \/ dead[ConnOf(e)]

EndWrite(e, k) ==
  /\ ~wc[e] /\ ~dead[ConnOf(e)] /\ w[e] + k <= MaxBytes
  /\ w' = [w EXCEPT ![e] = @ + k]
  /\ UNCHANGED <<wc, inR, buf, outW, fin, dead, half, r, eof, err>>

EndClose(e) ==      \* the application closes its writing side (CloseWrite / Conn.Close)
  /\ ~wc[e] /\ (Discipline = "orderly" => PeerDone(e))
  /\ wc' = [wc EXCEPT ![e] = TRUE]
  /\ UNCHANGED <<w, inR, buf, outW, fin, dead, half, r, eof, err>>

\* bridgeHalf: src.Read returns k bytes
HalfRead(d, k) ==
  /\ half[d] = "run" /\ buf[d] = 0 /\ ~dead[Src(d)] /\ k > 0 /\ inR[d] + k <= w[Writer(d)]
  /\ inR' = [inR EXCEPT ![d] = @ + k] /\ buf' = [buf EXCEPT ![d] = k]
  /\ UNCHANGED <<w, wc, outW, fin, dead, half, r, eof, err>>

\* bridgeHalf: dst.Write of what was read (a FULL-closed destination discards it and reports an error -> close, return)
HalfWrite(d) ==
  /\ half[d] = "run" /\ buf[d] > 0
  /\ IF dead[Dst(d)]
       THEN /\ buf' = [buf EXCEPT ![d] = 0] /\ half' = [half EXCEPT ![d] = "done"] /\ UNCHANGED <<outW, fin, dead>>
       ELSE /\ outW' = [outW EXCEPT ![d] = @ + buf[d]] /\ buf' = [buf EXCEPT ![d] = 0] /\ UNCHANGED <<half, fin, dead>>
  /\ UNCHANGED <<w, wc, inR, r, eof, err>>

\* bridgeHalf: src.Read returns EOF (writer closed, everything read) or an error (src FULL-closed by the other
\* half): dst.Close() - HALF: FIN towards the reader only; FULL: both directions of dst die - and return
HalfEnd(d) ==
  /\ half[d] = "run" /\ buf[d] = 0
  /\ \/ dead[Src(d)]
     \/ wc[Writer(d)] /\ inR[d] = w[Writer(d)]
  /\ half' = [half EXCEPT ![d] = "done"]
  /\ fin' = [fin EXCEPT ![d] = TRUE]
  /\ dead' = IF Kind(Dst(d)) = "full" THEN [dead EXCEPT ![Dst(d)] = TRUE] ELSE dead
  /\ UNCHANGED <<w, wc, inR, buf, outW, r, eof, err>>

EndRead(e, k) ==
  /\ ~eof[e] /\ ~err[e] /\ k > 0 /\ r[e] + k <= outW[Feeds(e)]
  /\ r' = [r EXCEPT ![e] = @ + k]
  /\ UNCHANGED <<w, wc, inR, buf, outW, fin, dead, half, eof, err>>

EndEOF(e) ==
  /\ ~eof[e] /\ ~err[e] /\ fin[Feeds(e)] /\ r[e] = outW[Feeds(e)]
  /\ eof' = [eof EXCEPT ![e] = TRUE]
  /\ UNCHANGED <<w, wc, inR, buf, outW, fin, dead, half, r, err>>

Progress == \E d \in Dirs : HalfWrite(d) \/ HalfEnd(d) \/ (\E k \in 1..MaxBytes : HalfRead(d, k))
ReadersProgress == \E e \in Ends : EndEOF(e) \/ (\E k \in 1..MaxBytes : EndRead(e, k))
Next == \/ \E e \in Ends : (\E k \in 1..MaxBytes : EndWrite(e, k) \/ EndRead(e, k)) \/ EndClose(e) \/ EndEOF(e)
        \/ Progress
Spec == Init /\ [][Next]_vars /\ WF_vars(Progress) /\ WF_vars(ReadersProgress)

-----------------------------------------------------------------------------
\* end to end: what an endpoint reads is a prefix of what the other wrote (bytes are named by offset)
E2EPrefix == /\ r["Y"] <= outW["fwd"] /\ outW["fwd"] + buf["fwd"] <= inR["fwd"] /\ inR["fwd"] <= w["X"]
             /\ r["X"] <= outW["rev"] /\ outW["rev"] + buf["rev"] <= inR["rev"] /\ inR["rev"] <= w["Y"]
\* end of stream is seen only after the writer closed and all its bytes were read
E2EEOFOnlyAfterAll == /\ eof["Y"] => (WriterEnded("X") /\ r["Y"] = w["X"])
                      /\ eof["X"] => (WriterEnded("Y") /\ r["X"] = w["Y"])
\* close propagates: once an endpoint has closed, the other eventually sees the end; BridgeConns returns when both have
ClosePropagates == /\ wc["X"] ~> eof["Y"]
                   /\ wc["Y"] ~> eof["X"]
BridgeReturns == (wc["X"] /\ wc["Y"]) ~> (half["fwd"] = "done" /\ half["rev"] = "done")

W_NoBothEOF == ~(eof["X"] /\ eof["Y"] /\ r["X"] = MaxBytes /\ r["Y"] = MaxBytes)
W_NoFullClose == ~(dead["c1"] \/ dead["c2"])
=============================================================================
