SPECIFICATION Spec
CONSTANTS
  Self = "n1"
  Sessions = {"s1", "s2", "s3"}
  AnnIds = {"", "n1", "pa", "pb"}
  AllowAny = FALSE
  AllowSet = {"pb"}
  BaseCost = 1
  NodeCost <- NC
INVARIANTS
  OnePerID
  AdmittedOnly
  ConnIffOpenSession
  NoEdgeLeftBehind
