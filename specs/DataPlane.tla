------------------------------ MODULE DataPlane ------------------------------
(***************************************************************************)
(* C02 / C10 / C16 - the hop-by-hop datagram plane of a Netceptor mesh.     *)
(*                                                                         *)
(* Nodes own sets of bound services (listeners / sockets).  The routing     *)
(* tables are ARBITRARY: every function from (node, destination) to a       *)
(* neighbour or "no entry" is an initial state, so two- and three-node      *)
(* forwarding loops, black holes and routes to phantom names (Ghost) are    *)
(* all explored.  One action = one call of handleMessageData at one node    *)
(* (the code's grain: the origin handles its own packet synchronously       *)
(* inside SendMessageWithHopsToLive, which is why errors are reported to    *)
(* the caller only there).                                                  *)
(*                                                                         *)
(* Deviations, named: the firewall stage is omitted (C12); links neither    *)
(* lose nor duplicate (a duplicating link legitimately duplicates, so the   *)
(* at-most-once claim is about the nodes); listeners do not change while    *)
(* packets are in flight (the close race is explored on the real code by    *)
(* `vdp c16`, see DataPlaneTrace.tla for what is accepted there).           *)
(***************************************************************************)
EXTENDS DataPlaneCore, TLC

CONSTANTS
  Node,      \* the real nodes
  Ghost,     \* names that may appear as destinations in tables and packets but are no node
  Nbr,       \* Nbr[n]: the neighbours of n (tables only point at neighbours)
  Bound,     \* Bound[n]: user services with an open socket at n
  VarCols,   \* destinations whose table column ranges over all possibilities (others: no entry)
  SrcSet, SrcSvcs, DstSet, DstSvcs, TTLs,   \* the user sends explored
  MaxSends,  \* user packets per behaviour (all in flight concurrently)
  DefTTL     \* maxForwardingHops: budget of notices and ping replies

Dest == Node \cup Ghost
Kinds == {"data", "pong", "ndata", "npong"}

VARIABLES table, flight, delivered, socknotes, errs, created, arrived, sent, fwd, dropped
vars == <<table, flight, delivered, socknotes, errs, created, arrived, sent, fwd, dropped>>

\* ---------------------------------------------------------------- all tables
Rows(n) == [ (VarCols \ {n}) -> (Nbr[n] \cup {None}) ]

RECURSIVE TablesOver(_)
TablesOver(S) ==
  IF S = {} THEN { <<>> }
  ELSE LET n == CHOOSE x \in S : TRUE IN
       { (n :> r) @@ t : r \in Rows(n), t \in TablesOver(S \ {n}) }

AllTables == TablesOver(Node)

\* ---------------------------------------------------------------- sends
SendChoice ==
  { [src |-> s, srcsvc |-> ss, dst |-> d, dstsvc |-> ds, ttl |-> h] :
      s \in SrcSet, ss \in SrcSvcs, d \in DstSet, ds \in DstSvcs, h \in TTLs }

UserPkt(i, c) == MkPkt(i, "data", c.src, c.srcsvc, c.dst, c.dstsvc, c.ttl, i, NoNote)

AllKeys == (1..MaxSends) \X Kinds

Init ==
  /\ table \in AllTables
  /\ \E k \in 1..MaxSends : \E cs \in [1..k -> SendChoice] :
       /\ \A i \in 1..k : cs[i].srcsvc \in Bound[cs[i].src]      \* the sending socket is open
       /\ sent = { UserPkt(i, cs[i]) : i \in 1..k }
       /\ flight = { [p |-> UserPkt(i, cs[i]), at |-> cs[i].src, origin |-> TRUE] : i \in 1..k }
  /\ delivered = {} /\ socknotes = {} /\ errs = {} /\ created = {} /\ arrived = {} /\ dropped = {}
  /\ fwd = [k \in AllKeys |-> 0]

\* ---------------------------------------------------------------- one handleMessageData call
Handle(f) ==
  LET p == f.p
      n == f.at
      nh == Route(table, n, p.dst)
      dec == Decide(n, p, nh, p.dstsvc \in Bound[n])
      rest == flight \ {f}
      spawn(q) == rest \cup {[p |-> q, at |-> n, origin |-> TRUE]}
  IN
  /\ arrived' = IF p.dst = n THEN arrived \cup {Key(p)} ELSE arrived
  /\ CASE dec = "ping" ->
            /\ flight' = spawn(PongFor(n, p, DefTTL))
            /\ UNCHANGED <<delivered, socknotes, errs, created, fwd, dropped>>
       [] dec = "publish" ->
            /\ flight' = rest
            /\ socknotes' = socknotes \cup
                 { [node |-> n, sock |-> s, note |-> p.note, via |-> p.src, key |-> Key(p)] : s \in PublishTo(n, p.note, Bound[n]) }
            /\ UNCHANGED <<delivered, errs, created, fwd, dropped>>
       [] dec = "deliver" ->
            /\ flight' = rest
            /\ delivered' = delivered \cup {[node |-> n, svc |-> p.dstsvc, p |-> p]}
            /\ UNCHANGED <<socknotes, errs, created, fwd, dropped>>
       [] dec = "err_unknown" ->
            /\ flight' = rest
            /\ errs' = errs \cup {[key |-> Key(p), err |-> ProblemUnknown]}
            /\ UNCHANGED <<delivered, socknotes, created, fwd, dropped>>
       [] dec \in {"drop_unknown", "drop_expired"} ->
            /\ flight' = rest
            /\ dropped' = dropped \cup {[key |-> Key(p), at |-> n, why |-> dec]}
            /\ UNCHANGED <<delivered, socknotes, errs, created, fwd>>
       [] dec \in {"notice_unknown", "notice_expired"} ->
            LET problem == IF dec = "notice_unknown" THEN ProblemUnknown ELSE ProblemExpired IN
            /\ flight' = spawn(NoticeFor(n, p, problem, DefTTL))
            /\ created' = created \cup {[about |-> p, by |-> n, problem |-> problem]}
            /\ UNCHANGED <<delivered, socknotes, errs, fwd, dropped>>
       [] dec = "noroute" ->
            /\ flight' = rest
            /\ errs' = IF f.origin /\ p.kind = "data" THEN errs \cup {[key |-> Key(p), err |-> ErrNoRoute]} ELSE errs
            /\ dropped' = dropped \cup {[key |-> Key(p), at |-> n, why |-> dec]}
            /\ UNCHANGED <<delivered, socknotes, created, fwd>>
       [] dec = "forward" ->
            /\ flight' = rest \cup {[p |-> Forwarded(p), at |-> nh, origin |-> FALSE]}
            /\ fwd' = [fwd EXCEPT ![Key(p)] = @ + 1]
            /\ UNCHANGED <<delivered, socknotes, errs, created, dropped>>
  /\ UNCHANGED <<table, sent>>

Next == \E f \in flight : Handle(f)
Spec == Init /\ [][Next]_vars
FairSpec == Spec /\ WF_vars(Next)

Quiet == flight = {}

\* ---------------------------------------------------------------- C02
\* The history variables (delivered, socknotes, errs, created, arrived, dropped) only grow and every behaviour reaches
\* Quiet (Decreases), so a history predicate violated anywhere is violated at the behaviour's Quiet state: the
\* predicates below are evaluated there (QuietOnly), which keeps TLC's cost per state low.
DeliveredOnlyAtAddressee == Quiet =>
  \A d \in delivered : d.node = d.p.dst /\ d.svc = d.p.dstsvc /\ d.svc \in Bound[d.node]

TrueSource == Quiet =>
  \A d \in delivered :
    IF d.p.kind = "data"
    THEN \E s \in sent : s.id = d.p.id /\ s.src = d.p.src /\ s.srcsvc = d.p.srcsvc /\ s.dst = d.node /\ s.dstsvc = d.svc
    ELSE /\ d.p.kind = "pong" /\ d.p.srcsvc = "ping"
         /\ \E s \in sent : s.id = d.p.id /\ s.dstsvc = "ping" /\ s.dst = d.p.src /\ s.src = d.node /\ s.srcsvc = d.svc

AtMostOnce == Quiet => \A d1, d2 \in delivered : Key(d1.p) = Key(d2.p) => d1 = d2

Intact == Quiet => \A d \in delivered : d.p.kind = "data" => \E s \in sent : s.id = d.p.id /\ s.pay = d.p.pay

\* a datagram to a bound service over a table path within the budget is delivered (at quiescence)
DeliveredWhenRouted ==
  Quiet => \A s \in sent :
    (s.dst \in Node /\ s.dstsvc \in Bound[s.dst] /\ Fate(table, s.src, s.dst, s.ttl0).kind = "arrive")
      => \E d \in delivered : d.p.id = s.id /\ d.p.kind = "data"

\* ---------------------------------------------------------------- C10
Ttl0(k) == IF k[2] = "data" THEN (CHOOSE s \in sent : s.id = k[1]).ttl0 ELSE DefTTL

FwdBound == \A k \in AllKeys : (\E s \in sent : s.id = k[1]) => fwd[k] <= Ttl0(k)

\* every step strictly decreases a natural-number measure: no behaviour is infinite, whatever the tables
Weight(f) ==
  LET p == f.p IN
  IF p.kind \in {"ndata", "npong"} THEN p.ttl + 1
  ELSE IF p.kind = "pong" THEN (p.ttl + 1) + (DefTTL + 1)
  ELSE (p.ttl + 1) + 2 * (DefTTL + 1)

RECURSIVE SumW(_)
SumW(S) == IF S = {} THEN 0 ELSE LET f == CHOOSE x \in S : TRUE IN Weight(f) + SumW(S \ {f})
Measure == SumW(flight)
Decreases == [][Measure' < Measure]_vars

Terminates == <>Quiet

ExpiredNotices(s) == {c \in created : Key(c.about) = Key(s) /\ c.problem = ProblemExpired}

\* reach iff distance <= hops; otherwise exactly one expiry notice from the node where the budget ran out;
\* a missing table entry drops the packet without any notice (error at the origin only)
ReachIff == Quiet =>
  \A s \in sent :
    LET f == Fate(table, s.src, s.dst, s.ttl0) IN
    /\ (Key(s) \in arrived) => f.kind = "arrive"                                       \* only if (always)
    /\ \A c \in ExpiredNotices(s) : f.kind = "expire" /\ c.by = f.at /\ c.by = Step(table, s.src, s.dst, s.ttl0)
    /\ Quiet =>
         /\ (f.kind = "arrive") => Key(s) \in arrived                                   \* if (at quiescence)
         /\ (f.kind = "expire") => Cardinality(ExpiredNotices(s)) = 1
         /\ (f.kind = "noroute") => /\ {c \in created : Key(c.about) = Key(s)} = {}
                                    /\ ([key |-> Key(s), err |-> ErrNoRoute] \in errs) <=> (f.at = s.src)

\* loop-free form of the same statement: d <= h  <=>  arrival, with d the length of the table path
ReachIffDist ==
  Quiet => \A s \in sent :
    LET d == PathDist(table, s.src, s.dst, Cardinality(Node)) IN
    d # Inf => ((Key(s) \in arrived) <=> d <= s.ttl0)

NoNoticeAboutNotice == Quiet => \A c \in created : ~IsNotice(c.about) /\ c.about.kind \in {"data", "pong"}

AtMostOneNotice == Quiet => \A c1, c2 \in created : Key(c1.about) = Key(c2.about) => c1 = c2

\* the dynamic model agrees with the closed-form Ping operator used as the oracle for the real Netceptor.Ping
PingConsistent ==
  Quiet => \A s \in sent : s.dstsvc = "ping" /\ s.dst \in Node =>
    LET r == PingResult(table, s.src, s.dst, s.ttl0, DefTTL)
        pongs == {d \in delivered : d.p.id = s.id /\ d.p.kind = "pong" /\ d.node = s.src /\ d.svc = s.srcsvc}
        notes == {x \in socknotes : x.key = <<s.id, "ndata">> /\ x.node = s.src /\ x.sock = s.srcsvc}
    IN
    /\ (r.err = "") <=> (pongs # {})
    /\ (r.err = "") => \A d \in pongs : d.p.src = r.from
    /\ (r.err = ProblemExpired) <=> (notes # {})
    /\ (r.err = ProblemExpired) => \A x \in notes : x.via = r.from /\ x.note.problem = ProblemExpired
    /\ (r.err = ErrNoRoute) <=> ([key |-> Key(s), err |-> ErrNoRoute] \in errs)

TracerouteOK == Quiet =>
  \A s \in SrcSet, d \in DstSet \cap Node : TracerouteIsPath(table, s, d, DefTTL, DefTTL, Cardinality(Node))

\* ---------------------------------------------------------------- C16
NoticeToSenderOnly == Quiet =>
  \A x \in socknotes :
    /\ x.node = x.note.from /\ x.sock = x.note.fromsvc /\ x.sock \in Bound[x.node]
    /\ \E c \in created : /\ NoticeKind(c.about.kind) = x.key[2] /\ c.about.id = x.key[1]
                          /\ x.note = [problem |-> c.problem, from |-> c.about.src, fromsvc |-> c.about.srcsvc,
                                       to |-> c.about.dst, tosvc |-> c.about.dstsvc]
                          /\ x.via = c.by

UnknownServiceReported ==
  Quiet => \A s \in sent :
    (s.dst \in Node /\ s.dstsvc \notin (Bound[s.dst] \cup {"ping", "unreach"}) /\ Fate(table, s.src, s.dst, s.ttl0).kind = "arrive") =>
      LET cs == {c \in created : Key(c.about) = Key(s)} IN
      IF s.src = s.dst
      THEN cs = {} /\ [key |-> Key(s), err |-> ProblemUnknown] \in errs            \* synchronous error, no notice
      ELSE /\ Cardinality(cs) = 1 /\ \A c \in cs : c.by = s.dst /\ c.problem = ProblemUnknown
           /\ (Fate(table, s.dst, s.src, DefTTL).kind = "arrive") =>
                {[node |-> x.node, sock |-> x.sock] : x \in {y \in socknotes : y.key = <<s.id, "ndata">>}}
                   = {[node |-> s.src, sock |-> s.srcsvc]}

\* nothing is ever delivered to a listener for a packet that also produced a notice
NeverBoth == Quiet =>
  \A c \in created : ~\E d \in delivered : Key(d.p) = Key(c.about)

TypeOK ==
  /\ \A f \in flight : f.at \in Node /\ f.p.ttl \in 0..255 /\ f.p.ttl <= f.p.ttl0
  /\ \A d \in delivered : d.node \in Node

\* ---------------------------------------------------------------- witnesses (each must be violated)
W_NoDelivery       == delivered = {}
W_NoLoopExpiry     == ~\E c \in created : c.problem = ProblemExpired /\ PathDist(table, c.about.src, c.about.dst, Cardinality(Node)) = Inf
                                          /\ fwd[Key(c.about)] >= 3
W_NoUnknownNotice  == ~\E x \in socknotes : x.note.problem = ProblemUnknown
W_NoExpiredNotice  == ~\E x \in socknotes : x.note.problem = ProblemExpired
W_NoNoticeDropped  == ~\E d \in dropped : d.key[2] = "ndata" /\ d.why = "drop_expired"
W_NoPong           == ~\E d \in delivered : d.p.kind = "pong"
W_NoGhostRoute     == ~\E f \in flight : f.p.dst \in Ghost /\ f.p.ttl < f.p.ttl0
W_NoLocalUnknown   == ~\E e \in errs : e.err = ProblemUnknown
W_NoTransitNoRoute == ~\E d \in dropped : d.why = "noroute" /\ \E s \in sent : Key(s) = d.key /\ s.src # d.at
=============================================================================
