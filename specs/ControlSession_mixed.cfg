SPECIFICATION Spec
CONSTANTS
  Part = "mixed"
  MaxLinesA = 1
  MaxLinesB = 1
  KF_ScanRecheckLeak = FALSE
  KF_FindUnitRelock = FALSE
  MaxOps = 0
  ExportOps = 0
  RequestStateKeptAcrossLines = FALSE
  ConnectionRemembersToken = FALSE
  VerifierRemembersTokens = FALSE
  RedactNeedsTLSRecord = FALSE
  KeyFamily = "cover"
  DumpFile = "mixed.ndjson"
INVARIANTS
  FollowersAreLineClasses
  FollowerAnsweredAsOnFreshSession
