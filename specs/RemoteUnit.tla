----------------------------- MODULE RemoteUnit -----------------------------
(***************************************************************************)
(* The remote-work protocol of pkg/workceptor/remote_work.go between a     *)
(* submitting node S and an executing node E for ONE local unit, over a    *)
(* link that can drop and come back, with S-daemon crash and restart.      *)
(* One action per network round trip or status rewrite:                    *)
(*   startRemoteUnit      connect, "work submit" (E creates a unit and     *)
(*                        answers its id), rewrite RemoteUnitID, ship      *)
(*                        stdin + confirmation, rewrite RemoteStarted      *)
(*   monitorRemoteStatus  own connection; "work status <id>" once a second;*)
(*                        the answer is copied verbatim into the local     *)
(*                        record (UpdateBasicStatus); reconnect after any  *)
(*                        error; "unknown work unit" ends it               *)
(*   monitorRemoteStdout  own connection; Load; if local size < recorded   *)
(*                        size: "work results <id> <local size>" appended  *)
(*                        to the local stdout file; ends (and cancels the  *)
(*                        status monitor) when the state is complete and   *)
(*                        the local file has the recorded size             *)
(*   cancelOrRelease      rewrite LocalCancelled/LocalReleased; stop the   *)
(*                        monitors; ONE synchronous connect attempt; if it *)
(*                        fails answer "pending" and retry the CONNECT in  *)
(*                        the background for ever; the request itself is   *)
(*                        sent ONCE                                        *)
(*   Restart              RemoteStarted: resume (monitors, or the pending  *)
(*                        cancel/release); otherwise Failed                *)
(* E is an ordinary command unit: pending -> running -> finished, cancel,  *)
(* release removes.                                                        *)
(*                                                                         *)
(* Behaviour of the code that the properties have to live with (named):    *)
(*  D1 the request of a cancel/release/submit is sent once; if that one    *)
(*     round trip fails after the connection was made in the background    *)
(*     path, nothing retries it (gaveUp);                                  *)
(*  D2 after a cancel whose request failed, the monitors stay stopped;     *)
(*  D3 a non-forced release of a unit E no longer knows fails for ever;    *)
(*  D4 "released" is answered when E has confirmed, before the local       *)
(*     removal (finding C13:remote-release-answered-before-removal);       *)
(*  D5 after a restart with a pending cancel only the status monitor runs  *)
(*     (forRelease = true is passed): the output is not mirrored further;  *)
(*  D6 a submission interrupted after E's answer leaves an orphan on E.    *)
(* RestartIfIdKnown = TRUE is the seeded change c04-restart-resubmits-...  *)
(* SendOnce = FALSE / StdoutFromZero = TRUE / ReleaseSkipsRemote = TRUE    *)
(* are mutation constants used to show what each mechanism is for.         *)
(***************************************************************************)
EXTENDS Naturals, FiniteSets, TLC

CONSTANTS MaxOut,            \* output chunks E's payload writes
          MaxFlaps,          \* link-down events
          MaxCrashes,        \* S-daemon crashes
          ClientOps,         \* subset of {"cancel", "release", "frelease"} a client of S may issue (each once)
          RestartIfIdKnown,  \* seeded: Restart resumes when only the remote id is on record
          RestartSkipsComplete, \* seeded (c04-complete-remote-not-monitored-at-restart): Restart starts no monitor when the record is complete
          IdStoredLate,      \* seeded (c04-remote-id-stored-late): RemoteUnitID is written only together with RemoteStarted
          StdoutFromZero,    \* mutation: results are requested from 0 after a reconnect
          ReleaseSkipsRemote \* mutation: a release issued while the link is down skips the remote call

Final == {"S", "F", "C"}
Stage(s) == CASE s = "P" -> 0 [] s = "R" -> 1 [] OTHER -> 2
Complete(s) == s \in {"S", "F"}

VARIABLES
  link, flaps,
  \* ---- E
  est,       \* "none" | "P" | "R" | "S" | "F" | "C" | "gone" (released)
  eout,      \* chunks in E's stdout
  ecount,    \* units E created for this local unit
  ehist,     \* states E's unit has been in
  ecan,      \* E was asked to cancel
  stdinDone, \* E has the complete stdin (its unit may start)
  \* ---- S, on disk
  known,     \* the local unit exists (index + directory)
  rid, started, lcan, lrel, st, sz,
  lout,      \* chunks in the local stdout file (a number: appended chunks are E's chunks lout+1.. unless dup)
  dup,       \* ghost: the local stdout is NOT a prefix of E's (a chunk was appended twice)
  \* ---- S, volatile
  up, crashes,
  m,         \* the goroutine of the client-visible operation / background action
  mop,       \* which operation m carries: "submit" | "cancel" | "release" | "frelease" | "none"
  bg,        \* m runs in the background path (the client was answered "pending")
  sm, smfr,  \* status monitor: "off" | "connect" | "poll"; its forRelease flag
  om,        \* stdout monitor: "off" | "check" | "connect" | "req" | "copy"
  omconn,    \* the stdout monitor has (re)connected at least once before
  \* ---- client, ghosts
  ops,       \* client operations not yet issued
  ans,       \* [op -> "none" | "ok" | "pending" | "error"]
  gaveUp,    \* D1 happened
  reconn,    \* a monitor reconnected after an error
  retried,   \* a background connect attempt failed at least once
  relGone,   \* a release was sent when E no longer knew the unit
  bad        \* violated step properties

vars == <<link, flaps, est, eout, ecount, ehist, ecan, stdinDone, known, rid, started, lcan, lrel, st, sz, lout, dup,
          up, crashes, m, mop, bg, sm, smfr, om, omconn, ops, ans, gaveUp, reconn, retried, relGone, bad>>

evars == <<est, eout, ecount, ehist, ecan, stdinDone>>
disk  == <<known, rid, started, lcan, lrel, st, sz, lout, dup>>
mons  == <<sm, smfr, om, omconn>>
ghost == <<gaveUp, reconn, retried, relGone>>

Init ==
  /\ link = TRUE /\ flaps = 0
  /\ est = "none" /\ eout = 0 /\ ecount = 0 /\ ehist = {} /\ ecan = FALSE /\ stdinDone = FALSE
  /\ known = TRUE /\ rid = 0 /\ started = FALSE /\ lcan = FALSE /\ lrel = FALSE /\ st = "P" /\ sz = 0 /\ lout = 0 /\ dup = FALSE
  /\ up = TRUE /\ crashes = 0
  /\ m = "connect" /\ mop = "submit" /\ bg = FALSE
  /\ sm = "off" /\ smfr = FALSE /\ om = "off" /\ omconn = FALSE
  /\ ops = ClientOps /\ ans = [o \in {"submit", "cancel", "release", "frelease"} |-> "none"]
  /\ gaveUp = FALSE /\ reconn = FALSE /\ retried = FALSE /\ relGone = FALSE /\ bad = {}

\* every rewrite of the local state goes through here: C13 step properties on the local record
SetSt(new, newsz) ==
  /\ st' = new /\ sz' = newsz
  /\ bad' = bad \cup (IF Stage(new) < Stage(st) THEN {"StageMonotone"} ELSE {})
                \cup (IF st = "S" /\ (new # "S" \/ newsz # sz) THEN {"SucceededIsFinal"} ELSE {})
                \cup (IF newsz < sz THEN {"SizeMonotone"} ELSE {})
                \cup (IF new \in {"R", "S", "C"} /\ new \notin ehist THEN {"Contradicts"} ELSE {})

\* ---------------------------------------------------------------- environment
LinkDown == /\ link /\ flaps < MaxFlaps /\ link' = FALSE /\ flaps' = flaps + 1
            /\ UNCHANGED <<evars, disk, up, crashes, m, mop, bg, mons, ops, ans, ghost, bad>>
LinkUp   == /\ ~link /\ link' = TRUE
            /\ UNCHANGED <<flaps, evars, disk, up, crashes, m, mop, bg, mons, ops, ans, ghost, bad>>

CrashS == /\ up /\ crashes < MaxCrashes
          /\ up' = FALSE /\ crashes' = crashes + 1
          /\ m' = "idle" /\ mop' = "none" /\ bg' = FALSE /\ sm' = "off" /\ smfr' = FALSE /\ om' = "off" /\ omconn' = FALSE
          /\ UNCHANGED <<link, flaps, evars, disk, ops, ans, ghost, bad>>

\* scanForUnit -> remoteUnit.Restart -> startOrRestart(false)
RestartS ==
  /\ ~up /\ up' = TRUE
  /\ IF ~known THEN UNCHANGED <<st, sz, bad, m, mop, sm, smfr, om>>
     ELSE IF started THEN
            IF lrel \/ lcan
              THEN /\ m' = "connect" /\ mop' = (IF lrel THEN "release" ELSE "cancel")
                   /\ UNCHANGED <<st, sz, bad, sm, smfr, om>>
              ELSE IF RestartSkipsComplete /\ Complete(st)
                     THEN UNCHANGED <<st, sz, bad, m, mop, sm, smfr, om>>
                     ELSE /\ sm' = "connect" /\ smfr' = FALSE /\ om' = "check" /\ UNCHANGED <<st, sz, bad, m, mop>>
     ELSE IF RestartIfIdKnown /\ rid # 0
            THEN m' = "connect" /\ mop' = "submit" /\ UNCHANGED <<st, sz, bad, sm, smfr, om>>
            ELSE SetSt("F", sz) /\ UNCHANGED <<m, mop, sm, smfr, om>>     \* "remote work had not previously started"
  /\ UNCHANGED <<link, flaps, evars, known, rid, started, lcan, lrel, lout, dup, crashes, bg, omconn, ops, ans, ghost>>

\* ---------------------------------------------------------------- E: an ordinary command unit
EStart  == /\ est = "P" /\ stdinDone /\ est' = "R" /\ ehist' = ehist \cup {"R"}
           /\ UNCHANGED <<link, flaps, eout, ecount, ecan, stdinDone, disk, up, crashes, m, mop, bg, mons, ops, ans, ghost, bad>>
EWrite  == /\ est = "R" /\ eout < MaxOut /\ eout' = eout + 1
           /\ UNCHANGED <<link, flaps, est, ecount, ehist, ecan, stdinDone, disk, up, crashes, m, mop, bg, mons, ops, ans, ghost, bad>>
EFinish == /\ est = "R" /\ \E r \in {"S", "F"} : est' = r /\ ehist' = ehist \cup {r}
           /\ UNCHANGED <<link, flaps, eout, ecount, ecan, stdinDone, disk, up, crashes, m, mop, bg, mons, ops, ans, ghost, bad>>
ECancel == /\ ecan /\ est \in {"P", "R", "F"} /\ est' = "C" /\ ehist' = ehist \cup {"C"}    \* (a unit that succeeded stays succeeded)
           /\ UNCHANGED <<link, flaps, eout, ecount, ecan, stdinDone, disk, up, crashes, m, mop, bg, mons, ops, ans, ghost, bad>>

\* ---------------------------------------------------------------- the goroutine m: connect, then ONE request
\* connectAndRun (synchronous, once); on a connection error: answer "pending", getConnection retries for ever
MConnect ==
  /\ up /\ known /\ m = "connect"
  /\ CASE link -> m' = "send" /\ UNCHANGED <<bg, ans, retried>>
       [] ~link /\ mop = "frelease" -> m' = "frel_local" /\ UNCHANGED <<bg, ans, retried>>   \* single attempt, error only logged
       [] ~link /\ mop # "frelease" /\ bg -> retried' = TRUE /\ UNCHANGED <<m, bg, ans>>     \* getConnection: retry for ever
       [] OTHER -> bg' = TRUE /\ ans' = [ans EXCEPT ![mop] = "pending"] /\ UNCHANGED <<m, retried>>
  /\ UNCHANGED <<link, flaps, evars, disk, up, crashes, mop, mons, ops, gaveUp, reconn, relGone, bad>>

\* the one request failed after the connection had been made (D1): background -> nobody retries;
\* synchronous -> the client gets the error (submit: controlsvc marks the unit Failed)
MFail ==
  /\ gaveUp' = (gaveUp \/ bg)
  /\ ans' = [ans EXCEPT ![mop] = IF bg THEN @ ELSE "error"]
  /\ m' = "idle" /\ mop' = "none" /\ bg' = FALSE

\* "work submit": E creates the unit and answers its id
SubmitSend ==
  /\ up /\ known /\ m = "send" /\ mop = "submit"
  /\ IF link THEN /\ ecount' = ecount + 1 /\ est' = "P" /\ ehist' = ehist \cup {"P"} /\ eout' = 0 /\ stdinDone' = FALSE /\ ecan' = FALSE
                  /\ m' = "store_id" /\ UNCHANGED <<mop, bg, ans, gaveUp, st, sz, bad>>
     ELSE /\ MFail /\ UNCHANGED evars
          /\ IF bg THEN UNCHANGED <<st, sz, bad>> ELSE SetSt("F", sz)      \* "Error starting worker"
  /\ UNCHANGED <<link, flaps, known, rid, started, lcan, lrel, lout, dup, up, crashes, mons, ops, reconn, retried, relGone>>

\* rewrite #1, right after E's answer and BEFORE the stdin is shipped: from here on the local unit is bound to E's unit
StoreId ==
  /\ up /\ known /\ m = "store_id" /\ rid' = (IF IdStoredLate THEN rid ELSE ecount) /\ m' = "ship"
  /\ UNCHANGED <<link, flaps, evars, known, started, lcan, lrel, st, sz, lout, dup, up, crashes, mop, bg, mons, ops, ans, ghost, bad>>

ShipStdin ==
  /\ up /\ known /\ m = "ship"
  /\ IF link /\ est # "gone" THEN stdinDone' = TRUE /\ m' = "store_started" /\ UNCHANGED <<mop, bg, ans, gaveUp, st, sz, bad>>
     ELSE /\ MFail /\ UNCHANGED stdinDone
          /\ IF bg THEN UNCHANGED <<st, sz, bad>> ELSE SetSt("F", sz)
  /\ UNCHANGED <<link, flaps, est, eout, ecount, ehist, ecan, known, rid, started, lcan, lrel, lout, dup, up, crashes, mons, ops, reconn, retried, relGone>>

StoreStarted ==
  /\ up /\ known /\ m = "store_started"
  /\ started' = TRUE /\ ans' = [ans EXCEPT !["submit"] = IF bg THEN @ ELSE "ok"]
  /\ rid' = (IF IdStoredLate THEN ecount ELSE rid)
  /\ m' = "idle" /\ mop' = "none" /\ bg' = FALSE
  /\ sm' = "connect" /\ smfr' = FALSE /\ om' = "check"
  /\ UNCHANGED <<link, flaps, evars, known, lcan, lrel, st, sz, lout, dup, up, crashes, omconn, ops, ghost, bad>>

\* "work cancel <id>" / "work release <id>" at E
CancelSend ==
  /\ up /\ known /\ m = "send" /\ mop \in {"cancel", "release", "frelease"}
  /\ LET rel == mop # "cancel" IN
     IF ~link THEN
          /\ UNCHANGED <<evars, relGone>>
          /\ IF mop = "frelease" THEN m' = "frel_local" /\ UNCHANGED <<mop, bg, ans, gaveUp>> ELSE MFail
          /\ UNCHANGED <<sm, smfr, om>>                                   \* D2: the monitors were stopped and stay so
     ELSE IF est \in {"none", "gone"} THEN                                \* "ERROR: unknown work unit"
          /\ relGone' = (relGone \/ rel) /\ UNCHANGED evars
          /\ IF mop = "frelease" THEN m' = "frel_local" /\ UNCHANGED <<mop, bg, ans, gaveUp>> ELSE MFail    \* D3
          /\ UNCHANGED <<sm, smfr, om>>
     ELSE /\ IF rel THEN est' = "gone" /\ UNCHANGED <<ecan, ehist>>
                    ELSE ecan' = TRUE /\ UNCHANGED <<est, ehist>>
          /\ UNCHANGED <<eout, ecount, stdinDone, relGone, gaveUp>>
          /\ IF mop = "frelease" THEN m' = "frel_local" /\ UNCHANGED <<mop, bg, ans, sm, smfr, om>>
             ELSE /\ ans' = [ans EXCEPT ![mop] = IF bg THEN @ ELSE "ok"]            \* D4 for release
                  /\ m' = "idle" /\ mop' = "none" /\ bg' = FALSE
                  \* monitorRemoteUnit(forRelease): release, or a cancel resumed at restart (D5), watch the status only
                  /\ sm' = "connect" /\ smfr' = (rel \/ crashes > 0)
                  /\ om' = IF rel \/ crashes > 0 THEN "off" ELSE "check"
  /\ UNCHANGED <<link, flaps, disk, up, crashes, omconn, ops, reconn, retried, bad>>

\* BaseWorkUnit.Release: the local unit and its files go
LocalRemove == known' = FALSE /\ lout' = 0 /\ UNCHANGED <<rid, started, lcan, lrel, st, sz, dup>>

ForceReleaseLocal ==
  /\ up /\ known /\ m = "frel_local"
  /\ LocalRemove /\ ans' = [ans EXCEPT ![mop] = "ok"]
  /\ m' = "idle" /\ mop' = "none" /\ bg' = FALSE /\ sm' = "off" /\ om' = "off"
  /\ UNCHANGED <<link, flaps, evars, up, crashes, smfr, omconn, ops, ghost, bad>>

\* ---------------------------------------------------------------- client operations at S
ClientCancel ==
  /\ up /\ known /\ m = "idle" /\ "cancel" \in ops /\ ops' = ops \ {"cancel"}
  /\ lcan' = TRUE
  /\ IF ~started
       THEN /\ SetSt("F", 0) /\ ans' = [ans EXCEPT !["cancel"] = "ok"]       \* "Locally Cancelled"
            /\ UNCHANGED <<m, mop, sm, om>>
       ELSE /\ m' = "connect" /\ mop' = "cancel" /\ sm' = "off" /\ om' = "off"  \* topJC.NewJob stops the monitors
            /\ UNCHANGED <<st, sz, bad, ans>>
  /\ UNCHANGED <<link, flaps, evars, known, rid, started, lrel, lout, dup, up, crashes, bg, smfr, omconn, ghost>>

ClientRelease(force) ==
  /\ up /\ known /\ m = "idle"
  /\ LET o == IF force THEN "frelease" ELSE "release" IN
     /\ o \in ops /\ ops' = ops \ {o}
     /\ lcan' = TRUE /\ lrel' = TRUE
     /\ IF ~started
          THEN /\ known' = FALSE /\ lout' = 0 /\ ans' = [ans EXCEPT ![o] = "ok"]   \* Release(true)
               /\ UNCHANGED <<m, mop, sm, om>>
          ELSE /\ IF ReleaseSkipsRemote /\ ~link /\ ~force
                    THEN m' = "frel_local" /\ mop' = o
                    ELSE m' = "connect" /\ mop' = o
               /\ sm' = "off" /\ om' = "off" /\ UNCHANGED <<known, lout, ans>>
  /\ UNCHANGED <<link, flaps, evars, rid, started, st, sz, dup, up, crashes, bg, smfr, omconn, ghost, bad>>

\* ---------------------------------------------------------------- monitorRemoteStatus
SMConnect == /\ up /\ known /\ sm = "connect" /\ link /\ sm' = "poll"
             /\ UNCHANGED <<link, flaps, evars, disk, up, crashes, m, mop, bg, smfr, om, omconn, ops, ans, ghost, bad>>

SMPoll ==
  /\ up /\ known /\ sm = "poll"
  /\ IF ~link THEN /\ sm' = "connect" /\ reconn' = TRUE
                   /\ UNCHANGED <<known, lout, st, sz, bad, om, smfr>>
     ELSE IF est \in {"none", "gone"} THEN                                  \* "unknown work unit"
          /\ sm' = "off" /\ om' = "off" /\ UNCHANGED <<reconn, smfr>>
          /\ IF smfr THEN known' = FALSE /\ lout' = 0 /\ UNCHANGED <<st, sz, bad>>   \* then BaseWorkUnit.Release(false)
                     ELSE SetSt("F", sz) /\ UNCHANGED <<known, lout>>        \* "Remote work unit is gone"
     ELSE /\ SetSt(IF est = "C" /\ st = "S" THEN "S" ELSE est, eout)         \* UpdateBasicStatus(si.State, si.Detail, si.StdoutSize)
          /\ UNCHANGED <<sm, om, reconn, smfr, known, lout>>
  /\ UNCHANGED <<link, flaps, evars, rid, started, lcan, lrel, dup, up, crashes, m, mop, bg, omconn, ops, ans, gaveUp, retried, relGone>>

\* ---------------------------------------------------------------- monitorRemoteStdout
OMCheck ==
  /\ up /\ known /\ om = "check"
  /\ IF Complete(st) /\ lout >= sz THEN om' = "off" /\ sm' = "off"           \* done: mw.Cancel() stops the status monitor too
     ELSE IF lout < sz THEN om' = "connect" /\ UNCHANGED sm
     ELSE UNCHANGED <<om, sm>>
  /\ UNCHANGED <<link, flaps, evars, disk, up, crashes, m, mop, bg, smfr, omconn, ops, ans, ghost, bad>>

OMConnect == /\ up /\ known /\ om = "connect" /\ link /\ om' = "req"
             /\ reconn' = (reconn \/ omconn) /\ omconn' = TRUE
             /\ UNCHANGED <<link, flaps, evars, disk, up, crashes, m, mop, bg, sm, smfr, ops, ans, gaveUp, retried, relGone, bad>>

\* "work results <id> <startpos>" + the copy of what E streams (E ends the stream when the unit is complete)
OMCopy ==
  /\ up /\ known /\ om = "req"
  /\ IF ~link \/ est \in {"none", "gone"} THEN om' = "check" /\ UNCHANGED <<lout, dup>>
     ELSE LET from == IF StdoutFromZero /\ omconn /\ reconn THEN 0 ELSE lout IN
          /\ lout' = lout + (eout - from)
          /\ dup' = (dup \/ from < lout)
          /\ om' = "check"
  /\ UNCHANGED <<link, flaps, evars, known, rid, started, lcan, lrel, st, sz, up, crashes, m, mop, bg, sm, smfr, omconn, ops, ans, ghost, bad>>

Next ==
  \/ LinkDown \/ LinkUp \/ CrashS \/ RestartS
  \/ EStart \/ EWrite \/ EFinish \/ ECancel
  \/ MConnect \/ SubmitSend \/ StoreId \/ ShipStdin \/ StoreStarted \/ CancelSend \/ ForceReleaseLocal
  \/ ClientCancel \/ ClientRelease(FALSE) \/ ClientRelease(TRUE)
  \/ SMConnect \/ SMPoll \/ OMCheck \/ OMConnect \/ OMCopy

Spec == Init /\ [][Next]_vars

\* ---------------------------------------------------------------- safety
\* C13: the local state only moves forward, a succeeded unit stays succeeded, sizes do not shrink, and S never reports
\* a state (running/succeeded/cancelled) E's unit has not been in
ForwardOnly      == "StageMonotone" \notin bad /\ "SucceededIsFinal" \notin bad /\ "SizeMonotone" \notin bad
NeverContradictsE == "Contradicts" \notin bad
\* C05: the local stdout is a prefix of E's
LocalOutputIsPrefix == ~dup /\ (known => lout <= eout)
\* C04: the work is handed to E at most once per local unit; the binding never changes
SubmittedOnce  == ecount <= 1
\* C04: once E holds the complete stdin (its unit will run), S's record names that unit - whatever happens to S afterwards
BoundOnceShipped == stdinDone => rid = ecount
\* C04/C05: whenever S runs and the local output is shorter than the recorded size of a unit E still has, the stdout monitor is
\* at work - in particular after a restart that finds "status final, output short" (the status was mirrored, the copy was not done)
MirrorNeverAbandoned ==
  (up /\ known /\ started /\ ~lcan /\ ~lrel /\ m = "idle" /\ lout < sz /\ est \notin {"none", "gone"} /\ ~gaveUp) => om # "off"
\* C04: after a restart a unit whose submission had not completed is Failed, not Pending
NeverStartedIsFailed == (up /\ crashes > 0 /\ known /\ ~started /\ m = "idle") => st = "F"
\* C04/C13: a cancel accepted at S is on disk (LocalCancelled) before anything else happens, so a restart re-issues it
CancelSurvivesRestart == (up /\ crashes > 0 /\ known /\ started /\ lcan /\ ~lrel /\ ~ecan /\ est \notin {"none", "gone"})
                            => (m \in {"connect", "send"} /\ mop = "cancel") \/ gaveUp \/ ans["cancel"] = "error"
\* C13: a non-forced release that was answered "released" and whose local removal is done: neither side knows the unit
\* (D6: a unit whose submission did not complete is released locally only; if S died between E's answer and the rewrite of
\* RemoteUnitID, E keeps a unit nobody at S knows the id of)
ReleaseRemovesBoth == (ans["release"] = "ok" /\ ~known /\ started) => (est \in {"none", "gone"} /\ lout = 0)
\* C13: a forced release that was answered: S does not know the unit any more
ForcedReleaseRemovesLocal == ans["frelease"] = "ok" => (~known /\ lout = 0)
\* ---------------------------------------------------------------- liveness (RemoteUnit_live.cfg: fairness, link eventually stays up)
Quiet == flaps = MaxFlaps /\ link /\ crashes = MaxCrashes /\ up
Fair == /\ WF_vars(LinkUp) /\ WF_vars(RestartS)
        /\ WF_vars(EStart) /\ WF_vars(EWrite \/ EFinish) /\ WF_vars(ECancel)
        /\ WF_vars(MConnect) /\ WF_vars(SubmitSend) /\ WF_vars(StoreId) /\ WF_vars(ShipStdin) /\ WF_vars(StoreStarted)
        /\ WF_vars(CancelSend) /\ WF_vars(ForceReleaseLocal)
        /\ WF_vars(SMConnect) /\ WF_vars(SMPoll) /\ WF_vars(OMCheck) /\ WF_vars(OMConnect) /\ WF_vars(OMCopy)
LiveSpec == Spec /\ Fair
\* when the link stays up the mirror catches up: complete state and the whole output (unless the code gave up, D1/D2/D5,
\* the unit was cancelled/released locally, or E's unit is gone)
OutputEventuallyComplete ==
  (Quiet /\ known /\ started /\ ~lcan /\ ~gaveUp) ~> (~known \/ lcan \/ (Complete(st) /\ lout = eout) \/ est \in {"none", "gone"})
\* a cancel issued at S reaches E when the link stays up - unless the single request was lost (D1) or answered with an error
CancelEventuallyReachesE ==
  (Quiet /\ known /\ started /\ lcan /\ ~lrel) ~> (ecan \/ gaveUp \/ ans["cancel"] = "error" \/ ~known \/ lrel \/ est \in {"none", "gone"})

\* ---------------------------------------------------------------- witnesses (each must be violated)
W_NoReconnect       == ~(reconn /\ Complete(st) /\ lout = eout /\ eout = MaxOut)
W_NoCancelRetry     == ~(retried /\ ecan /\ st = "C")
W_NoReleaseWithEGone == ~relGone
W_NoGaveUp          == ~gaveUp
W_NoReleaseBoth     == ~(ans["release"] = "ok" /\ ~known /\ est = "gone")
W_NoCancelAfterRestart == ~(crashes > 0 /\ ecan /\ lcan)
W_NoQuietMirror == ~(Quiet /\ known /\ started /\ ~lcan /\ ~gaveUp /\ ~Complete(st))
W_NoQuietCancel == ~(Quiet /\ known /\ started /\ lcan /\ ~lrel /\ ~ecan)
=============================================================================
