----------------------------- MODULE RemoteUnit -----------------------------
(***************************************************************************)
(* C04, remote units: the submitting node's side of ONE remote work unit,  *)
(* at the grain of the status rewrites of pkg/workceptor/remote_work.go:   *)
(*   startRemoteUnit   send "work submit" to the executor -> the executor  *)
(*                     creates a unit and answers its id; rewrite #1       *)
(*                     stores RemoteUnitID; ship stdin; the executor       *)
(*                     confirms; rewrite #2 stores RemoteStarted = true    *)
(*   Restart           RemoteStarted -> resume monitoring (startOrRestart  *)
(*                     (false)); otherwise error -> scanForUnit marks the  *)
(*                     unit Failed ("remote work had not previously        *)
(*                     started")                                           *)
(*   startOrRestart    if start \/ ~RemoteStarted: submit (again)          *)
(* CrashSubmitter is enabled in every state.  The executor node is a       *)
(* counter of the units it was asked to create and a reachability flag.    *)
(* RestartIfIdKnown = TRUE is the seeded change c04-restart-resubmits-     *)
(* with-remote-id (Restart also resumes when only the id is on record).    *)
(***************************************************************************)
EXTENDS Naturals, TLC

CONSTANTS MaxCrashes, RestartIfIdKnown

VARIABLES up,        \* the submitting daemon runs
          loc,       \* its goroutine for this unit: idle, got_id, id_stored, shipped, monitoring, retrying
          rid,       \* RemoteUnitID on disk (0 = "")
          started,   \* RemoteStarted on disk
          state,     \* State on disk: "P", "R", "S", "F"
          pendingId, \* the id the executor answered, not yet stored
          units,     \* number of units the executor has created for this ONE submission
          reach,     \* the executor can be reached right now
          acked,     \* the local unit id was given to the client
          bound,     \* ghost: the first remote id ever stored (0 = none)
          crashes

vars == <<up, loc, rid, started, state, pendingId, units, reach, acked, bound, crashes>>

Init == up = TRUE /\ loc = "submit" /\ rid = 0 /\ started = FALSE /\ state = "P" /\ pendingId = 0 /\ units = 0
        /\ reach = TRUE /\ acked = TRUE /\ bound = 0 /\ crashes = 0

\* the environment: the executor node comes and goes
Flap == reach' = ~reach /\ UNCHANGED <<up, loc, rid, started, state, pendingId, units, acked, bound, crashes>>

\* "work submit" reaches the executor: it creates a unit and answers "Work unit created with ID ..."
SendSubmit == /\ up /\ loc = "submit" /\ reach
              /\ units' = units + 1 /\ pendingId' = units + 1 /\ loc' = "got_id"
              /\ UNCHANGED <<up, rid, started, state, reach, acked, bound, crashes>>

\* executor unreachable: getConnectionAndRun returns ErrPending and retries in the background
SubmitPending == /\ up /\ loc = "submit" /\ ~reach /\ loc' = "submit"
                 /\ UNCHANGED <<up, rid, started, state, pendingId, units, reach, acked, bound, crashes>>

\* rewrite #1: UpdateFullStatus(RemoteUnitID)
StoreId == /\ up /\ loc = "got_id"
           /\ rid' = pendingId /\ bound' = IF bound = 0 THEN pendingId ELSE bound
           /\ loc' = "id_stored"
           /\ UNCHANGED <<up, started, state, pendingId, units, reach, acked, crashes>>

\* io.Copy(conn, stdin); conn.Close(); the executor confirms
ShipStdin == /\ up /\ loc = "id_stored" /\ reach /\ loc' = "shipped"
             /\ UNCHANGED <<up, rid, started, state, pendingId, units, reach, acked, bound, crashes>>

\* rewrite #2: UpdateFullStatus(RemoteStarted = true); monitors start
StoreStarted == /\ up /\ loc = "shipped"
                /\ started' = TRUE /\ loc' = "monitoring"
                /\ UNCHANGED <<up, rid, state, pendingId, units, reach, acked, bound, crashes>>

\* the status mirror follows the executor's unit to its end
Mirror == /\ up /\ loc = "monitoring" /\ reach /\ state \in {"P", "R"}
          /\ state' = IF state = "P" THEN "R" ELSE "S"
          /\ UNCHANGED <<up, loc, rid, started, pendingId, units, reach, acked, bound, crashes>>

CrashSubmitter == /\ up /\ crashes < MaxCrashes
                  /\ up' = FALSE /\ loc' = "down" /\ pendingId' = 0 /\ crashes' = crashes + 1
                  /\ UNCHANGED <<rid, started, state, units, reach, acked, bound>>

\* scanForUnit -> remoteUnit.Restart
Restart == /\ ~up /\ up' = TRUE
           /\ IF started THEN loc' = "monitoring" /\ UNCHANGED state
              ELSE IF RestartIfIdKnown /\ rid # 0
                     THEN loc' = "submit" /\ UNCHANGED state        \* startOrRestart(false) with ~RemoteStarted: submits again
                     ELSE loc' = "failed" /\ state' = "F"           \* "remote work had not previously started"
           /\ UNCHANGED <<rid, started, pendingId, units, reach, acked, bound, crashes>>

Next == Flap \/ SendSubmit \/ SubmitPending \/ StoreId \/ ShipStdin \/ StoreStarted \/ Mirror \/ CrashSubmitter \/ Restart
Spec == Init /\ [][Next]_vars

\* ---- C04 for remote units
\* the unit stays bound to the remote unit whose id was first put on record
BindingStable == rid = 0 \/ rid = bound
\* the work is handed to the executor once per submission (no connection failures are modelled, only crashes)
NoResubmission == crashes > 0 => units <= 1 \/ bound = 0
SubmittedOnce == units <= 1
\* after a restart a unit whose submission had not completed is Failed, not left Pending
NeverStartedIsFailed == (up /\ crashes > 0 /\ ~started /\ loc \in {"failed", "submit"}) => state = "F"

W_NoStartedAfterCrash == ~(crashes > 0 /\ started /\ state = "S")
W_NoIdOnlyRecord == ~(~up /\ rid # 0 /\ ~started)
=============================================================================
