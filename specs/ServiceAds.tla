----------------------------- MODULE ServiceAds -----------------------------
(***************************************************************************)
(* C18 at mesh (design) level: service advertisements and withdrawals      *)
(* flooded over a small mesh, using AdsCore's per-node operators.          *)
(* Every node relays what changed its table to all neighbours except the   *)
(* one it came from; links are unordered bags per direction (as in         *)
(* Netceptor.tla: an over-approximation of goroutine-per-message flooding  *)
(* in front of an in-order link).  One owner opens and closes advertised   *)
(* listeners; its clock is strictly increasing.                            *)
(*                                                                         *)
(* Properties: NoResurrection (once a node has processed the withdrawal,   *)
(* the service is not listed again unless a newer advertisement arrives),  *)
(* NoOlderReplaces, FloodTerminates (the number of messages ever put on a  *)
(* link is bounded: nothing circulates on a cycle), StableImpliesExact     *)
(* (when nothing is in flight every node lists exactly the open services). *)
(* With Tombstones = FALSE (the code before the repair) TLC exhibits the   *)
(* resurrection and, on the triangle, the endless cancel storm.            *)
(***************************************************************************)
EXTENDS AdsCore

CONSTANTS Nodes, Links, Owner, Svcs, MaxOps, MaxSent

\* Links: set of two-element sets of nodes
Nbrs(n) == {m \in Nodes : {n, m} \in Links}
Pairs == {<<a, b>> : a \in Nodes, b \in Nodes}

VARIABLES st,     \* node -> AdsCore state
          net,    \* <<from, to>> -> set of messages in flight
          open,   \* services currently open at the owner (svc -> time of the last advertisement)
          clock,  \* the owner's clock
          ops,    \* open/close operations done
          sent,   \* total number of messages put on links (for FloodTerminates)
          wseen   \* history: node -> (<<owner, svc>> -> greatest withdrawal time processed there)
vars == <<st, net, open, clock, ops, sent, wseen>>

Init == /\ st = [n \in Nodes |-> NewAds]
        /\ net = [p \in Pairs |-> {}]
        /\ open = EmptyMap
        /\ clock = 1
        /\ ops = 0
        /\ sent = 0
        /\ wseen = [n \in Nodes |-> EmptyMap]

Flood(n, m, except) ==
  [p \in Pairs |-> IF p[1] = n /\ p[2] \in Nbrs(n) \ {except} THEN net[p] \cup {m} ELSE net[p]]

FanOut(n, except) == Cardinality(Nbrs(n) \ {except})

\* the owner opens an advertised listener and advertises it (AddLocalServiceAdvertisement + sendServiceAd)
Open(s) ==
  /\ ops < MaxOps /\ s \notin DOMAIN open
  /\ LET m == Msg(Owner, s, clock, FALSE, 1, "t") IN
     /\ st' = [st EXCEPT ![Owner] = LocalOpen(@, Owner, s, clock, 1, "t")]
     /\ net' = Flood(Owner, m, "")
     /\ sent' = sent + FanOut(Owner, "")
  /\ open' = MPut(open, s, clock)
  /\ clock' = clock + 1 /\ ops' = ops + 1
  /\ UNCHANGED wseen

\* the periodic re-advertisement of an open listener (new time stamp)
Readvertise(s) ==
  /\ ops < MaxOps /\ s \in DOMAIN open
  /\ LET m == Msg(Owner, s, clock, FALSE, 1, "t") IN
     /\ st' = [st EXCEPT ![Owner] = LocalOpen(@, Owner, s, clock, 1, "t")]
     /\ net' = Flood(Owner, m, "")
     /\ sent' = sent + FanOut(Owner, "")
  /\ open' = MPut(open, s, clock)
  /\ clock' = clock + 1 /\ ops' = ops + 1
  /\ UNCHANGED wseen

\* the owner closes it and floods the withdrawal (RemoveLocalServiceAdvertisement)
Close(s) ==
  /\ ops < MaxOps /\ s \in DOMAIN open
  /\ LET m == Msg(Owner, s, clock, TRUE, 0, "") IN
     /\ st' = [st EXCEPT ![Owner] = LocalClose(@, Owner, s, clock)]
     /\ net' = Flood(Owner, m, "")
     /\ sent' = sent + FanOut(Owner, "")
  /\ open' = MDel(open, s)
  /\ wseen' = [wseen EXCEPT ![Owner] = MPut(@, <<Owner, s>>, clock)]
  /\ clock' = clock + 1 /\ ops' = ops + 1

\* a node handles one message from a neighbour (handleServiceAdvertisement)
Deliver(a, b, m) ==
  /\ m \in net[<<a, b>>]
  /\ sent <= MaxSent
  /\ LET r == RecvAd(st[b], m)
         k == <<m.owner, m.svc>>
         net1 == [net EXCEPT ![<<a, b>>] = @ \ {m}]
     IN /\ st' = [st EXCEPT ![b] = r.st]
        /\ net' = IF r.relay
                  THEN [p \in Pairs |-> IF p[1] = b /\ p[2] \in Nbrs(b) \ {a} THEN net1[p] \cup {m} ELSE net1[p]]
                  ELSE net1
        /\ sent' = sent + (IF r.relay THEN FanOut(b, a) ELSE 0)
        /\ wseen' = IF m.cancel /\ r.class \in {"deleted", "cancel_unknown"}
                    THEN [wseen EXCEPT ![b] = MPut(@, k, m.time)] ELSE wseen
  /\ UNCHANGED <<open, clock, ops>>

Next == \/ \E s \in Svcs : Open(s) \/ Readvertise(s) \/ Close(s)
        \/ \E p \in Pairs : \E m \in net[p] : Deliver(p[1], p[2], m)
Spec == Init /\ [][Next]_vars

Quiet == \A p \in Pairs : net[p] = {}

NoResurrection ==
  \A n \in Nodes : \A k \in DOMAIN st[n].ads : k \in DOMAIN wseen[n] => st[n].ads[k].time > wseen[n][k]

NoOlderReplaces ==
  [][ \A n \in Nodes : \A k \in DOMAIN st[n].ads : k \in DOMAIN st'[n].ads => st'[n].ads[k].time >= st[n].ads[k].time ]_vars

\* each operation is relayed at most once per node: nothing circulates
FloodTerminates == sent <= MaxOps * Cardinality(Nodes) * Cardinality(Nodes)

StableImpliesExact ==
  Quiet => \A n \in Nodes : /\ {k[2] : k \in {x \in DOMAIN st[n].ads : x[1] = Owner}} = DOMAIN open
                            /\ \A s \in DOMAIN open : st[n].ads[<<Owner, s>>].time = open[s]

W_NotQuietAfterClose == ~(Quiet /\ ops = MaxOps /\ \E n \in Nodes : \E k \in DOMAIN wseen[n] : TRUE)
=============================================================================
