SPECIFICATION Spec
CONSTANTS
  Ctl = {1}
  MaxReloads = 2
  MaxEdits = 2
  MaxSess = 4
  MaxFail = 1
  EditNames = {"start", "drop_D", "cost_D", "add_E", "drop_L", "mod_B", "rm_A", "add_item", "mod_B_drop_D", "unparsable", "unreadable", "badcost", "failstart"}
  KF_StaleFlags = TRUE
  KF_NoReloadMutex = FALSE
  DumpFile = ""
  KF_PortFreedAfterDone = FALSE
  KF_MidEstablishLeak = FALSE
INVARIANTS
  AcceptOnlyBackendChanges
