-------------------------------- MODULE Wire --------------------------------
(***************************************************************************)
(* C07 - what a node does with each CLASS of backend message, in either    *)
(* protocol phase (runProtocol, pkg/netceptor/netceptor.go 1907-2085).     *)
(* The byte space is infinite; this spec partitions it into classes by     *)
(* (type byte) x (body shape / per-field JSON type substitution) and says, *)
(* per class and phase, how the session continues.  TLC enumerates every   *)
(* sequence of up to MaxLen classes on one session and exports them with   *)
(* the expected final phase; cmd/vh wire concretises each class into bytes *)
(* (several instances) and plays the sequences against a real node running *)
(* in a child process over TCP, UDP, websocket and an embedded backend.    *)
(* The property: no sequence reaches "crashed", and the node keeps serving *)
(* its other peers.                                                        *)
(***************************************************************************)
EXTENDS Naturals, Sequences, FiniteSets, TLC, Json, SequencesExt

CONSTANTS MaxLen, DumpFile

JsonTypes == {"string", "number", "float", "negative", "huge", "bool", "null", "array", "object"}
RUFields == {"NodeID", "UpdateID", "UpdateEpoch", "UpdateSequence", "Connections", "ForwardingNode", "SuspectedDuplicate"}
AdFields == {"NodeID", "Service", "Time", "ConnType", "Tags", "WorkCommands", "Cancel"}

\* does a routing update whose field f is replaced by a JSON value of type t still unmarshal?
RUFieldOK(f, t) ==
  \/ t = "null"
  \/ f \in {"NodeID", "UpdateID", "ForwardingNode"} /\ t = "string"
  \/ f \in {"UpdateEpoch", "UpdateSequence", "SuspectedDuplicate"} /\ t = "number"
  \/ f = "Connections" /\ t = "object"

\* a class: name, type byte class, whether the body decodes, and (for decodable routing updates) the
\* attributes the protocol looks at.  me = the id the peer uses; victim = the node under test.
Cls(name, t, ok, fwd, origin, lists) ==
  [name |-> name, t |-> t, ok |-> ok, fwd |-> fwd, origin |-> origin, lists |-> lists]

Classes ==
     { Cls("empty", "empty", FALSE, "na", "na", "na"),
       Cls("data_1byte", "data", FALSE, "na", "na", "na"),
       Cls("data_short", "data", FALSE, "na", "na", "na"),
       Cls("data_35", "data", FALSE, "na", "na", "na"),
       Cls("data_truncated_known_hashes", "data", FALSE, "na", "na", "na"),
       Cls("data_header_only_known_hashes", "data", TRUE, "na", "na", "na"),
       Cls("data_unknown_hashes", "data", FALSE, "na", "na", "na"),
       Cls("data_ping_valid", "data", TRUE, "na", "na", "na"),
       Cls("data_ping_from_own_ping", "data", TRUE, "na", "na", "na"),
       Cls("data_ping_from_own_unreach", "data", TRUE, "na", "na", "na"),
       Cls("data_to_unreach_garbage", "data", TRUE, "na", "na", "na"),
       Cls("data_to_unreach_wrongtypes", "data", TRUE, "na", "na", "na"),
       Cls("data_to_unreach_valid", "data", TRUE, "na", "na", "na"),
       Cls("data_to_unreach_for_live_socket", "data", TRUE, "na", "na", "na"),
       Cls("data_to_unreach_null", "data", TRUE, "na", "na", "na"),
       Cls("data_to_unreach_array", "data", TRUE, "na", "na", "na"),
       Cls("data_to_unreach_emptyobj", "data", TRUE, "na", "na", "na"),
       Cls("data_to_unreach_string", "data", TRUE, "na", "na", "na"),
       Cls("data_to_unreach_number", "data", TRUE, "na", "na", "na"),
       Cls("data_to_unreach_bool", "data", TRUE, "na", "na", "na"),
       Cls("data_to_unreach_deep", "data", TRUE, "na", "na", "na"),
       Cls("data_to_unreach_empty", "data", TRUE, "na", "na", "na"),
       Cls("data_to_ping_payload", "data", TRUE, "na", "na", "na"),
       Cls("data_from_unreach_to_unbound", "data", TRUE, "na", "na", "na"),
       Cls("data_to_unbound", "data", TRUE, "na", "na", "na"),
       Cls("data_empty_service", "data", TRUE, "na", "na", "na"),
       Cls("data_ttl0_elsewhere", "data", TRUE, "na", "na", "na"),
       Cls("data_max", "data", TRUE, "na", "na", "na"),
       Cls("route_notjson", "route", FALSE, "na", "na", "na"),
       Cls("route_null", "route", TRUE, "empty", "empty", "na"),
       Cls("route_array", "route", FALSE, "na", "na", "na"),
       Cls("route_emptyobj", "route", TRUE, "empty", "empty", "na"),
       Cls("route_string", "route", FALSE, "na", "na", "na"),
       Cls("route_number", "route", FALSE, "na", "na", "na"),
       Cls("route_deep", "route", FALSE, "na", "na", "na"),
       Cls("route_big", "route", TRUE, "me", "other", "na"),
       Cls("route_trailing_garbage", "route", FALSE, "na", "na", "na"),
       Cls("route_init", "route", TRUE, "me", "me", "no"),
       Cls("route_lists", "route", TRUE, "me", "me", "yes"),
       Cls("route_wrongcost", "route", TRUE, "me", "me", "wrongcost"),
       Cls("route_other_origin", "route", TRUE, "me", "other", "na"),
       Cls("route_victim_origin", "route", TRUE, "me", "victim", "na"),
       Cls("route_victim_fwd", "route", TRUE, "victim", "me", "na"),
       Cls("route_other_fwd", "route", TRUE, "other", "me", "yes"),
       \* the session claims to be the node's OTHER, well-behaved peer (complete impersonation), or lies about that
       \* peer's adjacency: refused as already connected / relayed like any third-party update, and the well-behaved
       \* peer's own session is not touched
       \* absurd link costs: a negative self-loop / negative cycle (the shortest-path computation must still end), zero
       \* and overflowing costs (1e999 does not decode)
       Cls("route_negative_selfloop", "route", TRUE, "me", "me", "yes"),
       Cls("route_negative_edge", "route", TRUE, "me", "me", "yes"),
       Cls("route_zero_costs", "route", TRUE, "me", "me", "yes"),
       Cls("route_huge_costs", "route", FALSE, "na", "na", "na"),
       Cls("route_good_fwd", "route", TRUE, "good", "good", "yes"),
       Cls("route_good_fwd_me", "route", TRUE, "good", "me", "yes"),
       Cls("route_good_origin", "route", TRUE, "me", "good", "no"),
       Cls("ad_notjson", "ad", FALSE, "na", "na", "na"),
       Cls("ad_null", "ad", TRUE, "na", "na", "na"),
       Cls("ad_emptyobj", "ad", TRUE, "na", "na", "na"),
       Cls("ad_array", "ad", FALSE, "na", "na", "na"),
       Cls("ad_valid", "ad", TRUE, "na", "na", "na"),
       Cls("ad_cancel_unknown", "ad", TRUE, "na", "na", "na"),
       Cls("ad_1byte", "ad", FALSE, "na", "na", "na"),
       Cls("reject_bare", "reject", TRUE, "na", "na", "na"),
       Cls("reject_body", "reject", TRUE, "na", "na", "na"),
       Cls("unknown_7e", "other", FALSE, "na", "na", "na"),
       Cls("unknown_ff", "other", FALSE, "na", "na", "na") }
  \cup { Cls("ru_" \o f \o "_" \o t, "route", RUFieldOK(f, t),
             IF ~RUFieldOK(f, t) THEN "na" ELSE IF f = "ForwardingNode" THEN (IF t = "null" THEN "empty" ELSE "other") ELSE "me",
             IF ~RUFieldOK(f, t) THEN "na" ELSE IF f = "NodeID" THEN (IF t = "null" THEN "empty" ELSE "other") ELSE "me",
             IF ~RUFieldOK(f, t) THEN "na" ELSE IF f = "Connections" THEN "no" ELSE "yes") : f \in RUFields, t \in JsonTypes }
  \cup { Cls("ad_" \o f \o "_" \o t, "ad", FALSE, "na", "na", "na") : f \in AdFields, t \in JsonTypes }

\* session state: phase pre | est | closed | crashed ; peer: id the session is registered under; listed
St(phase, peer, listed) == [phase |-> phase, peer |-> peer, listed |-> listed]
S0 == St("pre", "", FALSE)

Effect(s, c) ==
  IF s.phase \in {"closed", "crashed"} THEN s
  ELSE IF c.t = "reject" THEN St("closed", s.peer, s.listed)
  ELSE IF c.t # "route" \/ ~c.ok THEN s                       \* logged and ignored (incl. zero-length after the repair)
  ELSE IF s.phase = "pre" THEN
         IF c.fwd \in {"me", "other"} THEN St("est", c.fwd, FALSE)   \* admitted under the announced id
         ELSE St("closed", "", FALSE)                               \* empty id, the node's own id, or an id already connected
  ELSE \* established
       IF c.fwd # s.peer THEN St("closed", s.peer, s.listed)
       ELSE IF c.origin # s.peer THEN s
       ELSE IF c.lists = "yes" THEN St("est", s.peer, TRUE)
       ELSE IF c.lists = "wrongcost" THEN St("closed", s.peer, TRUE)
       ELSE IF s.listed THEN St("closed", s.peer, s.listed) ELSE s   \* dropped us / late initialisation

RECURSIVE Run(_, _)
Run(s, cs) == IF cs = <<>> THEN s ELSE Run(Effect(s, Head(cs)), Tail(cs))

\* sequences: optionally start established (a proper handshake first), then up to MaxLen classes
Starts == {"pre", "est"}
SeqsUpTo(n) == UNION { [1..k -> Classes] : k \in 1..n }

Vec(start, cs) ==
  LET s0 == IF start = "est" THEN St("est", "me", TRUE) ELSE S0
      f  == Run(s0, cs)
  IN [start |-> start, classes |-> [i \in 1..Len(cs) |-> cs[i].name], final |-> f.phase]

AllVectors == { Vec(st, cs) : st \in Starts, cs \in SeqsUpTo(MaxLen) }

ASSUME DumpFile = "" \/ ndJsonSerialize(DumpFile, SetToSeq(AllVectors))

VARIABLE vec
Init == vec \in AllVectors
Next == UNCHANGED vec
Spec == Init /\ [][Next]_vec

NeverCrashes == vec.final # "crashed"
W_NoClosed == vec.final # "closed"
W_NoEst == ~(vec.start = "pre" /\ vec.final = "est")
=============================================================================
