------------------------------ MODULE NetCore ------------------------------
(***************************************************************************)
(* The routing-protocol state machine of ONE Netceptor node, written as    *)
(* pure operators over a node-state record so that the same definitions    *)
(* are used by                                                             *)
(*   - NetLocal.tla   (one node, adversarial scripted neighbours; C06/C11) *)
(*   - Netceptor.tla  (N nodes, links, flooding; C01/C06/C11 design level) *)
(*   - NodeTrace.tla  (validation of hook traces recorded from real nodes) *)
(*                                                                         *)
(* Code: pkg/netceptor/netceptor.go -- runProtocol (session checks,        *)
(* establishment, removeConnection), handleRoutingUpdate, makeRoutingUpdate*)
(* updateRoutingTable.  Each operator below corresponds to one critical    *)
(* section of that code; comments give the line ranges of the pinned tree. *)
(***************************************************************************)
EXTENDS Naturals, Sequences, FiniteSets, TLC

\* ---------------------------------------------------------------- finite maps
EmptyF == [x \in {} |-> 0]
Put(f, k, v) == [x \in (DOMAIN f) \cup {k} |-> IF x = k THEN v ELSE f[x]]
Del(f, k) == [x \in (DOMAIN f) \ {k} |-> f[x]]
Has(f, k) == k \in DOMAIN f

\* ---------------------------------------------------------------- node state
\* id, epoch      identity of this run of the node
\* seq            own update sequence number (makeRoutingUpdate)
\* conn           established neighbours: peer -> cost              (s.connections)
\* rest           peer -> has the peer listed us yet (remoteEstablished of that session)
\* known          origin -> (node -> cost)                          (s.knownConnectionCosts)
\* info           origin -> <<epoch, seq>> of the newest accepted update (s.knownNodeInfo)
\* seen           update ids already processed                      (s.seenUpdates)
\* alive          FALSE after Shutdown
NewNode(id, epoch) ==
  [id |-> id, epoch |-> epoch, seq |-> 0, conn |-> EmptyF, rest |-> EmptyF,
   known |-> EmptyF, info |-> EmptyF, seen |-> {}, alive |-> TRUE]

\* A routing update as it appears on the wire.
\* node: origin, id: UpdateID, epoch/seq, conns: node -> cost, fwd: ForwardingNode, susp: SuspectedDuplicate
Update(node, id, epoch, seq, conns, fwd, susp) ==
  [node |-> node, id |-> id, epoch |-> epoch, seq |-> seq, conns |-> conns, fwd |-> fwd, susp |-> susp]

\* Result of handling one message: new node state plus what the node emits / requests.
\*   relay    the received update is re-flooded (ForwardingNode rewritten) to conn \ {via}
\*   flood    sendRouteFloodChan <- 0   (an own update will be originated)
\*   rebuild  updateRoutingTableChan <- ...
\*   dupflood # 0: own update carrying SuspectedDuplicate = dupflood is sent at once
\*   reject   the session is rejected (type-3 frame) and ends; "" otherwise
\*   class    which branch of the code was taken (for coverage and diagnostics)
Res(ns, relay, flood, rebuild, dupflood, reject, class) ==
  [ns |-> ns, relay |-> relay, flood |-> flood, rebuild |-> rebuild, dupflood |-> dupflood,
   reject |-> reject, class |-> class]

Quiet(ns, class) == Res(ns, FALSE, FALSE, FALSE, 0, "", class)

\* ---------------------------------------------------------------- removeConnection (1853-1869)
\* two critical sections: connLock (1855-1857), then knownNodeLock (1858-1867)
RemConn(ns, peer) == [ns EXCEPT !.conn = Del(@, peer), !.rest = Del(@, peer)]
RemKnown(ns, peer) ==
  LET k1 == IF Has(ns.known, peer) THEN [ns.known EXCEPT ![peer] = Del(@, ns.id)] ELSE ns.known
      k2 == IF Has(k1, ns.id) THEN [k1 EXCEPT ![ns.id] = Del(@, peer)] ELSE k1
  IN [ns EXCEPT !.known = k2]
RemoveConn(ns, peer) == IF peer = "" THEN ns ELSE RemKnown(RemConn(ns, peer), peer)

\* ---------------------------------------------------------------- establishment (1986-2071)
\* first routing message on a fresh session; allow = "any" or a set of ids; nodeCost: per-node override map
\* allowAny: the backend has no allow-list; otherwise allowSet is the list
AdmitVerdict(ns, fwd, allowAny, allowSet) ==
  IF fwd = "" THEN "empty_id"
  ELSE IF fwd = ns.id THEN "self"
  ELSE IF ~allowAny /\ fwd \notin allowSet THEN "not_allowed"
  ELSE IF Has(ns.conn, fwd) THEN "already_connected"
  ELSE "ok"

\* two critical sections: connLock (2011-2025), then knownNodeLock (2041-2052)
EstConn(ns, peer, cost) == [ns EXCEPT !.conn = Put(@, peer, cost), !.rest = Put(@, peer, FALSE)]
EstKnown(ns, peer, cost) ==
  LET k0 == IF Has(ns.known, ns.id) THEN ns.known ELSE Put(ns.known, ns.id, EmptyF)
      k1 == [k0 EXCEPT ![ns.id] = Put(@, peer, cost)]
      k2 == IF Has(k1, peer) THEN k1 ELSE Put(k1, peer, EmptyF)
      k3 == [k2 EXCEPT ![peer] = Put(@, ns.id, cost)]
  IN [ns EXCEPT !.known = k3]
Establish(ns, peer, cost) == EstKnown(EstConn(ns, peer, cost), peer, cost)

\* ---------------------------------------------------------------- handleRoutingUpdate (1454-1567)
Stale(ns, u) ==
  /\ Has(ns.info, u.node)
  /\ \/ u.epoch < ns.info[u.node][1]
     \/ u.epoch = ns.info[u.node][1] /\ u.seq <= ns.info[u.node][2]

ApplyConns(ns, u) ==
  \* replace the origin's adjacency and prune reverse edges the origin no longer lists (1537-1551)
  LET k0 == Put(ns.known, u.node, u.conns) IN
  [c \in DOMAIN k0 |->
     IF c # ns.id /\ c # u.node /\ ~Has(u.conns, c) THEN Del(k0[c], u.node) ELSE k0[c]]

\* the three critical sections of handleRoutingUpdate, usable one at a time by NodeTrace.tla
MarkSeen(ns, u) == [ns EXCEPT !.seen = @ \cup {u.id}]                              \* seenUpdatesLock (1481-1489)
DupAdopt(ns, u) ==                                                                   \* knownNodeLock (1492-1500)
  IF Has(ns.info, u.node) /\ ns.info[u.node][1] = u.susp
  THEN [ns EXCEPT !.info[u.node] = <<u.epoch, u.seq>>] ELSE ns
StaleWhy(ns, u) ==                                                                   \* knownNodeLock (1503-1516)
  IF ~Has(ns.info, u.node) THEN "fresh"
  ELSE IF u.epoch < ns.info[u.node][1] THEN "stale_epoch"
  ELSE IF u.epoch = ns.info[u.node][1] /\ u.seq <= ns.info[u.node][2] THEN "stale_seq"
  ELSE "newer"
ChangedBy(ns, u) == ~Has(ns.known, u.node) \/ ns.known[u.node] # u.conns
Accept(ns, u) ==                                                                     \* knownNodeLock (1524-1552)
  [ns EXCEPT !.info = Put(@, u.node, <<u.epoch, u.seq>>),
             !.known = IF ChangedBy(ns, u) THEN ApplyConns(ns, u) ELSE @]

\* an update carrying a negative link cost is not used at all (repair 798525d: it made the shortest-path loop run for ever)
NegativeCost(u) == \E c \in DOMAIN u.conns : u.conns[c] < 0

HandleRU(ns, u, via) ==
  IF u.node = "" THEN Quiet(ns, "empty_origin")
  ELSE IF NegativeCost(u) THEN Quiet(ns, "negative_cost")
  ELSE IF u.node = ns.id THEN
         IF u.epoch = ns.epoch THEN Quiet(ns, "self_same_epoch")
         ELSE IF u.susp = ns.epoch THEN Quiet([ns EXCEPT !.alive = FALSE], "self_we_are_duplicate")
         ELSE IF u.epoch > ns.epoch THEN Res(ns, FALSE, FALSE, FALSE, u.epoch, "", "self_newer_epoch")
         ELSE Quiet(ns, "self_older_epoch")
  ELSE IF u.id \in ns.seen THEN Quiet(ns, "seen")
  ELSE LET n1 == MarkSeen(ns, u) IN
       IF u.susp # 0 THEN Res(DupAdopt(n1, u), TRUE, FALSE, FALSE, 0, "", "dup_notice")
       ELSE IF Stale(n1, u) THEN Quiet(n1, "stale")
       ELSE LET first   == ~Has(n1.info, u.node)
                changed == ChangedBy(n1, u)
            IN Res(Accept(n1, u), TRUE, first, changed, 0, "",
                   IF changed THEN "accepted_changed" ELSE "accepted_same")

\* ---------------------------------------------------------------- runProtocol, established phase (1926-1960)
\* checks made before the update is handed to HandleRU
RecvRoute(ns, u, via) ==
  IF u.fwd # via THEN Res(RemoveConn(ns, via), FALSE, FALSE, FALSE, 0, "id_changed", "reject_id_changed")
  ELSE IF u.node = via THEN
         IF ~Has(u.conns, ns.id) THEN
           IF ns.rest[via] THEN Res(RemoveConn(ns, via), FALSE, FALSE, FALSE, 0, "dropped_us", "reject_dropped_us")
           ELSE Quiet(ns, "late_init")
         ELSE IF u.conns[ns.id] # ns.conn[via]
              THEN Res(RemoveConn([ns EXCEPT !.rest[via] = TRUE], via), FALSE, FALSE, FALSE, 0, "cost", "reject_cost")
              ELSE HandleRU([ns EXCEPT !.rest[via] = TRUE], u, via)
  ELSE HandleRU(ns, u, via)

\* the session ends (deferred function of runProtocol, 1880-1894): an own update and a rebuild are requested
\* when the session had been established.

\* ---------------------------------------------------------------- makeRoutingUpdate (1395-1416)
OwnUpdate(ns, id, susp) ==
  Update(ns.id, id, ns.epoch, ns.seq + 1, ns.conn, ns.id, susp)

\* ---------------------------------------------------------------- routing table oracle (C01)
\* Independent of the code's algorithm: Bellman-Ford over the directed edges of a `known` picture.
Inf == 1000000

\* The code only ever relaxes nodes that are keys of `known` (cost[] of any other node reads as 0, so
\* "pathCost < cost[neighbor]" is never true for it): the graph is restricted to the key nodes.
KNodes(k) == DOMAIN k

EdgeCost(k, a, b) == IF Has(k, a) /\ Has(k[a], b) /\ Has(k, b) THEN k[a][b] ELSE Inf

MinOf(S) == CHOOSE x \in S : \A y \in S : x <= y

RECURSIVE BF(_, _, _, _)
\* D: node -> cost from src after i rounds
BF(k, src, D, i) ==
  IF i = 0 THEN D
  ELSE BF(k, src,
          TLCEval([b \in DOMAIN D |->
             MinOf({D[b]} \cup {D[a] + EdgeCost(k, a, b) : a \in {a \in DOMAIN D : D[a] < Inf /\ EdgeCost(k, a, b) < Inf}})]),
          i - 1)

DistFrom(k, src) ==
  LET N == KNodes(k) \cup {src} IN
  TLCEval(BF(k, src, [b \in N |-> IF b = src THEN 0 ELSE Inf], Cardinality(N)))

\* h is an acceptable next hop from src to d in picture k: a direct edge src->h that starts a least-cost path
GoodHop(k, src, d, h) ==
  LET D == DistFrom(k, src) IN
  /\ EdgeCost(k, src, h) < Inf
  /\ D[d] < Inf
  /\ EdgeCost(k, src, h) + DistFrom(k, h)[d] = D[d]

\* The set of destinations the code puts in its table: keys of `known` other than the node itself
\* that are reachable over directed edges.
TableDomain(k, src) == {d \in (DOMAIN k) \ {src} : DistFrom(k, src)[d] < Inf}

\* tbl (dest -> next hop) and cst (dest -> cost) are a correct outcome of updateRoutingTable for picture k
ValidTable(k, src, tbl, cst) ==
  LET D  == DistFrom(k, src)
      DH == [h \in {tbl[d] : d \in DOMAIN tbl} |-> DistFrom(k, h)]
  IN /\ DOMAIN tbl = {d \in (DOMAIN k) \ {src} : D[d] < Inf}
     /\ \A d \in DOMAIN tbl : /\ EdgeCost(k, src, tbl[d]) < Inf
                                /\ Has(DH[tbl[d]], d)
                                /\ EdgeCost(k, src, tbl[d]) + DH[tbl[d]][d] = D[d]
                                /\ Has(cst, d) /\ cst[d] = D[d]
=============================================================================
