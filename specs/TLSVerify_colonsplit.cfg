\* Counter-example variant: the listener as it was before 8d11383 (expected name = text before the first ':').
\* TLC must report a violation of CodeWithinProp here (checks/c09.py requires it); never used as a passing configuration.
SPECIFICATION Spec
CONSTANTS
  Issuers = {"trusted", "otherca"}
  Validities = {"valid", "expired"}
  Usages = {"server", "client"}
  NameSets = {"expected", "other", "several"}
  PinLists <- PinListsWit
  Roles = {"server", "client"}
  Modes = {"receptor", "dns"}
  StreamSrcs <- StreamSrcsQuick
  MaxTick = 1
  KF_LookupMutatesStored = FALSE
  KF_TimeFrozenAtCreation = FALSE
  KF_DigestCachedAcrossCalls = FALSE
  KF_ColonSplit = TRUE
  DumpFile = ""
INVARIANTS
  CodeWithinProp
