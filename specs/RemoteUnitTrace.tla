-------------------------- MODULE RemoteUnitTrace --------------------------
(***************************************************************************)
(* Trace validation for the remote-work protocol: the rw_* hook events of  *)
(* a real submitting daemon S (pkg/workceptor/remote_work.go) for ONE      *)
(* remote unit, plus the harness' kill/restart marks, against the actions  *)
(* of RemoteUnit.tla.                                                      *)
(* Logged (each bound to the action of the same meaning, with its logged   *)
(* outcome): submit answered, RemoteStarted stored, every status poll      *)
(* (mirrored state / unknown / error, forRelease flag), client cancel /    *)
(* release / force-release, the ONE cancel/release request and its result  *)
(* (ok / refused / lost), going to the background path, giving up, the     *)
(* local removal after a release, S kill and restart; the rewrite that     *)
(* first stores E's id (derived from the sf_write events of the record)    *)
(* and the completed stdin transfer, in that order.                        *)
(* Not logged, composed silently between two events: the link going down   *)
(* and up (the relay's cut/heal is only the cause; what the protocol sees  *)
(* is the mesh route), E's own progress, connect attempts, the rewrite of  *)
(* the stdout monitor.  Output sizes are *)
(* not bound here (MaxOut = 1); the prefix property is decided on the real *)
(* files by the driver.                                                    *)
(* Acceptance: the high-water mark of the cursor reaches the end of the    *)
(* trace (register 42; run with one worker).                               *)
(***************************************************************************)
EXTENDS RemoteUnit, Json, Sequences

CONSTANT RTraceFile
RTrace == ndJsonDeserialize(RTraceFile)
ASSUME TLCSet(42, 1)

VARIABLE l
StName(n) == CASE n = 0 -> "P" [] n = 1 -> "R" [] n = 2 -> "S" [] n = 3 -> "F" [] OTHER -> "C"
E == RTrace[l]
Has(e) == l <= Len(RTrace) /\ E.ev = e
Consume == l' = l + 1 /\ TLCSet(42, IF l + 1 > TLCGet(42) THEN l + 1 ELSE TLCGet(42))
Silent == UNCHANGED l

\* somebody released E's unit directly at E
EGone == /\ est \in {"P", "R", "S", "F", "C"} /\ est' = "gone"
         /\ UNCHANGED <<link, flaps, eout, ecount, ehist, ecan, stdinDone, disk, up, crashes, m, mop, bg, mons, ops, ans, ghost, bad>>

TInit == Init /\ l = 1

TSilent == /\ l <= Len(RTrace)
           /\ \/ LinkDown \/ LinkUp \/ EStart \/ EWrite \/ EFinish \/ ECancel \/ EGone
              \/ (MConnect /\ (link \/ bg)) \/ SMConnect
              \/ OMCheck \/ OMConnect \/ OMCopy \/ ForceReleaseLocal
           /\ Silent

\* several units' traces are concatenated
TReset == /\ Has("reset")
          /\ link' = TRUE /\ flaps' = 0
          /\ est' = "none" /\ eout' = 0 /\ ecount' = 0 /\ ehist' = {} /\ ecan' = FALSE /\ stdinDone' = FALSE
          /\ known' = TRUE /\ rid' = 0 /\ started' = FALSE /\ lcan' = FALSE /\ lrel' = FALSE /\ st' = "P" /\ sz' = 0 /\ lout' = 0 /\ dup' = FALSE
          /\ up' = TRUE /\ crashes' = 0 /\ m' = "connect" /\ mop' = "submit" /\ bg' = FALSE
          /\ sm' = "off" /\ smfr' = FALSE /\ om' = "off" /\ omconn' = FALSE
          /\ ops' = ClientOps /\ ans' = [o \in {"submit", "cancel", "release", "frelease"} |-> "none"]
          /\ gaveUp' = FALSE /\ reconn' = FALSE /\ retried' = FALSE /\ relGone' = FALSE /\ bad' = {}
          /\ Consume

TStart     == Has("rw_start") /\ (E.start \/ started) /\ UNCHANGED vars /\ Consume
TSubmitted == Has("rw_submitted") /\ link /\ SubmitSend /\ Consume
\* the status rewrite that first carries the id E answered with (an sf_write of the unit's record), and the completed stdin transfer
TIdStored  == Has("id_stored") /\ StoreId /\ Consume
TShipped   == Has("rw_stdin_shipped") /\ link /\ est # "gone" /\ ShipStdin /\ Consume
TStarted   == Has("rw_started") /\ StoreStarted /\ Consume
TBackground == Has("rw_background") /\ ~link /\ ~bg /\ mop # "frelease" /\ MConnect /\ Consume
TGaveUp    == Has("rw_gave_up") /\ gaveUp /\ UNCHANGED vars /\ Consume
TPoll ==
  /\ Has("rw_poll") /\ E.for_release = smfr
  /\ CASE E.result = "status"  -> link /\ est \notin {"none", "gone"} /\ (IF est = "C" /\ st = "S" THEN TRUE ELSE est = StName(E.state))
       [] E.result = "unknown" -> link /\ est \in {"none", "gone"}
       [] OTHER                -> ~link
  /\ SMPoll /\ Consume
TOp ==
  /\ Has("rw_op")
  /\ IF ~E.release THEN ClientCancel ELSE ClientRelease(E.force)
  /\ Consume
TRequest ==
  /\ Has("rw_request") /\ mop = (IF E.op = "cancel" THEN "cancel" ELSE mop) /\ mop # "submit"
  /\ CASE E.result = "ok"      -> link /\ est \notin {"none", "gone"}
       [] E.result = "refused" -> link /\ est \in {"none", "gone"}
       [] OTHER                -> ~link
  /\ CancelSend /\ Consume
TLocalRelease == Has("rw_local_release") /\ ~known /\ UNCHANGED vars /\ Consume
TKill    == Has("env_kill") /\ CrashS /\ Consume
TRestart == Has("env_restart") /\ RestartS /\ Consume

TNext == TReset \/ TSilent \/ TStart \/ TSubmitted \/ TIdStored \/ TShipped \/ TStarted \/ TBackground \/ TGaveUp \/ TPoll \/ TOp \/ TRequest \/ TLocalRelease \/ TKill \/ TRestart
TSpec == TInit /\ [][TNext]_<<vars, l>>

RTraceAccepted == TLCGet(42) = Len(RTrace) + 1
=============================================================================
