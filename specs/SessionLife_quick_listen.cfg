\* quick, safety: the listener node at the code's grain, every interleaving, no clocks; the dialer side is an adversary (3 moves incl. dials); CancelBackends at any point
SPECIFICATION Spec
CONSTANTS
  Links = {1}
  MaxIdle = 2
  Poll = 1
  KA = 1
  MaxInit = 2
  MaxLev = 1
  QLen = 1
  Sync = FALSE
  Coarse = FALSE
  RealNodes = {"b"}
  CancelOnReturn = TRUE
  SkipOnBackendCancel = FALSE
  EdgeGuard = TRUE
  BSilence = 0
  BCut = 0
  ShutNodes = {}
  CancelNodes = {"b"}
  BReborn = 0
  BAdv = 3
  BIdle = 1
  BDial = 2
  Wit = FALSE
INVARIANTS
  TypeOK
  OnePerPeer
  ListedIffOpen
  EdgeOnlyWhileHeld
  EstHasEdge
  RebuildComing
  NoOrphan
  NoInitAfterDone
  AgeBound
  OneDialSession
  DialerWaits
  DownStaysQuiet
