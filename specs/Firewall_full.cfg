SPECIFICATION Spec
CONSTANTS
  MaxList = 3
  Families = {"single", "list"}
  DumpFile = "vectors.ndjson"
INVARIANTS
  FirstMatchDecides
  BadRuleRefusesWholeList
  DropIsSilent
  NoNoticeAboutNotice
  NoticeOnlyOnReject
  RulesBeforeHopCount
