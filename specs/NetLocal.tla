------------------------------ MODULE NetLocal ------------------------------
(***************************************************************************)
(* One real node ("n1") whose neighbours are scripted: the neighbours may  *)
(* deliver ANY routing update from a finite alphabet, in any order, with   *)
(* replays, stale sequence numbers, reused ids, forged forwarders, updates *)
(* naming the node itself, and suspected-duplicate notices.  Serves C06    *)
(* (never regress, relay at most once and never back) and the post-        *)
(* establishment half of C11 (peer changes id / drops us / disagrees on    *)
(* cost).  The history variable `hist` records every step with the state   *)
(* the spec expects afterwards; cmd/vh netlocal replays it on a real node. *)
(***************************************************************************)
EXTENDS NetCore, Json

CONSTANTS Self,        \* id of the node under test
          SelfEpoch,   \* its (symbolic) epoch; the harness maps it to the real one
          Peers,       \* scripted neighbours established at the start
          Origins,     \* origins that may appear in updates
          Ids,         \* update ids (few, so that reuse happens)
          ConnSets,    \* adjacency maps that may appear in updates
          MaxSeq, MaxSteps, DumpHist,
          WithExpire   \* whether ids may age out of the seen table (expireSeenUpdates)

VARIABLES ns,      \* node state (NetCore)
          last,    \* the last step: input and the effects the spec expects (what the harness compares)
          hist     \* history of steps, exported to the replay harness

vars == <<ns, last, hist>>
vw == <<ns>>       \* VIEW for exhaustive runs: the protocol state only

InitNode ==
  LET RECURSIVE est(_, _)
      est(n, ps) == IF ps = {} THEN n
                    ELSE LET p == CHOOSE x \in ps : TRUE IN
                         est([Establish(n, p, 1) EXCEPT !.rest[p] = TRUE], ps \ {p})
  IN est(NewNode(Self, SelfEpoch), Peers)

\* after establishment every peer announces itself listing the node (epoch 1, seq 1, id "hs-<peer>")
HsUpdate(p) == Update(p, "hs-" \o p, 1, 1, [x \in {Self} |-> 1], p, 0)
InitNode2 ==
  LET RECURSIVE hs(_, _)
      hs(n, ps) == IF ps = {} THEN n
                   ELSE LET p == CHOOSE x \in ps : TRUE IN hs(RecvRoute(n, HsUpdate(p), p).ns, ps \ {p})
  IN hs(InitNode, Peers)

NoStep == [via |-> "", u |-> Update("", "", 0, 0, EmptyF, "", 0), class |-> "init", relayTo |-> {}, flood |-> FALSE,
           rebuild |-> FALSE, dupflood |-> 0, reject |-> "", alive |-> TRUE, fresh |-> FALSE,
           conn |-> InitNode2.conn, known |-> InitNode2.known, info |-> InitNode2.info]

Init == /\ ns = InitNode2
        /\ last = NoStep
        /\ hist = <<>>

\* ---------------------------------------------------------------- the alphabet
C1(S) == [x \in S |-> 1]
CS_small == { EmptyF, C1({"n1"}), C1({"n1", "x"}), C1({"p1"}), [x \in {"n1"} |-> 2] }
CS_full  == { EmptyF, C1({"n1"}), C1({"n1", "x"}), C1({"p1"}), C1({"p1", "p2"}), C1({"x"}), C1({"n1", "p2", "x"}),
              [x \in {"n1"} |-> 2], [x \in {"n1", "x"} |-> IF x = "x" THEN 3 ELSE 1] }

Epochs(o) == IF o = Self THEN {SelfEpoch - 1, SelfEpoch, SelfEpoch + 1} ELSE {1, 2}
Susps == {0, SelfEpoch, 1, 2}

StepRec(via, u) ==
  LET r == RecvRoute(ns, u, via)
      targets == IF r.relay THEN (DOMAIN r.ns.conn) \ {via} ELSE {}
  IN [via |-> via, u |-> u, class |-> r.class, relayTo |-> targets, flood |-> r.flood,
      rebuild |-> r.rebuild \/ r.reject # "", dupflood |-> r.dupflood, reject |-> r.reject, alive |-> r.ns.alive,
      fresh |-> u.id \notin ns.seen,
      conn |-> r.ns.conn, known |-> r.ns.known, info |-> r.ns.info]

Step(via, u) ==
  /\ ns.alive
  /\ Len(hist) < MaxSteps
  /\ ns' = RecvRoute(ns, u, via).ns
  /\ last' = StepRec(via, u)
  /\ hist' = IF DumpHist THEN Append(hist, last') ELSE hist

Inputs ==
  { [via |-> via, u |-> Update(o, id, e, sq, c, f, sp)] :
      via \in DOMAIN ns.conn, o \in Origins, id \in Ids, e \in {1, 2, SelfEpoch - 1, SelfEpoch, SelfEpoch + 1},
      sq \in 1..MaxSeq, c \in ConnSets, f \in Peers, sp \in Susps }

Legal(i) == /\ i.u.epoch \in Epochs(i.u.node)
            \* forged forwarder: one representative per (origin, epoch, id)
            /\ (i.u.fwd # i.via => (i.u.susp = 0 /\ i.u.seq = 1 /\ i.u.conns = EmptyF))

\* expireSeenUpdates (809-825): ids older than the expiry time are forgotten; any subset may have aged out
Expire(S) ==
  /\ S # {} /\ S \subseteq ns.seen
  /\ ns' = [ns EXCEPT !.seen = @ \ S]
  /\ last' = [NoStep EXCEPT !.class = "expire", !.conn = ns.conn, !.known = ns.known, !.info = ns.info]
  /\ hist' = hist

Next == \/ \E i \in {x \in Inputs : Legal(x)} : Step(i.via, i.u)
        \/ (WithExpire /\ \E S \in SUBSET ns.seen : Expire(S))

\* For behaviour generation (tlc -simulate): the spec itself draws ONE legal input per step, so that a
\* simulation run is a uniformly random walk and invariants are evaluated on the walk only.
SimNext == \E i \in {RandomElement({x \in Inputs : Legal(x)})} : Step(i.via, i.u)
SimSpec == Init /\ [][SimNext]_vars

Spec == Init /\ [][Next]_vars

\* ---------------------------------------------------------------- C06 as action properties
LexLE(a, b) == a[1] < b[1] \/ (a[1] = b[1] /\ a[2] <= b[2])

L == last'
\* the step reached handleRoutingUpdate as a normal update of another origin
Plain == L.u.fwd = L.via /\ L.reject = "" /\ L.class # "late_init" /\ L.u.susp = 0 /\ L.u.node # Self

\* an update that is older than, equal to, or a replay of one already accepted changes nothing and is not relayed
NoChangeOnStale ==
  [][ (L.class \notin {"init", "expire"} /\ Plain /\ (~L.fresh \/ (Has(ns.info, L.u.node) /\ LexLE(<<L.u.epoch, L.u.seq>>, ns.info[L.u.node]))))
        => (ns'.known = ns.known /\ ns'.info = ns.info /\ L.relayTo = {}) ]_vars

\* the per-origin (epoch, seq) never decreases, except by the named suspected-duplicate adoption
InfoMonotone ==
  [][ L.class = "init" \/ (\A o \in DOMAIN ns.info : Has(ns'.info, o) /\ (LexLE(ns.info[o], ns'.info[o]) \/ L.class = "dup_notice")) ]_vars

\* never relayed back to the neighbour it came from; never relayed when it names this node as origin
NeverBack == [][ L.class \in {"init", "expire"} \/ (L.via \notin L.relayTo /\ (L.u.node = Self => L.relayTo = {})) ]_vars

\* an update from our own current run is ignored completely
SelfFilter ==
  [][ (L.u.node = Self /\ L.u.epoch = SelfEpoch /\ L.u.fwd = L.via) => (ns' = ns /\ L.relayTo = {}) ]_vars

\* an update is relayed only the first time its id is seen, and the id is remembered: at most one relay per id
\* at most one relay per id WHILE the id is remembered; after the id has aged out, a replay is still not applied or
\* relayed because of the (epoch, sequence) test (NoChangeOnStale) - that is what makes expiry safe
RelayOnce == [][ L.relayTo # {} => (L.fresh /\ L.u.id \in ns'.seen) ]_vars
SeenGrows == [][ L.class \in {"init", "expire"} \/ ns.seen \subseteq ns'.seen ]_vars

\* a genuine (fresh, newer) update IS applied and relayed to every other neighbour (so that "relay nothing" is not a model)
GenuineIsRelayed ==
  [][ (L.class \notin {"init", "expire"} /\ Plain /\ L.fresh /\ ~(Has(ns.info, L.u.node) /\ LexLE(<<L.u.epoch, L.u.seq>>, ns.info[L.u.node])))
        => (L.relayTo = (DOMAIN ns'.conn) \ {L.via} /\ ns'.info[L.u.node] = <<L.u.epoch, L.u.seq>>
            /\ ns'.known[L.u.node] = L.u.conns) ]_vars

\* own adjacency row always equals the set of established neighbours
KnownSelfIsConn == Has(ns.known, Self) /\ ns.known[Self] = ns.conn

TypeOK == /\ DOMAIN ns.rest = DOMAIN ns.conn
          /\ \A o \in DOMAIN ns.info : o # Self

\* ---------------------------------------------------------------- export of behaviours
Export == (DumpHist /\ (Len(hist) = MaxSteps \/ (~ns.alive /\ Len(hist) > 0))) => PrintT(<<"HIST", ToJson(hist)>>)

\* witnesses (anti-vacuity)
W_NoStale    == last.class # "stale"
W_NoSeen     == last.class # "seen"
W_NoAdopt    == ~(last.class = "dup_notice" /\ Has(last.info, last.u.node) /\ last.info[last.u.node] = <<last.u.epoch, last.u.seq>>)
W_NoShutdown == ns.alive
W_NoReject   == last.reject = ""
W_NoDupFlood == last.dupflood = 0
=============================================================================
