SPECIFICATION Spec
CONSTANTS
  Part = "c19"
  MaxLinesA = 1
  MaxLinesB = 1
  KF_ScanRecheckLeak = FALSE
  KF_FindUnitRelock = FALSE
  MaxOps = 4
  ExportOps = 3
  RequestStateKeptAcrossLines = FALSE
  ConnectionRemembersToken = FALSE
  VerifierRemembersTokens = FALSE
  RedactNeedsTLSRecord = FALSE
  KeyFamily = "cover"
  DumpFile = "c19.ndjson"
INVARIANTS
  NoSecretInReplies
  OthersUnchanged
  RefuseWithoutTLS
  FailedSubmitLeavesUnit
