SPECIFICATION Spec
CONSTANTS
  Node = {"n1", "n2", "n3"}
  Ghost = {}
  Nbr <- Tri_Nbr
  Bound <- Bound_ab
  VarCols = {"n1", "n3"}
  SrcSet = {"n1"}
  SrcSvcs = {"a"}
  DstSet = {"n1", "n3"}
  DstSvcs = {"a", "b", "u"}
  TTLs = {0, 2}
  MaxSends = 2
  DefTTL = 3
INVARIANTS
  TypeOK
  DeliveredOnlyAtAddressee
  TrueSource
  AtMostOnce
  Intact
  DeliveredWhenRouted
  FwdBound
  NoticeToSenderOnly
  NeverBoth
PROPERTIES
  Decreases
