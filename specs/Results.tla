------------------------------ MODULE Results ------------------------------
(***************************************************************************)
(* C05 - "work results" streaming and the mirroring of remote work.        *)
(*                                                                         *)
(* Code:                                                                   *)
(*   pkg/workceptor/command.go     commandRunner: the payload writes the   *)
(*       stdout file directly; the runner records StdoutSize in the status *)
(*       file every 250 ms (later than the bytes) and once more, together  *)
(*       with the final state, after the payload has exited.               *)
(*   pkg/workceptor/workunitbase.go MonitorLocalStatus: the daemon's       *)
(*       in-memory copy of the status record follows the file (fsnotify /  *)
(*       1 s poll) until it shows a complete state.  IsComplete(s) is      *)
(*       s = Succeeded \/ s = Failed  -- Canceled is NOT complete.         *)
(*   pkg/workceptor/workceptor.go  GetResults (479-608): wait for the file,*)
(*       then loop { Seek(filePos); Read(64 KiB); send } until EOF, then   *)
(*       look at the in-memory status: finish iff finished(state) and      *)
(*       filePos >= StdoutSize, else sleep 250 ms and read on.  finished = *)
(*       IsComplete in the pinned tree, IsComplete or Canceled after the   *)
(*       fix (constant KF_CancelNotComplete).                              *)
(*   pkg/workceptor/remote_work.go monitorRemoteStatus: once per second    *)
(*       "work status" on a connection to the remote node, the reply is    *)
(*       written into the local record; monitorRemoteStdout: once per      *)
(*       second { Load; disk := size(local stdout); done iff IsComplete    *)
(*       and disk >= StdoutSize; if disk < StdoutSize: connect, "work      *)
(*       results <id> <disk>", io.Copy(append to local stdout) until the   *)
(*       stream ends or breaks }.                                          *)
(*                                                                         *)
(* One action per step of those loops.  Output bytes are numbered: byte i  *)
(* of the output has value i, so gaps and repeats are visible in values.   *)
(* Sizes are in abstract units; the read buffer holds Buf units.           *)
(*                                                                         *)
(* Two scenarios (variable scen, chosen in Init):                          *)
(*   "local"  producer + one client reader "cl" with any start offset,     *)
(*            started at any moment; the unit may be cancelled.            *)
(*   "remote" producer on the remote node, the submitting node's two       *)
(*            monitors, the remote reader "ms" serving the mirror, a       *)
(*            client reader "al" on the submitting node reading the local  *)
(*            copy (when AlReader), and the faults LinkCut / RelayRestart  *)
(*            / RemoteRestart (each followed, eventually, by its repair)   *)
(*            between any two steps, at most MaxFaults of them.            *)
(***************************************************************************)
EXTENDS Naturals, Sequences, FiniteSets, TLC, Json, SequencesExt

CONSTANTS
  ChunkSizes,            \* sizes a single producer write may have, in units
  MaxChunks,             \* "local": at most this many writes
  RChunkSizes, RMaxChunks, \* the same for "remote"
  Buf,                   \* read buffer of GetResults in units
  MaxFaults,             \* "remote": number of faults
  FaultKinds,            \* subset of {"cut","relay","remote"}
  Scenarios,             \* subset of {"local","remote"}
  AlReader,              \* BOOLEAN: a client reads the mirrored copy on the submitting node ...
  AlOffsets,             \* ... from one of these start offsets
  ReadAhead,             \* how much the monitor's bufio.Reader can take in beyond the header line, in units
  A_CreateBeforePoll,    \* BOOLEAN assumption: monitorRemoteStdout has created the local stdout file (a local
                         \* OpenFile, first thing it does) before monitorRemoteStatus, started at the same moment,
                         \* has dialled the remote node and got its first reply.  With FALSE, TLC shows the lead
                         \* "record already final, file not yet there => a results client on the submitting node
                         \* is told 'completed without producing any stdout'" (NoEarlyEnd); not reproducible
                         \* on the real daemon without a gate between the two goroutines.
  KF_CancelNotComplete,  \* TRUE: GetResults as in the pinned tree (finishes only on IsComplete, which excludes Canceled:
                         \*       finding C05:results-never-end-on-cancelled-unit, EndsWhenDone is then violated);
                         \* FALSE: GetResults after fix 26b219b (a cancelled unit is finished for GetResults)
  DumpLocal, DumpRemote  \* "" or NDJSON file names for the vectors / fault schedules

VARIABLES
  scen,
  \* ---- the node that runs the unit
  out,        \* number of bytes in the stdout file
  nchunks,    \* writes done
  fileExists, \* the runner has created the stdout file
  dState, dSize,   \* status record on disk
  mState, mSize,   \* the daemon's in-memory copy of it
  cancel,     \* "none" | "killed" (runner wrote Failed/Killed) | "marked" (daemon wrote Canceled)
  cUp,        \* the daemon of that node is running (the detached runner always is)
  \* ---- readers (instances of GetResults): "cl" and "ms" on the unit's node, "al" on the submitting node
  rd,         \* [Readers -> [pc, p, pos, sent]]
  \* ---- the submitting node (remote scenario)
  lExists, lout,   \* local stdout file (sequence of byte values)
  aState, aSize,   \* local record of the remote unit
  pcS, sessS,      \* monitorRemoteStatus and its connection
  pcO, sessO, reqFrom, wire,  \* monitorRemoteStdout, its connection, the offset it asked for, bytes in flight
  linkUp, relayUp, faults,
  rbuf,       \* bytes the monitor's bufio.Reader has read ahead together with the "Streaming results" header line
  aUp         \* the submitting daemon is running

vars == <<scen, out, nchunks, fileExists, dState, dSize, mState, mSize, cancel, cUp, rd,
          lExists, lout, aState, aSize, pcS, sessS, pcO, sessO, reqFrom, wire, linkUp, relayUp, faults, rbuf, aUp>>

Readers == {"cl", "ms", "al"}

IsComplete(s) == s \in {"Succeeded", "Failed"}            \* workunitbase.go IsComplete, as it is
Finished(s)   == s \in {"Succeeded", "Failed", "Canceled"} \* the property's (and C13's) notion
GRDone(s)     == IsComplete(s) \/ (~KF_CancelNotComplete /\ s = "Canceled")  \* "finished" inside GetResults

Min2(a, b) == IF a < b THEN a ELSE b
Bytes(a, b) == [i \in 1..(b - a) |-> a + i]   \* the bytes at offsets a..b-1 (values a+1..b)
Stdout == Bytes(0, out)

Idle == [pc |-> "idle", p |-> 0, pos |-> 0, sent |-> <<>>]

MaxOf(S) == CHOOSE x \in S : \A y \in S : y <= x
MaxOut == IF scen = "local" THEN MaxChunks * MaxOf(ChunkSizes) ELSE RMaxChunks * MaxOf(RChunkSizes)

Connected == linkUp /\ relayUp /\ cUp

\* ---------------------------------------------------------------- initial states
Init ==
  /\ scen \in Scenarios
  /\ out = 0 /\ nchunks = 0 /\ fileExists = FALSE
  /\ dState = "Pending" /\ dSize = 0 /\ mState = "Pending" /\ mSize = 0
  /\ cancel = "none" /\ cUp = TRUE
  /\ rd = [r \in Readers |-> Idle]
  /\ lExists = FALSE /\ lout = <<>> /\ aState = "Pending" /\ aSize = 0
  /\ pcS = IF scen = "remote" THEN "connect" ELSE "off"
  /\ pcO = IF scen = "remote" THEN "create" ELSE "off"
  /\ sessS = "none" /\ sessO = "none" /\ reqFrom = 0 /\ wire = <<>>
  /\ linkUp = TRUE /\ relayUp = TRUE /\ faults = 0
  /\ rbuf = <<>> /\ aUp = TRUE

\* ---------------------------------------------------------------- producer (commandRunner + payload)
Running == fileExists /\ dState \in {"Pending", "Running"} /\ cancel = "none"

UNCH_A == UNCHANGED <<lExists, lout, aState, aSize, pcS, sessS, pcO, sessO, reqFrom, wire, linkUp, relayUp, faults, rbuf, aUp>>

\* commandRunner: status Pending "Not started yet" is there; the stdout file is created, the payload started
P_Start ==
  /\ ~fileExists /\ dState = "Pending"
  /\ fileExists' = TRUE
  /\ UNCHANGED <<scen, out, nchunks, dState, dSize, mState, mSize, cancel, cUp, rd>> /\ UNCH_A

\* the runner could not be started (command.go runCommand: "Failed to start command runner"): the daemon itself
\* records Failed, no stdout file ever exists
P_StartFail ==
  /\ ~fileExists /\ dState = "Pending" /\ cUp /\ scen = "local"
  /\ dState' = "Failed" /\ mState' = "Failed"
  /\ UNCHANGED <<scen, out, nchunks, fileExists, dSize, mSize, cancel, cUp, rd>> /\ UNCH_A

\* the payload writes one chunk
P_Write(k) ==
  /\ Running
  /\ nchunks < (IF scen = "local" THEN MaxChunks ELSE RMaxChunks)
  /\ out' = out + k /\ nchunks' = nchunks + 1
  /\ UNCHANGED <<scen, fileExists, dState, dSize, mState, mSize, cancel, cUp, rd>> /\ UNCH_A

\* 250 ms tick of the runner: state Running and the size of the file *now*
P_Record ==
  /\ Running
  /\ <<dState, dSize>> # <<"Running", out>>
  /\ dState' = "Running" /\ dSize' = out
  /\ UNCHANGED <<scen, out, nchunks, fileExists, mState, mSize, cancel, cUp, rd>> /\ UNCH_A

\* the payload has exited: final state and final size in one record
P_Finish(st) ==
  /\ Running
  /\ dState' = st /\ dSize' = out
  /\ UNCHANGED <<scen, out, nchunks, fileExists, mState, mSize, cancel, cUp, rd>> /\ UNCH_A

\* "work cancel": the runner is interrupted, kills the payload and records Failed/"Killed" with the size ...
C_Kill ==
  /\ scen = "local" /\ Running /\ cUp
  /\ cancel' = "killed" /\ dState' = "Failed" /\ dSize' = out
  /\ UNCHANGED <<scen, out, nchunks, fileExists, mState, mSize, cUp, rd>> /\ UNCH_A

\* ... then the daemon (command.go Cancel) rewrites the record as Canceled, size unchanged (-1), memory follows
C_Mark ==
  /\ cancel = "killed"
  /\ cancel' = "marked" /\ dState' = "Canceled"
  /\ mState' = "Canceled" /\ mSize' = dSize
  /\ UNCHANGED <<scen, out, nchunks, fileExists, dSize, cUp, rd>> /\ UNCH_A

\* MonitorLocalStatus: reload the record; the loop ends once memory shows a complete state (or on cancel)
M_Load ==
  /\ cUp
  /\ ~IsComplete(mState) /\ mState # "Canceled"
  /\ <<mState, mSize>> # <<dState, dSize>>
  /\ mState' = dState /\ mSize' = dSize
  /\ UNCHANGED <<scen, out, nchunks, fileExists, dState, dSize, cancel, cUp, rd>> /\ UNCH_A

\* ---------------------------------------------------------------- GetResults
OnA(r) == r = "al"
SrcExists(r) == IF OnA(r) THEN lExists ELSE fileExists
SrcSize(r)   == IF OnA(r) THEN Len(lout) ELSE out
SrcData(r, a, b) == IF OnA(r) THEN SubSeq(lout, a + 1, b) ELSE Bytes(a, b)
SrcState(r)  == IF OnA(r) THEN aState ELSE mState
SrcStatSize(r) == IF OnA(r) THEN aSize ELSE mSize
NodeUp(r)    == IF OnA(r) THEN aUp ELSE cUp

UNCH_P == UNCHANGED <<scen, out, nchunks, fileExists, dState, dSize, mState, mSize, cancel, cUp>>

\* a client issues "work results <id> <p>" (any offset, at any moment)
R_Begin(r, p) ==
  /\ r \in {"cl", "al"}
  /\ IF r = "cl" THEN scen = "local" ELSE scen = "remote" /\ AlReader
  /\ rd[r].pc = "idle" /\ NodeUp(r)
  /\ rd' = [rd EXCEPT ![r] = [pc |-> "wait", p |-> p, pos |-> p, sent |-> <<>>]]
  /\ UNCH_P /\ UNCH_A

\* "Wait for stdout file to exist": Open; when absent and the unit is complete, finish without data
R_WaitFile(r) ==
  /\ rd[r].pc = "wait"
  /\ \/ SrcExists(r) /\ rd' = [rd EXCEPT ![r].pc = "read"]
     \/ ~SrcExists(r) /\ GRDone(SrcState(r)) /\ rd' = [rd EXCEPT ![r].pc = "closed"]
  /\ UNCH_P /\ UNCH_A

\* Seek(filePos); Read(buf): n > 0 bytes are sent on, or EOF
R_Read(r) ==
  /\ rd[r].pc = "read"
  /\ LET pos == rd[r].pos
         n   == IF SrcSize(r) > pos THEN Min2(Buf, SrcSize(r) - pos) ELSE 0 IN
     IF n > 0
     THEN /\ rd' = [rd EXCEPT ![r].pos = pos + n, ![r].sent = @ \o SrcData(r, pos, pos + n)]
          /\ wire' = IF r = "ms" THEN wire \o SrcData(r, pos, pos + n) ELSE wire
     ELSE /\ rd' = [rd EXCEPT ![r].pc = "eof"]
          /\ wire' = wire
  /\ UNCH_P /\ UNCHANGED <<lExists, lout, aState, aSize, pcS, sessS, pcO, sessO, reqFrom, linkUp, relayUp, faults, rbuf, aUp>>

\* after EOF: unit.Status(); finish iff finished(State) /\ filePos >= StdoutSize, else sleep 250 ms and read on
R_EOFCheck(r) ==
  /\ rd[r].pc = "eof"
  /\ IF GRDone(SrcState(r)) /\ rd[r].pos >= SrcStatSize(r)
     THEN rd' = [rd EXCEPT ![r].pc = "closed"]
     ELSE rd' = [rd EXCEPT ![r].pc = "read"]
  /\ UNCH_P /\ UNCH_A

\* the client goes away (ctx.Done) - only for the client readers; "ms" dies with its connection
R_Abort(r) ==
  /\ r \in {"cl", "al"} /\ rd[r].pc \in {"wait", "read", "eof"}
  /\ rd' = [rd EXCEPT ![r].pc = "dead"]
  /\ UNCH_P /\ UNCH_A

\* ---------------------------------------------------------------- submitting node: monitorRemoteStatus
UNCH_R == UNCHANGED <<scen, out, nchunks, fileExists, dState, dSize, mState, mSize, cancel, cUp>>

S_Connect ==
  /\ pcS = "connect" /\ Connected
  /\ A_CreateBeforePoll => lExists
  /\ pcS' = "poll" /\ sessS' = "open"
  /\ UNCH_R /\ UNCHANGED <<rd, lExists, lout, aState, aSize, pcO, sessO, reqFrom, wire, linkUp, relayUp, faults, rbuf, aUp>>

\* "work status": the reply (the remote daemon's in-memory record) is written into the local record
S_Poll ==
  /\ pcS = "poll"
  /\ IF sessS = "open"
     THEN /\ aState' = mState /\ aSize' = mSize
          /\ UNCHANGED <<pcS, sessS>>
     ELSE /\ pcS' = "connect" /\ sessS' = "none"
          /\ UNCHANGED <<aState, aSize>>
  /\ UNCH_R /\ UNCHANGED <<rd, lExists, lout, pcO, sessO, reqFrom, wire, linkUp, relayUp, faults, rbuf, aUp>>

\* the stdout monitor has returned and cancelled the job context
S_Stop ==
  /\ pcS \in {"connect", "poll"} /\ pcO = "done"
  /\ pcS' = "done" /\ sessS' = "none"
  /\ UNCH_R /\ UNCHANGED <<rd, lExists, lout, aState, aSize, pcO, sessO, reqFrom, wire, linkUp, relayUp, faults, rbuf, aUp>>

\* ---------------------------------------------------------------- submitting node: monitorRemoteStdout
O_Create ==
  /\ pcO = "create"
  /\ lExists' = TRUE /\ pcO' = "load"
  /\ UNCH_R /\ UNCHANGED <<rd, lout, aState, aSize, pcS, sessS, sessO, reqFrom, wire, linkUp, relayUp, faults, rbuf, aUp>>

\* Load(); diskStdoutSize := size of the local file; decide
O_Load ==
  /\ pcO = "load"
  /\ LET disk == Len(lout) IN
     IF IsComplete(aState) /\ disk >= aSize THEN pcO' = "done" /\ UNCHANGED reqFrom
     ELSE IF disk < aSize THEN pcO' = "connect" /\ reqFrom' = disk
     ELSE UNCHANGED <<pcO, reqFrom>>
  /\ UNCH_R /\ UNCHANGED <<rd, lExists, lout, aState, aSize, pcS, sessS, sessO, wire, linkUp, relayUp, faults, rbuf, aUp>>

O_Connect ==
  /\ pcO = "connect" /\ Connected
  /\ pcO' = "request" /\ sessO' = "open"
  /\ UNCH_R /\ UNCHANGED <<rd, lExists, lout, aState, aSize, pcS, sessS, reqFrom, wire, linkUp, relayUp, faults, rbuf, aUp>>

\* "work results <remote id> <reqFrom>" is written: a reader starts on the remote node (it answers with the header
\* line at once and with the first data after its first 250 ms sleep)
O_Request ==
  /\ pcO = "request"
  /\ IF sessO = "open"
     THEN /\ pcO' = "header"
          /\ rd' = [rd EXCEPT !["ms"] = [pc |-> "wait", p |-> reqFrom, pos |-> reqFrom, sent |-> <<>>]]
          /\ UNCHANGED sessO
     ELSE /\ pcO' = "load" /\ sessO' = "none" /\ UNCHANGED rd
  /\ wire' = <<>>
  /\ UNCH_R /\ UNCHANGED <<lExists, lout, aState, aSize, pcS, sessS, reqFrom, linkUp, relayUp, faults, rbuf, aUp>>

\* reader.ReadString('\n') on the bufio.Reader around the connection: the header line - and, when the link delivers in
\* a burst (the header held up, lost and retransmitted behind the data, ...), the first data in the SAME read: they stay in
\* the reader's buffer (rbuf).  The remote reader may have taken any number of steps since O_Request: that is the burst.
O_Header ==
  /\ pcO = "header"
  /\ IF sessO = "open"
     THEN /\ pcO' = "copy"
          /\ LET k == Min2(ReadAhead, Len(wire)) IN
             /\ rbuf' = SubSeq(wire, 1, k)
             /\ wire' = SubSeq(wire, k + 1, Len(wire))
          /\ UNCHANGED <<sessO, rd>>
     ELSE /\ pcO' = "load" /\ sessO' = "none" /\ wire' = <<>> /\ rbuf' = <<>>
          /\ rd' = [rd EXCEPT !["ms"] = Idle]
  /\ UNCH_R /\ UNCHANGED <<lExists, lout, aState, aSize, pcS, sessS, reqFrom, linkUp, relayUp, faults, aUp>>

\* io.Copy(local stdout opened O_APPEND, reader): first what the reader has buffered, then what arrives
O_Deliver ==
  /\ pcO = "copy" /\ (rbuf # <<>> \/ wire # <<>>)
  /\ lout' = lout \o rbuf \o wire /\ wire' = <<>> /\ rbuf' = <<>>
  /\ UNCH_R /\ UNCHANGED <<rd, lExists, aState, aSize, pcS, sessS, pcO, sessO, reqFrom, linkUp, relayUp, faults, aUp>>

\* io.Copy returns: the remote stream ended (nil) or the connection broke (error); both go round the loop.
\* What the reader had buffered has been written before either.
O_CopyEnd ==
  /\ pcO = "copy" /\ rbuf = <<>>
  /\ \/ sessO = "open" /\ rd["ms"].pc = "closed" /\ wire = <<>>
     \/ sessO = "broken"
  /\ pcO' = "load" /\ sessO' = "none" /\ wire' = <<>>
  /\ rd' = [rd EXCEPT !["ms"] = Idle]
  /\ UNCH_R /\ UNCHANGED <<lExists, lout, aState, aSize, pcS, sessS, reqFrom, linkUp, relayUp, faults, rbuf, aUp>>

\* ---------------------------------------------------------------- faults and repairs
\* every open connection between the two nodes breaks; the remote reader loses its client; of the bytes in
\* flight any prefix may still arrive
Break(w) ==
  /\ sessS' = IF sessS = "open" THEN "broken" ELSE sessS
  /\ sessO' = IF sessO = "open" THEN "broken" ELSE sessO
  /\ wire' = w


CanFault(k) == scen = "remote" /\ faults < MaxFaults /\ k \in FaultKinds /\ Connected /\ aUp

LinkCut ==
  /\ CanFault("cut")
  /\ \E w \in Prefixes(wire) : Break(w)
  /\ linkUp' = FALSE /\ faults' = faults + 1
  /\ rd' = [rd EXCEPT !["ms"] = IF @.pc \in {"wait", "read", "eof"} THEN [@ EXCEPT !.pc = "dead"] ELSE @]
  /\ UNCH_R /\ UNCHANGED <<lExists, lout, aState, aSize, pcS, pcO, reqFrom, relayUp, rbuf, aUp>>

Reconnect ==
  /\ ~linkUp /\ linkUp' = TRUE
  /\ UNCH_R /\ UNCHANGED <<rd, lExists, lout, aState, aSize, pcS, sessS, pcO, sessO, reqFrom, wire, relayUp, faults, rbuf, aUp>>

RelayRestart ==
  /\ CanFault("relay")
  /\ \E w \in Prefixes(wire) : Break(w)
  /\ relayUp' = FALSE /\ faults' = faults + 1
  /\ rd' = [rd EXCEPT !["ms"] = IF @.pc \in {"wait", "read", "eof"} THEN [@ EXCEPT !.pc = "dead"] ELSE @]
  /\ UNCH_R /\ UNCHANGED <<lExists, lout, aState, aSize, pcS, pcO, reqFrom, linkUp, rbuf, aUp>>

RelayUp ==
  /\ ~relayUp /\ relayUp' = TRUE
  /\ UNCH_R /\ UNCHANGED <<rd, lExists, lout, aState, aSize, pcS, sessS, pcO, sessO, reqFrom, wire, linkUp, faults, rbuf, aUp>>

\* the remote daemon is killed; its detached runner goes on writing output and status.
\* Assumption RestartWhilePending (C04/C13 territory, not modelled here): the daemon is not restarted while
\* the record still says Pending (command.go Restart would mark such a unit Failed "Pending at restart").
RemoteRestart ==
  /\ CanFault("remote") /\ dState # "Pending"
  /\ \E w \in Prefixes(wire) : Break(w)
  /\ cUp' = FALSE /\ faults' = faults + 1
  /\ rd' = [rd EXCEPT !["ms"] = IF @.pc \in {"wait", "read", "eof"} THEN [@ EXCEPT !.pc = "dead"] ELSE @]
  /\ UNCHANGED <<scen, out, nchunks, fileExists, dState, dSize, mState, mSize, cancel>>
  /\ UNCHANGED <<lExists, lout, aState, aSize, pcS, pcO, reqFrom, linkUp, relayUp, rbuf, aUp>>

\* restart: the unit is found on disk and its record loaded
RemoteUp ==
  /\ ~cUp /\ cUp' = TRUE
  /\ mState' = dState /\ mSize' = dSize
  /\ UNCHANGED <<scen, out, nchunks, fileExists, dState, dSize, cancel, rd>> /\ UNCH_A

\* the submitting daemon is killed: its monitors, its clients and what they held in memory are gone; the local record and
\* the local stdout file stay.  (The remote reader notices later that its client has vanished.)
SubmitterRestart ==
  /\ CanFault("submitter")
  /\ aUp' = FALSE /\ faults' = faults + 1
  /\ pcS' = "down" /\ pcO' = "down" /\ sessS' = "none" /\ sessO' = "none" /\ wire' = <<>> /\ rbuf' = <<>>
  /\ rd' = [rd EXCEPT !["ms"] = Idle,
                      !["al"] = IF @.pc \in {"wait", "read", "eof"} THEN [@ EXCEPT !.pc = "dead"] ELSE @]
  /\ UNCH_R /\ UNCHANGED <<lExists, lout, aState, aSize, reqFrom, linkUp, relayUp>>

\* restart on the same data directory: the unit is found on disk; remoteUnit.Restart (RemoteStarted) resumes
\* monitoring - both monitors start again, whatever the local record says
SubmitterUp ==
  /\ ~aUp /\ aUp' = TRUE
  /\ pcS' = "connect" /\ pcO' = "create"
  /\ UNCH_R /\ UNCHANGED <<rd, lExists, lout, aState, aSize, sessS, sessO, reqFrom, wire, linkUp, relayUp, faults, rbuf>>

\* ---------------------------------------------------------------- next-state relation
Sizes == IF scen = "local" THEN ChunkSizes ELSE RChunkSizes

Producer == P_Start \/ P_StartFail \/ P_Record \/ (\E k \in Sizes : P_Write(k)) \/ (\E st \in {"Succeeded", "Failed"} : P_Finish(st))
            \/ C_Kill \/ C_Mark \/ M_Load
ReaderStep(r) == R_WaitFile(r) \/ R_Read(r) \/ R_EOFCheck(r)
ReaderUp(r) == NodeUp(r) /\ ReaderStep(r)
Monitors == S_Connect \/ S_Poll \/ S_Stop \/ O_Create \/ O_Load \/ O_Connect \/ O_Request \/ O_Header \/ O_Deliver \/ O_CopyEnd
Faults == LinkCut \/ RelayRestart \/ RemoteRestart \/ SubmitterRestart
Repairs == Reconnect \/ RelayUp \/ RemoteUp \/ SubmitterUp

Next ==
  \/ Producer
  \/ \E r \in Readers : ReaderUp(r) \/ R_Abort(r)
  \/ \E p \in 0..MaxOut : R_Begin("cl", p)
  \/ \E p \in AlOffsets : R_Begin("al", p)
  \/ Monitors \/ Faults \/ Repairs

\* Fairness: the runner ends the unit, the daemon reloads, every started loop keeps stepping, every fault is
\* repaired.  No fairness on writes, on clients arriving or leaving, or on faults.
Fairness ==
  /\ WF_vars(P_Start) /\ WF_vars(\E st \in {"Succeeded", "Failed"} : P_Finish(st)) /\ WF_vars(C_Mark) /\ WF_vars(M_Load)
  /\ \A r \in Readers : WF_vars(ReaderUp(r))
  /\ WF_vars(S_Connect) /\ WF_vars(S_Poll) /\ WF_vars(S_Stop)
  /\ WF_vars(O_Create) /\ WF_vars(O_Load) /\ WF_vars(O_Connect) /\ WF_vars(O_Request) /\ WF_vars(O_Header) /\ WF_vars(O_Deliver) /\ WF_vars(O_CopyEnd)
  /\ WF_vars(Repairs)

Spec == Init /\ [][Next]_vars /\ Fairness

\* ---------------------------------------------------------------- properties (C05)
Active(r) == rd[r].pc \in {"wait", "read", "eof"}

TypeOK ==
  /\ out \in 0..MaxOut /\ dSize <= out /\ mSize <= dSize
  /\ \A r \in Readers : rd[r].pc \in {"idle", "wait", "read", "eof", "closed", "dead"}

\* bytes sent = SubSeq(stdout, p+1, p+|sent|), always - also for the reader of the mirrored copy
NoGapNoRepeat ==
  \A r \in Readers : rd[r].pc # "idle" =>
     /\ (rd[r].sent # <<>> => rd[r].p + Len(rd[r].sent) <= out)
     /\ rd[r].sent = SubSeq(Stdout, rd[r].p + 1, rd[r].p + Len(rd[r].sent))

\* the stream closes only if the unit is finished AND everything recorded has been sent
NoEarlyEnd ==
  \A r \in Readers : rd[r].pc = "closed" =>
     /\ Finished(dState)
     /\ rd[r].p + Len(rd[r].sent) >= out

\* at the grain of the closing step itself (the form in DESIGN.md): what the reader looked at was final
CloseOnlyWhenFinal ==
  [][\A r \in Readers : (rd[r].pc = "eof" /\ rd'[r].pc = "closed") =>
        GRDone(SrcState(r)) /\ rd[r].pos >= SrcStatSize(r) /\ rd[r].pos >= SrcSize(r)]_vars

\* every stream ends once the unit is finished (liveness).  The pinned code never ends a stream on a cancelled
\* unit (IsComplete excludes Canceled): with KF_CancelNotComplete = TRUE TLC produces exactly that counter-example.
EndsWhenDone ==
  \A r \in Readers : [](Active(r) => <>(~Active(r)))

\* the local copy is a prefix of the remote output in every state
MirrorPrefix ==
  /\ Len(lout) <= out
  /\ lout = SubSeq(Stdout, 1, Len(lout))

\* ... and becomes equal to it, with the same final record, whatever the faults
Converged == Finished(dState) /\ lout = Stdout /\ aState = dState /\ aSize = out /\ pcO = "done"
MirrorConverges == scen = "remote" => <>[]Converged

\* the monitor gives up only when everything is there
MirrorDoneIsConverged == pcO = "done" => Finished(dState) /\ lout = Stdout /\ aSize = out

\* ---------------------------------------------------------------- anti-vacuity witnesses (each must be VIOLATED)
W_NoMidOffsetStream == ~(rd["cl"].pc = "closed" /\ rd["cl"].p > 0 /\ Len(rd["cl"].sent) > 1)
W_NoEOFThenMore     == ~(rd["cl"].pc = "eof" /\ out > rd["cl"].pos)                       \* output appears after an EOF
W_NoStaleSize       == ~(rd["cl"].pc = "eof" /\ IsComplete(mState) /\ rd["cl"].pos < mSize)  \* the size test is what keeps it open
W_NoEmptyClose      == ~(rd["cl"].pc = "closed" /\ out = 0 /\ ~fileExists)
W_NoCancelHang      == ~(dState = "Canceled" /\ rd["cl"].pc = "eof" /\ rd["cl"].pos = out)
W_NoBigChunk        == ~(rd["cl"].pc = "closed" /\ nchunks = 1 /\ Len(rd["cl"].sent) > Buf)
W_NoResume          == ~(Converged /\ faults > 0 /\ reqFrom > 0)                          \* resumed from a non-zero offset after a fault
W_NoLossInFlight    == ~(sessO = "broken" /\ rd["ms"].pc = "dead" /\ Len(rd["ms"].sent) > 0 /\ Len(lout) < rd["ms"].p + Len(rd["ms"].sent))
W_NoRemoteRestart   == ~(Converged /\ faults = MaxFaults /\ cUp /\ \E r \in {"ms"} : reqFrom > 0)
W_NoStatusAheadOfOutput == ~(rd["al"].pc = "eof" /\ IsComplete(aState) /\ rd["al"].pos = Len(lout) /\ Len(lout) < aSize)
                           \* final status mirrored before the tail of the output, a client at EOF of the local copy:
                           \* only the test against the RECORDED size keeps that stream open
W_NoReadAhead       == rbuf = <<>>                                        \* header and first data in one read (burst)
W_NoReadAheadLost   == ~(rbuf # <<>> /\ sessO = "broken")                 \* ... and the connection breaks before the copy
W_NoSubmitterShort  == ~(~aUp /\ IsComplete(aState) /\ Len(lout) < aSize)  \* submitter dies: record final, copy short
W_NoAlClosed        == ~(rd["al"].pc = "closed" /\ Len(rd["al"].sent) > 0 /\ faults > 0)

\* ---------------------------------------------------------------- vectors for the harness (cmd/vres)
RECURSIVE SumSeq(_)
SumSeq(s) == IF s = <<>> THEN 0 ELSE Head(s) + SumSeq(Tail(s))

Chunkings(n, S) == UNION { [1..k -> S] : k \in 0..n }

\* one vector = one "work results" session: producer chunking and outcome, start offset, moment of asking
\* (0 before the unit is started, k once chunk k is on disk, n+1 after the unit has finished);
\* expect = number of bytes the stream has to deliver before it ends
LocalVectors ==
  { [chunks |-> c, final |-> f, p |-> p, moment |-> m, expect |-> SumSeq(c) - p] :
      c \in Chunkings(MaxChunks, ChunkSizes), f \in {"ok", "fail", "cancel"},
      p \in 0..(MaxOf(ChunkSizes) * MaxChunks), m \in 0..(MaxChunks + 1) }

LocalVectorsOK == { v \in LocalVectors : v.p <= SumSeq(v.chunks) /\ v.moment <= Len(v.chunks) + 1 }

\* fault schedules for the remote scenario: kind and the number of remote chunks on disk when it strikes
FaultSteps == [kind : FaultKinds, when : 0..RMaxChunks]
FaultSchedules ==
  { s \in UNION { [1..k -> FaultSteps] : k \in 0..MaxFaults } :
      \A i \in 1..(Len(s) - 1) : s[i].when <= s[i + 1].when }

ASSUME DumpLocal = "" \/ ndJsonSerialize(DumpLocal, SetToSeq(LocalVectorsOK))
\* link: how the relay in front of the submitting node delivers - as it comes, or in bursts (a reply line and the data
\* written after it become readable in the same instant: the O_Header step with wire # <<>>)
ASSUME DumpRemote = "" \/ ndJsonSerialize(DumpRemote, SetToSeq({ [faults |-> s, link |-> l] : s \in FaultSchedules, l \in {"plain", "bursty"} }))
=============================================================================
