SPECIFICATION Spec
CONSTANTS
  MaxBytes = 3
  Cuts = {"origin", "transit"}
  OriginErrorFatal = TRUE
INVARIANTS
  Prefix
  EOFOnlyAfterAll
  NoAbort
PROPERTIES
  Complete
  AllDelivered
