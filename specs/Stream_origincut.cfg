SPECIFICATION Spec
CONSTANTS
  MaxBytes = 3
  Cuts = {"origin", "transit"}
  AcceptLeavesDeadline = FALSE
  MaxNotices = 1
  NoticeEndsStream = FALSE
  OriginErrorFatal = TRUE
INVARIANTS
  Prefix
  EOFOnlyAfterAll
  NoSpontaneousClose
  NoReadErrorWhileUp
  NoAbort
PROPERTIES
  Complete
  AllDelivered
