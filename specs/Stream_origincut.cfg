SPECIFICATION Spec
CONSTANTS
  MaxBytes = 3
  Cuts = {"origin", "transit"}
  MaxNotices = 1
  NoticeEndsStream = FALSE
  OriginErrorFatal = TRUE
INVARIANTS
  Prefix
  EOFOnlyAfterAll
  NoSpontaneousClose
  NoAbort
PROPERTIES
  Complete
  AllDelivered
