SPECIFICATION Spec
CONSTANTS
  MaxBytes = 2
  Cuts = {"origin", "transit", "stall"}
  AcceptorCloseKillsSocket = FALSE
  ForwarderWaitsOnNode = FALSE
  AcceptLeavesDeadline = FALSE
  MaxNotices = 1
  NoticeEndsStream = FALSE
  OriginErrorFatal = TRUE
INVARIANTS
  Prefix
  EOFOnlyAfterAll
  NoSpontaneousClose
  NoReadErrorWhileUp
  NoAbort
PROPERTIES
  Complete
  AllDelivered
