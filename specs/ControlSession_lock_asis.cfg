SPECIFICATION Spec
CONSTANTS
  Part = "sessions"
  MaxLinesA = 1
  MaxLinesB = 1
  KF_ScanRecheckLeak = FALSE
  KF_FindUnitRelock = TRUE
  MaxOps = 0
  ExportOps = 0
  RequestStateKeptAcrossLines = FALSE
  ConnectionRemembersToken = FALSE
  VerifierRemembersTokens = FALSE
  RedactNeedsTLSRecord = FALSE
  KeyFamily = "cover"
  DumpFile = ""
INVARIANTS
  NoDeadlock
