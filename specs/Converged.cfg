SPECIFICATION Spec
INVARIANT Done
