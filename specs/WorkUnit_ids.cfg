SPECIFICATION Spec
CONSTANTS
  Ids = {"u1", "u2"}
  Sess = {"c1", "c2"}
  MaxOut = 1
  MaxTicks = 1
  MaxCrashes = 0
  MaxOps = 3
  MaxOps2 = 3
  FirstSess = "c1"
  RunEnabled = FALSE
  Ops = {"submit", "release", "status"}
  FindUnitHoldsRLock = FALSE
  TruncFirst = FALSE
  UnregFirst = FALSE
  ScanRegistersAlias = FALSE
  KF_EmptyStatus = FALSE
  KF_CancelOverS = FALSE
  CancelKeepsSucceeded = TRUE
  KF_LiveRunnerFailed = TRUE
INVARIANTS
  TypeOK
  UniqueIDs
  ReleaseRemoves
  NoStatusBlocks
