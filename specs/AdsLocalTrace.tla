---------------------------- MODULE AdsLocalTrace ----------------------------
(***************************************************************************)
(* Trace validation for C18 at one real node: cmd/vh adslocal delivers      *)
(* advertisements / withdrawals from scripted neighbours (any order, old    *)
(* and new times, duplicates, for remote owners and for the node itself)    *)
(* and opens / closes advertised listeners on the node; after every step it *)
(* records which neighbours received a relay and the node's advertisement   *)
(* table.  Times are microseconds since the start of the segment.           *)
(***************************************************************************)
EXTENDS AdsLocal

Trace == ndJsonDeserialize("trace.ndjson")
CONSTANTS Self, Peers

VARIABLES l, skip
tvars == <<st, last, wseen, n, l, skip>>

SeqSet(s) == {s[i] : i \in 1..Len(s)}

AdsAsSet(a) == { [owner |-> k[1], svc |-> k[2], time |-> a[k].time, ctype |-> a[k].ctype, tag |-> a[k].tag] : k \in DOMAIN a }

TInit == st = NewAds /\ last = NoMsg /\ wseen = EmptyMap /\ n = 0 /\ l = 1 /\ skip = FALSE

TReset == /\ l <= Len(Trace) /\ Trace[l].ev = "reset"
          /\ st' = NewAds /\ last' = NoMsg /\ wseen' = EmptyMap /\ n' = 0 /\ l' = l + 1 /\ skip' = FALSE

\* a message from a neighbour
TRecv ==
  /\ l <= Len(Trace) /\ Trace[l].ev = "recv"
  /\ l' = l + 1 /\ n' = n
  /\ IF skip THEN UNCHANGED <<st, last, wseen, skip>>
     ELSE LET m == Trace[l].m
              r == RecvAd(st, m)
              k == <<m.owner, m.svc>>
              expRelay == IF r.relay THEN Peers \ {Trace[l].via} ELSE {}
              d == (IF SeqSet(Trace[l].obs.relayTo) # expRelay THEN {"relayTo"} ELSE {})
                   \cup (IF SeqSet(Trace[l].obs.ads) # AdsAsSet(r.st.ads) THEN {"ads"} ELSE {})
          IN /\ st' = r.st
             /\ last' = [m |-> m, relay |-> r.relay, class |-> r.class, ads |-> r.st.ads]
             /\ wseen' = IF m.cancel /\ r.class \in {"deleted", "cancel_unknown"} THEN MPut(wseen, k, m.time) ELSE wseen
             /\ skip' = (d # {})
             /\ PrintT(<<"CLASS", r.class>>)
             /\ (d = {} \/ PrintT(<<"DIFF", l, r.class, d>>))

\* the node opens an advertised listener (AddLocalServiceAdvertisement; nothing is flooded at once)
TOpen ==
  /\ l <= Len(Trace) /\ Trace[l].ev = "open"
  /\ l' = l + 1 /\ n' = n
  /\ wseen' = IF skip THEN wseen ELSE MDel(wseen, <<Self, Trace[l].svc>>)   \* the owner advertises it anew
  /\ IF skip THEN UNCHANGED <<st, last, skip>>
     ELSE LET k == <<Self, Trace[l].svc>>
              s2 == LocalOpen(st, Self, Trace[l].svc, Trace[l].time, Trace[l].ctype, Trace[l].tag)
              d == IF SeqSet(Trace[l].obs.ads) # AdsAsSet(s2.ads) THEN {"ads"} ELSE {}
          IN /\ st' = s2
             /\ last' = [m |-> Msg(Self, Trace[l].svc, Trace[l].time, FALSE, Trace[l].ctype, Trace[l].tag), relay |-> FALSE, class |-> "init", ads |-> s2.ads]
             /\ skip' = (d # {})
             /\ PrintT(<<"CLASS", "local_open">>)
             /\ (d = {} \/ PrintT(<<"DIFF", l, "local_open", d>>))

\* the node closes it (RemoveLocalServiceAdvertisement: delete, remember the withdrawal, flood the cancel to everybody)
TClose ==
  /\ l <= Len(Trace) /\ Trace[l].ev = "close"
  /\ l' = l + 1 /\ n' = n
  /\ IF skip THEN UNCHANGED <<st, last, wseen, skip>>
     ELSE LET k == <<Self, Trace[l].svc>>
              s2 == LocalClose(st, Self, Trace[l].svc, Trace[l].time)
              d == (IF SeqSet(Trace[l].obs.ads) # AdsAsSet(s2.ads) THEN {"ads"} ELSE {})
                   \cup (IF SeqSet(Trace[l].obs.relayTo) # Peers THEN {"relayTo"} ELSE {})
          IN /\ st' = s2
             /\ wseen' = IF k \in DOMAIN wseen /\ wseen[k] >= Trace[l].time THEN wseen ELSE MPut(wseen, k, Trace[l].time)
             /\ last' = [m |-> Msg(Self, Trace[l].svc, Trace[l].time, TRUE, 0, ""), relay |-> TRUE, class |-> "init", ads |-> s2.ads]
             /\ skip' = (d # {})
             /\ PrintT(<<"CLASS", "local_close">>)
             /\ (d = {} \/ PrintT(<<"DIFF", l, "local_close", d>>))

TNext == TReset \/ TRecv \/ TOpen \/ TClose
TSpec == TInit /\ [][TNext]_tvars

Done == l = Len(Trace) + 1 => PrintT(<<"DONE", l - 1>>)
=============================================================================
