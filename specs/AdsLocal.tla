------------------------------ MODULE AdsLocal ------------------------------
(***************************************************************************)
(* C18 at one node: advertisements and withdrawals of remote services are  *)
(* delivered by scripted neighbours in every order, duplicated, on either  *)
(* link.  Properties: an older advertisement never replaces a newer one;   *)
(* a service whose withdrawal has been processed is not listed again       *)
(* unless a newer advertisement arrives; a message that changes nothing is *)
(* not relayed (so flooding terminates).                                   *)
(***************************************************************************)
EXTENDS AdsCore, Json

CONSTANTS Owners, Svcs, Times, MaxSteps

VARIABLES st, last, wseen, n
\* wseen: history - greatest cancel time processed per <<owner, svc>> (independent of the tomb variable)
vars == <<st, last, wseen, n>>
vw == <<st, wseen>>

NoMsg == [m |-> Msg("", "", 0, FALSE, 0, ""), relay |-> FALSE, class |-> "init", ads |-> EmptyMap]

Init == st = NewAds /\ last = NoMsg /\ wseen = EmptyMap /\ n = 0

Step(m) ==
  LET r == RecvAd(st, m)
      k == <<m.owner, m.svc>> IN
  /\ n < MaxSteps
  /\ n' = n + 1
  /\ st' = r.st
  /\ last' = [m |-> m, relay |-> r.relay, class |-> r.class, ads |-> r.st.ads]
  /\ wseen' = IF m.cancel /\ r.class \in {"deleted", "cancel_unknown"}
              THEN MPut(wseen, k, m.time) ELSE wseen

Next == \E o \in Owners, s \in Svcs, t \in Times, c \in BOOLEAN : Step(Msg(o, s, t, c, 1, "t"))
Spec == Init /\ [][Next]_vars

\* ---------------------------------------------------------------- properties
NoOlderReplaces ==
  [][ last'.class = "init" \/ (\A k \in DOMAIN st.ads : k \in DOMAIN st'.ads => st'.ads[k].time >= st.ads[k].time) ]_vars

NoResurrection == \A k \in DOMAIN st.ads : k \in DOMAIN wseen => st.ads[k].time > wseen[k]

NoChangeNoRelay == [][ (st' = st) => ~last'.relay ]_vars

\* a newer advertisement after a withdrawal IS accepted (the owner advertises it anew)
NewerAccepted ==
  [][ (~last'.m.cancel /\ last'.class # "init"
        /\ (<<last'.m.owner, last'.m.svc>> \in DOMAIN st.ads => last'.m.time > st.ads[<<last'.m.owner, last'.m.svc>>].time)
        /\ (<<last'.m.owner, last'.m.svc>> \in DOMAIN wseen => last'.m.time > wseen[<<last'.m.owner, last'.m.svc>>]))
      => (<<last'.m.owner, last'.m.svc>> \in DOMAIN st'.ads /\ last'.relay) ]_vars

W_NoWithdrawnNewer == last.class # "withdrawn_newer"
W_NoCancelUnknown  == last.class # "cancel_unknown"
W_NoReadvertise    == ~(last.class = "stored" /\ <<last.m.owner, last.m.svc>> \in DOMAIN wseen)
=============================================================================
