\* full, safety: dialer node, adversary with 2 moves, the link may go silent and heal
SPECIFICATION Spec
CONSTANTS
  Links = {1}
  MaxIdle = 2
  Poll = 1
  KA = 1
  MaxInit = 2
  MaxLev = 1
  QLen = 1
  Sync = FALSE
  Coarse = FALSE
  RealNodes = {"a"}
  CancelOnReturn = TRUE
  SkipOnBackendCancel = FALSE
  EdgeGuard = TRUE
  BSilence = 1
  BCut = 0
  ShutNodes = {}
  CancelNodes = {}
  BReborn = 0
  BAdv = 2
  BIdle = 1
  BDial = 2
  Wit = FALSE
INVARIANTS
  TypeOK
  OnePerPeer
  ListedIffOpen
  EdgeOnlyWhileHeld
  EstHasEdge
  RebuildComing
  NoOrphan
  NoInitAfterDone
  AgeBound
  OneDialSession
  DialerWaits
  DownStaysQuiet
