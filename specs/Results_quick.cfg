SPECIFICATION Spec
CONSTANTS
  ChunkSizes = {1, 2, 3}
  MaxChunks = 3
  RChunkSizes = {1, 3}
  RMaxChunks = 2
  Buf = 2
  MaxFaults = 1
  FaultKinds = {"cut", "relay", "remote", "submitter"}
  Scenarios = {"local", "remote"}
  AlReader = FALSE
  AlOffsets = {0}
  ReadAhead = 2
  A_CreateBeforePoll = TRUE
  KF_CancelNotComplete = FALSE
  DumpLocal = "local_vectors.ndjson"
  DumpRemote = "fault_schedules.ndjson"
INVARIANTS
  TypeOK
  NoGapNoRepeat
  NoEarlyEnd
  MirrorPrefix
  MirrorDoneIsConverged
PROPERTIES
  CloseOnlyWhenFinal
  EndsWhenDone
  MirrorConverges
