SPECIFICATION Spec
CONSTANTS
  Node = {"n1", "n2", "n3"}
  Ghost = {}
  Nbr <- Tri_Nbr
  Bound <- Bound_ab
  VarCols = {"n1", "n2", "n3"}
  SrcSet = {"n1"}
  SrcSvcs = {"a"}
  DstSet = {"n1", "n3"}
  DstSvcs = {"a", "ping"}
  TTLs = {0, 1, 2, 3}
  MaxSends = 1
  DefTTL = 3
INVARIANTS
  TypeOK
  FwdBound
  ReachIff
  ReachIffDist
  NoNoticeAboutNotice
  AtMostOneNotice
  PingConsistent
  TracerouteOK
  NoticeToSenderOnly
  AtMostOnce
PROPERTIES
  Decreases
