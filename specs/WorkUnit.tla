------------------------------ MODULE WorkUnit ------------------------------
(***************************************************************************)
(* C04 / C13 - life cycle of local command work units of one receptor node *)
(* as the code does it, step by step at the grain of its file-system       *)
(* operations:                                                             *)
(*   pkg/workceptor/workceptor.go   AllocateUnit, generateUnitID,          *)
(*                                  scanForUnit(s), findUnit               *)
(*   pkg/workceptor/controlsvc.go   "work submit|status|cancel|release"    *)
(*   pkg/workceptor/command.go      Start/runCommand, commandRunner (the   *)
(*                                  detached supervisor process), Restart, *)
(*                                  Cancel, Release                        *)
(*   pkg/workceptor/workunitbase.go Save, Load, UpdateFullStatus           *)
(*                                  (lock, read, apply, TRUNCATE, write,   *)
(*                                  unlock), BaseWorkUnit.Release          *)
(*                                                                         *)
(* Actors: client sessions served by daemon goroutines (Sess), the start-up*)
(* scan ("boot"), per unit the goroutine that waits for the runner process *)
(* ("x_"i), per unit the runner process ("r_"i) and its child (the *)
(* payload).  CrashDaemon and CrashRunner are enabled in EVERY state.      *)
(*                                                                         *)
(* Deliberate abstractions (named):                                        *)
(*  - the in-process statusLock is not modelled (StatusFile.tla does); a   *)
(*    status query is answered only while no daemon goroutine is inside an *)
(*    update of that unit, which is what that lock guarantees;             *)
(*  - a client operation on a unit starts only when no other session is in *)
(*    the middle of an operation on the same unit, except status queries;  *)
(*  - stdin copy is one step; output sizes are counted in chunks;          *)
(*  - activeUnitsLock is modelled only where it matters: allocation holds  *)
(*    it exclusively from the id choice to the registration, and findUnit  *)
(*    (constant FindUnitHoldsRLock) may hold it shared across a rescan.    *)
(***************************************************************************)
EXTENDS Naturals, FiniteSets, Sequences, TLC

CONSTANTS Ids,                 \* possible unit ids (the id generator may pick any: collisions are forced)
          Sess,                \* client sessions
          MaxOut,              \* chunks of output a payload may write
          MaxTicks,            \* status ticks of the runner
          MaxCrashes,          \* daemon crashes + runner crashes
          MaxOps,              \* client operations of the session FirstSess
          MaxOps2,             \* client operations of every other session
          FirstSess,
          RunEnabled,          \* FALSE: units are never started (id-uniqueness configuration)
          Ops,                 \* subset of {"submit","cancel","release","status"} the clients use
          FindUnitHoldsRLock,  \* TRUE: findUnit keeps the read lock while rescanning (the code before the fix)
          ScanRegistersAlias,  \* TRUE: the on-demand rescan registers a unit under the spelling it was asked for (seeded defect
                               \* c13-scan-registers-alias-of-unit); FALSE: under the directory's own name (the code)
          UnregFirst,          \* TRUE: Release drops the unit from activeUnits BEFORE it removes the directory (seeded defect
                               \* c13-release-delete-before-rm); FALSE: RemoveAll first, delete last (the code)
          TruncFirst,          \* TRUE: UpdateFullStatus truncates before it writes (the code before its repair)
          KF_EmptyStatus,      \* TRUE: Durable is checked modulo the known finding "empty status after crash"
          KF_LiveRunnerFailed, \* TRUE: Durable is checked modulo the finding "unit with a live runner marked Failed at restart"
          KF_CancelOverS,      \* TRUE: SucceededIsFinal is checked modulo the finding "Cancel overwrites Succeeded"
          CancelKeepsSucceeded \* TRUE: UpdateBasicStatus(Canceled) leaves a Succeeded record alone (the code since its repair)

None == "none"
Absent == [k |-> "absent"]
Empty  == [k |-> "empty"]
Rec(st, sz, ty, pid) == [k |-> "rec", st |-> st, sz |-> sz, ty |-> ty, pid |-> pid]
IsRec(x) == x.k = "rec"
NoMem == [k |-> "nomem"]
NoTold == [st |-> "none", sz |-> 0]

Final == {"S", "F", "C"}
Stage(s) == CASE s = "P" -> 0 [] s = "R" -> 1 [] OTHER -> 2
Complete(s) == s \in {"S", "F"}          \* IsComplete() excludes Canceled

XT(i) == "x_" \o i
RT(i) == "r_" \o i
Boot == "boot"
DaemonActors == Sess \cup {Boot} \cup {XT(i) : i \in Ids}
Actors == DaemonActors \cup {RT(i) : i \in Ids}

VARIABLES
  \* ---- disk (survives everything)
  dir,      \* [Ids -> BOOLEAN]         unit directory exists
  sfile,    \* [Ids -> Absent|Empty|rec] content of "status"
  stdin,    \* [Ids -> "absent"|"created"|"complete"]
  stdout,   \* [Ids -> 0..MaxOut]       bytes (chunks) in "stdout"
  \* ---- kernel
  flock,    \* [Ids -> None | actor]    holder of flock(status.lock); dies with its process
  \* ---- daemon process
  up,       \* BOOLEAN
  active,   \* SUBSET Ids               activeUnits
  mem,      \* [Ids -> rec | NoMem]     in-memory status of an active unit
  mon,      \* [Ids -> BOOLEAN]         MonitorLocalStatus goroutine running
  alock,    \* None | actor             activeUnitsLock held exclusively (allocation) or by a wedged findUnit
  todo,     \* SUBSET Ids               directories the boot scan still has to visit
  \* ---- actors
  loc,      \* [Actors -> location]
  uid,      \* [Actors -> Ids | None]   unit the actor works on
  ufs,      \* [Actors -> "none","locked","read","applied","truncd"|"wrote","written"]
  rl,       \* [Ids -> rec]             the runner's private status object
  \* ---- runner / payload processes
  ours,     \* [Ids -> BOOLEAN]         the runner is a child of the CURRENT daemon process (can be waited for)
  rsig,     \* [Ids -> BOOLEAN]         SIGINT delivered to the runner, not yet handled
  child,    \* [Ids -> "none","alive","ok","fail","killed"]
  ticks,    \* [Ids -> Nat]
  \* ---- clients / bookkeeping
  opsLeft,  \* [Sess -> Nat]
  acked,    \* [Ids -> BOOLEAN]         the id was written to a submitter
  told,     \* [Ids -> NoTold | [st, sz]] last status reported to any client
  pre,      \* [Ids -> NoTold | [st, sz]] what clients had been told when the daemon last died
  relreq,   \* [Ids -> BOOLEAN]         a client asked for release
  cnreq,    \* [Ids -> BOOLEAN]         a client asked for cancel or release
  released, \* [Ids -> BOOLEAN]         a release was answered "released"
  gen,      \* [Ids -> Nat]             allocations of this id that are currently valid (UniqueIDs)
  emptyRec, \* [Ids -> BOOLEAN]         recovery found an empty status file (known finding)
  liveFail, \* [Ids -> BOOLEAN]         Restart marked the unit Failed ("Pending at restart") while its runner was alive
  crashes,  \* Nat
  alias,    \* SUBSET Ids: directories that are registered a second time under a non-canonical spelling of their id
  bad       \* set of strings: violated step properties (C13), filled at the steps themselves

vars == <<dir, sfile, stdin, stdout, flock, up, active, mem, mon, alock, todo, loc, uid, ufs, rl, ours, rsig, child, ticks,
          opsLeft, acked, told, pre, relreq, cnreq, released, gen, emptyRec, liveFail, crashes, alias, bad>>

disk == <<dir, sfile, stdin, stdout>>
book == <<opsLeft, acked, told, pre, relreq, cnreq, released, gen, emptyRec, liveFail, crashes, alias>>

Fresh(ty) == Rec("P", 0, ty, FALSE)

Init ==
  /\ dir = [i \in Ids |-> FALSE] /\ sfile = [i \in Ids |-> Absent]
  /\ stdin = [i \in Ids |-> "absent"] /\ stdout = [i \in Ids |-> 0]
  /\ flock = [i \in Ids |-> None]
  /\ up = TRUE /\ active = {} /\ mem = [i \in Ids |-> NoMem] /\ mon = [i \in Ids |-> FALSE]
  /\ alock = None /\ todo = {}
  /\ loc = [a \in Actors |-> "idle"] /\ uid = [a \in Actors |-> None] /\ ufs = [a \in Actors |-> "none"]
  /\ rl = [i \in Ids |-> Fresh("")]
  /\ ours = [i \in Ids |-> FALSE] /\ rsig = [i \in Ids |-> FALSE]
  /\ child = [i \in Ids |-> "none"] /\ ticks = [i \in Ids |-> 0]
  /\ opsLeft = [c \in Sess |-> IF c = FirstSess THEN MaxOps ELSE MaxOps2]
  /\ acked = [i \in Ids |-> FALSE] /\ told = [i \in Ids |-> NoTold] /\ pre = [i \in Ids |-> NoTold]
  /\ relreq = [i \in Ids |-> FALSE] /\ released = [i \in Ids |-> FALSE] /\ cnreq = [i \in Ids |-> FALSE]
  /\ gen = [i \in Ids |-> 0] /\ emptyRec = [i \in Ids |-> FALSE] /\ liveFail = [i \in Ids |-> FALSE]
  /\ crashes = 0 /\ bad = {} /\ alias = {}

\* ---------------------------------------------------------------- helpers
RunnerAlive(i) == loc[RT(i)] \notin {"idle", "zombie", "dead"}
RunnerGone(i)  == loc[RT(i)] \in {"idle", "dead"}             \* no such process
IsDaemon(a) == a \in DaemonActors
Lcl(a)  == IF IsDaemon(a) THEN mem[uid[a]] ELSE rl[uid[a]]
SetLcl(a, v) == IF IsDaemon(a) THEN mem' = [mem EXCEPT ![uid[a]] = v] /\ UNCHANGED rl
                               ELSE rl' = [rl EXCEPT ![uid[a]] = v] /\ UNCHANGED mem
Goto(a, l) == loc' = [loc EXCEPT ![a] = l]
DaemonBusyOn(i) == \E a \in DaemonActors : uid[a] = i /\ ufs[a] # "none"
SessBusyOn(i) == \E c \in Sess : uid[c] = i /\ loc[c] # "idle"

\* ---------------------------------------------------------------- UpdateFullStatus as a sub-procedure
\* location -> [st, sz, pid] ("keep" = unchanged, "cur" = stdoutSize(unitdir)) and the location that follows
UfsLocs == {"sb_u_wait", "sb_u_starting", "sb_u_launch", "sb_u_pid", "x_u_clear", "cn_u_cancel", "rl_u_cancel",
            "sc_u_failload", "sc_u_pendfail", "r_u_pend", "r_u_tick", "r_u_final", "r_u_killed", "r_u_err"}

U(st, ksz, sz, kpid, pid) == [st |-> st, ksz |-> ksz, sz |-> sz, kpid |-> kpid, pid |-> pid]

\* the update made at location l when the stdout file has so bytes and the payload ended as ch
UpdAt(l, so, ch) ==
  CASE l \in {"sb_u_wait", "sb_u_starting", "sb_u_launch", "r_u_pend"} -> U("P", FALSE, 0, TRUE, FALSE)
    [] l = "sb_u_pid"      -> U("keep", TRUE, 0, FALSE, TRUE)
    [] l = "x_u_clear"     -> U("keep", TRUE, 0, FALSE, FALSE)
    [] l \in {"cn_u_cancel", "rl_u_cancel"} -> U("C", TRUE, 0, TRUE, FALSE)
    [] l \in {"sc_u_failload", "sc_u_pendfail", "r_u_killed", "r_u_err"} -> U("F", FALSE, so, TRUE, FALSE)
    [] l = "r_u_tick"      -> U("R", FALSE, so, TRUE, FALSE)
    [] l = "r_u_final"     -> U(IF ch = "ok" THEN "S" ELSE "F", FALSE, so, TRUE, FALSE)

Upd(a) == UpdAt(loc[a], stdout[uid[a]], child[uid[a]])

After(a) ==
  LET l == loc[a] IN
  CASE l = "sb_u_wait" -> "sb_ack"          [] l = "sb_u_starting" -> "sb_u_launch"
    [] l = "sb_u_launch" -> "sb_spawn"      [] l = "sb_u_pid" -> "done"
    [] l = "x_u_clear" -> "done"            [] l = "cn_u_cancel" -> "done"
    [] l = "rl_u_cancel" -> "rl_rm"         [] l = "sc_u_failload" -> "sc_restart"
    [] l = "sc_u_pendfail" -> "sc_reg"      [] l = "r_u_pend" -> "r_open"
    [] l = "r_u_tick" -> "r_loop"           [] l \in {"r_u_final", "r_u_killed", "r_u_err"} -> "r_exit"

ApplyUpd(m, u) ==
  IF CancelKeepsSucceeded /\ u.st = "C" /\ m.st = "S" THEN m
  ELSE Rec(IF u.st = "keep" THEN m.st ELSE u.st, IF u.ksz THEN m.sz ELSE u.sz, m.ty, IF u.kpid THEN m.pid ELSE u.pid)

\* C13 step properties, evaluated where the sf_apply hook sits: old = the record just read under the lock
ApplyBad(old, new) ==
  (IF Stage(new.st) < Stage(old.st) THEN {"StageMonotone"} ELSE {})
  \cup (IF old.st = "S" /\ (new.st # "S" \/ new.sz # old.sz) THEN {"SucceededIsFinal"} ELSE {})
  \cup (IF new.sz < old.sz THEN {"SizeMonotone"} ELSE {})

Alive(a) == IF IsDaemon(a) THEN up ELSE RunnerAlive(CHOOSE i \in Ids : RT(i) = a)

\* lockStatusFile: fails when the unit directory is gone (released): the update is skipped
UFS_Lock(a) ==
  /\ Alive(a) /\ loc[a] \in UfsLocs /\ ufs[a] = "none"
  /\ LET i == uid[a] IN
     IF ~dir[i]
       THEN /\ Goto(a, After(a)) /\ UNCHANGED <<flock, ufs>>
       ELSE /\ flock[i] = None
            /\ flock' = [flock EXCEPT ![i] = a] /\ ufs' = [ufs EXCEPT ![a] = "locked"] /\ UNCHANGED loc
  /\ UNCHANGED <<disk, up, active, mem, mon, alock, todo, uid, rl, ours, rsig, child, ticks, book, bad>>

UFS_Read(a) ==
  /\ Alive(a) /\ ufs[a] = "locked"
  /\ LET i == uid[a] IN IF IsRec(sfile[i]) THEN SetLcl(a, sfile[i]) ELSE UNCHANGED <<mem, rl>>
  /\ ufs' = [ufs EXCEPT ![a] = "read"]
  \* an update that finds the file empty (a writer died between truncate and write) rebuilds the record from
  \* whatever its own object holds: for the runner and for the recovery scan that is a record WITHOUT work type
  /\ emptyRec' = [emptyRec EXCEPT ![uid[a]] = @ \/ sfile[uid[a]] = Empty]
  /\ UNCHANGED <<disk, flock, up, active, mon, alock, todo, loc, uid, ours, rsig, child, ticks,
                 opsLeft, acked, told, pre, relreq, cnreq, released, gen, liveFail, crashes, alias, bad>>

UFS_Apply(a) ==
  /\ Alive(a) /\ ufs[a] = "read"
  /\ LET old == Lcl(a)  new == ApplyUpd(Lcl(a), Upd(a)) IN
       /\ SetLcl(a, new)
       /\ bad' = IF ~IsRec(sfile[uid[a]]) THEN bad
                 ELSE IF KF_CancelOverS /\ loc[a] \in {"cn_u_cancel", "rl_u_cancel"} /\ old.st = "S"
                        THEN bad \cup {"KF_CancelOverS"} \cup (ApplyBad(old, new) \ {"SucceededIsFinal"})
                        ELSE bad \cup ApplyBad(old, new)
  /\ ufs' = [ufs EXCEPT ![a] = "applied"]
  /\ UNCHANGED <<disk, flock, up, active, mon, alock, todo, loc, uid, ours, rsig, child, ticks, book>>

\* before the repair: Truncate(0) then write (the file is empty in between); since: write in place, then
\* Truncate(new length), which only cuts a stale tail no reader can see
UFS_Trunc(a) ==
  /\ Alive(a) /\ ufs[a] = (IF TruncFirst THEN "applied" ELSE "wrote")
  /\ sfile' = [sfile EXCEPT ![uid[a]] = IF TruncFirst /\ dir[uid[a]] THEN Empty ELSE @]
  /\ ufs' = [ufs EXCEPT ![a] = IF TruncFirst THEN "truncd" ELSE "written"]
  /\ UNCHANGED <<dir, stdin, stdout, flock, up, active, mem, mon, alock, todo, loc, uid, rl, ours, rsig, child, ticks, book, bad>>

UFS_Write(a) ==
  /\ Alive(a) /\ ufs[a] = (IF TruncFirst THEN "truncd" ELSE "applied")
  /\ sfile' = [sfile EXCEPT ![uid[a]] = IF dir[uid[a]] THEN Lcl(a) ELSE @]
  /\ ufs' = [ufs EXCEPT ![a] = IF TruncFirst THEN "written" ELSE "wrote"]
  /\ UNCHANGED <<dir, stdin, stdout, flock, up, active, mem, mon, alock, todo, loc, uid, rl, ours, rsig, child, ticks, book, bad>>

UFS_Unlock(a) ==
  /\ Alive(a) /\ ufs[a] = "written"
  /\ flock' = [flock EXCEPT ![uid[a]] = None]
  /\ ufs' = [ufs EXCEPT ![a] = "none"]
  /\ Goto(a, After(a))
  /\ UNCHANGED <<disk, up, active, mem, mon, alock, todo, uid, rl, ours, rsig, child, ticks, book, bad>>

\* an actor that reached "done" is idle again
Finish(a) ==
  /\ loc[a] = "done" /\ Alive(a)
  /\ loc' = [loc EXCEPT ![a] = "idle"] /\ uid' = [uid EXCEPT ![a] = None]
  /\ UNCHANGED <<disk, flock, up, active, mem, mon, alock, todo, ufs, rl, ours, rsig, child, ticks, book, bad>>

\* ---------------------------------------------------------------- submit path (controlsvc.go "submit", AllocateUnit)
\* generateUnitID under activeUnitsLock.Lock(): any id that is neither active nor an existing directory; MkdirAll
AllocMkdir(c, i) ==
  /\ up /\ loc[c] = "idle" /\ opsLeft[c] > 0 /\ "submit" \in Ops /\ alock = None
  /\ i \notin active /\ ~dir[i]
  /\ alock' = c
  /\ dir' = [dir EXCEPT ![i] = TRUE]
  /\ gen' = [gen EXCEPT ![i] = @ + 1]
  /\ uid' = [uid EXCEPT ![c] = i] /\ Goto(c, "sb_save_t")
  /\ opsLeft' = [opsLeft EXCEPT ![c] = @ - 1]
  /\ mem' = [mem EXCEPT ![i] = Fresh("cmd")]        \* the new worker object (not yet in activeUnits)
  /\ acked' = [acked EXCEPT ![i] = FALSE] /\ told' = [told EXCEPT ![i] = NoTold] /\ pre' = [pre EXCEPT ![i] = NoTold]
  /\ relreq' = [relreq EXCEPT ![i] = FALSE] /\ released' = [released EXCEPT ![i] = FALSE]
  /\ cnreq' = [cnreq EXCEPT ![i] = FALSE]
  /\ emptyRec' = [emptyRec EXCEPT ![i] = FALSE] /\ liveFail' = [liveFail EXCEPT ![i] = FALSE]
  /\ UNCHANGED <<sfile, stdin, stdout, flock, up, active, mon, todo, ufs, rl, ours, rsig, child, ticks, crashes, alias, bad>>

\* Save: lock + os.OpenFile(O_CREATE|O_TRUNC)
SaveCreateTrunc(c) ==
  /\ up /\ loc[c] = "sb_save_t" /\ flock[uid[c]] = None
  /\ flock' = [flock EXCEPT ![uid[c]] = c]
  /\ sfile' = [sfile EXCEPT ![uid[c]] = Empty]
  /\ Goto(c, "sb_save_w")
  /\ UNCHANGED <<dir, stdin, stdout, up, active, mem, mon, alock, todo, uid, ufs, rl, ours, rsig, child, ticks, book, bad>>

SaveWrite(c) ==
  /\ up /\ loc[c] = "sb_save_w"
  /\ sfile' = [sfile EXCEPT ![uid[c]] = mem[uid[c]]]
  /\ Goto(c, "sb_reg")
  /\ UNCHANGED <<dir, stdin, stdout, flock, up, active, mem, mon, alock, todo, uid, ufs, rl, ours, rsig, child, ticks, book, bad>>

\* unlock; activeUnits[id] = worker; activeUnitsLock.Unlock()
SaveUnlockRegister(c) ==
  /\ up /\ loc[c] = "sb_reg"
  /\ flock' = [flock EXCEPT ![uid[c]] = None]
  /\ active' = active \cup {uid[c]}
  /\ alock' = None
  /\ Goto(c, "sb_stdin_c")
  /\ UNCHANGED <<disk, up, mem, mon, todo, uid, ufs, rl, ours, rsig, child, ticks, book, bad>>

StdinCreate(c) ==
  /\ up /\ loc[c] = "sb_stdin_c"
  /\ stdin' = [stdin EXCEPT ![uid[c]] = IF dir[uid[c]] THEN "created" ELSE @]
  /\ Goto(c, "sb_u_wait")
  /\ UNCHANGED <<dir, sfile, stdout, flock, up, active, mem, mon, alock, todo, uid, ufs, rl, ours, rsig, child, ticks, book, bad>>

\* "Work unit created with ID ..." reaches the client
Ack(c) ==
  /\ up /\ loc[c] = "sb_ack"
  /\ acked' = [acked EXCEPT ![uid[c]] = TRUE]
  /\ Goto(c, "sb_copy")
  /\ UNCHANGED <<disk, flock, up, active, mem, mon, alock, todo, uid, ufs, rl, ours, rsig, child, ticks,
                 opsLeft, told, pre, relreq, cnreq, released, gen, emptyRec, liveFail, crashes, alias, bad>>

StdinCopy(c) ==
  /\ up /\ loc[c] = "sb_copy"
  /\ stdin' = [stdin EXCEPT ![uid[c]] = IF dir[uid[c]] THEN "complete" ELSE @]
  /\ Goto(c, IF RunEnabled THEN "sb_u_starting" ELSE "done")
  /\ UNCHANGED <<dir, sfile, stdout, flock, up, active, mem, mon, alock, todo, uid, ufs, rl, ours, rsig, child, ticks, book, bad>>

\* cmd.Start() of "receptor --command-runner"; go cmdWaiter; go MonitorLocalStatus
SpawnRunner(c) ==
  /\ up /\ loc[c] = "sb_spawn"
  /\ LET i == uid[c] IN
       /\ loc' = [loc EXCEPT ![c] = "sb_u_pid", ![RT(i)] = "r_u_pend"]
       /\ uid' = [uid EXCEPT ![RT(i)] = i]
       /\ rl' = [rl EXCEPT ![i] = Fresh("")]
       /\ ours' = [ours EXCEPT ![i] = TRUE] /\ rsig' = [rsig EXCEPT ![i] = FALSE]
       /\ child' = [child EXCEPT ![i] = "none"] /\ ticks' = [ticks EXCEPT ![i] = 0]
       /\ mon' = [mon EXCEPT ![i] = TRUE]
  /\ UNCHANGED <<disk, flock, up, active, mem, alock, todo, ufs, book, bad>>

\* ---------------------------------------------------------------- the runner process (commandRunner)
RunnerOpen(i) ==     \* signal.Notify; os.Open(stdin): a missing stdin is an error reported by commandRunnerCfg.Run
  /\ loc[RT(i)] = "r_open"
  /\ Goto(RT(i), IF stdin[i] = "absent" \/ ~dir[i] THEN "r_u_err" ELSE "r_start")
  /\ UNCHANGED <<disk, flock, up, active, mem, mon, alock, todo, uid, ufs, rl, ours, rsig, child, ticks, book, bad>>

RunnerStartChild(i) ==
  /\ loc[RT(i)] = "r_start"
  /\ child' = [child EXCEPT ![i] = "alive"]
  /\ Goto(RT(i), "r_loop")
  /\ UNCHANGED <<disk, flock, up, active, mem, mon, alock, todo, uid, ufs, rl, ours, rsig, ticks, book, bad>>

RunnerTick(i) ==     \* case <-time.After(250ms)
  /\ loc[RT(i)] = "r_loop" /\ ticks[i] < MaxTicks
  /\ ticks' = [ticks EXCEPT ![i] = @ + 1]
  /\ Goto(RT(i), "r_u_tick")
  /\ UNCHANGED <<disk, flock, up, active, mem, mon, alock, todo, uid, ufs, rl, ours, rsig, child, book, bad>>

RunnerChildDone(i) ==   \* case <-doneChan
  /\ loc[RT(i)] = "r_loop" /\ child[i] \in {"ok", "fail"}
  /\ Goto(RT(i), "r_u_final")
  /\ UNCHANGED <<disk, flock, up, active, mem, mon, alock, todo, uid, ufs, rl, ours, rsig, child, ticks, book, bad>>

RunnerTerm(i) ==     \* case <-termChan: termThenKill, then "Killed"
  /\ loc[RT(i)] = "r_loop" /\ rsig[i]
  /\ rsig' = [rsig EXCEPT ![i] = FALSE]
  /\ child' = [child EXCEPT ![i] = IF @ = "alive" THEN "killed" ELSE @]
  /\ Goto(RT(i), "r_u_killed")
  /\ UNCHANGED <<disk, flock, up, active, mem, mon, alock, todo, uid, ufs, rl, ours, ticks, book, bad>>

\* SIGINT before signal.Notify is installed kills the runner (default disposition)
RunnerEarlySig(i) ==
  /\ loc[RT(i)] = "r_u_pend" /\ rsig[i]
  /\ rsig' = [rsig EXCEPT ![i] = FALSE]
  /\ flock' = [flock EXCEPT ![i] = IF @ = RT(i) THEN None ELSE @]
  /\ ufs' = [ufs EXCEPT ![RT(i)] = "none"]
  /\ Goto(RT(i), "zombie")
  /\ UNCHANGED <<disk, up, active, mem, mon, alock, todo, uid, rl, ours, child, ticks, book, bad>>

RunnerExit(i) ==     \* os.Exit
  /\ loc[RT(i)] = "r_exit"
  /\ Goto(RT(i), "zombie")
  /\ UNCHANGED <<disk, flock, up, active, mem, mon, alock, todo, uid, ufs, rl, ours, rsig, child, ticks, book, bad>>

\* the payload
ChildWrite(i) ==
  /\ child[i] = "alive" /\ stdout[i] < MaxOut /\ dir[i]
  /\ stdout' = [stdout EXCEPT ![i] = @ + 1]
  /\ UNCHANGED <<dir, sfile, stdin, flock, up, active, mem, mon, alock, todo, loc, uid, ufs, rl, ours, rsig, child, ticks, book, bad>>

ChildExit(i, r) ==
  /\ child[i] = "alive"
  /\ child' = [child EXCEPT ![i] = r]
  /\ UNCHANGED <<disk, flock, up, active, mem, mon, alock, todo, loc, uid, ufs, rl, ours, rsig, ticks, book, bad>>

\* cmdWaiter in the daemon reaps its child; the goroutine behind it clears ExtraData.
\* A runner that is not a child of the current daemon disappears without anybody noticing.
Reap(i) ==
  /\ loc[RT(i)] = "zombie"
  /\ IF up /\ ours[i] /\ loc[XT(i)] = "idle"
       THEN /\ loc' = [loc EXCEPT ![RT(i)] = "dead", ![XT(i)] = "x_u_clear"]
            /\ uid' = [uid EXCEPT ![XT(i)] = i]
       ELSE /\ ~(up /\ ours[i])
            /\ loc' = [loc EXCEPT ![RT(i)] = "dead"] /\ UNCHANGED uid
  /\ UNCHANGED <<disk, flock, up, active, mem, mon, alock, todo, ufs, rl, ours, rsig, child, ticks, book, bad>>

\* MonitorLocalStatus: Load() on a change of the status file, until the state is complete
MonitorLoad(i) ==
  /\ up /\ mon[i] /\ i \in active /\ flock[i] = None /\ ~DaemonBusyOn(i)
  /\ IsRec(sfile[i]) /\ mem[i] # sfile[i]
  /\ mem' = [mem EXCEPT ![i] = sfile[i]]
  /\ mon' = [mon EXCEPT ![i] = ~Complete(sfile[i].st)]
  /\ UNCHANGED <<disk, flock, up, active, alock, todo, loc, uid, ufs, rl, ours, rsig, child, ticks, book, bad>>

\* ---------------------------------------------------------------- client operations on an existing unit
Known(i) == i \in active

\* "work status" / "work list": answered from memory (findUnit: see StatusUnknown for ids not in memory)
StatusQuery(c, i) ==
  /\ up /\ loc[c] = "idle" /\ opsLeft[c] > 0 /\ "status" \in Ops /\ Known(i) /\ ~DaemonBusyOn(i) /\ alock = None
  /\ opsLeft' = [opsLeft EXCEPT ![c] = @ - 1]
  /\ LET new == [st |-> mem[i].st, sz |-> mem[i].sz]  old == told[i] IN
       /\ told' = [told EXCEPT ![i] = new]
       /\ bad' = IF old = NoTold THEN bad
                 ELSE bad \cup (IF Stage(new.st) < Stage(old.st) THEN {"ReportedStageMonotone"} ELSE {})
                          \cup (IF old.st = "S" /\ new # old /\ "KF_CancelOverS" \notin bad THEN {"ReportedSucceededIsFinal"} ELSE {})
  /\ UNCHANGED <<disk, flock, up, active, mem, mon, alock, todo, loc, uid, ufs, rl, ours, rsig, child, ticks,
                 acked, pre, relreq, cnreq, released, gen, emptyRec, liveFail, crashes, alias>>

\* findUnit for an id that is not in memory but has a directory: rescan.  With FindUnitHoldsRLock the goroutine asks
\* for the write lock while holding the read lock: it never returns, and nobody can take the lock exclusively again.
StatusUnknown(c, i) ==
  /\ up /\ loc[c] = "idle" /\ opsLeft[c] > 0 /\ "status" \in Ops /\ ~Known(i) /\ dir[i] /\ alock = None
  /\ IsRec(sfile[i]) \/ sfile[i] = Empty
  /\ opsLeft' = [opsLeft EXCEPT ![c] = @ - 1]
  /\ uid' = [uid EXCEPT ![c] = i]
  /\ IF FindUnitHoldsRLock THEN alock' = c /\ Goto(c, "st_blocked")
                           ELSE UNCHANGED alock /\ Goto(c, "sc_peek")
  /\ UNCHANGED <<disk, flock, up, active, mem, mon, todo, ufs, rl, ours, rsig, child, ticks,
                 acked, told, pre, relreq, cnreq, released, gen, emptyRec, liveFail, crashes, alias, bad>>

\* a command that names an existing unit by a non-canonical spelling of its id ("<id>/", "./<id>", "<id>/.", "x/../<id>"):
\* findUnit -> scanForUnit finds the directory; registered under the directory's own name it is already known, so the
\* spelling stays an unknown work unit and the command has no effect.
AliasLookup(c, i) ==
  /\ up /\ loc[c] = "idle" /\ opsLeft[c] > 0 /\ "status" \in Ops /\ dir[i] /\ alock = None
  /\ opsLeft' = [opsLeft EXCEPT ![c] = @ - 1]
  /\ alias' = IF ScanRegistersAlias THEN alias \cup {i} ELSE alias
  /\ UNCHANGED <<disk, flock, up, active, mem, mon, alock, todo, loc, uid, ufs, rl, ours, rsig, child, ticks,
                 acked, told, pre, relreq, cnreq, released, gen, emptyRec, liveFail, crashes, bad>>

\* Cancel (command.go): read the pid from memory, SIGINT the runner, Wait, mark Canceled
CancelBegin(c, i, rel) ==
  /\ up /\ loc[c] = "idle" /\ opsLeft[c] > 0 /\ (IF rel THEN "release" ELSE "cancel") \in Ops
  /\ Known(i) /\ ~SessBusyOn(i) /\ ~DaemonBusyOn(i) /\ alock = None
  /\ opsLeft' = [opsLeft EXCEPT ![c] = @ - 1]
  /\ uid' = [uid EXCEPT ![c] = i]
  /\ relreq' = [relreq EXCEPT ![i] = @ \/ rel]
  /\ cnreq' = [cnreq EXCEPT ![i] = TRUE]
  /\ mon' = [mon EXCEPT ![i] = FALSE]                       \* cw.CancelContext() stops the monitor
  /\ Goto(c, IF ~mem[i].pid THEN (IF rel THEN "rl_rm" ELSE "done")
             ELSE IF rel THEN "rl_signal" ELSE "cn_signal")
  /\ UNCHANGED <<disk, flock, up, active, mem, alock, todo, ufs, rl, ours, rsig, child, ticks, acked, told, pre, released, gen, emptyRec, liveFail, crashes, alias, bad>>

CancelSignal(c) ==
  /\ up /\ loc[c] \in {"cn_signal", "rl_signal"}
  /\ LET i == uid[c]  rel == loc[c] = "rl_signal" IN
       IF RunnerGone(i)                                     \* "os: process already finished": return nil
         THEN Goto(c, IF rel THEN "rl_rm" ELSE "done") /\ UNCHANGED rsig
         ELSE /\ rsig' = [rsig EXCEPT ![i] = RunnerAlive(i)]  \* a zombie accepts the signal
              /\ Goto(c, IF rel THEN "rl_wait" ELSE "cn_wait")
  /\ UNCHANGED <<disk, flock, up, active, mem, mon, alock, todo, uid, ufs, rl, ours, child, ticks, book, bad>>

\* proc.Wait(): returns when the child process is gone; at once (with an error) when it is not our child
CancelWait(c) ==
  /\ up /\ loc[c] \in {"cn_wait", "rl_wait"}
  /\ LET i == uid[c] IN ~ours[i] \/ loc[RT(i)] \in {"zombie", "dead", "idle"}
  /\ Goto(c, IF loc[c] = "rl_wait" THEN "rl_u_cancel" ELSE "cn_u_cancel")
  /\ UNCHANGED <<disk, flock, up, active, mem, mon, alock, todo, uid, ufs, rl, ours, rsig, child, ticks, book, bad>>

\* BaseWorkUnit.Release: RemoveAll(unitdir); then delete from activeUnits (UnregFirst: the other way round).
\* The release is answered "released" after the second of the two steps.
RelFirst  == "rl_rm"
RelSecond == "rl_unreg"
ReleaseRm(c) ==
  /\ up /\ loc[c] = (IF UnregFirst THEN RelSecond ELSE RelFirst)
  /\ LET i == uid[c] IN
       /\ dir' = [dir EXCEPT ![i] = FALSE] /\ sfile' = [sfile EXCEPT ![i] = Absent]
       /\ stdin' = [stdin EXCEPT ![i] = "absent"] /\ stdout' = [stdout EXCEPT ![i] = 0]
       /\ released' = [released EXCEPT ![i] = @ \/ UnregFirst]
  /\ Goto(c, IF UnregFirst THEN "done" ELSE RelSecond)
  /\ UNCHANGED <<flock, up, active, mem, mon, alock, todo, uid, ufs, rl, ours, rsig, child, ticks,
                 opsLeft, acked, told, pre, relreq, cnreq, gen, emptyRec, liveFail, crashes, alias, bad>>

ReleaseUnreg(c) ==
  /\ up /\ loc[c] = (IF UnregFirst THEN RelFirst ELSE RelSecond) /\ alock = None
  /\ LET i == uid[c] IN
       /\ active' = active \ {i}
       /\ released' = [released EXCEPT ![i] = @ \/ ~UnregFirst]
       /\ gen' = [gen EXCEPT ![i] = 0]
  /\ Goto(c, IF UnregFirst THEN RelSecond ELSE "done")
  /\ UNCHANGED <<disk, flock, up, mem, mon, alock, todo, uid, ufs, rl, ours, rsig, child, ticks, opsLeft, acked, told, pre, relreq, cnreq, emptyRec, liveFail, crashes, alias, bad>>

\* ---------------------------------------------------------------- crash, restart, recovery scan
ReleaseLocksOf(S) == [i \in Ids |-> IF flock[i] \in S THEN None ELSE flock[i]]

CrashDaemon ==
  /\ up /\ crashes < MaxCrashes
  /\ up' = FALSE /\ crashes' = crashes + 1
  /\ flock' = ReleaseLocksOf(DaemonActors)
  /\ active' = {} /\ mem' = [i \in Ids |-> NoMem] /\ mon' = [i \in Ids |-> FALSE]
  /\ alock' = None /\ todo' = {}
  /\ loc' = [a \in Actors |-> IF IsDaemon(a) THEN "idle" ELSE loc[a]]
  /\ uid' = [a \in Actors |-> IF IsDaemon(a) THEN None ELSE uid[a]]
  /\ ufs' = [a \in Actors |-> IF IsDaemon(a) THEN "none" ELSE ufs[a]]
  /\ ours' = [i \in Ids |-> FALSE]
  /\ pre' = told /\ alias' = {}
  /\ UNCHANGED <<disk, rl, rsig, child, ticks, opsLeft, acked, told, relreq, cnreq, released, gen, emptyRec, liveFail, bad>>

CrashRunner(i) ==    \* SIGKILL of the supervisor: the payload keeps running, nobody records its end
  /\ RunnerAlive(i) /\ crashes < MaxCrashes
  /\ crashes' = crashes + 1
  /\ flock' = ReleaseLocksOf({RT(i)})
  /\ ufs' = [ufs EXCEPT ![RT(i)] = "none"]
  /\ Goto(RT(i), "zombie")
  /\ UNCHANGED <<disk, up, active, mem, mon, alock, todo, uid, rl, ours, rsig, child, ticks,
                 opsLeft, acked, told, pre, relreq, cnreq, released, gen, emptyRec, liveFail, alias, bad>>

Restart ==           \* RegisterWorker -> scanForUnits: one scanForUnit per directory
  /\ ~up
  /\ up' = TRUE
  /\ todo' = {i \in Ids : dir[i]}
  /\ UNCHANGED <<disk, flock, active, mem, mon, alock, loc, uid, ufs, rl, ours, rsig, child, ticks, book, bad>>

ScanNext(i) ==
  /\ up /\ loc[Boot] = "idle" /\ i \in todo
  /\ todo' = todo \ {i}
  /\ IF i \in active \/ ~dir[i]
       THEN UNCHANGED <<loc, uid>>
       ELSE loc' = [loc EXCEPT ![Boot] = "sc_peek"] /\ uid' = [uid EXCEPT ![Boot] = i]
  /\ UNCHANGED <<disk, flock, up, active, mem, mon, alock, ufs, rl, ours, rsig, child, ticks, book, bad>>

\* scanForUnit: sfd.Load (error ignored) picks the worker type; a missing status file ends the scan of this unit
\* WITHOUT registering it; worker.Load() failing (empty file) rewrites the record from the blank worker object.
ScanPeek(a) ==
  /\ up /\ loc[a] = "sc_peek" /\ flock[uid[a]] = None
  /\ LET i == uid[a] IN
       CASE sfile[i] = Absent \/ ~dir[i] ->
              /\ Goto(a, "done") /\ UNCHANGED <<mem, emptyRec, alias>>
         [] sfile[i] = Empty ->
              /\ mem' = [mem EXCEPT ![i] = Fresh("")]             \* unknownUnit with WorkType ""
              /\ emptyRec' = [emptyRec EXCEPT ![i] = TRUE]
              /\ Goto(a, "sc_u_failload")
         [] OTHER ->
              /\ mem' = [mem EXCEPT ![i] = sfile[i]]              \* worker.Load()
              /\ UNCHANGED emptyRec
              /\ Goto(a, "sc_restart")
  /\ UNCHANGED <<disk, flock, up, active, mon, alock, todo, uid, ufs, rl, ours, rsig, child, ticks,
                 opsLeft, acked, told, pre, relreq, cnreq, released, gen, liveFail, crashes, alias, bad>>

\* commandUnit.Restart: complete -> nothing; pending -> "Pending at restart" Failed; else monitor.  unknownUnit: nothing.
ScanRestart(a) ==
  /\ up /\ loc[a] = "sc_restart"
  /\ LET i == uid[a] IN
       IF mem[i].ty # "cmd" \/ Complete(mem[i].st)
         THEN Goto(a, "sc_reg") /\ UNCHANGED mon
         ELSE /\ mon' = [mon EXCEPT ![i] = TRUE]
              /\ Goto(a, IF mem[i].st = "P" THEN "sc_u_pendfail" ELSE "sc_reg")
  /\ liveFail' = [liveFail EXCEPT ![uid[a]] = @ \/ (mem[uid[a]].ty = "cmd" /\ mem[uid[a]].st = "P"
                                                          /\ (RunnerAlive(uid[a]) \/ (IsRec(sfile[uid[a]]) /\ sfile[uid[a]].st # "P")))]
  /\ UNCHANGED <<disk, flock, up, active, mem, alock, todo, uid, ufs, rl, ours, rsig, child, ticks,
                 opsLeft, acked, told, pre, relreq, cnreq, released, gen, emptyRec, crashes, alias, bad>>

ScanRegister(a) ==
  /\ up /\ loc[a] = "sc_reg" /\ (alock = None \/ alock = a)
  /\ active' = active \cup {uid[a]}
  \* MonitorLocalStatus leaves its loop as soon as the in-memory state is complete (e.g. just marked Failed)
  /\ mon' = [mon EXCEPT ![uid[a]] = @ /\ ~Complete(mem[uid[a]].st)]
  /\ Goto(a, "done")
  /\ UNCHANGED <<disk, flock, up, mem, alock, todo, uid, ufs, rl, ours, rsig, child, ticks, book, bad>>

\* ----------------------------------------------------------------
Next ==
  \/ \E a \in Actors : UFS_Lock(a) \/ UFS_Read(a) \/ UFS_Apply(a) \/ UFS_Trunc(a) \/ UFS_Write(a) \/ UFS_Unlock(a) \/ Finish(a)
  \/ \E c \in Sess : \/ \E i \in Ids : AllocMkdir(c, i) \/ StatusQuery(c, i) \/ StatusUnknown(c, i) \/ AliasLookup(c, i)
                                        \/ CancelBegin(c, i, FALSE) \/ CancelBegin(c, i, TRUE)
                     \/ SaveCreateTrunc(c) \/ SaveWrite(c) \/ SaveUnlockRegister(c) \/ StdinCreate(c) \/ Ack(c) \/ StdinCopy(c)
                     \/ SpawnRunner(c) \/ CancelSignal(c) \/ CancelWait(c) \/ ReleaseRm(c) \/ ReleaseUnreg(c)
                     \/ ScanPeek(c) \/ ScanRestart(c) \/ ScanRegister(c)
  \/ \E i \in Ids : \/ RunnerOpen(i) \/ RunnerStartChild(i) \/ RunnerTick(i) \/ RunnerChildDone(i) \/ RunnerTerm(i)
                    \/ RunnerEarlySig(i) \/ RunnerExit(i) \/ ChildWrite(i) \/ ChildExit(i, "ok") \/ ChildExit(i, "fail")
                    \/ Reap(i) \/ MonitorLoad(i) \/ CrashRunner(i) \/ ScanNext(i)
  \/ ScanPeek(Boot) \/ ScanRestart(Boot) \/ ScanRegister(Boot)
  \/ CrashDaemon \/ Restart

Spec == Init /\ [][Next]_vars

\* ---------------------------------------------------------------- properties
TypeOK ==
  /\ \A i \in Ids : flock[i] \in Actors \cup {None}
  /\ active \subseteq Ids
  /\ \A i \in active : IsRec(mem[i])

\* C13 -------------------------------------------------------------
\* every rewrite of a stored record (and every report to a client) keeps the stage order, a succeeded unit stays
\* succeeded with the same size, the recorded size never shrinks
StageMonotone    == "StageMonotone" \notin bad /\ "ReportedStageMonotone" \notin bad
SucceededIsFinal == "SucceededIsFinal" \notin bad /\ "ReportedSucceededIsFinal" \notin bad
SizeMonotone     == "SizeMonotone" \notin bad

\* a successful release removes the unit and its files, and it is no longer known
ReleaseRemoves == \A i \in Ids : released[i] => (~dir[i] /\ i \notin active /\ sfile[i] = Absent)

\* no two live allocations share an id (= a directory)
UniqueIDs == (\A i \in Ids : gen[i] <= 1) /\ alias = {}      \* ... and a directory is known under exactly one id

\* after Cancel has answered, the unit's supervisor is gone and the payload with it
CancelStops == \A c \in Sess : (loc[c] \in {"cn_u_cancel", "rl_u_cancel"} /\ ours[uid[c]])
                                  => (~RunnerAlive(uid[c]) /\ child[uid[c]] # "alive")

\* C04 -------------------------------------------------------------
Settled == up /\ todo = {} /\ \A a \in DaemonActors : loc[a] = "idle"

Excused(i) == (KF_EmptyStatus /\ emptyRec[i]) \/ (KF_LiveRunnerFailed /\ liveFail[i])

Durable ==
  Settled =>
    \A i \in Ids : (acked[i] /\ ~relreq[i]) =>
      \* listed with its work type
      /\ i \in active
      /\ Excused(i) \/ mem[i].ty = "cmd"
      \* a unit that had been reported finished reports the same state and size, and the output is there
      /\ (pre[i].st \in {"S", "F"} /\ ~cnreq[i] /\ ~Excused(i)) =>
            (mem[i].st = pre[i].st /\ mem[i].sz = pre[i].sz /\ stdout[i] >= pre[i].sz)
      \* a unit that never started is failed, not pending (the submit path is over: all daemon actors are idle)
      /\ (loc[RT(i)] = "idle" /\ ~Excused(i)) => mem[i].st # "P"
      \* a runner that finished on its own was followed: once its last record is loaded the unit is final
      /\ (loc[RT(i)] = "dead" /\ child[i] \in {"ok", "fail"} /\ mem[i] = sfile[i] /\ ~Excused(i) /\ crashes = 0)
            => mem[i].st \in Final

\* no status query blocks: the wedged location is never reached
NoStatusBlocks == \A c \in Sess : loc[c] # "st_blocked"

\* the status file is empty only inside somebody's lock section (crash-free statement of #11's precondition)
EmptyOnlyLocked == \A i \in Ids : (sfile[i] = Empty) => flock[i] # None

\* ---------------------------------------------------------------- witnesses (each must be violated)
W_NoSucceeded   == \A i \in Ids : ~(IsRec(sfile[i]) /\ sfile[i].st = "S")
W_NoCanceled    == \A i \in Ids : ~(IsRec(sfile[i]) /\ sfile[i].st = "C")
W_NoRelease     == \A i \in Ids : ~released[i]
W_NoRecovery    == ~(crashes > 0 /\ Settled /\ \E i \in Ids : acked[i] /\ i \in active)
W_NoEmptyRec    == \A i \in Ids : ~emptyRec[i]
W_NoKilled      == \A i \in Ids : child[i] # "killed"
W_NoIdReuse     == \A i \in Ids : ~(released[i] /\ FALSE)

\* state projection for TLC: everything (no pure history variable is kept besides the small sets above)
View == vars
=============================================================================
