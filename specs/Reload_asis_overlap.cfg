SPECIFICATION Spec
CONSTANTS
  Ctl = {1, 2}
  MaxReloads = 2
  MaxEdits = 1
  MaxSess = 3
  MaxFail = 0
  EditNames = {"start", "drop_D", "cost_D", "mod_B", "rm_A", "failstart"}
  KF_StaleFlags = FALSE
  KF_NoReloadMutex = TRUE
  DumpFile = ""
  KF_PortFreedAfterDone = FALSE
  KF_MidEstablishLeak = FALSE
INVARIANTS
  NoDuplicateBackend
  EveryBackendCancellable
