--------------------------- MODULE ControlSession ---------------------------
(***************************************************************************)
(* The control service of a receptor node, for properties C08, C15, C19.   *)
(*                                                                         *)
(* Code: pkg/controlsvc/controlsvc.go (RunControlSession: byte-wise line   *)
(* reader, JSON / plain dispatch, error replies), status.go, ping.go,      *)
(* connect.go, traceroute.go, reload.go, pkg/workceptor/controlsvc.go      *)
(* (work subcommands, processSignature), pkg/workceptor/workceptor.go      *)
(* (findUnit / scanForUnit and the activeUnitsLock, VerifySignature,       *)
(* AllocateRemoteUnit) and pkg/workceptor/remote_work.go (redaction).      *)
(*                                                                         *)
(* One module, four parts selected by the constant Part (each part has its *)
(* own variable; the variables of the other parts are parked):             *)
(*   "lines"    C08  the table of line classes, one state per class, with  *)
(*                   the reply class the code gives and whether the        *)
(*                   session goes on (follows the code's checks field by   *)
(*                   field); exported as NDJSON.                           *)
(*   "sessions" C08  two concurrent sessions of a few lines each over line *)
(*                   KINDS, handled as the code's critical sections on the *)
(*                   unit-index RW lock (findUnit / scanForUnit / Allocate *)
(*                   / Release); NoDeadlock, Isolation, SessionContinues.  *)
(*                   All sessions are exported with their expected replies.*)
(*   "c15"      C15  decision table Effect(cmd, connection, type, token).  *)
(*   "c15seq"   C15  one token used repeatedly while time passes.          *)
(*   "c19"      C19  histories of one remote submission with a parameter   *)
(*                   map, then status/list/cancel/release/restart.         *)
(*                                                                         *)
(* The harness (harness/cmd/vctl) concretises every exported vector into   *)
(* bytes sent to the real receptor binary and compares what comes back.    *)
(***************************************************************************)
EXTENDS Naturals, Sequences, FiniteSets, TLC, Json, SequencesExt

CONSTANTS Part,               \* "lines" | "mixed" | "sessions" | "c15" | "c15seq" | "c19"
          MaxLinesA,          \* sessions: maximal number of lines of session 1
          MaxLinesB,          \* sessions: maximal number of lines of session 2 (the concurrent one)
          KF_ScanRecheckLeak, \* TRUE: scanForUnit looks the unit up again after taking the write lock and returns WITHOUT unlocking when
                              \*       another scan has inserted it meanwhile (seeded/c08-scan-recheck-leaks-lock); FALSE: the code
          KF_FindUnitRelock,  \* TRUE: findUnit keeps its read lock across scanForUnit, which read-locks again and then
                              \*       write-locks (the code as found, DESIGN.md section 9 #4); FALSE: the read lock is dropped first
          MaxOps,             \* c19: maximal number of operations after the submit
          ExportOps,          \* c19: histories up to this length are exported for every key set of the family
          KeyFamily,          \* c19: "all" (every subset of the key classes) or "cover" (a covering family of subsets)
          RequestStateKeptAcrossLines, \* sessions: FALSE = the code (every line is decoded into fresh state); TRUE = the decoded JSON object of an
                              \*           earlier line of the session is still there when a later plain line is dispatched
          ConnectionRemembersToken, \* c15seq: FALSE = the code (a command is judged by the token it carries itself); TRUE = a command without a
                              \*         token inherits the token of an earlier command of the same connection
          VerifierRemembersTokens, \* c15seq: FALSE = the code (a token is verified afresh at every use); TRUE = token strings that verified once are accepted from a cache
          RedactNeedsTLSRecord, \* c19: FALSE = the code (redaction looks at the keys only); TRUE = redaction skipped for units without a recorded TLS profile
          DumpFile            \* "" or the NDJSON file the vectors of this part are written to

VARIABLES lc,    \* part lines: the line class of this state
          ss,    \* part sessions: per session [sent, got, prog, mode]
          du,    \* part sessions: per session, where its two private units are: [u, d]
          lk,    \* part sessions: the unit-index lock [rd (session -> read holds), wr, ww]
          v15,   \* part c15: the vector
          h19    \* part c19: the history state

vars == <<lc, ss, du, lk, v15, h19>>

Parked == "-"

(***************************************************************************)
(*                       PART "lines" : line classes                       *)
(***************************************************************************)
JT == {"absent", "string", "number", "bool", "null", "array", "object"}   \* JSON type of one field (absent = key missing)

\* unit-id classes.  U is a completed unit of a non-verifying type known to the daemon; D a unit directory with a
\* status file that appeared after start-up (on disk only); N a directory without status file.
UidClasses == {"existing", "unknown", "diskonly", "nostatus", "dotdot", "dot", "slash", "empty", "trav_existing", "long", "binary"}
UnitSubs   == {"list", "status", "cancel", "release", "force-release", "results"}
WorkSubs   == UnitSubs \cup {"submit"}

\* A line class.  All fields are always present so that classes are uniform records.
\*   fam   family: raw | plain | json | uid | eof
\*   id    raw/eof: which one; otherwise "-"
\*   cmd   command ("-" when the family has none), sub: work subcommand or "-"
\*   n     plain: number of arguments after the (sub)command
\*   arg   plain: class of the argument values
\*   field json: the field that is varied, ftype: its JSON type, val: value class when ftype = "string"
\*   uid   unit-id class or "-"
\*   form  plain | json (for fam uid)
LC(fam, id, cmd, sub, n, arg, field, ftype, val, uid, form) ==
  [fam |-> fam, id |-> id, cmd |-> cmd, sub |-> sub, n |-> n, arg |-> arg, field |-> field, ftype |-> ftype,
   val |-> val, uid |-> uid, form |-> form]

RawIds == {"empty", "cr_only", "blank", "binary", "binary_brace", "long_plain", "long_brace", "long_valid_json",
           "json_trailing", "json_array", "json_truncated", "json_no_command", "json_command_number", "json_command_null",
           "json_command_bool", "json_command_array", "json_command_object", "json_command_unknown",
           "json_command_upper", "json_empty_object", "plain_unknown", "plain_unknown_args", "plain_upper_status", "tab_sep",
           "utf8_bom", "json_deep", "json_dup_command"}
RawClasses == { LC("raw", i, "-", "-", 0, "-", "-", "-", "-", "-", "-") : i \in RawIds }

EofIds == {"eof_now", "eof_partial_valid", "eof_partial_invalid", "eof_partial_badjson", "abort_midline",
           "abort_after_valid", "eof_partial_long"}
EofClasses == { LC("eof", i, "-", "-", 0, "-", "-", "-", "-", "-", "-") : i \in EofIds }

\* ---- plain form: command, number of arguments, argument class
PlainSpecs ==
  { <<"ping", "-", 0, "-">>, <<"ping", "-", 1, "unknown_node">>, <<"ping", "-", 1, "self">>, <<"ping", "-", 2, "words">>,
    <<"traceroute", "-", 0, "-">>, <<"traceroute", "-", 1, "unknown_node">>, <<"traceroute", "-", 1, "self">>, <<"traceroute", "-", 2, "words">>,
    <<"status", "-", 0, "-">>, <<"status", "-", 1, "words">>,
    <<"connect", "-", 0, "-">>, <<"connect", "-", 1, "words">>, <<"connect", "-", 2, "self_control">>, <<"connect", "-", 2, "unknown_node">>,
    <<"connect", "-", 2, "self_nosvc">>, <<"connect", "-", 3, "self_control_badtls">>, <<"connect", "-", 4, "words">>,
    <<"reload", "-", 0, "-">>, <<"reload", "-", 1, "words">>,
    <<"work", "-", 0, "-">>, <<"work", "bogus", 0, "-">>, <<"work", "bogus", 2, "words">>,
    <<"work", "submit", 0, "-">>, <<"work", "submit", 1, "words">>, <<"work", "submit", 2, "local_known">>,
    <<"work", "submit", 2, "local_unknown_type">>, <<"work", "submit", 3, "local_known_params">>, <<"work", "submit", 3, "local_noparams_type">>,
    <<"work", "list", 0, "-">>, <<"work", "list", 2, "existing_extra">>,
    <<"work", "status", 0, "-">>, <<"work", "status", 2, "existing_extra">>,
    <<"work", "cancel", 0, "-">>, <<"work", "cancel", 2, "existing_extra">>,
    <<"work", "release", 0, "-">>, <<"work", "release", 2, "existing_extra">>,
    <<"work", "force-release", 0, "-">>, <<"work", "force-release", 2, "existing_extra">>,
    <<"work", "results", 0, "-">>, <<"work", "results", 2, "existing_pos0">>, <<"work", "results", 2, "existing_posbad">>,
    <<"work", "results", 2, "existing_posneg">>, <<"work", "results", 2, "existing_poshuge">>, <<"work", "results", 3, "existing_extra">> }
PlainClasses == { LC("plain", "-", p[1], p[2], p[3], p[4], "-", "-", "-", "-", "plain") : p \in PlainSpecs }

\* ---- JSON form: one field varied over every JSON type, the others valid
JFields(cmd, sub) ==
  CASE cmd = "ping"       -> {"target"}
    [] cmd = "traceroute" -> {"target"}
    [] cmd = "status"     -> {"requested_fields"}
    [] cmd = "connect"    -> {"node", "service", "tls"}
    [] cmd = "reload"     -> {"anything"}
    [] cmd = "work" /\ sub = "-"        -> {"subcommand"}
    [] cmd = "work" /\ sub = "submit"   -> {"node", "worktype", "tlsclient", "ttl", "signwork", "signature", "params", "extra"}
    [] cmd = "work" /\ sub = "list"     -> {"unitid"}
    [] cmd = "work" /\ sub = "status"   -> {"unitid", "signature"}
    [] cmd = "work" /\ sub \in {"cancel", "release", "force-release"} -> {"unitid", "signature"}
    [] cmd = "work" /\ sub = "results"  -> {"unitid", "startpos", "signature"}

JCmds == { <<"ping", "-">>, <<"traceroute", "-">>, <<"status", "-">>, <<"connect", "-">>, <<"reload", "-">>, <<"work", "-">> }
         \cup { <<"work", s>> : s \in WorkSubs }

\* value classes of a string-typed field ("ok" = the valid default)
JVals(cmd, sub, f) ==
  CASE f = "target"           -> {"unknown_node", "self", "emptystr"}
    [] f = "node" /\ cmd = "connect" -> {"ok", "unknown_node", "emptystr"}
    [] f = "service"          -> {"ok", "unknown_service"}
    [] f = "tls"              -> {"unknown_tls", "emptystr"}
    [] f = "subcommand"       -> {"bogus", "upper_list", "emptystr"}
    [] f = "node"             -> {"ok", "self", "upper_localhost"}
    [] f = "worktype"         -> {"ok", "unknown_type", "remote", "emptystr"}
    [] f = "tlsclient"        -> {"unknown_tls"}
    [] f = "ttl"              -> {"1h", "garbage"}
    [] f = "signwork"         -> {"true", "garbage"}
    [] f = "signature"        -> {"garbage", "emptystr"}
    [] f = "params"           -> {"words"}
    [] f = "extra"            -> {"words"}
    [] f = "unitid"           -> {"ok"}            \* the unit-id classes are family uid
    [] f = "startpos"         -> {"digits", "garbage"}
    [] f = "requested_fields" -> {"words"}
    [] f = "anything"         -> {"words"}

\* array-typed requested_fields has element classes
ArrVals(f) == IF f = "requested_fields" THEN {"strings", "empty", "mixed", "unknown_names"} ELSE {"mixed"}

JsonClasses ==
  UNION { UNION { { LC("json", "-", c[1], c[2], 0, "-", f, t,
                       IF t = "string" THEN v ELSE IF t = "array" THEN a ELSE "-", "-", "json")
                    : v \in (IF t = "string" THEN JVals(c[1], c[2], f) ELSE {"-"}),
                      a \in (IF t = "array" THEN ArrVals(f) ELSE {"-"}) }
                  : f \in JFields(c[1], c[2]), t \in JT }
          : c \in JCmds }

\* ---- unit ids in both forms
UidClassesOf(form) == IF form = "plain" THEN UidClasses \ {"binary"} ELSE UidClasses
UidLineClasses == { LC("uid", "-", "work", s, 1, "-", "unitid", "string", "-", u, fm)
                    : s \in UnitSubs, fm \in {"plain", "json"}, u \in UidClasses }

LineClasses == RawClasses \cup EofClasses \cup PlainClasses \cup JsonClasses \cup UidLineClasses

\* ------------------------------------------------------------------------
\* What the code answers.  reply: none | error (one ERROR line; since the repair of the JSON branch of RunControlSession a
\* line that is not a JSON object with a string command is answered once - as found it was answered twice, the JSON error
\* and then "Unknown command" for the empty command name) | json | stream (a greeting line, then the connection is no
\* longer a command session).
\* first: required prefix of the first reply line.  cont: the session accepts a further command line.
\* closes: the server closes the connection after the reply.
R(reply, first, cont, closes) == [reply |-> reply, first |-> first, cont |-> cont, closes |-> closes]
RErr    == R("error", "ERROR", TRUE, FALSE)
RErr2   == RErr      \* malformed JSON / missing or non-string command: kept as a name for the class of causes
RJson   == R("json", "{", TRUE, FALSE)
RNone   == R("none", "", TRUE, FALSE)
RConn   == R("stream", "Connecting", FALSE, FALSE)
RSubmit == R("stream", "Work unit created with ID ", FALSE, TRUE)
RResult == R("stream", "Streaming results for work unit ", FALSE, TRUE)

\* the answer of a unit command for a unit-id class (canonical state: U in the index, D on disk only)
UidAnswer(sub, u) ==
  IF u \in {"existing", "diskonly"}
  THEN IF sub = "results" THEN RResult ELSE RJson
  ELSE RErr       \* "unknown work unit ..." for every id that does not name a unit, whatever characters it has

BadJsonIds == {"binary_brace", "long_brace", "json_trailing", "json_truncated", "json_no_command", "json_command_number",
               "json_command_null", "json_command_bool", "json_command_array", "json_command_object",
               "json_empty_object", "json_deep"}
RawAnswer(i) ==
  CASE i = "empty"   -> RNone       \* empty line: ignored
    [] i = "cr_only" -> RNone       \* CR is dropped by the reader, the line is empty
    [] i \in {"blank", "binary", "long_plain", "json_array", "plain_unknown", "plain_unknown_args", "tab_sep", "utf8_bom"} -> RErr
    [] i \in BadJsonIds -> RErr2
    [] i \in {"json_command_unknown", "json_command_upper"} -> RErr   \* the JSON form does not lower-case the command
    [] i \in {"long_valid_json", "plain_upper_status", "json_dup_command"} -> RJson

\* unterminated line, then EOF: the code executes the partial line as a command, answers and closes
EofAnswer(i) ==
  CASE i = "eof_now"             -> R("none", "", FALSE, TRUE)
    [] i = "eof_partial_valid"   -> R("json", "{", FALSE, TRUE)
    [] i = "eof_partial_invalid" -> R("error", "ERROR", FALSE, TRUE)
    [] i = "eof_partial_badjson" -> R("error", "ERROR", FALSE, TRUE)
    [] i = "eof_partial_long"    -> R("error", "ERROR", FALSE, TRUE)
    [] i = "abort_midline"       -> R("none", "", FALSE, TRUE)    \* the client is gone; nothing can be observed but liveness
    [] i = "abort_after_valid"   -> R("none", "", FALSE, TRUE)

PlainAnswer(c) ==
  LET cmd == c.cmd  sub == c.sub  n == c.n  a == c.arg IN
  CASE cmd \in {"ping", "traceroute"} -> IF n = 0 THEN RErr ELSE RJson   \* failure to reach is reported inside the JSON
    [] cmd = "status"  -> IF n = 0 THEN RJson ELSE RErr
    [] cmd = "connect" -> IF a = "self_control" THEN RConn ELSE RErr
    [] cmd = "reload"  -> RJson                                           \* parameters are ignored (lenient)
    [] cmd = "work" /\ sub \in {"-", "bogus"} -> RErr
    [] cmd = "work" /\ sub = "submit" -> IF a \in {"local_known", "local_known_params"} THEN RSubmit ELSE RErr
    [] cmd = "work" /\ sub = "list"   -> RJson                            \* further arguments are ignored (lenient)
    [] cmd = "work" /\ sub \in {"status", "cancel", "release", "force-release"} -> RErr   \* n = 0 or n = 2
    [] cmd = "work" /\ sub = "results" ->
         IF a \in {"existing_pos0", "existing_posneg", "existing_poshuge"} THEN RResult ELSE RErr

JsonAnswer(c) ==
  LET cmd == c.cmd  sub == c.sub  f == c.field  t == c.ftype  v == c.val IN
  CASE cmd \in {"ping", "traceroute"} -> IF t = "string" THEN RJson ELSE RErr
    [] cmd = "status" ->
         IF t = "absent" THEN RJson
         ELSE IF t = "array" THEN (IF v = "mixed" THEN RErr ELSE RJson)
         ELSE RErr                       \* requires the checked assertion (section 9 #3); the code as found panicked here
    [] cmd = "connect" ->
         IF f = "tls" THEN (IF t = "absent" \/ (t = "string" /\ v = "emptystr") THEN RConn ELSE RErr)
         ELSE IF t = "string" /\ v = "ok" THEN RConn ELSE RErr
    [] cmd = "reload" -> RJson
    [] cmd = "work" /\ sub = "-" -> IF t = "string" /\ v = "upper_list" THEN RJson ELSE RErr   \* missing / non-string / unknown subcommand; the name is lower-cased
    [] cmd = "work" /\ sub = "submit" ->
         IF t \notin {"absent", "string"} THEN RErr                        \* "submit parameters must all be strings"
         ELSE IF t = "absent" THEN (IF f \in {"node", "worktype"} THEN RErr ELSE RSubmit)
         ELSE (CASE f = "node"      -> RSubmit
                [] f = "worktype"  -> IF v = "ok" THEN RSubmit ELSE IF v = "remote" THEN RSubmit ELSE RErr
                [] f = "tlsclient" -> RSubmit                              \* only consulted for remote nodes
                [] f = "ttl"       -> RErr                                 \* "ttl option is intended for remote work only"
                [] f = "signwork"  -> RSubmit
                [] f = "signature" -> IF v = "emptystr" THEN RSubmit ELSE RErr   \* the type does not expect a signature
                [] f = "params"    -> RSubmit
                [] f = "extra"     -> RSubmit)
    [] cmd = "work" /\ sub = "list" -> RJson                               \* a non-string unitid is ignored (lenient)
    [] cmd = "work" /\ sub = "status" ->
         IF f = "unitid" THEN (IF t = "string" THEN RJson ELSE RErr) ELSE RJson   \* status never looks at signature
    [] cmd = "work" /\ sub \in {"cancel", "release", "force-release"} ->
         IF f = "unitid" THEN (IF t = "string" THEN RJson ELSE RErr)
         ELSE IF t = "string" /\ v = "garbage" THEN RErr ELSE RJson        \* a non-string signature counts as absent (lenient)
    [] cmd = "work" /\ sub = "results" ->
         (CASE f = "unitid"    -> IF t = "string" THEN RResult ELSE RErr
            [] f = "startpos"  -> IF t = "number" THEN RResult ELSE RErr    \* a string is never accepted (intFromMap falls through)
            [] f = "signature" -> IF t = "string" /\ v = "garbage" THEN RErr ELSE RResult)

Answer(c) ==
  CASE c.fam = "raw"   -> RawAnswer(c.id)
    [] c.fam = "eof"   -> EofAnswer(c.id)
    [] c.fam = "plain" -> PlainAnswer(c)
    [] c.fam = "json"  -> JsonAnswer(c)
    [] c.fam = "uid"   -> UidAnswer(c.sub, c.uid)

\* ------------------------------------------------------------------------
\* Independent of Answer: is the line a valid command (syntax only: known command, required parameters present
\* with the right JSON type, argument count right)?  Whether its target exists is not part of validity.
PlainArity(cmd, sub) ==     \* admissible argument counts
  CASE cmd \in {"ping", "traceroute"} -> {1}
    [] cmd = "status"  -> {0}
    [] cmd = "connect" -> {2, 3}
    [] cmd = "reload"  -> {0}
    [] cmd = "work" /\ sub = "submit"  -> {2, 3}
    [] cmd = "work" /\ sub = "list"    -> {0, 1}
    [] cmd = "work" /\ sub \in {"status", "cancel", "release", "force-release"} -> {1}
    [] cmd = "work" /\ sub = "results" -> {1, 2}
    [] OTHER -> {}

Required(cmd, sub) ==
  CASE cmd \in {"ping", "traceroute"} -> {"target"}
    [] cmd = "connect" -> {"node", "service"}
    [] cmd = "work" /\ sub = "-" -> {"subcommand"}
    [] cmd = "work" /\ sub = "submit" -> {"node", "worktype"}
    [] cmd = "work" /\ sub \in {"status", "cancel", "release", "force-release"} -> {"unitid"}
    [] cmd = "work" /\ sub = "results" -> {"unitid", "startpos"}
    [] OTHER -> {}

RightType(f) == CASE f = "requested_fields" -> {"array"} [] f = "startpos" -> {"number"} [] OTHER -> {"string"}

WellFormed(c) ==
  CASE c.fam = "raw"   -> c.id \in {"long_valid_json", "plain_upper_status", "json_dup_command"}
    [] c.fam = "eof"   -> c.id \in {"eof_partial_valid"}
    [] c.fam = "plain" -> /\ c.n \in PlainArity(c.cmd, c.sub)
                          /\ c.arg \notin {"existing_posbad", "words"} \/ (c.cmd \in {"ping", "traceroute"} /\ c.n = 1)
    [] c.fam = "uid"   -> TRUE
    [] c.fam = "json"  -> /\ (c.field \in Required(c.cmd, c.sub) => c.ftype \in RightType(c.field))
                          /\ (c.ftype # "absent" => c.ftype \in RightType(c.field)) \/ c.field \in {"anything", "extra"}
                          /\ ~(c.field = "subcommand" /\ c.val \in {"bogus", "emptystr"})
                          /\ ~(c.field = "requested_fields" /\ c.ftype = "array" /\ c.val = "mixed")

NonEmpty(c) == ~(c.fam = "raw" /\ c.id \in {"empty", "cr_only"}) /\ ~(c.fam = "eof" /\ c.id \in {"eof_now", "abort_midline", "abort_after_valid"})

\* Named deviations: malformed input that the code tolerates by ignoring the offending part instead of answering ERROR.
\* They are reported by the check as notes; the classes are still sent and must behave as Answer says.
Lenient(c) ==
  \/ c.fam = "plain" /\ c.cmd = "reload" /\ c.n > 0
  \/ c.fam = "plain" /\ c.cmd = "work" /\ c.sub = "list" /\ c.n > 1
  \/ c.fam = "plain" /\ c.cmd \in {"ping", "traceroute"} /\ c.n > 1            \* the whole rest of the line is the target
  \/ c.fam = "json" /\ c.cmd = "work" /\ c.sub = "list" /\ c.field = "unitid" /\ c.ftype \notin {"absent", "string"}
  \/ c.fam = "json" /\ c.cmd = "work" /\ c.sub \in {"status", "cancel", "release", "force-release", "results"}
       /\ c.field = "signature" /\ c.ftype \notin {"absent", "string"}
  \/ c.fam = "json" /\ c.cmd = "work" /\ c.sub = "submit" /\ c.field = "extra" /\ c.ftype = "string"

\* Does the class name the session's own unit U (a completed unit in the index)?
UsesU(c) ==
  \/ c.fam = "uid" /\ c.uid = "existing"
  \/ c.fam = "plain" /\ c.arg \in {"existing_extra", "existing_pos0", "existing_posneg", "existing_poshuge"}
  \/ c.fam = "json" /\ c.cmd = "work" /\ c.sub \in UnitSubs /\ ~(c.field = "unitid" /\ c.ftype # "string")

\* The session-level kind a class belongs to (used by part "sessions").
KindOf(c) ==
  LET a == Answer(c) IN
  CASE c.fam = "eof" -> (IF c.id \in {"abort_midline", "abort_after_valid", "eof_now"} THEN "abort" ELSE "eof_partial")
    [] c.uid = "diskonly" -> (IF c.sub \in {"release", "force-release"} THEN "rel_disk" ELSE IF c.sub = "results" THEN "stream_disk" ELSE "q_disk")
    [] a.reply = "none"   -> "empty"
    [] a.reply = "error"  -> (IF c.uid = "nostatus" THEN "err_scan" ELSE IF c.fam = "raw" /\ c.id \in BadJsonIds THEN "err2" ELSE "err")
    [] a.reply = "stream" -> (IF UsesU(c) THEN "stream_unit" ELSE "stream")
    [] a.reply = "json"   -> IF UsesU(c) /\ c.sub \in {"release", "force-release"} THEN "rel_unit"
                             ELSE IF UsesU(c) THEN "q_unit" ELSE "json"

LineVec(c) == [class |-> c, expect |-> Answer(c), wellformed |-> WellFormed(c), lenient |-> Lenient(c), kind |-> KindOf(c)]

\* ---- properties of the table (C08, per line)
AlwaysAnswers ==      \* every non-empty line that is not a valid command is answered by a line starting with ERROR
  Part = "lines" => (NonEmpty(lc) /\ ~WellFormed(lc) /\ ~Lenient(lc) => Answer(lc).reply = "error" /\ Answer(lc).first = "ERROR")
SessionContinuesT ==  \* only a take-over (connect, submit, results) or the client's own EOF ends a command session
  Part = "lines" => (~Answer(lc).cont => Answer(lc).reply = "stream" \/ lc.fam = "eof")
EveryReplyClassified == Part = "lines" => Answer(lc).reply \in {"none", "error", "json", "stream"}
PathIdsNeverResolve ==  \* ids with path characters never name a unit
  Part = "lines" => (lc.fam = "uid" /\ lc.uid \in {"dotdot", "dot", "slash", "empty", "trav_existing"} => Answer(lc).reply = "error")
W_NoLenient      == ~(Part = "lines" /\ Lenient(lc) /\ ~WellFormed(lc))
W_NoError2       == ~(Part = "lines" /\ KindOf(lc) = "err2")      \* a malformed-JSON class exists
W_NoDiskOnlyJson == ~(Part = "lines" /\ lc.uid = "diskonly" /\ Answer(lc).reply = "json")

(***************************************************************************)
(*                 PART "sessions" : concurrent sessions                   *)
(***************************************************************************)
\* q_shared: a query of ONE disk-only unit that both sessions name (their other units are private)
Kinds == {"empty", "err", "err_scan", "err2", "json", "q_unit", "rel_unit", "q_disk", "rel_disk", "q_shared", "stream", "stream_unit", "stream_disk", "eof_partial", "abort"}
ContinuingKinds == {"empty", "err", "err_scan", "err2", "json", "q_unit", "rel_unit", "q_disk", "rel_disk", "q_shared"}
ExportKinds == Kinds \ {"q_shared"}       \* the shared unit is replayed by a phase of its own (several sessions at the same instant)

Sessions == {1, 2}
MaxLinesOf(s) == IF s = 1 THEN MaxLinesA ELSE MaxLinesB

\* Where a session's private units are.  u: "mem" (in the index) | "gone".  d: "disk" (directory only) | "mem" | "gone".
UnitsInit == [u |-> "mem", d |-> "disk"]

\* The sequential meaning of one line kind on the session's units: [reply, units'].
\* reply classes as in part "lines" plus "closed".
Seq1(kind, un) ==
  CASE kind = "empty"    -> [reply |-> "none",   un |-> un]
    [] kind \in {"err", "err_scan"} -> [reply |-> "error",  un |-> un]
    [] kind = "err2"     -> [reply |-> "error",  un |-> un]      \* malformed JSON: one ERROR line, the session goes on
    [] kind = "json"     -> [reply |-> "json",   un |-> un]
    [] kind = "q_shared" -> [reply |-> "json", un |-> un]                     \* loaded by this session's scan or by the other one's
    [] kind = "q_unit"   -> [reply |-> IF un.u = "mem" THEN "json" ELSE "error", un |-> un]
    [] kind = "rel_unit" -> [reply |-> IF un.u = "mem" THEN "json" ELSE "error", un |-> [un EXCEPT !.u = "gone"]]
    [] kind = "q_disk"   -> [reply |-> IF un.d = "gone" THEN "error" ELSE "json",
                             un |-> [un EXCEPT !.d = IF un.d = "gone" THEN "gone" ELSE "mem"]]   \* the rescan loads it
    [] kind = "rel_disk" -> [reply |-> IF un.d = "gone" THEN "error" ELSE "json", un |-> [un EXCEPT !.d = "gone"]]
    [] kind = "stream"   -> [reply |-> "stream", un |-> un]
    [] kind = "stream_unit" -> [reply |-> IF un.u = "mem" THEN "stream" ELSE "error", un |-> un]
    [] kind = "stream_disk" -> [reply |-> IF un.d = "gone" THEN "error" ELSE "stream",
                                un |-> [un EXCEPT !.d = IF un.d = "gone" THEN "gone" ELSE "mem"]]
    [] kind = "eof_partial" -> [reply |-> "answer_then_closed", un |-> un]
    [] kind = "abort"    -> [reply |-> "closed", un |-> un]

EndsSession(kind, reply) == kind \in {"eof_partial", "abort"} \/ reply = "stream"

\* The lock operations a handler performs, as the code does them.  R/r: RLock/RUnlock of activeUnitsLock;
\* Wa: Lock announced (from now on new readers wait, as sync.RWMutex does); Wq: Lock acquired; w: Unlock.
FindHit  == <<"R", "r">>
FindMissNoDir == <<"R", "r">>                       \* scanForUnit returns at the failed stat, no lock taken
ScanNoStatus ==                                     \* directory exists, no status file: scanForUnit read-locks to look, then returns
  IF KF_FindUnitRelock THEN <<"R", "R", "r", "r">> ELSE <<"R", "r", "R", "r", "R", "r">>
ScanLoad ==                                         \* directory with status: look (read lock), load, insert (write lock)
  IF KF_FindUnitRelock THEN <<"R", "R", "r", "Wa", "Wq", "w", "r">>
                       ELSE <<"R", "r", "R", "r", "Wa", "Wq", "w", "R", "r">>
\* the shared unit: look-up (read lock), load, then insertion under the write lock - WqS notes whether the unit is in the
\* index by now, insS inserts it, wS unlocks (the seeded variant returns before the unlock when it was there already)
ScanLoadShared == <<"R", "r", "R", "r", "Wa", "WqS", "insS", "wS", "R", "r">>
ReleaseOps == <<"Wa", "Wq", "w">>                   \* BaseWorkUnit.Release deletes from the index under the write lock
AllocOps   == <<"Wa", "Wq", "w">>                   \* AllocateUnit

\* the programs a line kind may run (a kind covers several commands, so this is a set)
Programs(kind, un) ==
  CASE kind \in {"empty", "err2", "eof_partial", "abort"} -> {<<>>}
    [] kind = "err"      -> {<<>>, FindMissNoDir}
    [] kind = "err_scan" -> {ScanNoStatus}
    [] kind = "json"     -> {<<>>, <<"R", "r">>}                        \* status / work list
    [] kind = "q_shared" -> {IF lk.sh = "disk" THEN ScanLoadShared ELSE FindHit}
    [] kind = "q_unit"   -> {IF un.u = "mem" THEN FindHit ELSE FindMissNoDir}
    [] kind = "rel_unit" -> {IF un.u = "mem" THEN FindHit \o ReleaseOps ELSE FindMissNoDir}
    [] kind \in {"q_disk", "stream_disk"} ->
                            {IF un.d = "disk" THEN ScanLoad ELSE IF un.d = "mem" THEN FindHit ELSE FindMissNoDir}
    [] kind = "rel_disk" -> {IF un.d = "disk" THEN ScanLoad \o ReleaseOps ELSE IF un.d = "mem" THEN FindHit \o ReleaseOps ELSE FindMissNoDir}
    [] kind = "stream"   -> {<<>>, AllocOps}                            \* connect / submit
    [] kind = "stream_unit" -> {IF un.u = "mem" THEN FindHit \o FindHit ELSE FindMissNoDir}   \* results: findUnit, then GetResults finds it again

\* Per-line independence is the rule of the code: RunControlSession declares the command, its parameter string and the
\* decoded JSON object afresh for every line, so what a line is answered depends on that line (and the units) only - not
\* on whether earlier lines of the session were JSON or plain text, nor on their fields.  form: how the line is written;
\* stale: some earlier line of this session was decoded into a JSON object.
FormsOf(kind) ==      \* (under the code's rule the form cannot matter, so it is only distinguished when the rule is switched off)
  CASE ~RequestStateKeptAcrossLines \/ kind \in {"empty", "abort", "eof_partial"} -> {"plain"}
    [] kind = "err2" -> {"json_object", "json_bad"}          \* an object without a usable command / text that does not decode
    [] OTHER -> {"plain", "json_object"}
SessInit == [sent |-> <<>>, got |-> <<>>, prog |-> <<>>, busy |-> FALSE, mode |-> "cmd", form |-> "plain", stale |-> FALSE, found |-> FALSE]

OpEnabled(s, op) ==
  CASE op = "R"  -> lk.wr = 0 /\ lk.ww = {}              \* a pending writer blocks new readers (also re-entrant ones)
    [] op = "r"  -> lk.rd[s] > 0
    [] op = "Wa" -> TRUE
    [] op \in {"Wq", "WqS"} -> lk.wr = 0 /\ \A t \in Sessions : lk.rd[t] = 0
    [] op \in {"w", "wS"}  -> lk.wr = s
    [] op = "insS" -> TRUE

DoOp(s, op) ==
  CASE op = "R"  -> [lk EXCEPT !.rd[s] = @ + 1]
    [] op = "r"  -> [lk EXCEPT !.rd[s] = @ - 1]
    [] op = "Wa" -> [lk EXCEPT !.ww = @ \cup {s}]
    [] op \in {"Wq", "WqS"} -> [lk EXCEPT !.wr = s, !.ww = @ \ {s}]
    [] op = "w"  -> [lk EXCEPT !.wr = 0]
    [] op = "insS" -> [lk EXCEPT !.sh = "mem"]
    [] op = "wS" -> IF KF_ScanRecheckLeak /\ ss[s].found THEN lk ELSE [lk EXCEPT !.wr = 0]    \* the early return keeps the lock for ever

\* a client sends its next line; the handler's program is chosen
Send(s, kind) ==
  /\ ss[s].mode = "cmd" /\ ~ss[s].busy /\ Len(ss[s].sent) < MaxLinesOf(s)
  /\ \E p \in Programs(kind, du[s]), f \in FormsOf(kind) :
       ss' = [ss EXCEPT ![s].sent = Append(@, kind), ![s].prog = p, ![s].busy = TRUE, ![s].form = f]
  /\ UNCHANGED <<du, lk>>

\* one lock operation of the handler
Step(s) ==
  /\ ss[s].busy /\ ss[s].prog # <<>>
  /\ OpEnabled(s, Head(ss[s].prog))
  /\ lk' = DoOp(s, Head(ss[s].prog))
  /\ ss' = [ss EXCEPT ![s].prog = Tail(@), ![s].found = IF Head(ss[s].prog) = "WqS" THEN lk.sh = "mem" ELSE @]
  /\ UNCHANGED du

\* the handler writes its reply
Reply(s) ==
  /\ ss[s].busy /\ ss[s].prog = <<>>
  /\ LET kind == ss[s].sent[Len(ss[s].sent)]
         r == Seq1(kind, du[s])
         \* with request state kept across lines a plain line after a decoded object is initialised from that old object
         misread == RequestStateKeptAcrossLines /\ ss[s].stale /\ ss[s].form = "plain" /\ kind # "empty" IN
     /\ ss' = [ss EXCEPT ![s].got = Append(@, IF misread THEN "misread" ELSE r.reply), ![s].busy = FALSE,
                         ![s].stale = @ \/ ss[s].form = "json_object",
                         ![s].mode = IF EndsSession(kind, r.reply) THEN "closed" ELSE "cmd"]
     /\ du' = [du EXCEPT ![s] = r.un]
  /\ UNCHANGED lk

SessNext == \E s \in Sessions : (\E k \in Kinds : Send(s, k)) \/ Step(s) \/ Reply(s)

\* ---- properties (C08, per session pair)
Stuck == /\ \E s \in Sessions : ss[s].busy
         /\ \A s \in Sessions : ss[s].busy => ss[s].prog # <<>> /\ ~OpEnabled(s, Head(ss[s].prog))
NoDeadlock == Part = "sessions" => ~Stuck
\* a probe on a fresh session ("work list": one read lock) can always be served eventually: nobody keeps the lock for ever
ProbeServable == Part = "sessions" => ((\A s \in Sessions : ~ss[s].busy) => (lk.wr = 0 /\ lk.ww = {} /\ \A t \in Sessions : lk.rd[t] = 0))

\* expected replies of a whole session, from its own lines only
RECURSIVE RunSeq(_, _)
RunSeq(kinds, un) ==
  IF kinds = <<>> THEN <<>>
  ELSE LET r == Seq1(Head(kinds), un) IN <<r.reply>> \o RunSeq(Tail(kinds), r.un)

Isolation ==     \* what a session is answered depends on its own lines only, never on the other session
  Part = "sessions" => \A s \in Sessions : ss[s].got = SubSeq(RunSeq(ss[s].sent, UnitsInit), 1, Len(ss[s].got))
LineIndependence == Isolation     \* the same statement read per line: the answer does not depend on the form or fields of earlier lines
SessionContinues ==
  Part = "sessions" => \A s \in Sessions :
     ss[s].mode = "closed" => LET n == Len(ss[s].got) IN n > 0 /\ EndsSession(ss[s].sent[n], ss[s].got[n])
AlwaysAnswersS ==
  Part = "sessions" => \A s \in Sessions : \A i \in 1..Len(ss[s].got) :
     ss[s].sent[i] \in {"err", "err_scan", "err2"} => ss[s].got[i] = "error"
W_NoRescanDone == ~(Part = "sessions" /\ \E s \in Sessions : du[s].d = "mem")
W_NoSharedScanTwice == ~(Part = "sessions" /\ \E s \in Sessions : ss[s].found)     \* a scan found the shared unit inserted by the other one
W_NoTwoBusy    == ~(Part = "sessions" /\ \A s \in Sessions : ss[s].busy /\ ss[s].prog # <<>>)

\* ---- export: every session of at most n lines (a line after a closing kind is impossible)
RECURSIVE SeqsUpTo(_)
SeqsUpTo(n) ==
  IF n = 0 THEN {<<>>}
  ELSE LET prev == SeqsUpTo(n - 1) IN
       prev \cup { Append(q, k) : q \in { p \in prev : Len(p) = n - 1 /\ \A i \in 1..Len(p) : p[i] \in ContinuingKinds }, k \in ExportKinds }

SessVec(a, b) == [a |-> a, b |-> b, expect_a |-> RunSeq(a, UnitsInit), expect_b |-> RunSeq(b, UnitsInit)]
SessionVectors == { SessVec(a, b) : a \in SeqsUpTo(MaxLinesA) \ {<<>>}, b \in SeqsUpTo(MaxLinesB) }

(***************************************************************************)
(*     PART "mixed" : a JSON line, then another line, on one session       *)
(***************************************************************************)
\* Carriers: every line class that decodes into a JSON object (valid command or not, every field type) and leaves the
\* session open.  Followers: well-formed commands in plain and JSON form whose answer has a checkable content.  By the
\* rule of per-line independence the follower is answered exactly as on a fresh session.
RawJsonObjectIds == {"json_no_command", "json_command_number", "json_command_null", "json_command_bool", "json_command_array",
                     "json_command_object", "json_command_unknown", "json_command_upper", "json_empty_object", "json_dup_command", "long_valid_json"}
Carriers == { c \in LineClasses :
                /\ \/ c.fam = "json" /\ c.cmd # "reload"
                   \/ c.fam = "uid" /\ c.form = "json"
                   \/ c.fam = "raw" /\ c.id \in RawJsonObjectIds
                /\ Answer(c).cont
                /\ KindOf(c) \in {"err", "err2", "json", "q_unit"} }
FollowerSpecs ==     \* <<class, what the answer must contain>>
  { <<LC("plain", "-", "status", "-", 0, "-", "-", "-", "-", "-", "plain"), "status_all_fields">>,
    <<LC("json", "-", "status", "-", 0, "-", "requested_fields", "absent", "-", "-", "json"), "status_all_fields">>,
    <<LC("plain", "-", "ping", "-", 1, "self", "-", "-", "-", "-", "plain"), "ping_from_self">>,
    <<LC("plain", "-", "ping", "-", 1, "unknown_node", "-", "-", "-", "-", "plain"), "ping_no_route">>,
    <<LC("json", "-", "ping", "-", 0, "-", "target", "string", "self", "-", "json"), "ping_from_self">>,
    <<LC("plain", "-", "work", "list", 0, "-", "-", "-", "-", "-", "plain"), "list_all">>,
    <<LC("json", "-", "work", "list", 0, "-", "unitid", "absent", "-", "-", "json"), "list_all">>,
    <<LC("uid", "-", "work", "status", 1, "-", "unitid", "string", "-", "existing", "plain"), "unit_status">>,
    <<LC("uid", "-", "work", "status", 1, "-", "unitid", "string", "-", "existing", "json"), "unit_status">>,
    <<LC("plain", "-", "work", "status", 0, "-", "-", "-", "-", "-", "plain"), "-">>,
    <<LC("plain", "-", "connect", "-", 1, "words", "-", "-", "-", "-", "plain"), "-">> }
MixedVec(c, f) == [a |-> LineVec(c), b |-> LineVec(f[1]), must |-> f[2]]
MixedVectors == { MixedVec(c, f) : c \in Carriers, f \in FollowerSpecs }
FollowersAreLineClasses == Part = "mixed" => lc.b.class \in LineClasses
FollowerAnsweredAsOnFreshSession == Part = "mixed" => lc.b.expect = Answer(lc.b.class) /\ lc.b.expect.cont
W_NoInvalidCarrier == ~(Part = "mixed" /\ ~lc.a.wellformed /\ lc.b.class.fam = "plain")

(***************************************************************************)
(*              PART "c15" : who may drive signed work                     *)
(***************************************************************************)
Cmds15  == {"submit", "cancel", "release", "force-release", "results"}
Conns15 == {"unix", "tcp", "mesh"}
\* work-type classes: a local type that verifies, a local type that does not, a remote unit (submitted on this node for
\* another node) with and without signwork, a type this daemon does not know
WTs15   == {"verifying", "nonverifying", "remote_sign", "remote_nosign", "unknown"}
Toks15  == {"absent", "empty", "garbage", "valid", "expired", "other_aud", "other_key", "alg_none", "hs256_pub", "truncated"}

TokPresent(t) == t \notin {"absent", "empty"}       \* the code tests signature != ""
\* Valid: RS* signature by the configured key, unexpired, audience = this node
TokValid(t)   == t = "valid"

\* Does the command consult the verifier for this type?  For cancel/release/results the unit's recorded type decides
\* ("remote" units: their signwork flag).  For submit the *named* type is looked up in the local registry; the type of a
\* remote submission is a name of the other node (not registered here), so the submitting node never asks for a token.
Verifies(cmd, wt) ==
  CASE wt = "verifying"   -> TRUE
    [] wt \in {"remote_sign", "remote_sign_polled"} -> cmd # "submit"
    [] OTHER              -> FALSE

HasObject(cmd, wt) == ~(cmd = "submit" /\ wt = "unknown")     \* nothing can be created for an unknown type

Effect(cmd, conn, wt, tok) ==
  /\ HasObject(cmd, wt)
  /\ IF Verifies(cmd, wt) THEN conn = "unix" \/ TokValid(tok)     \* only the local Unix socket is exempt
                          ELSE ~TokPresent(tok)                   \* a token nobody asked for is refused

Why(cmd, conn, wt, tok) ==
  IF Effect(cmd, conn, wt, tok) THEN (IF Verifies(cmd, wt) /\ conn = "unix" THEN "unix_exempt" ELSE IF Verifies(cmd, wt) THEN "valid_token" ELSE "no_token_needed")
  ELSE IF ~HasObject(cmd, wt) THEN "unknown_type"
  ELSE IF Verifies(cmd, wt) THEN "token_" \o tok ELSE "unexpected_token"

\* Spellings of a registered type name that are NOT the registered name (other capitalisation, trailing space, look-alike
\* letters).  The code looks types up exactly, so they are unknown types: refused.  The rule that is judged on the daemon
\* is wider: a submit is either refused as unknown type or held to the token rule of the type it finally runs as.
SpellVariants15 == {"verifying_upper", "verifying_mixed", "verifying_space", "verifying_lookalike", "nonverifying_mixed"}
BaseType15(w) == IF w = "nonverifying_mixed" THEN "nonverifying" ELSE IF w \in SpellVariants15 THEN "verifying" ELSE w
Vec15(cmd, conn, wt, tok) == [cmd |-> cmd, conn |-> conn, wt |-> wt, tok |-> tok, base |-> BaseType15(wt),
                               effect |-> IF wt \in SpellVariants15 THEN FALSE ELSE Effect(cmd, conn, wt, tok),
                               allowed_if_resolved |-> Effect(cmd, conn, BaseType15(wt), tok),
                               why |-> IF wt \in SpellVariants15 THEN "unknown_type" ELSE Why(cmd, conn, wt, tok)]
Vectors15 == { Vec15(c, k, w, t) : c \in Cmds15, k \in Conns15, w \in WTs15, t \in Toks15 }
             \cup { Vec15("submit", k, w, t) : k \in Conns15, w \in SpellVariants15, t \in Toks15 }
             \* a signed remote unit that really runs on another node and whose status has been mirrored at least once: the
             \* token rule of a remote unit is fixed by its signwork flag for its whole life, whatever the executor reports
             \cup { Vec15(c, k, "remote_sign_polled", t) : c \in Cmds15 \ {"submit"}, k \in Conns15, t \in Toks15 }
\* whatever a daemon does with another spelling, it may not be more than what the type it resolves to allows
SpellingNeverWidens == Part = "c15" => (v15.effect => v15.allowed_if_resolved)

\* what the property protects: types configured to verify, and remote units that were asked to be signed
Protected(cmd, wt) == wt = "verifying" \/ (wt \in {"remote_sign", "remote_sign_polled"} /\ cmd # "submit")
NoEffectWithoutToken ==
  Part = "c15" => (v15.effect /\ Protected(v15.cmd, v15.wt) /\ v15.conn # "unix" => v15.tok = "valid")
UnexpectedTokenRefused ==
  Part = "c15" => (~Protected(v15.cmd, v15.wt) /\ TokPresent(v15.tok) => ~v15.effect)
ValidTokenSuffices ==
  Part = "c15" => (Protected(v15.cmd, v15.wt) /\ v15.tok = "valid" => v15.effect)
W15_NoRemoteEffect == ~(Part = "c15" /\ v15.effect /\ v15.conn = "mesh" /\ v15.wt = "verifying")
W15_NoUnixBypass   == ~(Part = "c15" /\ v15.effect /\ v15.conn = "unix" /\ v15.wt = "verifying" /\ v15.tok = "garbage")
W15_NoRefusal      == ~(Part = "c15" /\ ~v15.effect /\ v15.conn = "tcp" /\ v15.wt = "remote_sign" /\ v15.tok = "hs256_pub")

(***************************************************************************)
(*     PART "c15seq" : the life-cycle of one token (time-dependent)        *)
(***************************************************************************)
\* One correctly signed, correctly addressed token with expiry TokExp is used several times against the same running
\* daemon, for commands on a verifying work type over TCP and the mesh, while time passes and the daemon may restart.
\* Whether a use is accepted depends on the moment of use only - never on the token having been accepted before.
\* A use either carries the token itself (tok = "own") or carries none; it comes on a fresh connection or on the SAME
\* connection as the use before it (link), for the same unit or another one.  Every command is judged by its own token only.
TokExp  == 1                  \* the token is valid at time 0 and expired from time 1 on
MaxNow  == 2
SeqConns15 == {"tcp", "mesh"}
ValidAt(t) == t < TokExp

Seq15Init == [now |-> 0, cache |-> FALSE, carry |-> FALSE, steps |-> <<>>]

\* what the verifier answers at this moment; the cache is what a verifier that remembers verified strings would hold
Accepts(st) == ValidAt(st.now) \/ (VerifierRemembersTokens /\ st.cache)
\* a use without a token is refused - unless the connection still holds the token of an earlier command and hands it on
AcceptsStep(st, step) ==
  IF step.tok = "own" THEN Accepts(st)
  ELSE ConnectionRemembersToken /\ step.link = "same" /\ st.carry /\ Accepts(st)

DoSeq15(st, step) ==
  CASE step.op = "use" ->
         [st EXCEPT !.steps = Append(@, [op |-> "use", cmd |-> step.cmd, conn |-> step.conn, tok |-> step.tok, link |-> step.link, unit |-> step.unit,
                                          at |-> st.now, effect |-> step.cmd = "status" \/ AcceptsStep(st, step)]),     \* status is not protected: always answered
                    !.cache = @ \/ (step.tok = "own" /\ ValidAt(st.now)),               \* a full verification that succeeded
                    !.carry = (IF step.link = "same" THEN @ ELSE FALSE) \/ step.tok = "own"]   \* what a connection that kept request state would hold
    [] step.op = "tick" ->
         [st EXCEPT !.now = IF @ < MaxNow THEN @ + 1 ELSE @,
                    !.steps = Append(@, [op |-> "tick", cmd |-> "-", conn |-> "-", tok |-> "-", link |-> "-", unit |-> "-", at |-> st.now, effect |-> FALSE])]
    [] step.op = "restart" ->
         [st EXCEPT !.cache = FALSE,                                 \* nothing the verifier learnt survives the process
                    !.carry = FALSE,
                    !.steps = Append(@, [op |-> "restart", cmd |-> "-", conn |-> "-", tok |-> "-", link |-> "-", unit |-> "-", at |-> st.now, effect |-> FALSE])]

U15(c, k, t, l, u) == [op |-> "use", cmd |-> c, conn |-> k, tok |-> t, link |-> l, unit |-> u]
UseSteps15 == { U15(c, k, "own", "fresh", "same") : c \in Cmds15, k \in SeqConns15 }
\* commands after which the connection is still a command session (submit and results take the connection over)
KeepsConn15 == {"status", "cancel", "release", "force-release"}
FollowSteps15 == { U15(c, k, t, "same", u) : c \in Cmds15, k \in SeqConns15, t \in {"own", "none"}, u \in {"same", "other"} }
FirstSteps15 == { U15(c, k, "own", "fresh", "same") : c \in KeepsConn15, k \in SeqConns15 }
Steps15 == UseSteps15 \cup FirstSteps15 \cup FollowSteps15
           \cup { [op |-> "tick", cmd |-> "-", conn |-> "-", tok |-> "-", link |-> "-", unit |-> "-"],
                   [op |-> "restart", cmd |-> "-", conn |-> "-", tok |-> "-", link |-> "-", unit |-> "-"] }
MaxSeqLen15 == 3
\* a follow-up on the same connection needs a previous use of the same connection kind that left the connection open
CanFollow(st, step) ==
  step.op # "use" \/ step.link = "fresh"
  \/ (Len(st.steps) > 0 /\ LET p == st.steps[Len(st.steps)] IN p.op = "use" /\ p.conn = step.conn /\ p.cmd \in KeepsConn15)
Next15Seq == /\ Len(v15.steps) < MaxSeqLen15
             /\ \E step \in Steps15 : CanFollow(v15, step) /\ v15' = DoSeq15(v15, step)

\* the property over sequences: a command over TCP or the mesh takes effect only at a moment at which the token is valid
NoEffectWithoutTokenSeq ==
  Part = "c15seq" => \A i \in 1..Len(v15.steps) :
     v15.steps[i].op = "use" /\ v15.steps[i].cmd # "status" /\ v15.steps[i].effect => ValidAt(v15.steps[i].at) /\ v15.steps[i].tok = "own"
ValidTokenAcceptedEveryTime ==
  Part = "c15seq" => \A i \in 1..Len(v15.steps) : v15.steps[i].op = "use" /\ v15.steps[i].tok = "own" /\ ValidAt(v15.steps[i].at) => v15.steps[i].effect
W15Seq_NoReplayRefused ==    \* some sequence uses the token successfully and is refused with the same token later
  ~(Part = "c15seq" /\ \E i, j \in 1..Len(v15.steps) : i < j /\ v15.steps[i].op = "use" /\ v15.steps[i].effect
                                                       /\ v15.steps[j].op = "use" /\ ~v15.steps[j].effect)

\* export: use a; [use b | tick, use b | tick, restart, use b] for all commands and both connection kinds
RECURSIVE FoldSeq15(_, _)
FoldSeq15(st, steps) == IF steps = <<>> THEN st ELSE FoldSeq15(DoSeq15(st, Head(steps)), Tail(steps))
Tick15 == [op |-> "tick", cmd |-> "-", conn |-> "-", tok |-> "-", link |-> "-", unit |-> "-"]
Restart15 == [op |-> "restart", cmd |-> "-", conn |-> "-", tok |-> "-", link |-> "-", unit |-> "-"]
SeqShapes15(a, b) == { <<a, b>>, <<a, Tick15, b>>, <<a, Tick15, Restart15, b>> }
SeqVec15(steps) == [steps |-> FoldSeq15(Seq15Init, steps).steps]
\* same connection: a command with the valid token, then a command with its own token (control) or WITHOUT one, for the same
\* or another unit (after a release only another unit is left)
SameConnVectors15 ==
  UNION { { SeqVec15(<<a, b>>) : b \in { f \in FollowSteps15 : f.conn = a.conn /\ (a.cmd \in {"release", "force-release"} => f.unit = "other") } }
          : a \in FirstSteps15 }
SeqVectors15 == UNION { { SeqVec15(q) : q \in SeqShapes15(a, b) } : a \in UseSteps15, b \in UseSteps15 } \cup SameConnVectors15
W15Seq_NoTokenlessFollowUp == ~(Part = "c15seq" /\ \E i \in 1..Len(v15.steps) : v15.steps[i].op = "use" /\ v15.steps[i].tok = "none" /\ v15.steps[i].cmd # "status" /\ ~v15.steps[i].effect)

(***************************************************************************)
(*            PART "c19" : secret parameters of remote work                *)
(***************************************************************************)
\* key-spelling classes; in a concrete submission every class of the set is represented by one or more keys of that spelling
\* (several ordinary keys next to the secret ones), and a submission that must be refused is sent repeatedly: the verdict
\* on a parameter map is a function of the SET of keys, never of the order in which the map happens to be walked
Keys19 == {"secret_x", "SECRET_x", "Secret_X", "xsecret_", "secret", "plain"}
\* strings.HasPrefix(strings.ToLower(k), "secret_")
Lower19(k) == CASE k = "SECRET_x" -> "secret_x" [] k = "Secret_X" -> "secret_x" [] OTHER -> k
IsSecret(k) == Lower19(k) \in {"secret_x"}          \* of the lower-cased spellings only secret_x starts with "secret_"
Redact(ks) == { k \in ks : ~IsSecret(k) }

Ops19 == {"status", "list", "list_one", "cancel", "release", "restart"}

\* How the submit command ends (AllocateRemoteUnit works in steps: 0 the named TLS profile is looked up, the secret /
\* TLS rule is applied; 1 AllocateUnit("remote", params) creates the directory, stores ALL parameters, saves the record
\* and publishes the unit - with an empty TLSClient; 2 ttl is parsed; 3 a second record update stores node, type,
\* TLSClient, expiry, signwork; then the command takes stdin and starts the unit):
\*   ok          accepted, no ttl                     ttl_ok   accepted, ttl "1h"
\*   ttl_past    accepted, the unit expires at once   abort_stdin  accepted, the client goes away instead of sending stdin
\*   listed_mid  accepted, and another session lists the units between step 1 and step 3
\*   tls_unknown the named TLS profile does not exist: refused in step 0, nothing allocated
\*   ttl_bad     malformed ttl: the command answers an error in step 2, but the unit of step 1 STAYS (listed, on disk,
\*               with every parameter and no TLSClient recorded) - existing behaviour of the code, modelled as such
\*   crash_mid   the process dies between step 1 and step 3 and is restarted: the same record is loaded from disk
\*   exec_unknown_type / exec_needs_signature / exec_param_refused   the submission is accepted here and handed to the other
\*               node on the first, synchronous connection, and THAT node refuses it (work type not configured there, the type
\*               wants a signature, an extra parameter is not allowed): the command answers an error after the stdin phase,
\*               the unit stays (Failed, Detail = the error text) - an error text must not carry parameter values either
ExecRefusals == {"exec_unknown_type", "exec_needs_signature", "exec_param_refused"}
SubmitVariants == {"ok", "ttl_ok", "ttl_past", "abort_stdin", "listed_mid", "tls_unknown", "ttl_bad", "crash_mid"} \cup ExecRefusals

Outcome19(ks, tls, sv) ==
  IF sv = "tls_unknown" \/ (~tls /\ \E k \in ks : IsSecret(k)) THEN "refused"          \* before anything is allocated
  ELSE IF sv = "ttl_bad" THEN "failed_after_alloc"
  ELSE IF sv = "crash_mid" THEN "crashed_after_alloc"
  ELSE IF sv \in ExecRefusals THEN "refused_by_executor"
  ELSE "accepted"

\* state of the submitting node for one unit: mem/disk = the parameter keys held in memory / in the status file
\* (both unredacted: the unit must be resumable), tlsrec = a TLS profile is recorded in the unit (step 3 happened and a
\* profile was named), unit: none | live | released
H19Init(ks, tls, sv) ==
  LET oc == Outcome19(ks, tls, sv)
      refused == oc = "refused"
      first == [op |-> "submit", reply |-> CASE oc = "accepted" -> "created" [] oc = "crashed_after_alloc" -> "none"
                                             [] oc = "refused_by_executor" -> "created_then_error" [] OTHER -> "error", shown |-> {}] IN
  [keys |-> ks, tls |-> tls, sv |-> sv, outcome |-> oc, ops |-> <<>>,
   unit |-> IF refused THEN "none" ELSE "live",
   dir  |-> ~refused,                                \* a unit directory exists
   wire |-> IF oc \in {"accepted", "refused_by_executor"} THEN ks ELSE {},      \* keys whose values may be sent to the other node (over the named TLS profile when there are secrets)
   mem  |-> IF refused THEN {} ELSE ks, disk |-> IF refused THEN {} ELSE ks,
   tlsrec |-> oc \in {"accepted", "refused_by_executor"} /\ tls,
   replies |-> IF sv = "listed_mid" /\ oc = "accepted"
               THEN << first, [op |-> "list_mid", reply |-> "json", shown |-> Redact(ks)] >>   \* the other session's list sees the half-made unit
               ELSE << first >>]

\* What a status-like reply shows.  The code redacts whatever the record says; RedactNeedsTLSRecord = TRUE models the
\* tempting short-cut "a unit without a recorded TLS profile holds no secrets" (seeded/c19-redact-skip-without-tls),
\* which the left-behind and half-made units refute.
Shown19(h) == IF RedactNeedsTLSRecord /\ ~h.tlsrec THEN h.mem ELSE Redact(h.mem)

Do19(h, op) ==
  LET live == h.unit = "live"
      rep(r, shown) == Append(h.replies, [op |-> op, reply |-> r, shown |-> shown]) IN
  CASE op \in {"status", "list_one"} ->
         [h EXCEPT !.ops = Append(@, op), !.replies = IF live THEN rep("json", Shown19(h)) ELSE rep("error", {})]
    [] op = "list" ->
         [h EXCEPT !.ops = Append(@, op), !.replies = IF live THEN rep("json", Shown19(h)) ELSE rep("json_without_unit", {})]
    [] op = "cancel" ->
         [h EXCEPT !.ops = Append(@, op), !.replies = IF live THEN rep("json", {}) ELSE rep("error", {})]
    [] op = "release" ->
         [h EXCEPT !.ops = Append(@, op), !.replies = IF live THEN rep("json", {}) ELSE rep("error", {}),
                   !.unit = IF live THEN "released" ELSE @, !.dir = IF live THEN FALSE ELSE @,
                   !.mem = IF live THEN {} ELSE @, !.disk = IF live THEN {} ELSE @]
    [] op = "restart" ->
         [h EXCEPT !.ops = Append(@, op), !.mem = h.disk,            \* reload from the status file (tlsrec is part of it)
                   !.replies = rep("none", {})]

Secrets19 == { k \in Keys19 : IsSecret(k) }
KeySets19 ==
  IF KeyFamily = "all" THEN SUBSET Keys19
  ELSE { {k} : k \in Keys19 } \cup { {}, Keys19, Secrets19, Keys19 \ Secrets19, {"secret_x", "plain"}, {"SECRET_x", "plain"},
                                      {"Secret_X", "secret", "xsecret_"}, {"SECRET_x", "Secret_X", "xsecret_"} }
\* the submit variants other than "ok" are explored for a small family of key sets
VarKeySets19 == { Keys19, {"Secret_X", "plain"}, {"secret_x"}, {"plain", "secret"} }
Starts19 == { <<ks, tls, "ok">> : ks \in KeySets19, tls \in BOOLEAN }
            \cup { <<ks, tls, sv>> : ks \in VarKeySets19, tls \in BOOLEAN, sv \in SubmitVariants \ {"ok"} }
Init19 == h19 \in { H19Init(st[1], st[2], st[3]) : st \in { x \in Starts19 : x[3] = "tls_unknown" => x[2] } }
Next19 == /\ Len(h19.ops) < MaxOps
          /\ \E op \in Ops19 : h19' = Do19(h19, op)

NoSecretInReplies == Part = "c19" => \A i \in 1..Len(h19.replies) : \A k \in h19.replies[i].shown : ~IsSecret(k)
OthersUnchanged ==
  Part = "c19" => \A i \in 1..Len(h19.replies) :
     h19.replies[i].reply = "json" /\ h19.replies[i].op \in {"status", "list", "list_one", "list_mid"}
        => h19.replies[i].shown = { k \in h19.keys : ~IsSecret(k) }
RefuseWithoutTLS ==
  Part = "c19" => ((~h19.tls /\ \E k \in h19.keys : IsSecret(k))
                      => h19.replies[1].reply = "error" /\ h19.unit = "none" /\ ~h19.dir /\ h19.wire = {} /\ h19.disk = {})
\* what the code does with a submit that fails after the allocation (not a requirement): the unit stays, with every
\* parameter and without a recorded TLS profile; nothing was sent
FailedSubmitLeavesUnit ==
  Part = "c19" => (h19.outcome \in {"failed_after_alloc", "crashed_after_alloc"} /\ h19.ops = <<>>
                      => h19.unit = "live" /\ h19.disk = h19.keys /\ ~h19.tlsrec /\ h19.wire = {})
W19_NoRedaction == ~(Part = "c19" /\ Len(h19.ops) >= 2 /\ h19.ops[1] = "restart" /\ h19.ops[2] = "list" /\ h19.sv = "ok"
                        /\ h19.replies[3].reply = "json" /\ h19.replies[3].shown # {} /\ h19.replies[3].shown # h19.keys)
W19_NoRefusal   == ~(Part = "c19" /\ h19.unit = "none")
W19_NoCaseVariantAccepted == ~(Part = "c19" /\ h19.unit = "live" /\ h19.tls /\ "Secret_X" \in h19.keys)
W19_NoLeftBehindSecretListed ==     \* a left-behind unit holding a secret is listed (redacted) after a restart
  ~(Part = "c19" /\ h19.outcome = "failed_after_alloc" /\ (\E k \in h19.keys : IsSecret(k)) /\ Len(h19.ops) >= 2
       /\ h19.ops[1] = "restart" /\ h19.ops[2] = "list" /\ h19.replies[3].reply = "json")

\* export: for the plain submit every history of at most ExportOps operations, for every key set of the family and TLS
\* choice; for the other submit variants a fixed set of short histories on the small family
RECURSIVE OpSeqs(_)
OpSeqs(n) == IF n = 0 THEN {<<>>} ELSE LET p == OpSeqs(n - 1) IN p \cup { Append(q, o) : q \in { x \in p : Len(x) = n - 1 }, o \in Ops19 }
VarOps19(sv) ==
  IF sv = "crash_mid" THEN { <<"list">>, <<"status">> }
  ELSE { <<>>, <<"list">>, <<"status">>, <<"list_one">>, <<"restart", "list">>, <<"restart", "status">>, <<"cancel", "list">>, <<"list", "release">> }
RECURSIVE Fold19(_, _)
Fold19(h, ops) == IF ops = <<>> THEN h ELSE Fold19(Do19(h, Head(ops)), Tail(ops))
Vec19(ks, tls, sv, ops) == LET h == Fold19(H19Init(ks, tls, sv), ops) IN
  [keys |-> ks, tls |-> tls, sv |-> sv, outcome |-> h.outcome, ops |-> ops, replies |-> h.replies, unit |-> h.unit, dir |-> h.dir]
Vectors19 == { Vec19(ks, tls, "ok", ops) : ks \in KeySets19, tls \in BOOLEAN, ops \in OpSeqs(ExportOps) }
             \cup UNION { { Vec19(st[1], st[2], st[3], ops) : ops \in VarOps19(st[3]) }
                          : st \in { x \in Starts19 : x[3] # "ok" /\ (x[3] = "tls_unknown" => x[2]) } }

(***************************************************************************)
(*                          the state machine                              *)
(***************************************************************************)
Init ==
  /\ lc  \in (IF Part = "lines" THEN LineClasses ELSE IF Part = "mixed" THEN MixedVectors ELSE {Parked})
  /\ ss  = IF Part = "sessions" THEN [s \in Sessions |-> SessInit] ELSE Parked
  /\ du  = IF Part = "sessions" THEN [s \in Sessions |-> UnitsInit] ELSE Parked
  /\ lk  = IF Part = "sessions" THEN [rd |-> [s \in Sessions |-> 0], wr |-> 0, ww |-> {}, sh |-> "disk"] ELSE Parked
  /\ v15 \in (IF Part = "c15" THEN Vectors15 ELSE IF Part = "c15seq" THEN {Seq15Init} ELSE {Parked})
  /\ IF Part = "c19" THEN Init19 ELSE h19 = Parked

Next ==
  \/ Part = "sessions" /\ SessNext /\ UNCHANGED <<lc, v15, h19>>
  \/ Part = "c19" /\ Next19 /\ UNCHANGED <<lc, ss, du, lk, v15>>
  \/ Part = "c15seq" /\ Next15Seq /\ UNCHANGED <<lc, ss, du, lk, h19>>

Spec == Init /\ [][Next]_vars

\* ---- export of the vectors of the selected part
Export ==
  CASE Part = "lines"    -> SetToSeq({ LineVec(c) : c \in LineClasses })
    [] Part = "mixed"    -> SetToSeq(MixedVectors)
    [] Part = "sessions" -> SetToSeq(SessionVectors)
    [] Part = "c15"      -> SetToSeq(Vectors15)
    [] Part = "c15seq"   -> SetToSeq(SeqVectors15)
    [] Part = "c19"      -> SetToSeq(Vectors19)
ASSUME DumpFile = "" \/ ndJsonSerialize(DumpFile, Export)
=============================================================================
