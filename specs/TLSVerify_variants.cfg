\* All counter-example variants at once (they live in disjoint vector families): checks/c09.py runs this with -continue and
\* requires every listed invariant to be violated.  See TLSVerify_colonsplit.cfg, TLSVerify_digestcache.cfg and
\* TLSVerify_timefrozen.cfg for the single variants.
SPECIFICATION Spec
CONSTANTS
  Issuers = {"trusted", "otherca"}
  Validities = {"valid", "expired"}
  Usages = {"server", "client"}
  NameSets = {"expected", "other", "several"}
  PinLists <- PinListsWit
  Roles = {"server", "client"}
  Modes = {"receptor", "dns"}
  StreamSrcs <- StreamSrcsQuick
  MaxTick = 1
  KF_LookupMutatesStored = TRUE
  KF_TimeFrozenAtCreation = TRUE
  KF_DigestCachedAcrossCalls = TRUE
  KF_ColonSplit = TRUE
  DumpFile = ""
INVARIANTS
  CodeWithinProp
  HistoryIndependent
  ValidityJudgedAtHandshake
  LookupsIndependent
