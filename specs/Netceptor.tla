----------------------------- MODULE Netceptor -----------------------------
(***************************************************************************)
(* The mesh: N nodes running NetCore's per-node operators, joined by links *)
(* that come and go.  Serves C01 (routing converges to least-cost,         *)
(* loop-free next hops once events stop) and the mesh-level half of C06    *)
(* (flooding terminates; knowledge never regresses) at design level.       *)
(*                                                                         *)
(* Grain: an update a node floods is put in an UNORDERED per-link bag      *)
(* (flood() starts one goroutine per neighbour per message, so two updates *)
(* for the same neighbour can be written in either order).  The bag is a   *)
(* deliberate over-approximation of "unordered outbox in front of a FIFO   *)
(* wire": every behaviour of the real link is a behaviour of the bag, so   *)
(* the safety properties proved here hold for the real link a fortiori,    *)
(* and the state space loses one sequence-valued variable per direction.   *)
(* Delivery applies NetCore.RecvRoute at the receiver.  Own updates are    *)
(* originated on request (flood request set by establishment, session end, *)
(* first update from a new origin) and periodically; table rebuilds happen *)
(* on request.                                                             *)
(*                                                                         *)
(* Named abstractions: the two-message handshake is one LinkUp step (its   *)
(* interleavings are Admit.tla's subject); both ends notice a LinkDown in  *)
(* the same step (a silent failure differs only in WHEN it is noticed);    *)
(* node stop/restart is link events plus a fresh state with a larger       *)
(* epoch.                                                                  *)
(***************************************************************************)
EXTENDS NetCore

CONSTANTS Nodes, Cand, MaxSeq, MaxEv, Restartable

\* Cand: set of <<a, b, cost>> with a < b (candidate links)
VARIABLES nst, up, outb, freq, ev, fresh
vars == <<nst, up, outb, freq, ev, fresh>>
vw == <<nst, up, outb, freq, fresh>>

CandTriangle == {<<"a", "b", 1>>, <<"b", "c", 1>>, <<"a", "c", 3>>}
CandLine == {<<"a", "b", 1>>, <<"b", "c", 2>>}
CandSquare == {<<"a", "b", 1>>, <<"b", "c", 1>>, <<"c", "d", 1>>, <<"a", "d", 2>>, <<"a", "c", 3>>}
Pairs == {<<a, b>> : a \in Nodes, b \in Nodes}
Dirs(e) == {<<e[1], e[2]>>, <<e[2], e[1]>>}

Init == /\ nst = [n \in Nodes |-> NewNode(n, 1)]
        /\ up = {}
        /\ outb = [p \in Pairs |-> {}]
        /\ freq = [n \in Nodes |-> FALSE]
        /\ ev = 0
        /\ fresh = [n \in Nodes |-> TRUE]

Touched(S) == [n \in Nodes |-> IF n \in S THEN TRUE ELSE freq[n]]

LinkUp(e) ==
  /\ e \in Cand /\ e \notin up /\ ev < MaxEv
  /\ nst[e[1]].alive /\ nst[e[2]].alive
  /\ up' = up \cup {e}
  /\ nst' = [nst EXCEPT ![e[1]] = [Establish(@, e[2], e[3]) EXCEPT !.rest[e[2]] = TRUE],
                        ![e[2]] = [Establish(@, e[1], e[3]) EXCEPT !.rest[e[1]] = TRUE]]
  /\ freq' = Touched({e[1], e[2]})
  /\ ev' = ev + 1
  /\ fresh' = [n \in Nodes |-> FALSE]
  /\ UNCHANGED outb

LinkDown(e) ==
  /\ e \in up /\ ev < MaxEv
  /\ up' = up \ {e}
  /\ nst' = [nst EXCEPT ![e[1]] = RemoveConn(@, e[2]), ![e[2]] = RemoveConn(@, e[1])]
  /\ outb' = [p \in Pairs |-> IF p \in Dirs(e) THEN {} ELSE outb[p]]
  /\ freq' = Touched({e[1], e[2]})
  /\ ev' = ev + 1
  /\ fresh' = [n \in Nodes |-> FALSE]

\* a node stops and starts again at once with a larger epoch and no links (its neighbours notice the loss)
Restart(n) ==
  /\ n \in Restartable /\ ev < MaxEv
  /\ LET gone == {e \in up : n \in {e[1], e[2]}}
         nb   == {IF e[1] = n THEN e[2] ELSE e[1] : e \in gone}
     IN /\ up' = up \ gone
        /\ nst' = [m \in Nodes |-> IF m = n THEN NewNode(n, nst[n].epoch + 1)
                                   ELSE IF m \in nb THEN RemoveConn(nst[m], n) ELSE nst[m]]
        /\ outb' = [p \in Pairs |-> IF n \in {p[1], p[2]} THEN {} ELSE outb[p]]
        /\ freq' = [m \in Nodes |-> IF m \in nb THEN TRUE ELSE IF m = n THEN FALSE ELSE freq[m]]
  /\ ev' = ev + 1
  /\ fresh' = [m \in Nodes |-> FALSE]

\* makeRoutingUpdate + flood: on request, or periodically while the node has not originated since the last event
Tick(n) ==
  /\ nst[n].alive /\ (freq[n] \/ ~fresh[n]) /\ nst[n].seq < MaxSeq
  /\ LET u == OwnUpdate(nst[n], <<n, nst[n].epoch, nst[n].seq + 1>>, 0) IN
     /\ nst' = [nst EXCEPT ![n].seq = @ + 1]
     /\ outb' = [p \in Pairs |-> IF p[1] = n /\ Has(nst[n].conn, p[2]) THEN outb[p] \cup {u} ELSE outb[p]]
  /\ freq' = [freq EXCEPT ![n] = FALSE]
  /\ fresh' = [fresh EXCEPT ![n] = TRUE]
  /\ UNCHANGED <<up, ev>>

\* one flood goroutine wins the connection's write channel and the peer's session loop handles the message
Deliver(p, u) ==
  /\ u \in outb[p]
  /\ LET a == p[1]  b == p[2]
         r == RecvRoute(nst[b], u, a)
         fw == [u EXCEPT !.fwd = b]
     IN /\ Has(nst[b].conn, a)
        /\ r.reject = ""                   \* honest peers: never triggered (checked by NoRejectAmongHonest)
        /\ nst' = [nst EXCEPT ![b] = r.ns]
        /\ outb' = [q \in Pairs |-> IF q = p THEN outb[q] \ {u}
                                    ELSE IF r.relay /\ q[1] = b /\ q[2] # a /\ Has(r.ns.conn, q[2]) THEN outb[q] \cup {fw}
                                    ELSE outb[q]]
        /\ freq' = [freq EXCEPT ![b] = @ \/ r.flood]
  /\ UNCHANGED <<up, ev, fresh>>

\* updateRoutingTable is a function of the adjacency picture (up to ties), requested whenever the picture
\* changes; the mesh model therefore does not carry the tables: TableOf(n) is what a rebuild yields.
\* That rebuilds really happen on request, and yield such a table, is checked on real nodes by NodeTrace.tla.
TableOf(n) ==
  LET k == nst[n].known
      D == DistFrom(k, n)
      dom == {d \in (DOMAIN k) \ {n} : D[d] < Inf}
  IN [t |-> [d \in dom |-> CHOOSE h \in DOMAIN k : GoodHop(k, n, d, h)], c |-> [d \in dom |-> D[d]]]

Next == \/ \E e \in Cand : LinkUp(e) \/ LinkDown(e)
        \/ \E n \in Nodes : Restart(n) \/ Tick(n)
        \/ \E p \in Pairs : \E u \in outb[p] : Deliver(p, u)

Spec == Init /\ [][Next]_vars
FairSpec == /\ Spec
            /\ \A n \in Nodes : WF_vars(Tick(n))
            /\ \A p \in Pairs : WF_vars(\E u \in outb[p] : Deliver(p, u))

\* ---------------------------------------------------------------- C01
RealKnown == [a \in Nodes |-> [b \in {x \in Nodes : \E e \in up : {a, x} = {e[1], e[2]}} |->
                 (CHOOSE e \in up : {a, b} = {e[1], e[2]})[3]]]

MeshQuiet == /\ \A p \in Pairs : outb[p] = {}
         /\ \A n \in Nodes : ~freq[n]

Stable == MeshQuiet /\ \A n \in Nodes : fresh[n]

StableImpliesConverged ==
  Stable => \A n \in Nodes : /\ ValidTable(RealKnown, n, TableOf(n).t, TableOf(n).c)
                             /\ nst[n].conn = RealKnown[n]

\* C06 at mesh level: per-origin knowledge never regresses
InfoMonotone ==
  [][ \A n \in Nodes : \A o \in DOMAIN nst[n].info :
        (nst'[n].epoch = nst[n].epoch /\ Has(nst'[n].info, o)) =>
           \/ nst[n].info[o][1] < nst'[n].info[o][1]
           \/ (nst[n].info[o][1] = nst'[n].info[o][1] /\ nst[n].info[o][2] <= nst'[n].info[o][2]) ]_vars

\* flooding terminates: with no further events and no node needing to originate, the mesh becomes quiet
\* (a run that exhausts the model's bound on own updates is cut off, not divergent)
Converges == <>[](MeshQuiet \/ \E n \in Nodes : nst[n].seq = MaxSeq)

\* under fairness of delivery and of the periodic/requested own updates, the mesh reaches a stable state (which is a
\* converged one by StableImpliesConverged) and stays there: routing converges after the last event (C01, liveness half)
EventuallyStable == <>[](Stable \/ \E n \in Nodes : nst[n].seq = MaxSeq)

W_NotStableAfterEvents == ~(Stable /\ ev = MaxEv)
W_NoIndirectRoute == ~(Stable /\ \E n \in Nodes : \E d \in DOMAIN TableOf(n).t : TableOf(n).t[d] # d)
=============================================================================
