SPECIFICATION Spec
CONSTANTS
  Tombstones = TRUE
  Nodes = {"o", "b", "c"}
  Links = {{"o", "b"}, {"b", "c"}, {"o", "c"}}
  Owner = "o"
  Svcs = {"s1", "s2"}
  MaxOps = 4
  MaxSent = 100
INVARIANTS
  NoResurrection
  FloodTerminates
  StableImpliesExact
PROPERTIES
  NoOlderReplaces
