---------------------------- MODULE NetLocalTrace ----------------------------
(***************************************************************************)
(* Trace validation for NetLocal: cmd/vh netlocal drives a REAL node with   *)
(* adversarial routing updates from scripted neighbours and records, for    *)
(* every injected update, what the node did (frames relayed to which        *)
(* neighbours, its adjacency picture, per-origin epoch/sequence, connection *)
(* set, liveness, rejection).  This module replays the same inputs through  *)
(* NetLocal's Step and compares; every C06/C11 action property of NetLocal  *)
(* is evaluated on the way because the same actions are taken.              *)
(*                                                                         *)
(* Lines: {"ev":"reset"} starts a new segment (fresh node, same set-up);   *)
(* {"ev":"step", via, u, obs}; {"ev":"end", obs} closes a segment after a  *)
(* sentinel update that forces one own update and one table rebuild.       *)
(* A mismatch does not block the trace: it is printed as a DIFF tuple and   *)
(* the rest of the segment is skipped (the states have diverged).           *)
(***************************************************************************)
EXTENDS NetLocal

Trace == ndJsonDeserialize("trace.ndjson")

VARIABLES l,      \* next line
          skip,   \* a mismatch was reported in this segment
          acc     \* per segment: own updates / rebuilds requested, by kind

tvars == <<ns, last, hist, l, skip, acc>>

Zero == [flood |-> 0, dup |-> 0, rebuild |-> 0, rejects |-> 0]

SeqSet(s) == {s[i] : i \in 1..Len(s)}

\* After Shutdown every session of the node ends asynchronously, so its connection set and adjacency
\* picture are not compared any more (only that it is down and relayed nothing).
Diff(exp, obs) ==
     (IF SeqSet(obs.relayTo) # exp.relayTo THEN {"relayTo"} ELSE {})
  \cup (IF exp.alive /\ obs.known # exp.known THEN {"known"} ELSE {})
  \cup (IF obs.info # exp.info THEN {"info"} ELSE {})
  \cup (IF exp.alive /\ obs.conn # exp.conn THEN {"conn"} ELSE {})
  \cup (IF obs.alive # exp.alive THEN {"alive"} ELSE {})
  \cup (IF obs.reject # (exp.reject # "") THEN {"reject"} ELSE {})
  \cup (IF obs.dupown # (IF exp.dupflood # 0 /\ exp.conn # EmptyF THEN 1 ELSE 0) THEN {"dupown"} ELSE {})

TInit == /\ ns = InitNode2 /\ last = NoStep /\ hist = <<>>
         /\ l = 1 /\ skip = FALSE /\ acc = Zero

TReset == /\ l <= Len(Trace) /\ Trace[l].ev = "reset"
          /\ ns' = InitNode2 /\ last' = NoStep /\ hist' = hist
          /\ l' = l + 1 /\ skip' = FALSE /\ acc' = Zero

TStep ==
  /\ l <= Len(Trace) /\ Trace[l].ev = "step"
  /\ l' = l + 1
  /\ hist' = hist
  /\ IF skip \/ ~ns.alive \/ ~Has(ns.conn, Trace[l].via)
     THEN UNCHANGED <<ns, last, acc>> /\ skip' = TRUE
     ELSE LET exp == StepRec(Trace[l].via, Trace[l].u)
              d   == Diff(exp, Trace[l].obs)
          IN /\ ns' = RecvRoute(ns, Trace[l].u, Trace[l].via).ns
             /\ last' = exp
             /\ acc' = [flood   |-> acc.flood + (IF exp.flood \/ exp.reject # "" THEN 1 ELSE 0),
                        dup     |-> acc.dup + (IF exp.dupflood # 0 /\ exp.conn # EmptyF THEN 1 ELSE 0),
                        rebuild |-> acc.rebuild + (IF exp.rebuild THEN 1 ELSE 0),
                        rejects |-> acc.rejects + (IF exp.reject # "" THEN 1 ELSE 0)]
             /\ skip' = (d # {})
             /\ PrintT(<<"CLASS", exp.class>>)
             /\ (d = {} \/ PrintT(<<"DIFF", l, exp.class, d>>))

EndDiff(obs) ==
     (IF ~(obs.ownPlain <= acc.flood /\ (acc.flood > 0 => obs.ownPlain >= 1)) THEN {"ownPlain"} ELSE {})
  \cup (IF obs.ownDup # acc.dup THEN {"ownDup"} ELSE {})
  \cup (IF ~(obs.rebuilds <= acc.rebuild /\ (acc.rebuild > 0 => obs.rebuilds >= 1)) THEN {"rebuilds"} ELSE {})
  \cup (IF ns.alive /\ ~ValidTable(ns.known, Self, obs.table, obs.costs) THEN {"table"} ELSE {})
  \cup (IF ns.alive /\ obs.lastOwnConns # ns.conn THEN {"lastOwnConns"} ELSE {})
  \cup (IF obs.sessionsClosed # acc.rejects THEN {"sessionsClosed"} ELSE {})

TEnd == /\ l <= Len(Trace) /\ Trace[l].ev = "end"
        /\ l' = l + 1
        /\ UNCHANGED <<ns, last, hist, acc>>
        /\ skip' = TRUE
        /\ (skip \/ EndDiff(Trace[l].obs) = {} \/ PrintT(<<"DIFF", l, "end", EndDiff(Trace[l].obs)>>))

\* the harness waited until the node's seenUpdates table was empty (short expiry time in these segments)
TExpire == /\ l <= Len(Trace) /\ Trace[l].ev = "expire"
           /\ l' = l + 1
           /\ ns' = [ns EXCEPT !.seen = {}]
           /\ last' = [NoStep EXCEPT !.class = "expire", !.conn = ns.conn, !.known = ns.known, !.info = ns.info]
           /\ UNCHANGED <<hist, skip, acc>>
           /\ PrintT(<<"CLASS", "expire">>)

TNext == TReset \/ TStep \/ TEnd \/ TExpire

TSpec == TInit /\ [][TNext]_tvars

Done == l = Len(Trace) + 1 => PrintT(<<"DONE", l - 1>>)
=============================================================================
