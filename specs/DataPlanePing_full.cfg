SPECIFICATION Spec
CONSTANTS
  Topos <- FullTopos
  DumpFile = "ping_vectors.ndjson"
INVARIANTS
  ReachIffVec
  TracerouteVec
  PathIsAPath
