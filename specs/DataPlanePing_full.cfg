SPECIFICATION Spec
CONSTANTS
  DefTTL = 6
  Topos = {"chain2", "chain3", "chain4", "chain5", "chain6", "star5", "ytree5", "tree6", "broom6"}
  DumpFile = "ping_vectors.ndjson"
INVARIANTS
  ReachIffVec
  TracerouteVec
  PathIsAPath
