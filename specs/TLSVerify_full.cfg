SPECIFICATION Spec
CONSTANTS
  Issuers = {"trusted", "trusted_inter", "otherca", "selfsigned"}
  Validities = {"valid", "expired", "notyet"}
  Usages = {"server", "client", "both", "neither", "absent"}
  NameSets = {"expected", "other", "several", "none", "dnsonly", "dnsother", "both", "rec_other_dns_expected"}
  PinLists <- PinListsFull
  Roles = {"server", "client"}
  Modes = {"receptor", "dns", "dns_noname"}
  StreamSrcs <- StreamSrcsFull
  MaxTick = 2
  KF_LookupMutatesStored = FALSE
  KF_TimeFrozenAtCreation = FALSE
  KF_DigestCachedAcrossCalls = FALSE
  KF_ColonSplit = FALSE
  DumpFile = "vectors.ndjson"
INVARIANTS
  VerdictsAreDefinitions
  AcceptImpliesAll
  SingleFailureRefuses
  CodeWithinProp
  WellFormedEquiv
  RoleSeparation
  ReceptorModeIgnoresDNS
  PinsOnlyRestrict
  StreamBindsSource
  StreamCodeIsProp
  HistoryIndependent
  PinnedThenUnpinnedRefused
  ValidityJudgedAtHandshake
  LookupsIndependent
  LaterLookupStillVerifies
  ExpiryAndOnsetObserved
