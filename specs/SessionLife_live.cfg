\* liveness under weak fairness of every goroutine and of time; no state constraint; environment: the link may go silent once and heal
SPECIFICATION FairSpec
CONSTANTS
  Links = {1}
  MaxIdle = 2
  Poll = 1
  KA = 1
  MaxInit = 2
  MaxLev = 1
  QLen = 1
  Sync = TRUE
  Coarse = TRUE
  RealNodes = {"a", "b"}
  CancelOnReturn = TRUE
  SkipOnBackendCancel = FALSE
  EdgeGuard = TRUE
  BSilence = 1
  BCut = 0
  ShutNodes = {}
  CancelNodes = {}
  BReborn = 0
  BAdv = 0
  BIdle = 0
  BDial = 0
  Wit = FALSE
INVARIANTS
  TypeOK
  OnePerPeer
  ListedIffOpen
  EdgeOnlyWhileHeld
  EstHasEdge
  RebuildComing
  NoOrphan
  NoInitAfterDone
  AgeBound
  OneDialSession
  DialerWaits
  DownStaysQuiet
PROPERTIES
  EventuallyConnected
  SilentIsCut
  DialerRedials
  CancelEndsAll
  TableFollows
