SPECIFICATION Spec
CONSTANTS
  Node = {"n1", "n2", "n3"}
  Ghost = {}
  Nbr <- Tri_Nbr
  Bound <- Bound_ab
  VarCols = {"n1", "n3"}
  SrcSet = {"n1", "n3"}
  SrcSvcs = {"a", "b"}
  DstSet = {"n1", "n3"}
  DstSvcs = {"a", "u", "ping"}
  TTLs = {0, 2}
  MaxSends = 2
  DefTTL = 3
INVARIANTS
  TypeOK
  DeliveredOnlyAtAddressee
  TrueSource
  AtMostOnce
  Intact
  DeliveredWhenRouted
  FwdBound
  ReachIff
  ReachIffDist
  NoNoticeAboutNotice
  AtMostOneNotice
  PingConsistent
  NoticeToSenderOnly
  UnknownServiceReported
  NeverBoth
PROPERTIES
  Decreases
