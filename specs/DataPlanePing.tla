--------------------------- MODULE DataPlanePing ---------------------------
(***************************************************************************)
(* C10 - expected results of Netceptor.Ping / Netceptor.Traceroute and of    *)
(* plain sends with a hop budget on the loop-free topologies that `vdp c10`  *)
(* builds out of real nodes (chains and trees of up to 6 nodes).  On a tree  *)
(* the least-cost routing table is unique, so the spec's table is the one    *)
(* the converged mesh must have; the operators applied to it are those of    *)
(* DataPlaneCore.tla whose agreement with the state machine is checked in    *)
(* DataPlane.tla (PingConsistent, ReachIff, TracerouteOK).                   *)
(* One state per vector; the vectors are exported for replay (B1).           *)
(***************************************************************************)
EXTENDS DataPlaneCore, TLC, Json, SequencesExt

CONSTANTS Topos,      \* the meshes to export: pairs <<topology name, maxForwardingHops of every node of that mesh>>
          DumpFile

E(a, b) == <<a, b>>
Chain(k) == { E("n" \o ToString(i), "n" \o ToString(i + 1)) : i \in 1..(k - 1) }

EdgePairs(name) ==
  CASE name = "chain2" -> Chain(2)
    [] name = "chain3" -> Chain(3)
    [] name = "chain4" -> Chain(4)
    [] name = "chain5" -> Chain(5)
    [] name = "chain6" -> Chain(6)
    [] name = "star5"  -> { E("n1", "n2"), E("n1", "n3"), E("n1", "n4"), E("n1", "n5") }
    [] name = "ytree5" -> { E("n1", "n2"), E("n2", "n3"), E("n3", "n4"), E("n3", "n5") }
    [] name = "tree6"  -> { E("n1", "n2"), E("n1", "n3"), E("n2", "n4"), E("n2", "n5"), E("n3", "n6") }
    [] name = "broom6" -> { E("n1", "n2"), E("n2", "n3"), E("n3", "n4"), E("n4", "n5"), E("n4", "n6") }

Edges(name) == { {e[1], e[2]} : e \in EdgePairs(name) }

\* the meshes of the two tiers: the default budget 6 (every pair well within it) and small budgets, so that pairs exactly
\* maxForwardingHops apart and pairs one link further exist
QuickTopos == {<<"chain2", 6>>, <<"chain4", 6>>, <<"chain6", 6>>, <<"ytree5", 6>>, <<"chain2", 1>>, <<"chain3", 2>>, <<"chain3", 1>>, <<"chain5", 4>>}
FullTopos == {<<"chain2", 6>>, <<"chain3", 6>>, <<"chain4", 6>>, <<"chain5", 6>>, <<"chain6", 6>>, <<"star5", 6>>, <<"ytree5", 6>>, <<"tree6", 6>>, <<"broom6", 6>>,
              <<"chain2", 1>>, <<"chain3", 2>>, <<"chain3", 1>>, <<"chain4", 3>>, <<"chain4", 2>>, <<"chain5", 4>>, <<"chain6", 5>>, <<"chain6", 4>>,
              <<"star5", 2>>, <<"star5", 1>>, <<"ytree5", 3>>, <<"ytree5", 2>>, <<"tree6", 4>>, <<"tree6", 3>>, <<"broom6", 4>>, <<"broom6", 3>>}

NodesOf(ed) == UNION ed
NbrOf(ed, n) == { m \in NodesOf(ed) : {n, m} \in ed /\ m # n }

RECURSIVE ReachAvoiding(_, _, _)
ReachAvoiding(ed, S, avoid) ==
  LET S2 == S \cup { y \in NodesOf(ed) : y # avoid /\ \E x \in S : {x, y} \in ed } IN
  IF S2 = S THEN S ELSE ReachAvoiding(ed, S2, avoid)

\* the unique least-cost table of a tree: the neighbour on whose side of the tree the destination lies
TreeTable(ed) ==
  [ n \in NodesOf(ed) |->
      [ d \in NodesOf(ed) \ {n} |-> CHOOSE m \in NbrOf(ed, n) : d \in ReachAvoiding(ed, {m}, n) ] ]

IsTree(ed) == /\ Cardinality(ed) = Cardinality(NodesOf(ed)) - 1
              /\ \A n \in NodesOf(ed) : ReachAvoiding(ed, {n}, None) = NodesOf(ed)

\* budgets tried for a pair at distance d on a mesh whose nodes have maxForwardingHops k.  A destination one link beyond k
\* can be reached by a datagram with a larger budget, but its ping reply (sent with budget k) cannot come back, so those pings
\* would only time out: for d > k the budgets stop at k.
Budgets(d, k) == IF d <= k THEN (0..(d + 1)) \cup {255} ELSE 0..k

Vec(tk, src, dst) ==
  LET name == tk[1]
      DefTTL == tk[2] IN
  LET ed == Edges(name)
      t == TreeTable(ed)
      nn == Cardinality(NodesOf(ed))
      d == PathDist(t, src, dst, nn)
      hs == SetToSortSeq(Budgets(d, DefTTL), <)
  IN [ topo |-> name, maxhops |-> DefTTL,
       edges |-> SetToSeq(EdgePairs(name)),
       src |-> src, dst |-> dst, dist |-> d,
       path |-> PathSeq(t, src, dst, d),
       hs |-> hs,
       pings |-> [ i \in 1..Len(hs) |-> PingResult(t, src, dst, hs[i], DefTTL) ],
       fates |-> [ i \in 1..Len(hs) |-> Fate(t, src, dst, hs[i]) ],
       trace |-> Traceroute(t, src, dst, DefTTL, DefTTL) ]

AllVectors == UNION { { Vec(tk, s, d) : s \in NodesOf(Edges(tk[1])), d \in NodesOf(Edges(tk[1])) } : tk \in Topos }

VARIABLE vec
Init == vec \in AllVectors
Next == UNCHANGED vec
Spec == Init /\ [][Next]_vec

TopologiesAreTrees == \A tk \in Topos : IsTree(Edges(tk[1]))

\* reach iff distance <= hops, otherwise the expiry is reported by the node at distance h on the path
ReachIffVec ==
  \A i \in 1..Len(vec.hs) :
    LET h == vec.hs[i] IN
    IF vec.dist <= h
    THEN vec.fates[i].kind = "arrive" /\ vec.pings[i] = [from |-> vec.dst, err |-> ""]
    ELSE /\ vec.fates[i].kind = "expire" /\ vec.fates[i].at = vec.path[h + 1]
         /\ vec.pings[i] = [from |-> vec.path[h + 1], err |-> ProblemExpired]

\* traceroute lists the nodes of the path in order, the source first.  When the destination is within maxForwardingHops
\* links - INCLUDING exactly maxForwardingHops - it is the last entry and error-free; when it is one link further, the
\* list ends with the expiry reported by the node maxForwardingHops links away.
TracerouteVec ==
  LET k == vec.maxhops IN
  IF vec.dist <= k
  THEN /\ Len(vec.trace) = vec.dist + 1
       /\ \A i \in 1..Len(vec.trace) : vec.trace[i].from = vec.path[i]
       /\ \A i \in 1..vec.dist : vec.trace[i].err = ProblemExpired
       /\ vec.trace[vec.dist + 1].err = ""
  ELSE /\ Len(vec.trace) = k + 1
       /\ \A i \in 1..(k + 1) : vec.trace[i].from = vec.path[i] /\ vec.trace[i].err = ProblemExpired

PathIsAPath ==
  /\ vec.path[1] = vec.src /\ vec.path[Len(vec.path)] = vec.dst
  /\ \A i \in 1..(Len(vec.path) - 1) : {vec.path[i], vec.path[i + 1]} \in Edges(vec.topo)

W_NoFarPair == vec.dist < 5
W_NoPairAtTheLimit == ~(vec.dist = vec.maxhops /\ vec.dist >= 2)
W_NoPairBeyondTheLimit == vec.dist <= vec.maxhops
W_NoSelf    == vec.src # vec.dst

ASSUME TopologiesAreTrees
ASSUME \A tk \in Topos : \A n \in NodesOf(Edges(tk[1])) : \A m \in NodesOf(Edges(tk[1])) :
          PathDist(TreeTable(Edges(tk[1])), n, m, 6) <= tk[2] + 1      \* every pair within, at, or one link beyond the node default budget
ASSUME DumpFile = "" \/ ndJsonSerialize(DumpFile, SetToSeq(AllVectors))
=============================================================================
