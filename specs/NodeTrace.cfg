SPECIFICATION TSpec
INVARIANTS
  RestDomain
  NoSelfInfo
  Done
