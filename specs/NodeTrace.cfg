SPECIFICATION TSpec
CONSTANTS
  Tombstones = TRUE
INVARIANTS
  RestDomain
  NoSelfInfo
  Done
