SPECIFICATION Spec
CONSTANTS
  MaxOut = 1
  MaxFlaps = 1
  MaxCrashes = 1
  ClientOps = {"cancel", "release", "frelease"}
  RestartIfIdKnown = FALSE
  IdStoredLate = FALSE
  RestartSkipsComplete = FALSE
  StdoutFromZero = FALSE
  ReleaseSkipsRemote = FALSE
INVARIANTS
  ForwardOnly
  NeverContradictsE
  LocalOutputIsPrefix
  SubmittedOnce
  BoundOnceShipped
  MirrorNeverAbandoned
  NeverStartedIsFailed
  CancelSurvivesRestart
  ReleaseRemovesBoth
  ForcedReleaseRemovesLocal
