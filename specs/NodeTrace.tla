------------------------------ MODULE NodeTrace ------------------------------
(***************************************************************************)
(* Validation of hook traces recorded from REAL Netceptor nodes (build tag *)
(* verif) against the per-critical-section operators of NetCore.tla.       *)
(*                                                                         *)
(* Every event was emitted inside the lock that protects the change it     *)
(* reports, so the per-node order of events is a linearization.  Each      *)
(* event is one action: its precondition is evaluated on the spec state,   *)
(* the spec operator is applied, and the post-state logged by the code is  *)
(* compared.  The trace of several node instances is concatenated; a       *)
(* "reset" line starts the next instance.  A mismatch is printed as        *)
(*   <<"DIFF", line, event, {what}>>                                       *)
(* and the rest of that instance's trace is skipped.                       *)
(*                                                                         *)
(* Serves C06 (stale/seen decisions, relay targets, relay-once), C11       *)
(* (admission and rejection reasons, one connection per id) and C01 (every *)
(* routing table the node computes is a least-cost next-hop assignment for *)
(* the adjacency picture it had at that instant).                          *)
(* The pre-pass (lib/nodetrace.py) maps epochs to their ranks and costs to *)
(* integers and drops events of other subsystems.                          *)
(***************************************************************************)
EXTENDS NetCore, AdsCore, Json

Trace == ndJsonDeserialize("trace.ndjson")

VARIABLES ns,       \* NetCore node state
          sess,     \* session label -> [phase, peer, cost, allow, nodecost]
          pend,     \* session label -> last routing update received on it (not yet judged)
          prelay,   \* ids accepted (or adopted as duplicate notice) and not yet relayed
          lastOwn,  \* ids of the own updates made so far (several can be in flight: tick and initial-connect goroutines)
          ads,      \* AdsCore state of the node (advertisement table and withdrawal memory)
          duty,     \* what the duplicate-node logic still owes: "die" and/or epochs for which a notice must be sent
          l, skip

vars == <<ns, sess, pend, prelay, lastOwn, ads, duty, l, skip>>

SeqSet(s) == {s[i] : i \in 1..Len(s)}
E == Trace[l]
DieMark == 999999   \* element of `duty` meaning "this instance must shut down" (epoch ranks are small numbers)

NewAdsT == [core |-> NewAds, opens |-> EmptyF]
NoU == Update("", "", 0, 0, EmptyF, "", 0)

TInit == /\ ns = NewNode("", 0) /\ sess = EmptyF /\ pend = EmptyF /\ prelay = {} /\ lastOwn = {} /\ duty = {} /\ ads = NewAdsT
         /\ l = 1 /\ skip = TRUE

Report(d) == d = {} \/ PrintT(<<"DIFF", l, E.ev, d>>)

\* one event = one action; Chk(d, newns, ...) applies the update and records a mismatch
Advance(d) == /\ l' = l + 1
              /\ skip' = (skip \/ d # {})
              /\ Report(d)
              /\ PrintT(<<"CLASS", E.ev>>)

Keep == UNCHANGED <<ns, sess, pend, prelay, lastOwn, duty, ads>>

IsEv(e) == l <= Len(Trace) /\ E.ev = e

\* a node that learnt it is the later duplicate must have shut down by the end of its trace
Unpaid == IF skip THEN {} ELSE (IF DieMark \in duty /\ ns.alive THEN {"duplicate_did_not_shut_down"} ELSE {})

TReset == /\ IsEv("reset")
          /\ (IF Unpaid = {} THEN TRUE ELSE PrintT(<<"DIFF", l, "end_of_instance", Unpaid>>))
          /\ ns' = NewNode(E.self, E.epoch)
          /\ sess' = EmptyF /\ pend' = EmptyF /\ prelay' = {} /\ lastOwn' = {} /\ duty' = {} /\ ads' = NewAdsT
          /\ l' = l + 1 /\ skip' = FALSE

Skipped == /\ l <= Len(Trace) /\ E.ev \notin {"reset", "node_new"} /\ (skip \/ ~ns.alive)
           /\ l' = l + 1 /\ Keep /\ skip' = skip

\* The instances of one node ID are ordered by their start epochs (NetCore compares epochs and nothing else), so two
\* instances must never share one: the trace of an instance label then contains a second creation event.
TNodeNew == /\ IsEv("node_new")
            /\ PrintT(<<"DIFF", l, "node_new", {"start_epoch_reused_by_later_instance"}>>)
            /\ PrintT(<<"CLASS", "node_new">>)
            /\ ns' = NewNode(ns.id, ns.epoch)
            /\ sess' = EmptyF /\ pend' = EmptyF /\ prelay' = {} /\ lastOwn' = {} /\ duty' = {} /\ ads' = NewAdsT
            /\ l' = l + 1 /\ skip' = TRUE

Live(e) == IsEv(e) /\ ~skip /\ ns.alive

CostFor(s, peer) == IF Has(sess[s].nodecost, peer) THEN sess[s].nodecost[peer] ELSE sess[s].cost

TSessStart == /\ Live("sess_start")
              /\ sess' = Put(sess, E.sess, [phase |-> "fresh", peer |-> "", cost |-> E.cost, allowany |-> E.allowany, allow |-> SeqSet(E.allow), nodecost |-> E.nodecost, owed |-> ""])
              /\ UNCHANGED <<ns, pend, prelay, lastOwn, duty, ads>>
              /\ Advance({})

\* `owed`: the rejection RecvRoute demands for the message just received on an established session.  The code must
\* answer it with a `reject` event (which clears it) before it reads the next message of that session or hands the
\* update to handleRoutingUpdate (ru_seen below).
TRecv ==
  /\ Live("recv")
  /\ LET known == Has(sess, E.sess)
         peer == IF known THEN sess[E.sess].peer ELSE ""
         est == known /\ sess[E.sess].phase = "est"
         d == (IF known /\ E.est # est THEN {"est_flag"} ELSE {})
              \cup (IF known /\ sess[E.sess].owed # "" THEN {"read_on_after_" \o sess[E.sess].owed} ELSE {})
              \* Admit.tla ConnIffOpenSession: while a session is established its peer is a listed connection; only
              \* the session itself takes the entry away, and then it ends without reading on
              \cup (IF est /\ ~Has(ns.conn, peer) THEN {"established_session_without_connection"} ELSE {})
         lists == est /\ E.hasu /\ E.u.fwd = peer /\ E.u.node = peer /\ Has(E.u.conns, ns.id)
         owes == IF est /\ E.hasu /\ Has(ns.conn, peer) /\ Has(ns.rest, peer) THEN RecvRoute(ns, E.u, peer).reject ELSE ""
     IN /\ pend' = IF E.hasu THEN Put(pend, E.sess, E.u) ELSE Del(pend, E.sess)
        /\ ns' = IF lists /\ Has(ns.rest, peer) THEN [ns EXCEPT !.rest[peer] = TRUE] ELSE ns
        /\ sess' = IF known THEN [sess EXCEPT ![E.sess].owed = owes] ELSE sess
        /\ UNCHANGED <<prelay, lastOwn, duty, ads>>
        /\ Advance(d)

TReject ==
  /\ Live("reject")
  /\ LET s == E.sess
         has == Has(sess, s) /\ Has(pend, s)
         u == IF has THEN pend[s] ELSE NoU
         why == E.why
         d == IF why = "peer_rejected" THEN {}
              ELSE IF ~has THEN {"no_pending_update"}
              ELSE IF why \in {"empty_id", "self", "not_allowed", "already_connected"}
                   THEN (IF sess[s].phase # "fresh" THEN {"phase"} ELSE {})
                        \cup (IF AdmitVerdict(ns, u.fwd, sess[s].allowany, sess[s].allow) # why THEN {"admit_verdict"} ELSE {})
                        \cup (IF E.peer # u.fwd THEN {"peer"} ELSE {})
              ELSE (IF sess[s].phase # "est" THEN {"phase"} ELSE {})
                   \cup (IF RecvRoute(ns, u, sess[s].peer).reject # why THEN {"reject_reason"} ELSE {})
     IN /\ sess' = IF Has(sess, s) THEN [sess EXCEPT ![s].owed = ""] ELSE sess
        /\ UNCHANGED <<ns, pend, prelay, lastOwn, duty, ads>> /\ Advance(d)

TConnAdd ==
  /\ Live("conn_add")
  /\ LET s == E.sess
         has == Has(sess, s) /\ Has(pend, s)
         u == IF has THEN pend[s] ELSE NoU
         d == IF ~has THEN {"no_pending_update"}
              ELSE (IF AdmitVerdict(ns, u.fwd, sess[s].allowany, sess[s].allow) # "ok" THEN {"admitted_inadmissible"} ELSE {})
                   \cup (IF u.fwd = "" THEN {"empty_id"} ELSE {})
                   \cup (IF E.peer # u.fwd THEN {"peer"} ELSE {})
                   \cup (IF E.cost # CostFor(s, u.fwd) THEN {"cost"} ELSE {})
     IN /\ ns' = EstConn(ns, E.peer, E.cost)
        /\ sess' = IF Has(sess, s) THEN [sess EXCEPT ![s].peer = E.peer] ELSE sess
        /\ UNCHANGED <<pend, prelay, lastOwn, duty, ads>>
        /\ Advance(d)

TKnownAdd ==
  /\ Live("known_add")
  /\ LET n2 == EstKnown(ns, E.peer, E.cost)
         d == IF n2.known # E.known THEN {"known"} ELSE {}
     IN ns' = n2 /\ UNCHANGED <<sess, pend, prelay, lastOwn, duty, ads>> /\ Advance(d)

TEstablished ==
  /\ Live("established")
  /\ sess' = IF Has(sess, E.sess) THEN [sess EXCEPT ![E.sess].phase = "est"] ELSE sess
  /\ UNCHANGED <<ns, pend, prelay, lastOwn, duty, ads>> /\ Advance({})

TConnDel == /\ Live("conn_del")
            /\ ns' = RemConn(ns, E.peer)
            /\ UNCHANGED <<sess, pend, prelay, lastOwn, duty, ads>> /\ Advance({})

TKnownDel ==
  /\ Live("known_del")
  /\ LET n2 == RemKnown(ns, E.peer)
         d == IF n2.known # E.known THEN {"known"} ELSE {}
     IN ns' = n2 /\ UNCHANGED <<sess, pend, prelay, lastOwn, duty, ads>> /\ Advance(d)

\* the session's goroutine is about to return (deferred clean-up of runProtocol): whatever way the session ended -
\* peer gone, rejection, idle time-out, backend cancelled - the connection it registered is no longer listed, unless a
\* newer session of the same peer has registered it again meanwhile
TSessEnd == /\ Live("sess_end")
            /\ LET s == E.sess
                   peer == IF Has(sess, s) THEN sess[s].peer ELSE ""
                   other == \E t \in (DOMAIN sess) \ {s} : sess[t].peer = peer /\ sess[t].phase # "closed"
                   d == (IF peer # "" /\ Has(ns.conn, peer) /\ ~other THEN {"session_ended_connection_kept"} ELSE {})
                        \cup (IF Has(sess, s) /\ sess[s].owed # "" THEN {"ended_without_owed_rejection_" \o sess[s].owed} ELSE {})
               IN /\ sess' = IF Has(sess, s) THEN [sess EXCEPT ![s].phase = "closed"] ELSE sess
                  /\ pend' = Del(pend, s)
                  /\ UNCHANGED <<ns, prelay, lastOwn, duty, ads>> /\ Advance(d)

\* an update naming this node as origin (1459-1480): same epoch -> ours, ignore; it suspects OUR epoch -> we are the
\* later duplicate and must shut down; newer epoch -> the other one is a duplicate, say so; older -> ignore
TRuSelf ==
  /\ Live("ru_self")
  /\ duty' = IF E.epoch = ns.epoch THEN duty
             ELSE IF E.susp = ns.epoch THEN duty \cup {DieMark}
             ELSE IF E.epoch > ns.epoch /\ ns.conn # EmptyF THEN duty \cup {E.epoch}
             ELSE duty
  /\ UNCHANGED <<ns, sess, pend, prelay, lastOwn, ads>> /\ Advance({})

TRuSeen ==
  /\ Live("ru_seen")
  /\ LET d == (IF E.hit # (E.id \in ns.seen) THEN {"seen_hit"} ELSE {})
              \cup (IF \E s \in DOMAIN sess : sess[s].owed # "" /\ Has(pend, s) /\ pend[s].id = E.id
                    THEN {"handled_update_that_must_be_rejected"} ELSE {})
     IN /\ ns' = [ns EXCEPT !.seen = @ \cup {E.id}]
        /\ UNCHANGED <<sess, pend, prelay, lastOwn, duty, ads>> /\ Advance(d)

\* ---- service advertisements (AdsCore): every event under serviceAdsLock
\* ads = [core: AdsCore state, opens: svc -> set of <<from, to>>], the periods during which the node's own listener for
\* svc was open and advertised (to = 0: still open); times are ranks >= 1
OpensOf(svc) == IF Has(ads.opens, svc) THEN ads.opens[svc] ELSE {}

TAdLocal ==
  /\ Live("ad_local")
  /\ ads' = [core |-> LocalOpen(ads.core, ns.id, E.svc, E.time, E.ctype, ""),
              opens |-> Put(ads.opens, E.svc, OpensOf(E.svc) \cup {<<E.time, 0>>})]
  /\ UNCHANGED <<ns, sess, pend, prelay, lastOwn, duty>> /\ Advance({})

TAdWithdraw ==
  /\ Live("ad_withdraw")
  /\ ads' = [core |-> LocalClose(ads.core, ns.id, E.svc, E.time),
              opens |-> Put(ads.opens, E.svc, {IF p[2] = 0 THEN <<p[1], E.time>> ELSE p : p \in OpensOf(E.svc)})]
  /\ UNCHANGED <<ns, sess, pend, prelay, lastOwn, duty>> /\ Advance({})

\* sendServiceAds stamps an advertisement while it holds the listener lock for reading and the listener is registered;
\* Close withdraws under the same lock for writing.  So every advertisement the owner sends carries a stamp from inside
\* one of the listener's open periods - never one that is newer than the withdrawal that ended the period (receivers
\* would take it for a new listing and the closed service would be listed again for good).
TAdSend ==
  /\ Live("ad_send")
  /\ LET inside == \E p \in OpensOf(E.svc) : p[1] <= E.time /\ (p[2] = 0 \/ E.time <= p[2])
         d == IF OpensOf(E.svc) # {} /\ ~inside THEN {"advertisement_stamped_outside_open_period"} ELSE {}
     IN Keep /\ Advance(d)

AdClassOf(c) == IF c \in {"stored", "replaced", "deleted", "cancel_unknown"} THEN "applied" ELSE c

TAdRecv ==
  /\ Live("ad_recv")
  /\ LET m == Msg(E.owner, E.svc, E.time, E.cancel, E.ctype, "")
         r == RecvAd(ads.core, m)
         d == IF AdClassOf(r.class) # E.result THEN {"ad_" \o r.class \o "_but_code_" \o E.result} ELSE {}
     IN /\ ads' = [ads EXCEPT !.core = r.st]
        /\ UNCHANGED <<ns, sess, pend, prelay, lastOwn, duty>> /\ Advance(d)

TSeenExpire ==
  /\ Live("seen_expire")
  /\ LET d == IF E.id \notin ns.seen THEN {"expired_id_was_not_seen"} ELSE {}
     IN /\ ns' = [ns EXCEPT !.seen = @ \ {E.id}]
        /\ UNCHANGED <<sess, pend, prelay, lastOwn, duty, ads>> /\ Advance(d)

TRuDup ==
  /\ Live("ru_dupnotice")
  /\ LET u == Update(E.origin, E.id, E.epoch, E.seq, EmptyF, "", E.susp)
         n2 == DupAdopt(ns, u)
         d == (IF E.hasinfo # Has(n2.info, E.origin) THEN {"info_presence"} ELSE {})
              \cup (IF E.hasinfo /\ Has(n2.info, E.origin) /\ n2.info[E.origin] # E.info THEN {"info"} ELSE {})
     IN /\ ns' = n2 /\ prelay' = prelay \cup {E.id}
        /\ UNCHANGED <<sess, pend, lastOwn, duty, ads>> /\ Advance(d)

TRuApply ==
  /\ Live("ru_apply")
  /\ LET u == Update(E.origin, E.id, E.epoch, E.seq, E.conns, "", 0)
         w == StaleWhy(ns, u)
         acc == E.result = "accepted"
         n2 == IF acc THEN Accept(ns, u) ELSE ns
         d == (IF E.result = "stale_epoch" /\ w # "stale_epoch" THEN {"dropped_as_stale_epoch"} ELSE {})
              \cup (IF E.result = "stale_seq" /\ w # "stale_seq" THEN {"dropped_as_stale_seq"} ELSE {})
              \cup (IF acc /\ w \notin {"fresh", "newer"} THEN {"accepted_stale"} ELSE {})
              \cup (IF acc /\ E.changed # ChangedBy(ns, u) THEN {"changed_flag"} ELSE {})
              \cup (IF acc /\ n2.known # E.known THEN {"known"} ELSE {})
              \cup (IF E.origin = ns.id THEN {"applied_own_origin"} ELSE {})
     IN /\ ns' = n2
        /\ prelay' = IF acc THEN prelay \cup {E.id} ELSE prelay
        /\ UNCHANGED <<sess, pend, lastOwn, duty, ads>> /\ Advance(d)

TFlood ==
  /\ Live("flood")
  /\ IF E.mtype = 2
     THEN Keep /\ Advance(IF SeqSet(E.targets) # (DOMAIN ns.conn) \ {E.exclude} THEN {"ad_relay_targets"} ELSE {})
     ELSE IF E.mtype # 1 \/ ~E.hasu THEN Keep /\ Advance({})
     ELSE LET own == E.u.node = ns.id
              d == (IF SeqSet(E.targets) # (DOMAIN ns.conn) \ {E.exclude} THEN {"targets"} ELSE {})
                   \cup (IF E.exclude # "" /\ E.exclude \in SeqSet(E.targets) THEN {"relayed_back"} ELSE {})
                   \cup (IF own /\ E.u.id \notin lastOwn THEN {"own_update_unknown"} ELSE {})
                   \cup (IF ~own /\ E.u.id \notin prelay THEN {"relay_not_accepted_or_twice"} ELSE {})
                   \cup (IF ~own /\ E.u.fwd # ns.id THEN {"forwarder_not_rewritten"} ELSE {})
                   \cup (IF ~own /\ E.exclude = "" THEN {"relay_without_exclusion"} ELSE {})
          IN /\ prelay' = IF own THEN prelay ELSE prelay \ {E.u.id}
             /\ UNCHANGED <<ns, sess, pend, lastOwn, duty, ads>> /\ Advance(d)

TMkUpdate ==
  /\ Live("mk_update")
  /\ LET d == (IF E.seq # ns.seq + 1 THEN {"seq"} ELSE {})
              \cup (IF E.conns # ns.conn THEN {"conns"} ELSE {})
              \cup (IF E.susp # 0 /\ E.susp \notin duty THEN {"duplicate_notice_without_cause"} ELSE {})
     IN /\ ns' = [ns EXCEPT !.seq = E.seq] /\ lastOwn' = lastOwn \cup {E.id}
        /\ duty' = duty          \* several sessions may each have seen the newer epoch: the cause stays on record
        /\ UNCHANGED <<sess, pend, prelay, ads>> /\ Advance(d)

TRebuild ==
  /\ Live("rebuild")
  /\ LET d == (IF E.known # ns.known THEN {"known"} ELSE {})
              \cup (IF ~ValidTable(E.known, ns.id, E.table, E.costs) THEN {"table"} ELSE {})
     IN Keep /\ Advance(d)

TShutdown == /\ Live("shutdown")
             /\ ns' = [ns EXCEPT !.alive = FALSE]
             /\ UNCHANGED <<sess, pend, prelay, lastOwn, duty, ads>> /\ Advance({})

TOther == /\ Live("other") /\ Keep /\ Advance({})

\* emitted by the harness itself when the node is quiescent: what the public API reports
THStatus ==
  /\ Live("h_status")
  /\ LET d == (IF E.conns # ns.conn THEN {"status_connections"} ELSE {})
              \cup (IF \E dst \in DOMAIN E.table : E.table[dst] \notin DOMAIN ns.conn THEN {"route_via_non_neighbour"} ELSE {})
              \cup (IF E.known # ns.known THEN {"status_known"} ELSE {})
              \cup (IF Has(ns.known, ns.id) /\ ns.known[ns.id] # ns.conn THEN {"own_row_differs_from_connections"} ELSE {})
              \cup (IF \E s \in DOMAIN sess : sess[s].phase = "est" /\ ~Has(ns.conn, sess[s].peer) THEN {"established_session_not_listed"} ELSE {})
              \cup (IF \E p \in DOMAIN ns.conn : ~\E s \in DOMAIN sess : sess[s].peer = p /\ sess[s].phase # "closed"
                    THEN {"connection_without_open_session"} ELSE {})
              \cup (IF ~ValidTable(ns.known, ns.id, E.table, E.costs) THEN {"table"} ELSE {})
     IN Keep /\ Advance(d)

TNext == TReset \/ Skipped \/ TNodeNew \/ TAdSend \/ TSessStart \/ TRecv \/ TReject \/ TConnAdd \/ TKnownAdd \/ TEstablished \/ TConnDel
         \/ TKnownDel \/ TSessEnd \/ TRuSelf \/ TRuSeen \/ TRuDup \/ TRuApply \/ TFlood \/ TMkUpdate \/ TRebuild
         \/ TShutdown \/ TOther \/ THStatus \/ TSeenExpire \/ TAdLocal \/ TAdWithdraw \/ TAdRecv

TSpec == TInit /\ [][TNext]_vars

\* one connection per id and only admissible ids, in every state of every real trace (C11)
OnePerIdAdmitted == \A p \in DOMAIN ns.conn : p # "" /\ p # ns.id
RestDomain == DOMAIN ns.rest = DOMAIN ns.conn
NoSelfInfo == ~Has(ns.info, ns.id)

Done == l = Len(Trace) + 1 => (PrintT(<<"DONE", l - 1>>) /\ (IF Unpaid = {} THEN TRUE ELSE PrintT(<<"DIFF", l - 1, "end_of_instance", Unpaid>>)))
=============================================================================
