------------------------------- MODULE Stream -------------------------------
(***************************************************************************)
(* C03: a mesh stream (netceptor.Conn = one QUIC stream over a PacketConn) *)
(* is a reliable ordered byte pipe in each direction.  Bytes are named by  *)
(* their offset (the harness writes f(direction, offset)), so a direction  *)
(* is described by counters.                                               *)
(*                                                                         *)
(* ASSUMPTION (not verified here, QUIC's contract): over a datagram path   *)
(* that loses, duplicates, delays and re-orders datagrams but is not dead  *)
(* for longer than the idle timeout, every byte handed to the stream is    *)
(* eventually available to the receiver, in order, exactly once: `avail`   *)
(* only grows, never beyond `written`; Lost/Duplicated/Reordered datagrams *)
(* are stuttering steps at this level.  What is receptor-specific and IS   *)
(* modelled: quic-go treats any error returned by PacketConn.WriteTo as    *)
(* fatal to the connection (sendQueue.Run -> destroyImpl), and netceptor's *)
(* forwardMessage returns such an error synchronously AT THE ORIGIN while  *)
(* its routing table has no usable next hop ("no route to node", "no       *)
(* connection to next hop"); the same condition at a transit node is a     *)
(* silent loss.  Constant OriginErrorFatal = TRUE is the code as it is.    *)
(***************************************************************************)
EXTENDS Naturals, TLC

CONSTANTS MaxBytes,          \* bound on bytes written per direction
          Cuts,              \* subset of {"origin", "transit"}: where the active path may be cut (alternative exists)
          OriginErrorFatal,  \* TRUE: a send attempt in the origin's re-route window aborts the connection
          AcceptorCloseKillsSocket, \* FALSE = the code as it is: an accepted stream shares the LISTENER's socket with its sibling
                             \* streams, and the acceptor giving up one of them (its dialler vanished) touches only that
                             \* connection; TRUE = documented counter-example: it cancels the shared socket
          ForwarderWaitsOnNode, \* FALSE = the code as it is: a forwarder waiting to hand a datagram to a link's writer is released
                             \* when that link's session ends; TRUE = documented counter-example: it waits for the NODE's
                             \* context, so the upstream session of a transit node is wedged for ever by a congested link that is cut
          AcceptLeavesDeadline, \* FALSE = the code as it is; TRUE = documented counter-example: the accept path leaves a read
                             \* deadline ("accepted + 60 s") armed on the stream it hands to the application
          MaxNotices,        \* bound on unreachable notices about this connection's addresses
          NoticeEndsStream   \* FALSE = the code as it is: only 'service unknown' (the peer's socket is gone for good) may end
                             \* the stream; TRUE = documented counter-example: a transient notice ('message expired',
                             \* 'blocked by firewall') closes the writing side under the application's feet

Dirs == {"ab", "ba"}

VARIABLES written, avail, read, wClosed, finAvail, rEOF, rErr, conn, path, cutsLeft,
          appClosed,   \* appClosed[d]: the APPLICATION writing direction d has called Close (wClosed[d]: the stream's writing side is closed)
          notices      \* number of non-fatal notices received so far

vars == <<written, avail, read, wClosed, finAvail, rEOF, rErr, conn, path, cutsLeft, appClosed, notices>>

Init ==
  /\ written = [d \in Dirs |-> 0] /\ avail = [d \in Dirs |-> 0] /\ read = [d \in Dirs |-> 0]
  /\ wClosed = [d \in Dirs |-> FALSE] /\ finAvail = [d \in Dirs |-> FALSE]
  /\ rEOF = [d \in Dirs |-> FALSE] /\ rErr = [d \in Dirs |-> FALSE]
  /\ conn = "up" /\ path = "ok" /\ cutsLeft = Cuts
  /\ appClosed = [d \in Dirs |-> FALSE] /\ notices = 0

\* Conn.Write(k bytes)
Write(d, k) ==
  /\ conn = "up" /\ ~wClosed[d] /\ written[d] + k <= MaxBytes
  /\ written' = [written EXCEPT ![d] = @ + k]
  /\ UNCHANGED <<avail, read, wClosed, finAvail, rEOF, rErr, conn, path, cutsLeft, appClosed, notices>>

\* Conn.Close(): half close of the writing side (FIN after all data)
CloseWrite(d) ==
  /\ conn = "up" /\ ~wClosed[d]
  /\ wClosed' = [wClosed EXCEPT ![d] = TRUE] /\ appClosed' = [appClosed EXCEPT ![d] = TRUE]
  /\ UNCHANGED <<written, avail, read, finAvail, rEOF, rErr, conn, path, cutsLeft, notices>>

\* the datagram layer makes progress (ASSUMPTION): more bytes, then the FIN, become available in order
Transmit(d) ==
  /\ conn = "up" /\ path = "ok"
  /\ \/ \E n \in (avail[d] + 1)..written[d] : avail' = [avail EXCEPT ![d] = n] /\ UNCHANGED finAvail
     \/ wClosed[d] /\ avail[d] = written[d] /\ ~finAvail[d] /\ finAvail' = [finAvail EXCEPT ![d] = TRUE] /\ UNCHANGED avail
  /\ UNCHANGED <<written, read, wClosed, rEOF, rErr, conn, path, cutsLeft, appClosed, notices>>

\* datagrams lost, duplicated or re-ordered in transit: nothing changes at this level (QUIC repairs)
Lost == conn = "up" /\ UNCHANGED vars

\* the active path is cut while an alternative exists
Cut(where) ==
  /\ conn = "up" /\ path = "ok" /\ where \in cutsLeft
  /\ cutsLeft' = cutsLeft \ {where}
  /\ path' = IF where = "origin" THEN "origin_window" ELSE "transit_window"
  /\ UNCHANGED <<written, avail, read, wClosed, finAvail, rEOF, rErr, conn, appClosed, notices>>

\* A transit link on the active path stops draining (its writer sits in Send, the next forward waits for the
\* writer: back-pressure reaches the upstream session), and is then cut.  The alternative path enters the transit
\* node through the same upstream session.  "stall" \in Cuts enables the pair.
Stall ==
  /\ conn = "up" /\ path = "ok" /\ "stall" \in cutsLeft
  /\ cutsLeft' = cutsLeft \ {"stall"} /\ path' = "transit_stalled"
  /\ UNCHANGED <<written, avail, read, wClosed, finAvail, rEOF, rErr, conn, appClosed, notices>>
CutStalled ==
  /\ path = "transit_stalled"
  /\ path' = IF ForwarderWaitsOnNode THEN "wedged" ELSE "transit_window"
  /\ UNCHANGED <<written, avail, read, wClosed, finAvail, rEOF, rErr, conn, cutsLeft, appClosed, notices>>

\* Environment: ANOTHER stream accepted on the same listener loses its dialler uncleanly (socket gone, nothing said);
\* the acceptor notices ('service unknown') and gives that connection up.  "sibling" \in Cuts enables it.  This
\* stream must not notice.
SiblingTeardown ==
  /\ conn = "up" /\ "sibling" \in cutsLeft
  /\ cutsLeft' = cutsLeft \ {"sibling"}
  /\ conn' = IF AcceptorCloseKillsSocket THEN "aborted" ELSE conn
  /\ UNCHANGED <<written, avail, read, wClosed, finAvail, rEOF, rErr, path, appClosed, notices>>

\* a send attempt (data, ack or keep-alive) during the origin's window gets a synchronous error
SendError ==
  /\ conn = "up" /\ path = "origin_window" /\ OriginErrorFatal
  /\ conn' = "aborted"
  /\ UNCHANGED <<written, avail, read, wClosed, finAvail, rEOF, rErr, path, cutsLeft, appClosed, notices>>

\* routing has converged on the alternative path
Rerouted ==
  /\ path \in {"origin_window", "transit_window"} /\ path' = "ok"
  /\ UNCHANGED <<written, avail, read, wClosed, finAvail, rEOF, rErr, conn, cutsLeft, appClosed, notices>>

\* Environment: an unreachable notice about this connection's own addresses arrives at the node writing direction d
\* (monitorUnreachable sees it).  'message expired' (a datagram used up its hop budget in a momentary forwarding
\* loop while a route change propagates) and 'blocked by firewall' are transient: they must NOT end the stream.
\* ('service unknown' means the peer's socket is gone for good; it may end the stream and is not produced while
\* both applications are alive, so it is not an action here.)
Notice(d) ==
  /\ conn = "up" /\ notices < MaxNotices
  /\ notices' = notices + 1
  /\ wClosed' = IF NoticeEndsStream THEN [wClosed EXCEPT ![d] = TRUE] ELSE wClosed
  /\ UNCHANGED <<written, avail, read, finAvail, rEOF, rErr, conn, path, cutsLeft, appClosed>>

\* Conn.Read returning k > 0 bytes
Read(d, k) ==
  /\ ~rEOF[d] /\ ~rErr[d] /\ k > 0 /\ read[d] + k <= avail[d]
  /\ read' = [read EXCEPT ![d] = @ + k]
  /\ UNCHANGED <<written, avail, wClosed, finAvail, rEOF, rErr, conn, path, cutsLeft, appClosed, notices>>

\* Conn.Read returning io.EOF
EOF(d) ==
  /\ ~rEOF[d] /\ ~rErr[d] /\ finAvail[d] /\ read[d] = avail[d]
  /\ rEOF' = [rEOF EXCEPT ![d] = TRUE]
  /\ UNCHANGED <<written, avail, read, wClosed, finAvail, rErr, conn, path, cutsLeft, appClosed, notices>>

\* Abstract clock: "more than the accept timeout has passed since the connection was accepted".  A read deadline
\* that the LIBRARY left armed on the accepted stream (direction "ab" is read by the accepting side) then makes
\* every Read fail with "deadline exceeded" although the connection is up and the data has arrived.
DeadlineExpires(d) ==
  /\ AcceptLeavesDeadline /\ d = "ab" /\ conn = "up" /\ ~rEOF[d] /\ ~rErr[d]
  /\ rErr' = [rErr EXCEPT ![d] = TRUE]
  /\ UNCHANGED <<written, avail, read, wClosed, finAvail, rEOF, conn, path, cutsLeft, appClosed, notices>>

\* Conn.Read returning an error other than EOF (connection aborted)
ReadError(d) ==
  /\ conn = "aborted" /\ ~rEOF[d] /\ ~rErr[d]
  /\ rErr' = [rErr EXCEPT ![d] = TRUE]
  /\ UNCHANGED <<written, avail, read, wClosed, finAvail, rEOF, conn, path, cutsLeft, appClosed, notices>>

Progress == CutStalled \/ (\E d \in Dirs : Transmit(d) \/ EOF(d) \/ ReadError(d) \/ (\E k \in 1..MaxBytes : Read(d, k))) \/ Rerouted
Next == \/ \E d \in Dirs : (\E k \in 1..MaxBytes : Write(d, k) \/ Read(d, k)) \/ CloseWrite(d) \/ Transmit(d) \/ EOF(d) \/ ReadError(d) \/ Notice(d) \/ DeadlineExpires(d)
        \/ (\E w \in {"origin", "transit"} : Cut(w)) \/ SendError \/ Rerouted \/ Lost \/ Stall \/ CutStalled \/ SiblingTeardown

Spec == Init /\ [][Next]_vars /\ WF_vars(Progress)

-----------------------------------------------------------------------------
Prefix == \A d \in Dirs : read[d] <= avail[d] /\ avail[d] <= written[d]
\* end of stream is seen only after the writing APPLICATION closed and everything it wrote was read
EOFOnlyAfterAll == \A d \in Dirs : rEOF[d] => (appClosed[d] /\ wClosed[d] /\ read[d] = written[d])
\* a Read fails only when the connection was aborted: no deadline the application did not set, no spurious error
NoReadErrorWhileUp == \A d \in Dirs : rErr[d] => conn = "aborted"
\* the library never closes a writing side on its own while the connection is up
NoSpontaneousClose == \A d \in Dirs : (wClosed[d] /\ conn = "up") => appClosed[d]
\* the property's promise "as long as the nodes stay mutually reachable": no abort, everything arrives
NoAbort == conn = "up"
Complete == \A d \in Dirs : (wClosed[d] /\ conn = "up") ~> (rEOF[d] \/ conn = "aborted")
AllDelivered == \A d \in Dirs : wClosed[d] ~> rEOF[d]

W_NoEOF == ~(\E d \in Dirs : rEOF[d] /\ written[d] = MaxBytes)
W_NoAbort == conn = "up"
W_NoNotice == notices = 0
=============================================================================
