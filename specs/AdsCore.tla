------------------------------ MODULE AdsCore ------------------------------
(***************************************************************************)
(* Service advertisements at ONE node (handleServiceAdvertisement,         *)
(* Add/RemoveLocalServiceAdvertisement in pkg/netceptor/netceptor.go), as  *)
(* pure operators shared by AdsLocal (one node, scripted neighbours),      *)
(* AdsLocalTrace (trace validation) and ServiceAds (mesh design model).    *)
(*                                                                         *)
(* An advertisement message: [owner, svc, time, cancel, ctype, tag].       *)
(* Node state: ads : <<owner, svc>> -> [time, ctype, tag] (serviceAdsReceived) *)
(*             tomb: <<owner, svc>> -> time of the newest withdrawal seen  *)
(* Tombstones = FALSE models the code before the repair (a cancel deleted  *)
(* the entry and kept nothing, so an older advertisement arriving later    *)
(* resurrected the service and a cancel for an absent entry was re-flooded *)
(* for ever on a cycle).                                                   *)
(***************************************************************************)
EXTENDS Naturals, Sequences, FiniteSets, TLC

CONSTANT Tombstones

EmptyMap == [x \in {} |-> 0]
MPut(f, k, v) == [x \in (DOMAIN f) \cup {k} |-> IF x = k THEN v ELSE f[x]]
MDel(f, k) == [x \in (DOMAIN f) \ {k} |-> f[x]]

Msg(owner, svc, time, cancel, ctype, tag) ==
  [owner |-> owner, svc |-> svc, time |-> time, cancel |-> cancel, ctype |-> ctype, tag |-> tag]

NewAds == [ads |-> EmptyMap, tomb |-> EmptyMap]

\* Result: new state, whether the message is relayed to the other neighbours, and the branch taken.
RecvAd(st, m) ==
  LET k == <<m.owner, m.svc>> IN
  IF Tombstones /\ k \in DOMAIN st.tomb /\ m.time <= st.tomb[k]
  THEN [st |-> st, relay |-> FALSE, class |-> "withdrawn_newer"]
  ELSE IF k \in DOMAIN st.ads /\ m.time <= st.ads[k].time
  THEN [st |-> st, relay |-> FALSE, class |-> "kept_current"]
  ELSE IF m.cancel
  THEN [st |-> [ads |-> MDel(st.ads, k), tomb |-> IF Tombstones THEN MPut(st.tomb, k, m.time) ELSE st.tomb],
        relay |-> TRUE, class |-> IF k \in DOMAIN st.ads THEN "deleted" ELSE "cancel_unknown"]
  ELSE [st |-> [ads |-> MPut(st.ads, k, [time |-> m.time, ctype |-> m.ctype, tag |-> m.tag]), tomb |-> st.tomb],
        relay |-> TRUE, class |-> IF k \in DOMAIN st.ads THEN "replaced" ELSE "stored"]

\* AddLocalServiceAdvertisement: the owner (re)lists its own service unconditionally.
LocalOpen(st, self, svc, t, ctype, tag) ==
  [st EXCEPT !.ads = MPut(@, <<self, svc>>, [time |-> t, ctype |-> ctype, tag |-> tag])]

\* RemoveLocalServiceAdvertisement: delete, remember the newest withdrawal time, flood the cancel to every neighbour.
LocalClose(st, self, svc, t) ==
  LET k == <<self, svc>> IN
  [ads |-> MDel(st.ads, k),
   tomb |-> IF Tombstones /\ (k \notin DOMAIN st.tomb \/ t > st.tomb[k]) THEN MPut(st.tomb, k, t) ELSE st.tomb]
=============================================================================
