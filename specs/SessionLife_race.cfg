\* EXPECTED VIOLATION (code as found, before the third repair; replayed on the real code with a gate by vsl scenario gate_remove_race): the two critical sections of removeConnection let an older session delete the adjacency edge a newer session of the same peer has just entered
SPECIFICATION Spec
CONSTANTS
  Links = {1}
  MaxIdle = 2
  Poll = 1
  KA = 1
  MaxInit = 2
  MaxLev = 1
  QLen = 1
  Sync = FALSE
  Coarse = FALSE
  RealNodes = {"b"}
  CancelOnReturn = TRUE
  SkipOnBackendCancel = FALSE
  EdgeGuard = FALSE
  BSilence = 0
  BCut = 0
  ShutNodes = {}
  CancelNodes = {}
  BReborn = 0
  BAdv = 4
  BIdle = 1
  BDial = 2
  Wit = FALSE
INVARIANTS
  EstHasEdge
