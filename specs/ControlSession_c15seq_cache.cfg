SPECIFICATION Spec
CONSTANTS
  Part = "c15seq"
  MaxLinesA = 1
  MaxLinesB = 1
  KF_ScanRecheckLeak = FALSE
  KF_FindUnitRelock = FALSE
  MaxOps = 0
  ExportOps = 0
  RequestStateKeptAcrossLines = FALSE
  ConnectionRemembersToken = FALSE
  VerifierRemembersTokens = TRUE
  RedactNeedsTLSRecord = FALSE
  KeyFamily = "cover"
  DumpFile = ""
INVARIANTS
  NoEffectWithoutTokenSeq
