--------------------------- MODULE WorkUnitTrace ---------------------------
(***************************************************************************)
(* Trace validation for C13: the stream of status rewrites of every unit,  *)
(* recorded from the real daemon and its runner processes by the sf_apply  *)
(* hook (old state/size -> new state/size, pid), against WorkUnit.tla.     *)
(*                                                                         *)
(* Each logged rewrite must be                                              *)
(*   - a continuation: what it read is what the previous rewrite stored;   *)
(*   - one of WorkUnit's updates: new = ApplyUpd(old, UpdAt(l, size, end)) *)
(*     for a location l of the writer's kind (daemon goroutine or runner); *)
(*   - harmless for the C13 step properties: ApplyBad(old, new) = {}.      *)
(* The operators UpdAt, ApplyUpd, ApplyBad, Stage are WorkUnit's own; the  *)
(* trace module adds only the cursor and the current stored record.        *)
(* Sizes are the real byte counts; work type and pid flag are not logged   *)
(* by the observer and are carried as constants of the record.             *)
(* Traces of several units are concatenated, separated by "reset" events.  *)
(* Crash experiments (C04) add a "crash" event after the last event of     *)
(* every process; they are validated with CheckSteps = FALSE (a restart    *)
(* may legitimately move a unit from Pending to Failed and back, see the   *)
(* finding C04:live-runner-marked-failed), everything else stays checked.  *)
(***************************************************************************)
EXTENDS WorkUnit, Json

CONSTANTS UnitTraceFile,
          CheckSteps      \* TRUE: every rewrite must respect StageMonotone/SucceededIsFinal/SizeMonotone (C13: no crashes)

UTrace == ndJsonDeserialize(UnitTraceFile)

VARIABLES ul,     \* next event
          cur,    \* the stored record of the current unit: record, or Empty after a truncate
          known,  \* FALSE until the first rewrite of the unit has been seen
          pend,   \* the record applied by the process inside the update, not yet written (NoMem: none)
          pa      \* the process (actor number) that owns pend

DaemonUfsLocs == {"sb_u_wait", "sb_u_starting", "sb_u_launch", "sb_u_pid", "x_u_clear", "cn_u_cancel", "rl_u_cancel",
                  "sc_u_failload", "sc_u_pendfail"}
RunnerUfsLocs == {"r_u_pend", "r_u_tick", "r_u_final", "r_u_killed", "r_u_err"}

StName(n) == CASE n = 0 -> "P" [] n = 1 -> "R" [] n = 2 -> "S" [] n = 3 -> "F" [] OTHER -> "C"

UE == UTrace[ul]
Old == Rec(StName(UE.ost), UE.osz, "cmd", FALSE)
New == Rec(StName(UE.nst), UE.nsz, "cmd", FALSE)
Has(e) == ul <= Len(UTrace) /\ UE.ev = e
uvars == <<ul, cur, known, pend, pa>>

UInit == Init /\ ul = 1 /\ cur = Fresh("cmd") /\ known = FALSE /\ pend = NoMem /\ pa = 0

UReset == /\ Has("reset")
          /\ ul' = ul + 1 /\ cur' = Fresh("cmd") /\ known' = FALSE /\ pend' = NoMem /\ pa' = 0 /\ UNCHANGED vars

\* UFS_Read + UFS_Apply of WorkUnit: what was read is what is stored; the update is one of WorkUnit's
UApply ==
  /\ Has("apply") /\ pend = NoMem /\ pa = 0
  /\ IF UE.z THEN ~known \/ cur = Empty                                  \* nothing to read: the file is empty
            ELSE ~known \/ (IsRec(cur) /\ Old.st = cur.st /\ Old.sz = cur.sz)  \* read = last write
  \* who = "i": the daemon acts for a remote mirror (it copies state and size of the remote record verbatim) or for an
  \* in-process unit; WorkUnit.tla has no update table for those, only continuity and the step properties apply
  /\ \/ UE.who = "i"
     \/ \E l \in (IF UE.who = "r" THEN RunnerUfsLocs ELSE DaemonUfsLocs), ch \in {"ok", "fail"} :
          LET n == ApplyUpd(Old, UpdAt(l, UE.nsz, ch)) IN n.st = New.st /\ n.sz = New.sz
  /\ (CheckSteps /\ ~UE.z) => ApplyBad(Old, New) = {}                    \* StageMonotone, SucceededIsFinal, SizeMonotone
  /\ pend' = New /\ pa' = UE.a
  /\ ul' = ul + 1 /\ UNCHANGED <<cur, known, vars>>

\* UFS_Trunc
\* (order of the two steps as in WorkUnit: TruncFirst = the code before its repair)
UTrunc == /\ Has("trunc") /\ pa = UE.a
          /\ IF TruncFirst THEN pend # NoMem /\ cur' = Empty /\ known' = TRUE /\ UNCHANGED <<pend, pa>>
                           ELSE pend = NoMem /\ UNCHANGED <<cur, known>> /\ pend' = NoMem /\ pa' = 0
          /\ ul' = ul + 1 /\ UNCHANGED vars

\* UFS_Write
UWrite == /\ Has("write") /\ pend # NoMem /\ pa = UE.a /\ (TruncFirst => cur = Empty)
          /\ cur' = pend /\ known' = TRUE /\ pend' = NoMem
          /\ pa' = IF TruncFirst THEN 0 ELSE pa
          /\ ul' = ul + 1 /\ UNCHANGED vars

\* CrashDaemon / CrashRunner: the process is gone; an update it had applied but not written is lost, a truncated
\* file stays truncated
UCrash == /\ Has("crash")
          /\ IF pa = UE.a THEN pend' = NoMem /\ pa' = 0 ELSE UNCHANGED <<pend, pa>>   \* (after its write the record is stored)
          \* died between apply and the logged write: the write(2) itself may have happened (its hook follows the system call)
          /\ \/ UNCHANGED <<cur, known>>
             \/ pa = UE.a /\ pend # NoMem /\ ~TruncFirst /\ cur' = pend /\ known' = TRUE
          /\ ul' = ul + 1 /\ UNCHANGED vars

UNext == UReset \/ UApply \/ UTrunc \/ UWrite \/ UCrash
USpec == UInit /\ [][UNext]_<<vars, uvars>>

UnitTraceAccepted == TLCGet("stats").diameter - 1 = Len(UTrace)
=============================================================================
