--------------------------- MODULE WorkUnitTrace ---------------------------
(***************************************************************************)
(* Trace validation for C13: the stream of status rewrites of every unit,  *)
(* recorded from the real daemon and its runner processes by the sf_apply  *)
(* hook (old state/size -> new state/size, pid), against WorkUnit.tla.     *)
(*                                                                         *)
(* Each logged rewrite must be                                              *)
(*   - a continuation: what it read is what the previous rewrite stored;   *)
(*   - one of WorkUnit's updates: new = ApplyUpd(old, UpdAt(l, size, end)) *)
(*     for a location l of the writer's kind (daemon goroutine or runner); *)
(*   - harmless for the C13 step properties: ApplyBad(old, new) = {}.      *)
(* The operators UpdAt, ApplyUpd, ApplyBad, Stage are WorkUnit's own; the  *)
(* trace module adds only the cursor and the current stored record.        *)
(* Sizes are the real byte counts; work type and pid flag are not logged   *)
(* by the observer and are carried as constants of the record.             *)
(* Traces of several units are concatenated, separated by "reset" events.  *)
(***************************************************************************)
EXTENDS WorkUnit, Json

CONSTANT UnitTraceFile

UTrace == ndJsonDeserialize(UnitTraceFile)

VARIABLES ul,     \* next event
          cur,    \* the stored record of the current unit
          known   \* FALSE until the first rewrite of the unit has been seen

DaemonUfsLocs == {"sb_u_wait", "sb_u_starting", "sb_u_launch", "sb_u_pid", "x_u_clear", "cn_u_cancel", "rl_u_cancel",
                  "sc_u_failload", "sc_u_pendfail"}
RunnerUfsLocs == {"r_u_pend", "r_u_tick", "r_u_final", "r_u_killed", "r_u_err"}

StName(n) == CASE n = 0 -> "P" [] n = 1 -> "R" [] n = 2 -> "S" [] n = 3 -> "F" [] OTHER -> "C"

UE == UTrace[ul]
Old == Rec(StName(UE.ost), UE.osz, "cmd", FALSE)
New == Rec(StName(UE.nst), UE.nsz, "cmd", FALSE)

UInit == Init /\ ul = 1 /\ cur = Fresh("cmd") /\ known = FALSE

UReset == /\ ul <= Len(UTrace) /\ UE.ev = "reset"
          /\ ul' = ul + 1 /\ cur' = Fresh("cmd") /\ known' = FALSE /\ UNCHANGED vars

UApply ==
  /\ ul <= Len(UTrace) /\ UE.ev = "apply"
  /\ UE.z \/ ~known \/ (Old.st = cur.st /\ Old.sz = cur.sz)              \* read = last write
  /\ \E l \in (IF UE.who = "r" THEN RunnerUfsLocs ELSE DaemonUfsLocs), ch \in {"ok", "fail"} :
        LET n == ApplyUpd(Old, UpdAt(l, UE.nsz, ch)) IN n.st = New.st /\ n.sz = New.sz
  /\ UE.z \/ ApplyBad(Old, New) = {}                                      \* StageMonotone, SucceededIsFinal, SizeMonotone
  /\ cur' = New /\ known' = TRUE /\ ul' = ul + 1 /\ UNCHANGED vars

UNext == UReset \/ UApply
USpec == UInit /\ [][UNext]_<<vars, ul, cur, known>>

UnitTraceAccepted == TLCGet("stats").diameter - 1 = Len(UTrace)
=============================================================================
