\* Counter-example variant: a verifier that reads the clock when it is created (seeded/c09-verify-time-frozen-at-build,
\* seeded/c20-verify-time-frozen-at-build).  TLC must report a violation of ValidityJudgedAtHandshake here; never used as a
\* passing configuration.
SPECIFICATION Spec
CONSTANTS
  Issuers = {"trusted", "otherca"}
  Validities = {"valid", "expired"}
  Usages = {"server", "client"}
  NameSets = {"expected", "other", "several"}
  PinLists <- PinListsWit
  Roles = {"server", "client"}
  Modes = {"receptor", "dns"}
  StreamSrcs <- StreamSrcsQuick
  MaxTick = 1
  KF_LookupMutatesStored = FALSE
  KF_TimeFrozenAtCreation = TRUE
  KF_DigestCachedAcrossCalls = FALSE
  KF_ColonSplit = FALSE
  DumpFile = ""
INVARIANTS
  ValidityJudgedAtHandshake
