SPECIFICATION Spec
CONSTANTS
  MaxLen = 2
  DumpFile = "vectors.ndjson"
INVARIANTS
  NeverCrashes
