\* All counter-example variants at once: the encoder with a fixed 2-byte strip (the code before a24eea6) and a verifier that
\* reads the clock when it is built (seeded/c20-verify-time-frozen-at-build).  checks/c20.py runs this with -continue and requires
\* RoundTrip and ValidityJudgedAtVerification to be violated; never used as a passing configuration.
SPECIFICATION Spec
CONSTANTS
  MaxLen = 300
  Families = {"ids", "names", "san", "decode", "clock"}
  LegacyStrip = TRUE
  MaxTick = 1
  KF_TimeFrozenAtCreation = TRUE
  DumpFile = ""
INVARIANTS
  RoundTrip
  ValidityJudgedAtVerification
