SPECIFICATION Spec
CONSTANTS
  MaxBytes = 5
  Cuts = {"transit"}
  OriginErrorFatal = TRUE
INVARIANTS
  Prefix
  EOFOnlyAfterAll
  NoAbort
PROPERTIES
  Complete
  AllDelivered
