SPECIFICATION Spec
CONSTANT Recheck = FALSE
INVARIANTS TypeOK LateCancelHarmless
