SPECIFICATION Spec
CONSTANTS
  Part = "socket"
  Deliverers = {d1, d2}
  Closers = {c1, c2}
  MaxReads = 2
  ChanClosedBy = "nobody"
  WatcherQuitsOnDone = FALSE
  ListenerOrder = "ql_first"
  PingReaderCtx = "ping"
  PingErrSend = "select"
  PingUnrMax = 2
  EarlyWatcherFollows = "cctx"
  DeliveryHoldsRLock = FALSE
  KF_HalfCloseOnly = TRUE
INVARIANTS
  TypeOK
  NoPanic
  Released
  NoLockCycle
PROPERTIES
  ShutdownStops
  CloseReturns
  ListenerCloseReturns
