\* EXPECTED VIOLATION (code as found): runProtocol returns on a rejection without cancelling ci.Context; a reader holding a message stays for ever
SPECIFICATION Spec
CONSTANTS
  Links = {1}
  MaxIdle = 2
  Poll = 1
  KA = 1
  MaxInit = 2
  MaxLev = 1
  QLen = 1
  Sync = FALSE
  Coarse = FALSE
  RealNodes = {"b"}
  CancelOnReturn = FALSE
  SkipOnBackendCancel = FALSE
  EdgeGuard = TRUE
  BSilence = 0
  BCut = 0
  ShutNodes = {}
  CancelNodes = {}
  BReborn = 0
  BAdv = 3
  BIdle = 0
  BDial = 2
  Wit = FALSE
INVARIANTS
  NoOrphan
