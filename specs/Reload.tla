------------------------------- MODULE Reload -------------------------------
(***************************************************************************)
(* X-RELOAD - the control service's "reload" command, at the code's grain. *)
(*                                                                         *)
(* Code: pkg/controlsvc/reload.go (ReloadCommand.ControlFunc, checkReload /*)
(* parseConfigForReload, cfgAbsent, the package-level map                  *)
(* cfgNotReloadable), cmd/config.go (reloadParseAndRun = cl.ParseAndRun on *)
(* the original command line, i.e. the configuration file is read again),  *)
(* pkg/backends/*.go (PreReload = Prepare, Reload = Run = AddBackend),     *)
(* pkg/netceptor/netceptor.go (AddBackend, CancelBackends, BackendWait and *)
(* the session life in runProtocol: sess_start, conn_add, established,     *)
(* conn_del, sess_end).                                                    *)
(*                                                                         *)
(* One node.  Its configuration file is one of a few named contents; the   *)
(* reload command of a control session runs as the code's steps:           *)
(*   Begin  -> Parse (PreReload of every backend entry of the file)        *)
(*          -> Check (the file is read AGAIN; every non-backend item must  *)
(*             be textually one of the start-up items; a flag per item is  *)
(*             set) -> Absent (a start-up item whose flag is not set was   *)
(*             removed; the flags are cleared here and only here)          *)
(*          -> Cancel (every registered backend context is cancelled)      *)
(*          -> Wait (the node-wide backend wait group reaches zero; the    *)
(*             list of cancel functions is emptied)                        *)
(*          -> Start (the file is read a THIRD time; one AddBackend per    *)
(*             backend entry, in file order; the first failure ends it)    *)
(*          -> reply.                                                      *)
(* Backend sessions (fresh -> registered (conn_add) -> established) run    *)
(* interleaved with these steps, and so does a second control session.     *)
(*                                                                         *)
(* Deviations of the code as found are named by constants (TRUE = found):  *)
(*   KF_StaleFlags     the item flags are only cleared by Absent, so a     *)
(*                     reload refused by Check leaves flags set and a      *)
(*                     later reload does not notice a removed item;        *)
(*   KF_NoReloadMutex  nothing excludes two reload commands from running   *)
(*                     at the same time (shared flags, shared cancel list, *)
(*                     one wait group);                                    *)
(*   KF_PortFreedAfterDone the listener loop announces its end to the wait  *)
(*                     group BEFORE it closes its socket, so BackendWait   *)
(*                     can return while the port is still bound and the    *)
(*                     listener of the new file cannot be started;         *)
(*   KF_MidEstablishLeak (never found; seeded/c11-backend-cancel-keeps-    *)
(*                     connection) a session cancelled between conn_add    *)
(*                     and established leaves its connection entry.        *)
(***************************************************************************)
EXTENDS Naturals, Sequences, FiniteSets, TLC, Json, SequencesExt

CONSTANTS Ctl,                \* control sessions that may issue reload, e.g. {1} or {1, 2}
          MaxReloads,         \* reload commands in a behaviour
          MaxEdits,           \* file edits in a behaviour
          MaxSess,            \* backend sessions ever created
          MaxFail,            \* spontaneous session failures (link loss) in a behaviour
          EditNames,          \* the file contents the editor may write
          KF_StaleFlags, KF_NoReloadMutex, KF_PortFreedAfterDone, KF_MidEstablishLeak,
          DumpFile            \* "" or the NDJSON file the replay scenarios are written to

\* backend entries: a listener (peer "c" dials in), a dialer to peer "b", the same dialer with other attributes (allowed
\* peers; a changed cost would have to be changed on the peer as well), a dialer to "d"
Entries == {"L", "D", "Dc", "E"}
PeerOf(e) == CASE e = "L" -> "c" [] e \in {"D", "Dc"} -> "b" [] e = "E" -> "d"
Peers == {"b", "c", "d"}
Items == <<"A", "B">>         \* the non-backend items of the start-up file, in file order
ItemSet == {"A", "B"}

\* file contents by name: parse, backend entries in file order, state of each start-up item, an added non-backend item,
\* a backend entry whose Prepare fails (cost <= 0), backend entries whose start fails (e.g. port taken)
F(parse, be, a, b, added, badcost, startfail) ==
  [parse |-> parse, be |-> be, items |-> [i \in ItemSet |-> IF i = "A" THEN a ELSE b], added |-> added, badcost |-> badcost, startfail |-> startfail]
FileOf(n) ==
  CASE n = "start"      -> F("ok", <<"L", "D">>, "same", "same", FALSE, FALSE, {})
    [] n = "drop_D"     -> F("ok", <<"L">>, "same", "same", FALSE, FALSE, {})
    [] n = "cost_D"     -> F("ok", <<"L", "Dc">>, "same", "same", FALSE, FALSE, {})
    [] n = "add_E"      -> F("ok", <<"L", "D", "E">>, "same", "same", FALSE, FALSE, {})
    [] n = "drop_L"     -> F("ok", <<"D">>, "same", "same", FALSE, FALSE, {})
    [] n = "mod_B"      -> F("ok", <<"L", "D">>, "same", "modified", FALSE, FALSE, {})
    [] n = "rm_A"       -> F("ok", <<"L", "D">>, "removed", "same", FALSE, FALSE, {})
    [] n = "add_item"   -> F("ok", <<"L", "D">>, "same", "same", TRUE, FALSE, {})
    [] n = "mod_B_drop_D" -> F("ok", <<"L">>, "same", "modified", FALSE, FALSE, {})
    [] n = "unparsable" -> F("unparsable", <<>>, "same", "same", FALSE, FALSE, {})
    [] n = "unreadable" -> F("unreadable", <<>>, "same", "same", FALSE, FALSE, {})
    [] n = "badcost"    -> F("ok", <<"L", "Dc">>, "same", "same", FALSE, TRUE, {})
    [] n = "failstart"  -> F("ok", <<"L", "E">>, "same", "same", FALSE, FALSE, {"E"})

VARIABLES fname,      \* name of the file content on disk
          flags,      \* cfgNotReloadable: start-up item -> seen in this check
          inst,       \* backend instances: id -> [e, ctx] (ctx: live | cancelled)
          cancels,    \* s.backendCancel: the instance ids whose cancel function is registered
          sess,       \* backend sessions: id -> [i (instance), peer, phase, ctx]
          conns,      \* s.connections: peer -> session id (0 = none)
          rl,         \* per control session: the reload in progress
          port,       \* the listener's TCP port: "free" | "bound" | "closing" (its loop has left the wait group, the socket is still open)
          cnt         \* counters: next ids and budgets
vars == <<fname, flags, inst, cancels, sess, conns, rl, port, cnt>>
file == FileOf(fname)

Idle == [pc |-> "idle", reply |-> "-", fchk |-> "start", fstart |-> "start", todo |-> <<>>, overlap |-> FALSE, clean |-> TRUE, started |-> <<>>, n |-> 0, spurious |-> FALSE]

Init ==
  /\ fname = "start"
  /\ flags = [i \in ItemSet |-> FALSE]
  /\ inst = (1 :> [e |-> "L", ctx |-> "live"]) @@ (2 :> [e |-> "D", ctx |-> "live"])
  /\ cancels = {1, 2}
  /\ sess = << >>
  /\ conns = [p \in Peers |-> 0]
  /\ rl = [r \in Ctl |-> Idle]
  /\ port = "bound"
  /\ cnt = [inst |-> 3, sess |-> 1, reloads |-> 0, edits |-> 0, fails |-> 0]

Active(r) == rl[r].pc \notin {"idle", "done"}
SomeOtherActive(r) == \E q \in Ctl \ {r} : Active(q)

\* ---------------------------------------------------------------- the editor
EditFile(n) ==
  /\ cnt.edits < MaxEdits /\ n # fname
  /\ fname' = n /\ cnt' = [cnt EXCEPT !.edits = @ + 1]
  /\ UNCHANGED <<flags, inst, cancels, sess, conns, rl, port>>

\* ---------------------------------------------------------------- the reload command
Begin(r) ==
  /\ rl[r].pc \in {"idle", "done"} /\ cnt.reloads < MaxReloads
  /\ KF_NoReloadMutex \/ ~SomeOtherActive(r)           \* repaired code: one reload at a time
  /\ rl' = [q \in Ctl |-> IF q = r THEN [Idle EXCEPT !.pc = "parse", !.overlap = SomeOtherActive(r), !.n = cnt.reloads + 1]
                          ELSE IF Active(q) THEN [rl[q] EXCEPT !.overlap = TRUE] ELSE rl[q]]
  /\ cnt' = [cnt EXCEPT !.reloads = @ + 1]
  /\ UNCHANGED <<fname, flags, inst, cancels, sess, conns, port>>

Finish(r, reply) == [rl EXCEPT ![r].pc = "done", ![r].reply = reply]

\* PreReload: the file is parsed and every backend entry is prepared (cost > 0)
Parse(r) ==
  /\ rl[r].pc = "parse"
  /\ rl' = IF file.parse # "ok" \/ file.badcost THEN Finish(r, "error4_parse") ELSE [rl EXCEPT ![r].pc = "check"]
  /\ UNCHANGED <<fname, flags, inst, cancels, sess, conns, port, cnt>>

\* checkReload: the file is read again; items are visited in file order, the first offending one ends the check
FlagsAfterP(f, fl) ==
  \* same items up to (not including) the first modified one are flagged; an added item is met after the start-up items
  LET firstMod == IF \E k \in 1..Len(Items) : f.items[Items[k]] = "modified"
                  THEN CHOOSE k \in 1..Len(Items) : f.items[Items[k]] = "modified" /\ \A j \in 1..(k - 1) : f.items[Items[j]] # "modified"
                  ELSE Len(Items) + 1 IN
  [i \in ItemSet |-> fl[i] \/ \E k \in 1..(firstMod - 1) : Items[k] = i /\ f.items[i] = "same"]
FlagsAfterCheck(f) == FlagsAfterP(f, flags)
CheckRefuses(f) == f.parse # "ok" \/ f.added \/ \E i \in ItemSet : f.items[i] = "modified"
ClearedFlags == [i \in ItemSet |-> FALSE]
Check(r) ==
  /\ rl[r].pc = "check"
  /\ IF file.parse # "ok"
     THEN /\ rl' = Finish(r, "error3_read") /\ UNCHANGED flags
     ELSE IF CheckRefuses(file)
     THEN /\ rl' = Finish(r, "error3_modified")
          /\ flags' = IF KF_StaleFlags THEN FlagsAfterCheck(file) ELSE ClearedFlags   \* as found the flags set so far stay
     ELSE /\ rl' = [rl EXCEPT ![r].pc = "absent", ![r].fchk = fname]
          /\ flags' = FlagsAfterCheck(file)
  /\ UNCHANGED <<fname, inst, cancels, sess, conns, port, cnt>>

\* cfgAbsent: an item whose flag is not set has been removed; the flags are cleared on the way out
Absent(r) ==
  /\ rl[r].pc = "absent"
  /\ rl' = IF \E i \in ItemSet : ~flags[i] THEN Finish(r, "error3_removed") ELSE [rl EXCEPT ![r].pc = "cancel"]
  /\ flags' = ClearedFlags
  /\ UNCHANGED <<fname, inst, cancels, sess, conns, port, cnt>>

\* CancelBackends, first half: every registered cancel function is called (contexts of the backends and of their sessions)
Cancel(r) ==
  /\ rl[r].pc = "cancel"
  /\ inst' = [i \in DOMAIN inst |-> IF i \in cancels THEN [inst[i] EXCEPT !.ctx = "cancelled"] ELSE inst[i]]
  /\ sess' = [s \in DOMAIN sess |-> IF sess[s].i \in cancels THEN [sess[s] EXCEPT !.ctx = "cancelled"] ELSE sess[s]]
  /\ rl' = [rl EXCEPT ![r].pc = "wait"]
  /\ UNCHANGED <<fname, flags, cancels, conns, port, cnt>>

\* CancelBackends, second half: BackendWait returns when the ONE wait group of the node is at zero - no backend loop and no
\* session goroutine of any backend is left; then the cancel list is emptied
Wait(r) ==
  /\ rl[r].pc = "wait"
  /\ DOMAIN inst = {} /\ DOMAIN sess = {}
  /\ cancels' = {}
  /\ rl' = [rl EXCEPT ![r].pc = "start", ![r].clean = (\A p \in Peers : conns[p] = 0)]
  /\ UNCHANGED <<fname, flags, inst, sess, conns, port, cnt>>

\* PreReload + Reload: the file is read a third time, then one AddBackend per backend entry in file order
StartParse(r) ==
  /\ rl[r].pc = "start"
  /\ rl' = IF file.parse # "ok" \/ file.badcost THEN Finish(r, "error4_after_cancel")
           ELSE [rl EXCEPT ![r].pc = "starting", ![r].todo = file.be, ![r].fstart = fname]
  /\ UNCHANGED <<fname, flags, inst, cancels, sess, conns, port, cnt>>

StartOne(r) ==
  /\ rl[r].pc = "starting"
  /\ IF rl[r].todo = <<>>
     THEN /\ rl' = Finish(r, "success") /\ UNCHANGED <<inst, cancels, cnt, port>>
     ELSE LET e == Head(rl[r].todo) IN
          IF e \in FileOf(rl[r].fstart).startfail
             \/ (e = "L" /\ port # "free")                            \* "address already in use": the port is still / already bound
          THEN /\ rl' = [Finish(r, "error4_after_cancel") EXCEPT ![r].spurious = (e \notin FileOf(rl[r].fstart).startfail)]
               /\ UNCHANGED <<inst, cancels, cnt, port>>
          ELSE /\ inst' = inst @@ (cnt.inst :> [e |-> e, ctx |-> "live"])
               /\ cancels' = cancels \cup {cnt.inst}
               /\ cnt' = [cnt EXCEPT !.inst = @ + 1]
               /\ port' = IF e = "L" THEN "bound" ELSE port
               /\ rl' = [rl EXCEPT ![r].todo = Tail(@), ![r].started = Append(@, e)]
  /\ UNCHANGED <<fname, flags, sess, conns>>

ReloadStep(r) == Begin(r) \/ Parse(r) \/ Check(r) \/ Absent(r) \/ Cancel(r) \/ Wait(r) \/ StartParse(r) \/ StartOne(r)

\* ---------------------------------------------------------------- backend sessions
\* the dialer dials / the listener accepts: a new session of a live backend instance (at most one unfinished per instance)
NewSession(i) ==
  /\ i \in DOMAIN inst /\ inst[i].ctx = "live" /\ cnt.sess <= MaxSess
  /\ ~\E s \in DOMAIN sess : sess[s].i = i
  /\ sess' = sess @@ (cnt.sess :> [i |-> i, peer |-> PeerOf(inst[i].e), phase |-> "fresh", ctx |-> "live"])
  /\ cnt' = [cnt EXCEPT !.sess = @ + 1]
  /\ UNCHANGED <<fname, flags, inst, cancels, conns, rl, port>>

Drop(s) == [t \in DOMAIN sess \ {s} |-> sess[t]]

\* the peer's first routing message: the connection is entered (conn_add), or the session is rejected as a duplicate
Register(s) ==
  /\ s \in DOMAIN sess /\ sess[s].phase = "fresh"
  /\ IF conns[sess[s].peer] = 0
     THEN /\ conns' = [conns EXCEPT ![sess[s].peer] = s] /\ sess' = [sess EXCEPT ![s].phase = "registered"]
     ELSE /\ sess' = Drop(s) /\ UNCHANGED conns            \* "already connected": rejected, nothing entered
  /\ UNCHANGED <<fname, flags, inst, cancels, rl, port, cnt>>

Establish(s) ==
  /\ s \in DOMAIN sess /\ sess[s].phase = "registered" /\ sess[s].ctx = "live"
  /\ sess' = [sess EXCEPT ![s].phase = "established"]
  /\ UNCHANGED <<fname, flags, inst, cancels, conns, rl, port, cnt>>

\* the session ends: its context was cancelled, or the link failed; removeConnection deletes the peer's entry
End(s) ==
  /\ s \in DOMAIN sess
  /\ \/ sess[s].ctx = "cancelled" /\ UNCHANGED cnt
     \/ sess[s].ctx = "live" /\ cnt.fails < MaxFail /\ cnt' = [cnt EXCEPT !.fails = @ + 1]
  /\ conns' = IF sess[s].phase = "fresh" \/ conns[sess[s].peer] # s THEN conns
              ELSE IF KF_MidEstablishLeak /\ sess[s].phase = "registered" /\ sess[s].ctx = "cancelled" THEN conns
              ELSE [conns EXCEPT ![sess[s].peer] = 0]
  /\ sess' = Drop(s)
  /\ UNCHANGED <<fname, flags, inst, cancels, rl, port>>

\* the backend's own goroutines leave once the context is cancelled and the sessions are gone (runProtocolWg, then Done)
InstExit(i) ==
  /\ i \in DOMAIN inst /\ inst[i].ctx = "cancelled" /\ ~\E s \in DOMAIN sess : sess[s].i = i
  /\ inst' = [j \in DOMAIN inst \ {i} |-> inst[j]]
  \* the listener loop's deferred clean-up: wait group first, socket second (as found) - or the socket first
  /\ port' = IF inst[i].e # "L" THEN port ELSE IF KF_PortFreedAfterDone THEN "closing" ELSE "free"
  /\ UNCHANGED <<fname, flags, cancels, sess, conns, rl, cnt>>
PortClosed == /\ port = "closing" /\ port' = "free"
              /\ UNCHANGED <<fname, flags, inst, cancels, sess, conns, rl, cnt>>

SessStep == \/ PortClosed
            \/ \E i \in DOMAIN inst : NewSession(i) \/ InstExit(i)
            \/ \E s \in DOMAIN sess : Register(s) \/ Establish(s) \/ End(s)

Next == \/ \E n \in EditNames : EditFile(n)
        \/ \E r \in Ctl : ReloadStep(r)
        \/ SessStep
Spec == Init /\ [][Next]_vars
\* fairness for the liveness configuration: reload steps and session steps are taken when possible (not the failures)
FairSpec == Spec /\ \A r \in Ctl : WF_vars(Parse(r) \/ Check(r) \/ Absent(r) \/ Cancel(r) \/ Wait(r) \/ StartParse(r) \/ StartOne(r))
                 /\ WF_vars(PortClosed \/ \E i \in DOMAIN inst : NewSession(i) \/ InstExit(i))
                 /\ WF_vars(\E s \in DOMAIN sess : Register(s) \/ Establish(s) \/ (sess[s].ctx = "cancelled" /\ End(s)))

\* ---------------------------------------------------------------- properties
\* the steps before Cancel touch neither backends nor sessions nor connections: a reload refused there changed nothing
BeforeCancelStep == \E r \in Ctl : Begin(r) \/ Parse(r) \/ Check(r) \/ Absent(r)
RefusedChangesNothing == [][BeforeCancelStep => UNCHANGED <<inst, cancels, sess, conns>>]_vars
\* ... and no hidden state either: outside a check the item flags are clear
FlagsClean == (\A r \in Ctl : rl[r].pc # "absent") => flags = ClearedFlags
\* a reload goes on to cancel the backends only if, in the file it checked, every start-up item is unchanged and none was added
AcceptOnlyBackendChanges ==
  \A r \in Ctl : rl[r].pc \in {"cancel", "wait", "start", "starting"} \/ rl[r].reply \in {"success", "error4_after_cancel"}
     => LET f == FileOf(rl[r].fchk) IN ~f.added /\ \A i \in ItemSet : f.items[i] = "same"
\* a connection entry always belongs to a session that is still there
NoOrphanConn == \A p \in Peers : conns[p] # 0 => conns[p] \in DOMAIN sess /\ sess[conns[p]].phase # "fresh"
\* when BackendWait has returned nothing of the old backends is left: no session goroutine (by the wait group) and no connection
NoOldConnAfterWait == \A r \in Ctl : rl[r].clean
\* after an accepted reload that did not overlap another one the node runs exactly the backends of the file it started from
AcceptedExact ==
  \A r \in Ctl : rl[r].reply = "success" /\ ~rl[r].overlap /\ (\A q \in Ctl : ~Active(q)) /\ rl[r].n = cnt.reloads    \* the latest reload
     => /\ rl[r].started = FileOf(rl[r].fstart).be
        /\ \A i \in DOMAIN inst : inst[i].ctx = "live" /\ i \in cancels
        /\ \A e \in Entries : Cardinality({i \in DOMAIN inst : inst[i].e = e}) = Cardinality({k \in 1..Len(rl[r].started) : rl[r].started[k] = e})
\* with two reloads at once (no exclusion as found): a backend entry is never started twice, every started backend can be cancelled
NoDuplicateBackend == \A e \in Entries : Cardinality({i \in DOMAIN inst : inst[i].e = e /\ inst[i].ctx = "live"}) <= 1
EveryBackendCancellable == (\A r \in Ctl : rl[r].pc \notin {"wait", "start", "starting"}) => \A i \in DOMAIN inst : inst[i].ctx = "live" => i \in cancels
\* a reload fails after the cancellation only for a reason that is in the file (an entry that cannot be started)
NoSpuriousStartFailure == \A r \in Ctl : ~rl[r].spurious \/ rl[r].overlap
\* a reload that fails after the cancellation leaves the node with fewer backends than either file (named, not required)
FailedAfterCancelKeepsBackends == \A r \in Ctl : rl[r].reply = "error4_after_cancel" => DOMAIN inst # {}
\* liveness (FairSpec, no failures): every reload ends, and afterwards the peers of the running backends are established again
AllDone == \A r \in Ctl : ~Active(r)
EveryReloadEnds == \A r \in Ctl : Active(r) ~> ~Active(r)
PeersReestablished ==
  <>[](AllDone) => <>[](\A i \in DOMAIN inst : inst[i].ctx = "live" => conns[PeerOf(inst[i].e)] # 0 /\ sess[conns[PeerOf(inst[i].e)]].phase = "established")

\* ---------------------------------------------------------------- witnesses (each must be violated)
W_NoRefusedOtherSection == ~(\E r \in Ctl : rl[r].reply = "error3_modified")
W_NoRefusedRemoved      == ~(\E r \in Ctl : rl[r].reply = "error3_removed")
W_NoMidEstablishment    == ~(\E r \in Ctl : rl[r].pc = "wait" /\ \E s \in DOMAIN sess : sess[s].phase = "registered" /\ sess[s].ctx = "cancelled")
W_NoOverlap             == ~(\E r, q \in Ctl : r # q /\ rl[r].pc \in {"cancel", "wait", "start", "starting"} /\ rl[q].pc \in {"cancel", "wait", "start", "starting"})
W_NoFailAfterCancel     == ~(\E r \in Ctl : rl[r].reply = "error4_after_cancel")
W_NoSuccessWithChange   == ~(\E r \in Ctl : rl[r].reply = "success" /\ rl[r].fstart \in {"drop_D", "cost_D", "add_E", "drop_L"})

\* ---------------------------------------------------------------- replay scenarios for the real daemon
\* the sequential meaning of one reload command (no other reload, no edit in between) on [file name, flags, running entries]
RECURSIVE StartablePrefix(_, _)
StartablePrefix(be, bad) == IF be = <<>> \/ Head(be) \in bad THEN <<>> ELSE <<Head(be)>> \o StartablePrefix(Tail(be), bad)
SeqReload(fn, fl, run) ==
  LET f == FileOf(fn) IN
  IF f.parse # "ok" \/ f.badcost THEN [reply |-> "error4_parse", fl |-> fl, run |-> run]
  ELSE IF CheckRefuses(f) THEN [reply |-> "error3_modified", fl |-> IF KF_StaleFlags THEN FlagsAfterP(f, fl) ELSE ClearedFlags, run |-> run]
  ELSE IF \E i \in ItemSet : ~FlagsAfterP(f, fl)[i] THEN [reply |-> "error3_removed", fl |-> ClearedFlags, run |-> run]
  ELSE LET pre == StartablePrefix(f.be, f.startfail) IN
       [reply |-> IF pre = f.be THEN "success" ELSE "error4_after_cancel", fl |-> ClearedFlags, run |-> pre]
RECURSIVE RunScenario(_, _, _)
RunScenario(edits, fl, run) ==
  IF edits = <<>> THEN <<>>
  ELSE LET r == SeqReload(Head(edits), fl, run) IN
       <<[file |-> Head(edits), reply |-> r.reply, run |-> r.run, peers |-> { PeerOf(r.run[k]) : k \in 1..Len(r.run) }]>> \o RunScenario(Tail(edits), r.fl, r.run)
ScenVec(edits, mode) == [edits |-> edits, mode |-> mode, expect |-> RunScenario(edits, ClearedFlags, <<"L", "D">>)]
\* modes: plain (one control session, idle mesh), storm (the same without waiting for the mesh between the reloads), mid (a backend session is held between conn_add and established while the
\* reload cancels), overlap (a second control session issues reload at the same time), probes (other sessions keep asking)
Scenarios ==
  { ScenVec(<<a>>, m) : a \in EditNames, m \in {"plain", "mid", "overlap", "probes"} }
  \cup { ScenVec(<<a, b>>, "plain") : a \in EditNames, b \in EditNames }
  \* storm: accepted reloads in quick succession, the mesh is not given time to settle in between
  \cup { ScenVec(<<"start", "cost_D", "start", "drop_D", "start", "cost_D", "start", "start">>, "storm"),
          ScenVec(<<"start", "start", "start", "start", "start", "start", "start", "start">>, "storm") }
ASSUME DumpFile = "" \/ ndJsonSerialize(DumpFile, SetToSeq(Scenarios))
=============================================================================
