\* liveness: a cut, then Shutdown of either node at any time: everything of its backends ends
SPECIFICATION FairSpec
CONSTANTS
  Links = {1}
  MaxIdle = 2
  Poll = 1
  KA = 1
  MaxInit = 2
  MaxLev = 1
  QLen = 1
  Sync = TRUE
  Coarse = TRUE
  RealNodes = {"a", "b"}
  CancelOnReturn = TRUE
  SkipOnBackendCancel = FALSE
  EdgeGuard = TRUE
  BSilence = 0
  BCut = 1
  ShutNodes = {"a", "b"}
  CancelNodes = {}
  BReborn = 0
  BAdv = 0
  BIdle = 0
  BDial = 0
  Wit = FALSE
INVARIANTS
  TypeOK
  OnePerPeer
  ListedIffOpen
  EdgeOnlyWhileHeld
  EstHasEdge
  RebuildComing
  NoOrphan
  NoInitAfterDone
  AgeBound
  OneDialSession
  DialerWaits
  DownStaysQuiet
PROPERTIES
  CancelEndsAll
  DialerRedials
  TableFollows
