---------------------------- MODULE DataPlaneMC ----------------------------
(* Concrete constants for the TLC configurations of DataPlane.tla. *)
EXTENDS DataPlane

\* triangle n1-n2-n3: every node has two neighbours, so 2-node and 3-node loops exist among the tables
Tri_Nbr == [n \in {"n1", "n2", "n3"} |-> {"n1", "n2", "n3"} \ {n}]

\* four nodes: chain n1-n2-n3-n4 with the chord n2-n4 (2- and 3-node loops away from the source)
Four_Nbr == ("n1" :> {"n2"}) @@ ("n2" :> {"n1", "n3", "n4"}) @@ ("n3" :> {"n2", "n4"}) @@ ("n4" :> {"n2", "n3"})

\* every node has sockets "a" and "b"; "u" is bound nowhere
Bound_ab == [n \in Node |-> {"a", "b"}]
=============================================================================
