SPECIFICATION TSpec
INVARIANTS
  FwdBoundT
  NoNoticeOwedAboutNotice
  Done
CHECK_DEADLOCK FALSE
