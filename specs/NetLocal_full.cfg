SPECIFICATION Spec
CONSTANTS
  Self = "n1"
  SelfEpoch = 5
  Peers = {"p1", "p2", "p3"}
  Origins = {"p1", "x", "n1"}
  Ids = {"u1", "u2"}
  ConnSets <- CS_small
  MaxSeq = 2
  MaxSteps = 100000
  WithExpire = TRUE
  DumpHist = FALSE
VIEW vw
INVARIANTS
  TypeOK
  KnownSelfIsConn
PROPERTIES
  NoChangeOnStale
  InfoMonotone
  NeverBack
  SelfFilter
  RelayOnce
  SeenGrows
  GenuineIsRelayed
