----------------------------- MODULE Lifecycle -----------------------------
(***************************************************************************)
(* C17: sockets (PacketConn), stream listeners and streams (Conn) of a     *)
(* receptor node can be closed at any time, from any goroutine, repeatedly *)
(* and while traffic arrives, without crashing the process and without     *)
(* leaving service names, goroutines or subscriptions behind; Shutdown     *)
(* stops all background activity.                                          *)
(*                                                                         *)
(* The spec follows the code's grain: one action per critical section or   *)
(* per blocking point of a goroutine.  Four parts (constant Part), each    *)
(* with its own variables; the others stay at their initial value:         *)
(*   "socket"   packetconn.go + the delivery path of handleMessageData     *)
(*   "stream"   DialContext / Conn.Close / CloseConnection / accept side    *)
(*   "listener" Listener.Close against the QUIC transport's reader         *)
(*   "ping"     SendPing and its goroutines                                *)
(* The code AS FOUND is selected by constants (documented counter-examples)*)
(* and the repaired code is the default:                                   *)
(*   ChanClosedBy       "deliverer" as found   / "nobody"  repaired 30b56b6 *)
(*   WatcherQuitsOnDone TRUE        as found   / FALSE     repaired 81ea276 *)
(*   ListenerOrder      "pc_first"  as found   / "ql_first" repaired 7882870*)
(*   PingReaderCtx      "parent"    as found   / "ping"    repaired 7009be8 *)
(*   PingErrSend        "blocking"  as found   / "select"  (see known findings) *)
(*   KF_HalfCloseOnly   TRUE: Released is checked modulo the open finding  *)
(*                      "stream closed with Close() on both ends only"     *)
(***************************************************************************)
EXTENDS Naturals, FiniteSets, TLC

CONSTANTS Part, Deliverers, Closers, MaxReads,
          ChanClosedBy, WatcherQuitsOnDone, ListenerOrder, PingReaderCtx, KF_HalfCloseOnly,
          PingUnrMax, PingErrSend,
          EarlyWatcherFollows, \* "cctx" = the code as it is: the early goroutine of DialContext follows the dial's own context cctx
                               \* (cancelled by the caller OR by monitorUnreachable on a 'service unknown' notice); "ctx" =
                               \* documented counter-example: it follows the caller's ctx and the error path leaves the socket to it
          DeliveryHoldsRLock   \* FALSE = the code as it is (the registry read lock is released right after the lookup);
                               \* TRUE = documented counter-example: it is held across the hand-over pc.recvChan <- md

ASSUME Part \in {"socket", "stream", "listener", "ping"}
ASSUME ChanClosedBy \in {"deliverer", "nobody"}
ASSUME ListenerOrder \in {"pc_first", "ql_first"}
ASSUME PingReaderCtx \in {"parent", "ping"}
ASSUME PingErrSend \in {"blocking", "select"}

VARIABLES
  sctx,                                   \* the node's root context: "live" / "cancelled" (Shutdown)
  \* ---- socket
  reg, ctx, chan, adv, dl, rd, nreads, cl, ncl, gUnsub, gFwd, gBroker, nodeSub,
  \* ---- stream (D = dialling side with ephemeral socket E, A = accepting side)
  dial, ereg, ectx, okCh, cctx, uctx, g1, gmon, g2, dDone, qc, dOps, aOps, aDone, acctx, gaw, gam,
  \* ---- listener
  lpc, lsrv, tmutex, once, lc, tr,
  \* ---- ping
  preg, pctx, pingctx, parent, pmain, pDone, gRead, gErr, gS1, gS2, unr, replied

socketVars   == <<reg, ctx, chan, adv, dl, rd, nreads, cl, ncl, gUnsub, gFwd, gBroker, nodeSub>>
streamVars   == <<dial, ereg, ectx, okCh, cctx, uctx, g1, gmon, g2, dDone, qc, dOps, aOps, aDone, acctx, gaw, gam>>
listenerVars == <<lpc, lsrv, tmutex, once, lc, tr>>
pingVars     == <<preg, pctx, pingctx, parent, pmain, pDone, gRead, gErr, gS1, gS2, unr, replied>>
vars == <<sctx, socketVars, streamVars, listenerVars, pingVars>>

Init ==
  /\ sctx = "live"
  /\ reg = TRUE /\ ctx = "live" /\ chan = "open" /\ adv \in BOOLEAN
  /\ dl = [d \in Deliverers |-> "idle"] /\ rd = "idle" /\ nreads = 0
  /\ cl = [c \in Closers |-> "idle"] /\ ncl = 0
  /\ gUnsub = "alive" /\ gFwd = "alive" /\ gBroker = "alive" /\ nodeSub = TRUE
  /\ dial = "none" /\ ereg = FALSE /\ ectx = "none" /\ okCh = FALSE /\ cctx = FALSE /\ uctx = FALSE
  /\ g1 = "none" /\ gmon = "none" /\ g2 = "none" /\ dDone = FALSE /\ qc = "none"
  /\ dOps = {} /\ aOps = {} /\ aDone = FALSE /\ acctx = FALSE /\ gaw = "none" /\ gam = "none"
  /\ lpc = "open" /\ lsrv = TRUE /\ tmutex = "free" /\ once = "free" /\ lc = "idle" /\ tr = "reading"
  /\ preg = FALSE /\ pctx = "none" /\ pingctx = "live" /\ parent = "live" /\ pmain = "idle" /\ pDone = FALSE
  /\ gRead = "none" /\ gErr = "none" /\ gS1 = "none" /\ gS2 = "none" /\ unr = 0 /\ replied = FALSE

-----------------------------------------------------------------------------
(* SOCKET: NewPacketConn.. (registered, StartUnreachable has run) is the initial state. *)

\* handleMessageData 1711-1729: lookup under listenerLock.RLock
Holders == {d \in Deliverers : dl[d] \in {"looked", "blocked"}}      \* deliverers between lookup and end of hand-over
CloserWaiting == \E c \in Closers : cl[c] = "waiting"
Deliver_Begin(d) ==
  /\ dl[d] = "idle"
  /\ (DeliveryHoldsRLock => ~CloserWaiting)     \* a pending writer of a sync.RWMutex blocks new readers
  /\ dl' = [dl EXCEPT ![d] = IF reg /\ ctx = "live" THEN "looked" ELSE "done"]   \* else: dp_unknown
  /\ UNCHANGED <<reg, ctx, chan, adv, rd, nreads, cl, ncl, gUnsub, gFwd, gBroker, nodeSub>>

\* the select finds nothing ready and parks the goroutine on both channels
Deliver_Block(d) ==
  /\ dl[d] = "looked" /\ ctx = "live" /\ rd # "waiting" /\ chan = "open"
  /\ dl' = [dl EXCEPT ![d] = "blocked"]
  /\ UNCHANGED <<reg, ctx, chan, adv, rd, nreads, cl, ncl, gUnsub, gFwd, gBroker, nodeSub>>

\* case <-pc.context.Done(): as found it executes close(pc.recvChan)
Deliver_Wake(d) ==
  /\ dl[d] \in {"looked", "blocked"} /\ ctx = "cancelled"
  /\ chan' = IF ChanClosedBy = "deliverer" THEN (IF chan = "open" THEN "closed" ELSE "PANIC") ELSE chan
  /\ dl' = [dl EXCEPT ![d] = "done"]
  /\ UNCHANGED <<reg, ctx, adv, rd, nreads, cl, ncl, gUnsub, gFwd, gBroker, nodeSub>>

\* case pc.recvChan <- md: a reader is receiving
Deliver_Send(d) ==
  /\ dl[d] \in {"looked", "blocked"} /\ rd = "waiting" /\ chan = "open"
  /\ rd' = "got" /\ dl' = [dl EXCEPT ![d] = "done"]
  /\ UNCHANGED <<reg, ctx, chan, adv, nreads, cl, ncl, gUnsub, gFwd, gBroker, nodeSub>>

\* a deliverer that looked the socket up before Close enters the select after another one closed the
\* channel: the send case is "ready" and, if chosen, panics (send on closed channel)
Deliver_SendOnClosed(d) ==
  /\ dl[d] = "looked" /\ chan = "closed"
  /\ chan' = "PANIC" /\ dl' = [dl EXCEPT ![d] = "done"]
  /\ UNCHANGED <<reg, ctx, adv, rd, nreads, cl, ncl, gUnsub, gFwd, gBroker, nodeSub>>

\* PacketConn.ReadFrom
Read_Begin ==
  /\ rd = "idle" /\ nreads < MaxReads
  /\ rd' = "waiting" /\ nreads' = nreads + 1
  /\ UNCHANGED <<reg, ctx, chan, adv, dl, cl, ncl, gUnsub, gFwd, gBroker, nodeSub>>
Read_Closed ==      \* m == nil: "connection closed"
  /\ rd = "waiting" /\ chan = "closed"
  /\ rd' = "err"
  /\ UNCHANGED <<reg, ctx, chan, adv, dl, nreads, cl, ncl, gUnsub, gFwd, gBroker, nodeSub>>
Read_Cancelled ==   \* "connection context closed"
  /\ rd = "waiting" /\ ctx = "cancelled"
  /\ rd' = "err"
  /\ UNCHANGED <<reg, ctx, chan, adv, dl, nreads, cl, ncl, gUnsub, gFwd, gBroker, nodeSub>>
Read_Return ==
  /\ rd \in {"got", "err"}
  /\ rd' = "idle"
  /\ UNCHANGED <<reg, ctx, chan, adv, dl, nreads, cl, ncl, gUnsub, gFwd, gBroker, nodeSub>>

\* PacketConn.Close 269-284, one critical section under listenerLock.Lock: registry delete, cancel, withdraw
\* (RemoveLocalServiceAdvertisement tolerates a missing entry since a7e75c0).  The same action is CloseAgain.
Close_Call(c) ==     \* the application calls Close: listenerLock.Lock() is requested
  /\ cl[c] = "idle"
  /\ cl' = [cl EXCEPT ![c] = "waiting"]
  /\ UNCHANGED <<reg, ctx, chan, adv, dl, rd, nreads, ncl, gUnsub, gFwd, gBroker, nodeSub>>
Close(c) ==
  /\ cl[c] = "waiting"
  /\ (DeliveryHoldsRLock => Holders = {})      \* the write lock waits for every read-lock holder
  /\ reg' = FALSE /\ ctx' = "cancelled" /\ adv' = FALSE
  /\ cl' = [cl EXCEPT ![c] = "done"] /\ ncl' = ncl + 1
  /\ UNCHANGED <<chan, dl, rd, nreads, gUnsub, gFwd, gBroker, nodeSub>>

\* StartUnreachable: goroutine 1 waits for the context and unsubscribes from the node's broker,
\* goroutine 2 ranges over the subscription channel, which the node's broker closes on unsubscribe;
\* the socket's own broker goroutine ends with the socket's context
Sub_Unsub  == /\ gUnsub = "alive" /\ ctx = "cancelled" /\ gUnsub' = "done" /\ nodeSub' = FALSE
              /\ UNCHANGED <<reg, ctx, chan, adv, dl, rd, nreads, cl, ncl, gFwd, gBroker>>
Sub_FwdEnd == /\ gFwd = "alive" /\ ~nodeSub /\ gFwd' = "done"
              /\ UNCHANGED <<reg, ctx, chan, adv, dl, rd, nreads, cl, ncl, gUnsub, gBroker, nodeSub>>
Broker_End == /\ gBroker = "alive" /\ ctx = "cancelled" /\ gBroker' = "done"
              /\ UNCHANGED <<reg, ctx, chan, adv, dl, rd, nreads, cl, ncl, gUnsub, gFwd, nodeSub>>

SocketInternal ==
  \/ \E d \in Deliverers : Deliver_Block(d) \/ Deliver_Wake(d) \/ Deliver_Send(d) \/ Deliver_SendOnClosed(d)
  \/ Read_Closed \/ Read_Cancelled \/ Read_Return
  \/ Sub_Unsub \/ Sub_FwdEnd \/ Broker_End
  \/ \E c \in Closers : Close(c)
SocketEnv == (\E d \in Deliverers : Deliver_Begin(d)) \/ Read_Begin \/ (\E c \in Closers : Close_Call(c))

SocketShutdown == /\ sctx = "live" /\ sctx' = "cancelled" /\ ctx' = "cancelled"
                  /\ UNCHANGED <<reg, chan, adv, dl, rd, nreads, cl, ncl, gUnsub, gFwd, gBroker, nodeSub>>

SocketNext == \/ (SocketInternal \/ SocketEnv) /\ UNCHANGED <<sctx, streamVars, listenerVars, pingVars>>
              \/ SocketShutdown /\ UNCHANGED <<streamVars, listenerVars, pingVars>>

-----------------------------------------------------------------------------
(* STREAM: conn.go DialContext 316-424, Conn.Close / CloseConnection 460-476, acceptLoop 222-262 *)

EClose == /\ ereg' = FALSE /\ ectx' = "cancelled"       \* pc.Close() of the ephemeral socket

DialStart ==        \* ListenPacket(""), the early goroutine (okChan/cctx/s.context), monitorUnreachable
  /\ dial = "none" /\ sctx = "live"
  /\ dial' = "dialling" /\ ereg' = TRUE /\ ectx' = "live" /\ g1' = "alive" /\ gmon' = "alive"
  /\ UNCHANGED <<okCh, cctx, uctx, g2, dDone, qc, dOps, aOps, aDone, acctx, gaw, gam>>

DialCtxCancel ==    \* the caller cancels its context (cctx is derived from it)
  /\ dial \in {"dialling", "ok"} /\ ~uctx
  /\ cctx' = TRUE /\ uctx' = TRUE
  /\ UNCHANGED <<dial, ereg, ectx, okCh, g1, gmon, g2, dDone, qc, dOps, aOps, aDone, acctx, gaw, gam>>
DialNotice ==       \* monitorUnreachable calls ccancel: 'service unknown' for the dialled address (nobody listens there)
  /\ dial \in {"dialling", "ok"} /\ ~cctx
  /\ cctx' = TRUE
  /\ UNCHANGED <<dial, ereg, ectx, okCh, uctx, g1, gmon, g2, dDone, qc, dOps, aOps, aDone, acctx, gaw, gam>>

G1_Ok ==            \* case <-okChan: return
  /\ g1 = "alive" /\ okCh /\ g1' = "done"
  /\ UNCHANGED <<dial, ereg, ectx, okCh, cctx, uctx, gmon, g2, dDone, qc, dOps, aOps, aDone, acctx, gaw, gam>>
G1_Cancel ==        \* case <-cctx.Done() / <-s.context.Done(): pcClose()
  /\ g1 = "alive" /\ ((IF EarlyWatcherFollows = "cctx" THEN cctx ELSE uctx) \/ sctx = "cancelled") /\ g1' = "done" /\ EClose
  /\ UNCHANGED <<dial, okCh, cctx, uctx, gmon, g2, dDone, qc, dOps, aOps, aDone, acctx, gaw, gam>>

DialFail ==         \* tr.Dial / OpenStreamSync / first write fails: close(okChan), pc.Close()
                    \* (variant "ctx": when cctx is done the error path returns at once and leaves the socket to the early goroutine)
  /\ dial = "dialling"
  /\ dial' = "failed"
  /\ IF EarlyWatcherFollows = "ctx" /\ cctx
       THEN UNCHANGED <<okCh, ereg, ectx>>
       ELSE okCh' = TRUE /\ EClose
  /\ UNCHANGED <<cctx, uctx, g1, gmon, g2, dDone, qc, dOps, aOps, aDone, acctx, gaw, gam>>

DialOk ==           \* close(okChan); the late watcher goroutine; the accepting side creates its Conn
  /\ dial = "dialling" /\ ereg
  /\ dial' = "ok" /\ okCh' = TRUE /\ g2' = "alive" /\ qc' = "open" /\ gaw' = "alive" /\ gam' = "alive"
  /\ UNCHANGED <<ereg, ectx, cctx, uctx, g1, gmon, dDone, dOps, aOps, aDone, acctx>>

ConnClose_D ==      \* doneOnce: close(doneChan); qs.Close() - half close
  /\ dial = "ok" /\ dOps' = dOps \cup {"close"} /\ dDone' = TRUE
  /\ UNCHANGED <<dial, ereg, ectx, okCh, cctx, uctx, g1, gmon, g2, qc, aOps, aDone, acctx, gaw, gam>>
CloseConnection_D == \* c.pc.Cancel() only RETURNS the cancel function; close(doneChan); qc.CloseWithError
  /\ dial = "ok" /\ dOps' = dOps \cup {"cc"} /\ dDone' = TRUE /\ qc' = "closed"
  /\ UNCHANGED <<dial, ereg, ectx, okCh, cctx, uctx, g1, gmon, g2, aOps, aDone, acctx, gaw, gam>>
ConnClose_A ==
  /\ dial = "ok" /\ aOps' = aOps \cup {"close"} /\ aDone' = TRUE
  /\ UNCHANGED <<dial, ereg, ectx, okCh, cctx, uctx, g1, gmon, g2, dDone, qc, dOps, acctx, gaw, gam>>
CloseConnection_A ==
  /\ dial = "ok" /\ aOps' = aOps \cup {"cc"} /\ aDone' = TRUE /\ qc' = "closed"
  /\ UNCHANGED <<dial, ereg, ectx, okCh, cctx, uctx, g1, gmon, g2, dDone, dOps, acctx, gaw, gam>>

G2_Done ==          \* as found: case <-doneChan: return  (nobody is left to close the ephemeral socket)
  /\ WatcherQuitsOnDone /\ g2 = "alive" /\ dDone /\ g2' = "done"
  /\ UNCHANGED <<dial, ereg, ectx, okCh, cctx, uctx, g1, gmon, dDone, qc, dOps, aOps, aDone, acctx, gaw, gam>>
G2_QcDone ==        \* case <-qc.Context().Done() / <-s.context.Done(): qs.Close(); pc.Close()
  /\ g2 = "alive" /\ (qc = "closed" \/ sctx = "cancelled") /\ g2' = "done" /\ EClose
  /\ UNCHANGED <<dial, okCh, cctx, uctx, g1, gmon, dDone, qc, dOps, aOps, aDone, acctx, gaw, gam>>
GMon_End ==         \* monitorUnreachable and its two subscription goroutines end on doneChan or with the socket
  /\ gmon = "alive" /\ (dDone \/ ectx = "cancelled") /\ gmon' = "done"
  /\ UNCHANGED <<dial, ereg, ectx, okCh, cctx, uctx, g1, g2, dDone, qc, dOps, aOps, aDone, acctx, gaw, gam>>

A_Unreach ==        \* the accepting side is told "service unknown" for the dialler's vanished socket
  /\ dial = "ok" /\ ~ereg /\ ~acctx /\ acctx' = TRUE
  /\ UNCHANGED <<dial, ereg, ectx, okCh, cctx, uctx, g1, gmon, g2, dDone, qc, dOps, aOps, aDone, gaw, gam>>
GAW_Done ==         \* accept-side watcher: case <-doneChan: return
  /\ gaw = "alive" /\ aDone /\ gaw' = "done"
  /\ UNCHANGED <<dial, ereg, ectx, okCh, cctx, uctx, g1, gmon, g2, dDone, qc, dOps, aOps, aDone, acctx, gam>>
GAW_Ctx ==          \* case <-cctx.Done() (or node shutdown): conn.Close()
  /\ gaw = "alive" /\ (acctx \/ sctx = "cancelled") /\ gaw' = "done" /\ aDone' = TRUE
  /\ UNCHANGED <<dial, ereg, ectx, okCh, cctx, uctx, g1, gmon, g2, dDone, qc, dOps, aOps, acctx, gam>>
GAM_End ==
  /\ gam = "alive" /\ (aDone \/ sctx = "cancelled") /\ gam' = "done"
  /\ UNCHANGED <<dial, ereg, ectx, okCh, cctx, uctx, g1, gmon, g2, dDone, qc, dOps, aOps, aDone, acctx, gaw>>
Qc_Idle ==          \* nothing arrives from a peer whose socket is gone: QUIC idle timeout
  /\ qc = "open" /\ ~ereg /\ qc' = "closed"
  /\ UNCHANGED <<dial, ereg, ectx, okCh, cctx, uctx, g1, gmon, g2, dDone, dOps, aOps, aDone, acctx, gaw, gam>>

StreamInternal == G1_Ok \/ G1_Cancel \/ G2_Done \/ G2_QcDone \/ GMon_End \/ A_Unreach \/ GAW_Done \/ GAW_Ctx \/ GAM_End \/ Qc_Idle
StreamEnv == DialStart \/ DialCtxCancel \/ DialNotice \/ DialFail \/ DialOk \/ ConnClose_D \/ CloseConnection_D \/ ConnClose_A \/ CloseConnection_A
StreamShutdown == /\ sctx = "live" /\ sctx' = "cancelled"
                  /\ ectx' = IF ectx = "live" THEN "cancelled" ELSE ectx
                  /\ qc' = IF qc = "open" THEN "closed" ELSE qc
                  /\ UNCHANGED <<dial, ereg, okCh, cctx, uctx, g1, gmon, g2, dDone, dOps, aOps, aDone, acctx, gaw, gam>>
StreamNext == \/ (StreamInternal \/ StreamEnv) /\ UNCHANGED <<sctx, socketVars, listenerVars, pingVars>>
              \/ StreamShutdown /\ UNCHANGED <<socketVars, listenerVars, pingVars>>

-----------------------------------------------------------------------------
(* LISTENER: Listener.Close 280-290 against quic-go Transport.listen/close/closeServer and the      *)
(* server's closeOnce.  lc = program counter of Listener.Close, tr = of the transport's reader.     *)

LC_PcClose ==       \* li.pc.Close()
  /\ \/ ListenerOrder = "pc_first" /\ lc = "idle" /\ lc' = "pc_closed"
     \/ ListenerOrder = "ql_first" /\ lc = "ql_closed" /\ lc' = "done"
  /\ lpc' = "closed" /\ UNCHANGED <<lsrv, tmutex, once, tr>>
LC_EnterOnce ==     \* li.ql.Close() -> baseServer.close -> closeOnce.Do(...)
  /\ \/ ListenerOrder = "pc_first" /\ lc = "pc_closed"
     \/ ListenerOrder = "ql_first" /\ lc = "idle"
  /\ \/ once = "free" /\ once' = "lc" /\ lc' = "in_once"
     \/ once = "done" /\ once' = once /\ lc' = IF ListenerOrder = "pc_first" THEN "done" ELSE "ql_closed"
  /\ UNCHANGED <<lpc, lsrv, tmutex, tr>>
LC_LockMutex ==     \* onClose = Transport.closeServer: t.mutex.Lock()
  /\ lc = "in_once" /\ tmutex = "free" /\ tmutex' = "lc" /\ lc' = "in_mutex"
  /\ UNCHANGED <<lpc, lsrv, once, tr>>
LC_Unlock ==        \* t.server = nil; unlock; leave the once
  /\ lc = "in_mutex" /\ lsrv' = FALSE /\ tmutex' = "free" /\ once' = "done"
  /\ lc' = IF ListenerOrder = "pc_first" THEN "done" ELSE "ql_closed"
  /\ UNCHANGED <<lpc, tr>>
TR_ReadErr ==       \* ReadFrom fails once the socket is closed: Transport.close: t.mutex.Lock()
  /\ tr = "reading" /\ lpc = "closed" /\ tmutex = "free" /\ tmutex' = "tr" /\ tr' = "in_mutex"
  /\ UNCHANGED <<lpc, lsrv, once, lc>>
TR_ServerClose ==   \* if t.server != nil { t.server.close(e, false) } -> closeOnce.Do: waits while another runs it
  /\ tr = "in_mutex"
  /\ \/ ~lsrv /\ tr' = "unlocking" /\ once' = once
     \/ lsrv /\ once = "free" /\ once' = "done" /\ tr' = "unlocking"
     \/ lsrv /\ once = "done" /\ once' = once /\ tr' = "unlocking"
  /\ UNCHANGED <<lpc, lsrv, tmutex, lc>>
TR_Unlock ==
  /\ tr = "unlocking" /\ tmutex' = "free" /\ tr' = "done"
  /\ UNCHANGED <<lpc, lsrv, once, lc>>
ListenerNext == (LC_PcClose \/ LC_EnterOnce \/ LC_LockMutex \/ LC_Unlock \/ TR_ReadErr \/ TR_ServerClose \/ TR_Unlock)
                /\ UNCHANGED <<sctx, socketVars, streamVars, pingVars>>

\* Listener.Close holds the once and wants the mutex; the reader holds the mutex and wants the once
LockCycle == lc = "in_once" /\ tr = "in_mutex" /\ lsrv /\ once = "lc" /\ tmutex = "tr"
NoLockCycle == ~LockCycle

-----------------------------------------------------------------------------
(* PING: SendPing, ping.go 24-98 *)

PingStart ==        \* ListenPacket(""), SubscribeUnreachable (2 goroutines), the error and the reader goroutine, WriteTo
  /\ pmain = "idle" /\ sctx = "live"
  /\ pmain' = "waiting" /\ preg' = TRUE /\ pctx' = "live"
  /\ gS1' = "alive" /\ gS2' = "recv" /\ gErr' = "ranging" /\ gRead' = "reading"
  /\ UNCHANGED <<pingctx, parent, pDone, unr, replied>>
P_Reply ==          \* the answer is delivered to the socket: ReadFrom returns it
  /\ gRead = "reading" /\ preg /\ pctx = "live" /\ ~replied /\ replied' = TRUE /\ gRead' = "have_reply"
  /\ UNCHANGED <<preg, pctx, pingctx, parent, pmain, pDone, gErr, gS1, gS2, unr>>
P_Unreach ==        \* an unreachable notice for this socket is published to its subscription
  /\ gS2 = "recv" /\ unr < PingUnrMax /\ pctx = "live" /\ pmain # "idle" /\ ~pDone
  /\ unr' = unr + 1 /\ gS2' = "send"
  /\ UNCHANGED <<preg, pctx, pingctx, parent, pmain, pDone, gRead, gErr, gS1, replied>>
P_S2Forward ==      \* uChan <- msg taken by the error goroutine's range
  /\ gS2 = "send" /\ gErr = "ranging" /\ gS2' = "recv" /\ gErr' = "sending"
  /\ UNCHANGED <<preg, pctx, pingctx, parent, pmain, pDone, gRead, gS1, unr, replied>>
P_ParentCancel == /\ parent = "live" /\ pmain # "idle" /\ parent' = "cancelled" /\ pingctx' = "cancelled"
                  /\ UNCHANGED <<preg, pctx, pmain, pDone, gRead, gErr, gS1, gS2, unr, replied>>
\* the main select: errorChan / replyChan / timeout / ctxPing / node context; then the deferred calls
\* close(doneChan), ctxCancel(), pc.Close() (one step: nothing else can observe them apart)
MainReturn ==
  /\ pmain' = "returned" /\ pDone' = TRUE /\ pingctx' = "cancelled" /\ preg' = FALSE /\ pctx' = "cancelled"
P_MainErr ==   /\ pmain = "waiting" /\ gErr = "sending" /\ gErr' = "ranging" /\ MainReturn
               /\ UNCHANGED <<parent, gRead, gS1, gS2, unr, replied>>
P_MainReadErr == /\ pmain = "waiting" /\ gRead = "have_err" /\ gRead' = "done" /\ MainReturn
               /\ UNCHANGED <<parent, gErr, gS1, gS2, unr, replied>>
P_MainReply == /\ pmain = "waiting" /\ gRead = "have_reply" /\ gRead' = "done" /\ MainReturn
               /\ UNCHANGED <<parent, gErr, gS1, gS2, unr, replied>>
P_MainOther == /\ pmain = "waiting" /\ MainReturn        \* timeout, ctxPing.Done(), s.Context().Done()
               /\ UNCHANGED <<parent, gRead, gErr, gS1, gS2, unr, replied>>
P_ReadFails ==      \* ReadFrom returns an error once the socket's context is cancelled
  /\ gRead = "reading" /\ pctx = "cancelled" /\ gRead' = "have_err"
  /\ UNCHANGED <<preg, pctx, pingctx, parent, pmain, pDone, gErr, gS1, gS2, unr, replied>>
P_ReadGivesUp ==    \* the goroutine's own select: reply -> ctxPing / node; error -> ctx (as found: the CALLER's) / node
  /\ \/ gRead = "have_reply" /\ (pingctx = "cancelled" \/ sctx = "cancelled")
     \/ gRead = "have_err" /\ (sctx = "cancelled" \/ (IF PingReaderCtx = "parent" THEN parent ELSE pingctx) = "cancelled")
  /\ gRead' = "done"
  /\ UNCHANGED <<preg, pctx, pingctx, parent, pmain, pDone, gErr, gS1, gS2, unr, replied>>
P_MainShutdown == /\ pmain = "waiting" /\ sctx = "cancelled" /\ MainReturn   \* case <-s.Context().Done()
               /\ UNCHANGED <<parent, gRead, gErr, gS1, gS2, unr, replied>>
P_ErrGivesUp ==     \* errorChan <- ... has no receiver once SendPing returned; "select": it also waits for ctxPing
  /\ PingErrSend = "select" /\ gErr = "sending" /\ (pingctx = "cancelled" \/ sctx = "cancelled") /\ gErr' = "ranging"
  /\ UNCHANGED <<preg, pctx, pingctx, parent, pmain, pDone, gRead, gS1, gS2, unr, replied>>
P_S1End ==          \* subscription goroutine 1: doneChan -> Unsubscribe, or the socket's context
  /\ gS1 = "alive" /\ (pDone \/ pctx = "cancelled") /\ gS1' = "done"
  /\ UNCHANGED <<preg, pctx, pingctx, parent, pmain, pDone, gRead, gErr, gS2, unr, replied>>
P_S2End ==          \* goroutine 2 sees its channel closed (unsubscribed, or the socket's broker ended): close(uChan)
  /\ gS2 = "recv" /\ (gS1 = "done" \/ pctx = "cancelled") /\ gS2' = "done"
  /\ UNCHANGED <<preg, pctx, pingctx, parent, pmain, pDone, gRead, gErr, gS1, unr, replied>>
P_ErrEnd ==         \* range over the closed uChan ends
  /\ gErr = "ranging" /\ gS2 = "done" /\ gErr' = "done"
  /\ UNCHANGED <<preg, pctx, pingctx, parent, pmain, pDone, gRead, gS1, gS2, unr, replied>>

PingInternal == P_MainShutdown \/ P_ErrGivesUp \/ P_S2Forward \/ P_MainErr \/ P_MainReadErr \/ P_MainReply \/ P_ReadFails \/ P_ReadGivesUp \/ P_S1End \/ P_S2End \/ P_ErrEnd
PingEnv == PingStart \/ P_Reply \/ P_Unreach \/ P_ParentCancel \/ P_MainOther
PingShutdown == /\ sctx = "live" /\ sctx' = "cancelled" /\ pctx' = IF pctx = "live" THEN "cancelled" ELSE pctx
                /\ UNCHANGED <<preg, pingctx, parent, pmain, pDone, gRead, gErr, gS1, gS2, unr, replied>>
PingNext == \/ (PingInternal \/ PingEnv) /\ UNCHANGED <<sctx, socketVars, streamVars, listenerVars>>
            \/ PingShutdown /\ UNCHANGED <<socketVars, streamVars, listenerVars>>

-----------------------------------------------------------------------------
Next == \/ Part = "socket" /\ SocketNext
        \/ Part = "stream" /\ StreamNext
        \/ Part = "listener" /\ ListenerNext
        \/ Part = "ping" /\ PingNext

Internal == \/ Part = "socket" /\ SocketInternal /\ UNCHANGED <<sctx, streamVars, listenerVars, pingVars>>
            \/ Part = "stream" /\ StreamInternal /\ UNCHANGED <<sctx, socketVars, listenerVars, pingVars>>
            \/ Part = "listener" /\ ListenerNext
            \/ Part = "ping" /\ PingInternal /\ UNCHANGED <<sctx, socketVars, streamVars, listenerVars>>

Spec == Init /\ [][Next]_vars /\ WF_vars(Internal)

-----------------------------------------------------------------------------
(* Properties *)

NoPanic == chan # "PANIC"

Quiescent == ~ENABLED Internal

Gone(g) == g \in {"none", "done"}

SocketReleased ==
  (Part = "socket" /\ ncl >= 1 /\ Quiescent /\ rd # "waiting")
     => (~reg /\ ~adv /\ ~nodeSub /\ gUnsub = "done" /\ gFwd = "done" /\ gBroker = "done"
         /\ \A d \in Deliverers : dl[d] \in {"idle", "done"})

\* a ReadFrom pending or started after Close never stays blocked, and never blocks a deliverer for ever
ClosedSocketUnblocks == (Part = "socket" /\ ncl >= 1 /\ Quiescent) => (rd # "waiting" /\ \A d \in Deliverers : dl[d] # "blocked")

BothEndsDone == dOps # {} /\ aOps # {}
StreamReleased ==
  (Part = "stream" /\ BothEndsDone /\ Quiescent /\ (KF_HalfCloseOnly => "cc" \in (dOps \cup aOps)))
     => (~ereg /\ Gone(g1) /\ Gone(g2) /\ Gone(gmon) /\ Gone(gaw) /\ Gone(gam))
DialFailReleased ==
  (Part = "stream" /\ dial = "failed" /\ Quiescent) => (~ereg /\ Gone(g1) /\ Gone(gmon) /\ Gone(g2))

PingReleased ==
  (Part = "ping" /\ pmain = "returned" /\ Quiescent) => (~preg /\ Gone(gRead) /\ Gone(gErr) /\ Gone(gS1) /\ Gone(gS2))

Released == SocketReleased /\ ClosedSocketUnblocks /\ StreamReleased /\ DialFailReleased /\ PingReleased

AllGoroutinesGone ==
  /\ Part = "socket" => (gUnsub = "done" /\ gFwd = "done" /\ gBroker = "done" /\ rd # "waiting" /\ \A d \in Deliverers : dl[d] # "blocked")
  /\ Part = "stream" => (Gone(g1) /\ Gone(g2) /\ Gone(gmon) /\ Gone(gaw) /\ Gone(gam))
  /\ Part = "ping"   => (Gone(gRead) /\ Gone(gErr) /\ Gone(gS1) /\ Gone(gS2))
\* liveness: after Shutdown every background goroutine of the node ends (the application's own pending calls return)
ShutdownStops == (sctx = "cancelled") ~> AllGoroutinesGone

\* Close never waits for ever, whatever traffic is arriving and whether or not anybody reads
CloseReturns == \A c \in Closers : (cl[c] = "waiting") ~> (cl[c] = "done")
ListenerCloseReturns == (Part = "listener") => <>(lc = "done")

TypeOK == chan \in {"open", "closed", "PANIC"} /\ ctx \in {"live", "cancelled"} /\ qc \in {"none", "open", "closed"}

(* witnesses (anti-vacuity): each must be violated *)
W_NoBlockedPair == ~(Cardinality({d \in Deliverers : dl[d] = "blocked"}) >= 2)
W_NoDeliverAfterClose == ~(ncl >= 1 /\ rd = "got")
W_NoStreamReleasedState == ~(Part = "stream" /\ BothEndsDone /\ Quiescent /\ ~ereg /\ "cc" \in (dOps \cup aOps))
W_NoHalfCloseOnly == ~(Part = "stream" /\ BothEndsDone /\ Quiescent /\ ~("cc" \in (dOps \cup aOps)) /\ ereg)
W_NoDialFailedByNotice == ~(Part = "stream" /\ dial = "failed" /\ cctx /\ ~uctx /\ Quiescent)
W_NoPingReturned == ~(Part = "ping" /\ pmain = "returned" /\ Quiescent)
=============================================================================
