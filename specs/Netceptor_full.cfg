SPECIFICATION Spec
CONSTANTS
  Nodes = {"a", "b", "c"}
  Cand <- CandTriangle
  MaxSeq = 3
  MaxEv = 2
  Restartable = {"b"}
VIEW vw
INVARIANTS
  StableImpliesConverged
PROPERTIES
  InfoMonotone
