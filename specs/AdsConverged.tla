---------------------------- MODULE AdsConverged ----------------------------
(***************************************************************************)
(* C18 at mesh level (StableImpliesExact): each trace line is the final    *)
(* state of one scenario on a mesh of real nodes: the real topology, the   *)
(* advertised listeners that are open on each running node (service ->     *)
(* <<connection type, tag>>), and every node's advertisement table.  A     *)
(* node must list exactly the services open on the live nodes it can       *)
(* reach (itself included), with their type and tags.                      *)
(***************************************************************************)
EXTENDS NetCore, Json

Trace == ndJsonDeserialize("trace.ndjson")
VARIABLE l
E == Trace[l]

SeqSet(s) == {s[i] : i \in 1..Len(s)}

Reach(n) == {o \in DOMAIN E.real : DistFrom(E.real, n)[o] < Inf}

Expected(n) == UNION { { <<o, s, E.open[o][s][1], E.open[o][s][2]>> : s \in DOMAIN E.open[o] } : o \in Reach(n) }

Listed(n) == { <<r[1], r[2], r[3], r[4]>> : r \in SeqSet(E.ads[n]) }

NodeDiff(n) ==
     (IF \E x \in Listed(n) \ Expected(n) : x[1] \in Reach(n) THEN {n \o ":lists_closed_service_of_reachable_node"} ELSE {})
  \cup (IF \E x \in Listed(n) \ Expected(n) : x[1] \notin Reach(n) THEN {n \o ":lists_service_of_unreachable_node"} ELSE {})
  \cup (IF \E x \in Expected(n) \ Listed(n) : TRUE THEN {n \o ":misses_open_service"} ELSE {})

LineDiff == UNION { NodeDiff(n) : n \in DOMAIN E.real }

Init == l = 1
Next == /\ l <= Len(Trace)
        /\ l' = l + 1
        /\ PrintT(<<"CLASS", "final">>)
        /\ (LineDiff = {} \/ PrintT(<<"DIFF", l, "final", LineDiff>>))
Spec == Init /\ [][Next]_l
Done == l = Len(Trace) + 1 => PrintT(<<"DONE", l - 1>>)
=============================================================================
