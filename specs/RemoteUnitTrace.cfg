SPECIFICATION TSpec
CONSTANTS
  MaxOut = 1
  MaxFlaps = 6
  MaxCrashes = 2
  ClientOps = {"cancel", "release", "frelease"}
  RestartIfIdKnown = FALSE
  IdStoredLate = FALSE
  RestartSkipsComplete = FALSE
  StdoutFromZero = FALSE
  ReleaseSkipsRemote = FALSE
  RTraceFile = "rw_trace.ndjson"
INVARIANTS
  ForwardOnly
  NeverContradictsE
  SubmittedOnce
  BoundOnceShipped
  MirrorNeverAbandoned
POSTCONDITION RTraceAccepted
CHECK_DEADLOCK FALSE
