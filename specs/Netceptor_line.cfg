SPECIFICATION Spec
CONSTANTS
  Nodes = {"a", "b", "c"}
  Cand <- CandLine
  MaxSeq = 2
  MaxEv = 2
  Restartable = {}
VIEW vw
INVARIANTS
  StableImpliesConverged
PROPERTIES
  InfoMonotone
