"""C02 Datagrams arrive intact, only at the addressed service, with the true source, at most once.

Design level: DataPlane.tla (hop-by-hop plane over ARBITRARY next-hop tables: DeliveredOnlyAtAddressee, TrueSource, AtMostOnce,
Intact, DeliveredWhenRouted, with two packets in flight) and Framer.tla (every chunking of the framed byte stream yields the
messages sent, in order) are checked exhaustively by TLC.
Conformance (cmd/vdp c02): TLC's Framer vectors are replayed into the real framer and into netMessageConn (B1); real meshes
(memnet chains up to the hop limit, diamond, star; real TCP back-ends on loopback; netMessageConn over a pipe re-chunked according
to TLC's schedules and at random) carry concurrent senders, readers on EVERY open socket compare what arrives with what was
written; the hook trace (send / forward / deliver with digests) is validated by TLC against DataPlaneTrace.tla (B2)."""
import os
import vlib
import dplib


def run(tier, seed, replay=None):
    pid = "C02"
    wd = vlib.workdir(pid)
    v = vlib.Verdict(pid, tier, seed)
    quick = tier == "quick"
    fcfg = "Framer_quick.cfg" if quick else "Framer_full.cfg"
    dcfgs = ["DataPlane_c02_quick.cfg"] if quick else ["DataPlane_pairs.cfg", "DataPlane_full4.cfg"]
    trace = os.path.join(wd, "c02_trace.ndjson")

    def impl():
        fr = vlib.tlc_must_pass("Framer", fcfg, wd, workers=4, timeout=2400)
        vectors = os.path.join(fr.dir, "framer_vectors.ndjson")
        nvec = sum(1 for _ in open(vectors))
        res = dplib.run_vdp(pid, wd, ["c02", "-tier", tier, "-seed", str(seed), "-framer-vectors", vectors, "-trace", trace,
                                      "-trace-limit", "12000" if quick else "60000"], timeout=3000)
        if res["counters"].get("framer_vectors_direct", 0) != nvec and not res["violations"]:
            raise vlib.Inconclusive("harness replayed %s of %d framer vectors: %s" % (res["counters"].get("framer_vectors_direct"), nvec, res.get("inconclusive")))
        tv = dplib.validate_trace(pid, wd, [trace], allow_empty=bool(res["violations"]))
        return fr, nvec, res, tv

    def design():
        return dplib.design_runs(dcfgs, wd)

    def wits():
        return dplib.witnesses([("DataPlaneMC", "DataPlane_wit.cfg", ["W_NoDelivery", "W_NoTransitNoRoute"]),
                                ("Framer", "Framer_quick.cfg", ["W_NoSplitHeader", "W_NoSplitBody", "W_NoCoalesced"])], wd)

    (fr, nvec, res, tv), rs, wit = dplib.parallel(impl, design, wits)
    dplib.apply(v, res, tv)
    c = res["counters"]
    for k in ("scenarios_memnet", "scenarios_burst", "scenarios_tcp", "scenarios_rechunk-tlc", "scenarios_rechunk-random", "relay_header_splits", "relay_body_splits", "relay_coalesced"):
        if not c.get(k) and not v.violations:
            raise vlib.Inconclusive("scenario class never exercised: %s" % k)
    rs = rs + [("Framer.tla", fcfg, fr)]
    cov = {
        "states": sum(r.distinct for _, _, r in rs), "transitions": sum(r.generated for _, _, r in rs),
        "traces_validated_against_impl": tv["segments"] if tv else 0,
        "evaluations": res["evaluations"], "distinct_nontrivial": res["distinct"],
        "rule": "evaluations = Framer vectors replayed + datagrams observed at sockets; a Framer vector (frames of 0..3 bytes over {0,1}, "
                "one chunking of the stream) is enumerated completely by TLC and is distinct by (frames, chunking); a datagram case is distinct by "
                "(link kind, payload length, destination node+service, source node+service); payload lengths {0,1,35,36,37,255,256,1199,1200,16383,16384}+random, "
                "bytes all-zero/all-0xFF/random; node ids from the classes 1 byte / 200 bytes / UTF-8 / ':'+punctuation / case variants; service names of 1..8 "
                "bytes incl. >=0x80, prefixes of each other, case variants, the same name bound on two nodes; every socket of every node has a reader",
        "samples": (res.get("samples") or [])[:4] + ([tv["sample"]] if tv else []), "exhaustive": False,
        "framer_vectors": nvec, "trace_lines": tv["lines"] if tv else 0, "trace_events": tv["events"] if tv else {}, "counters": c, "witnesses": wit,
        "tlc": dplib.tlc_summary(rs),
    }
    return v.finish("model_checking", cov, assumptions=[
        "links deliver frames unchanged; memnet loss/duplication/re-ordering is used only for the 'never at another listener / true source / intact' part (a duplicating link legitimately duplicates)",
        "hook events dp_send/dp_forward/dp_deliver carry 8-byte SHA-256 prefixes; forward events carry no digest, so the trace spec tracks positions per flow and digests per flow",
        "node ids are valid UTF-8 (routing updates are JSON); 64-bit name-hash collisions are out of scope",
        "the firewall stage is covered by C12",
    ])
