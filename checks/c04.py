"""C04 Acknowledged work units survive crash/restart with identity and outcome.

Spec: specs/WorkUnit.tla - unit life cycle at the grain of file-system steps, CrashDaemon/CrashRunner enabled in every
state, Restart + per-directory scan as scanForUnit does it; invariant Durable = the expectation-policy table of
DESIGN.md "C04" (checked modulo the open finding 'live runner marked failed' through KF_LiveRunnerFailed; the variants with the
pre-repair truncate-then-write order, with the pre-fix findUnit and without that excuse must each fail).
Conformance (fault enumeration on the real binary, engine E3): a dry run of each workload lists every reachable
(crash point, k, role); for each selected point a fresh daemon is started with VERIF_CRASH_AT, driven until the
process dies, restarted on the same directory and queried (work list / status / results, with deadlines); the answers
are compared with Durable instantiated with what the client had been told before the crash.
"""
import json, os
import vlib

PID = "C04"


def variant(wd, name, repl, inv):
    base = open(os.path.join(vlib.SPECS, "WorkUnit_crash.cfg")).read()
    for a, b in repl:
        assert a in base, a
        base = base.replace(a, b)
    r = vlib.tlc("WorkUnit", name, wd, timeout=900, cfg_text=base)
    if r.violated != inv:
        raise vlib.Inconclusive("variant %s did not violate %s (exit %s violated=%s)" % (name, inv, r.exit, r.violated))
    return inv


def _keep_evidence(replay):
    """A --replay run re-executes one case: it must not replace the evidence of the last full run."""
    path = os.path.join(vlib.VERIF, "evidence", PID + ".json")
    return (path, open(path).read()) if replay and os.path.exists(path) else None


def _restore_evidence(kept):
    if kept:
        with open(kept[0], "w") as f:
            f.write(kept[1])


def run(tier, seed, replay=None):
    kept = _keep_evidence(replay)
    try:
        return _run(tier, seed, replay)
    finally:
        _restore_evidence(kept)


def _run(tier, seed, replay=None):
    wd = vlib.workdir(PID)
    v = vlib.Verdict(PID, tier, seed)
    cfg = "WorkUnit_crash.cfg" if tier == "quick" else "WorkUnit_crash_full.cfg"
    r = vlib.tlc_must_pass("WorkUnit", cfg, wd, timeout=2400, heap="10g")
    # quick keeps the number of TLC launches small; must-fail variants and witnesses run in the thorough tier
    variants = {}
    if tier != "quick":
        variants = {
            "TruncFirst=TRUE (the repaired truncate-then-write defect)": variant(wd, "wu_truncfirst.cfg", [("TruncFirst = FALSE", "TruncFirst = TRUE")], "Durable"),
            "FindUnitHoldsRLock=TRUE (the repaired findUnit defect)": variant(wd, "wu_rlock.cfg", [("FindUnitHoldsRLock = FALSE", "FindUnitHoldsRLock = TRUE")], "NoStatusBlocks"),
        }
    if tier != "quick":
        variants["KF_LiveRunnerFailed=FALSE (the open finding is in the spec)"] = variant(
            wd, "wu_nokf.cfg", [("KF_LiveRunnerFailed = TRUE", "KF_LiveRunnerFailed = FALSE"), ("MaxCrashes = 1", "MaxCrashes = 2")], "Durable")
    # remote units (RemoteUnit.tla: submit, monitors, cancel/release, link up/down, S crash/restart)
    ru_base = open(os.path.join(vlib.SPECS, "RemoteUnit_quick.cfg")).read()
    if tier == "quick":
        ru_text = ru_base.replace('ClientOps = {"cancel", "release", "frelease"}', 'ClientOps = {"cancel"}')
        rr = vlib.tlc("RemoteUnit", "ru_c04.cfg", wd, timeout=900, cfg_text=ru_text)
        if not rr.ok:
            raise vlib.Inconclusive("TLC did not succeed on RemoteUnit (exit %s violated=%s)" % (rr.exit, rr.violated))
    else:
        rr = vlib.tlc_must_pass("RemoteUnit", "RemoteUnit.cfg", wd, timeout=2400, heap="10g")
        rl = vlib.tlc("RemoteUnit", "RemoteUnit_live.cfg", wd, timeout=2400, deadlock=False)
        if not rl.ok:
            raise vlib.Inconclusive("RemoteUnit liveness configuration failed (exit %s, violated=%s)" % (rl.exit, rl.violated))
        vlib.witnesses("RemoteUnit", "RemoteUnit_quick.cfg", ["W_NoCancelAfterRestart", "W_NoCancelRetry", "W_NoGaveUp"], wd)
    if tier != "quick":
        rv = vlib.tlc("RemoteUnit", "ru_idknown.cfg", wd, timeout=600, cfg_text=ru_base.replace("RestartIfIdKnown = FALSE", "RestartIfIdKnown = TRUE"))
        if not rv.violated:
            raise vlib.Inconclusive("RemoteUnit variant RestartIfIdKnown=TRUE did not violate anything (exit %s)" % rv.exit)
        variants["RemoteUnit RestartIfIdKnown=TRUE (restart resumes a half-finished remote submission)"] = rv.violated
        for cname in ("IdStoredLate", "RestartSkipsComplete"):
            x = vlib.tlc("RemoteUnit", "ru_%s.cfg" % cname, wd, timeout=600, cfg_text=ru_base.replace(cname + " = FALSE", cname + " = TRUE"))
            if not x.violated:
                raise vlib.Inconclusive("RemoteUnit variant %s=TRUE did not violate anything (exit %s)" % (cname, x.exit))
            variants["RemoteUnit %s=TRUE" % cname] = x.violated
    wit = [] if tier == "quick" else vlib.witnesses("WorkUnit", "WorkUnit_crash.cfg", ["W_NoRecovery", "W_NoSucceeded"], wd)

    rec = vlib.private_copy(vlib.build_receptor(), wd)   # daemons re-execute this path; other checks rebuild .work/bin
    vd = vlib.build_harness("vd")
    runs = os.path.join(wd, "runs")
    args = ["c04", "-bin", rec, "-dir", runs, "-seed", str(seed), "-par", "8"]
    if replay:
        p = json.load(open(replay))["replay"].get("point", {})
        only = "%s/%s/%s#%s" % (p.get("workload"), p.get("role"), p.get("name"), p.get("k", 1))
        if p.get("second"):
            only += "+" + p["second"]
        if p.get("both"):
            only += "+runner-too"
        if p.get("exec_down"):
            only += "+executor-down"
        args += ["-only", only]
    elif tier == "quick":
        args += ["-max", "16", "-rsched", "cancel-then-restart-submitter,kill-submitter-final-status-short-output"]
    else:
        args += ["-second", "-rsched", "cancel-then-restart-submitter,kill-submitter-final-status-short-output,cancel-while-disconnected,restart-submitter-during-monitoring"]
    res = vlib.harness_json(vd, args, wd, timeout=6000, name="vd_c04")
    for viol in res["violations"]:
        v.violation(viol["sig"], viol["what"], viol["replay"])
    if res.get("inconclusive") and not v.violations:
        # a deadline hit or a tool failure without a definite wrong value
        if len(res["inconclusive"]) > max(2, res["evaluations"] // 10):
            raise vlib.Inconclusive("; ".join(res["inconclusive"][:6]))
        v.notes.append("inconclusive experiments: " + "; ".join(res["inconclusive"][:6]))
    v.notes.extend(res.get("notes") or [])   # e.g. scenario set-ups that had to be repeated, with the daemon's own last words
    ex = res.get("extra", {})
    # ---- (B2) the file-step events of every crash run, validated by TLC (crash-aware: a "crash" line per dead process
    # releases its lock and drops its unwritten update, the file system keeps its content)
    tv = {}
    for key, spec, cfgname, fkey, nkey, post in (("remote_protocol", "RemoteUnitTrace", "RemoteUnitTrace.cfg", "rw_trace_file", "rw_trace_events", "RTraceAccepted"),
                                                 ("status_file_steps", "StatusFileTrace", "StatusFileTraceCrash.cfg", "norm_file", "norm_events", "TraceAccepted"),
                                                 ("unit_rewrites", "WorkUnitTrace", "WorkUnitTraceCrash.cfg", "unit_trace_file", "unit_trace_events", "UnitTraceAccepted")):
        if not ex.get(nkey):
            continue
        t = vlib.tlc(spec, cfgname, wd, timeout=2400, workers=1, files=[ex[fkey]], heap="6g")
        tv[key] = {"events": ex[nkey], "accepted": t.ok, "depth": t.depth, "wall_s": round(t.wall, 1)}
        if not t.ok:
            if "Postcondition " + post in t.output or t.violated:
                if not [x for x in res["violations"] if "status-file" in x["sig"]]:
                    v.violation("C04:%s-trace-rejected" % key, "TLC rejected the %s of the crash runs after about %d steps: not a behaviour of %s with crashes"
                                % (key.replace("_", " "), t.depth, spec), {"trace": ex[fkey], "seed": seed})
            else:
                raise vlib.Inconclusive("TLC failed on the crash traces (%s, exit %s):\n%s" % (spec, t.exit, t.output[-2000:]))
    cov = {
        "evaluations": res["evaluations"], "distinct_nontrivial": res["distinct"],
        "rule": "one evaluation = one crash experiment on the real receptor binary: fresh daemon with VERIF_CRASH_AT=<point>#k for role "
                "daemon|runner, workload driven until the process dies, restart on the same data directory, work list/status/results compared with the "
                "Durable policy (plus one 'unit on disk only' scenario); distinct_nontrivial = distinct (workload, role, point, k[, second point]) at which the "
                "selected process really died (experiments whose point was not reached in that run are not counted)",
        "samples": (res.get("samples") or [])[:6], "exhaustive": tier != "quick" and not replay,
        "points_found_by_dry_runs": ex.get("points_total"), "points_per_workload": ex.get("points_per_workload"),
        "points_selected": ex.get("points_selected"), "crash_windows": ex.get("classes"), "not_reached": ex.get("not_reached"),
        "inconclusive_experiments": res.get("inconclusive") or [],
        "states": r.distinct + rr.distinct, "transitions": r.generated + rr.generated,
        "tlc_remote_unit": {"spec": "RemoteUnit.tla", "generated": rr.generated, "distinct": rr.distinct},
        "tlc": {"spec": "WorkUnit.tla", "cfg": cfg, "generated": r.generated, "distinct": r.distinct, "depth": r.depth, "wall_s": round(r.wall, 1)},
        "variants_violated": variants, "witnesses": wit, "counters": res["counters"],
        "traces_validated_against_impl": ex.get("status_files", 0) if tv.get("status_file_steps", {}).get("accepted") else 0, "crash_trace_validation": tv,
        "notes": v.notes,
    }
    return v.finish("fault_enumeration", cov, assumptions=[
        "crash = SIGKILL of one process (daemon or runner; both together in two double-kill experiments) at a hook-defined point between two file-system operations; the file system itself is not "
        "crashed (no lost page cache, no reordering of completed system calls)",
        "workloads: local command units {finish, long-running, cancel, release} and a remote unit submitted on n1 and executed by a second real daemon n2 "
        "(crash points of n1 enumerated; n2 killed while the unit runs in one scripted scenario); crash points inside remote_work.go itself do not exist (file not owned)",
        "crash points inside os/exec, the Go runtime and the payload are not enumerated; k-th hit of a point is per process",
        "recovery is given 15 s to list an acknowledged unit and 90 s to follow a running unit to a final state; deadline hits without a definite wrong value are inconclusive",
    ])
