"""X-SESSIONLIFE (extra check, not one of the 20 listed properties): the life of a backend session around the routing
protocol -- AddBackend/runProtocol start (initial-connect re-sends, reader/writer goroutines, deferred clean-up),
monitorConnectionAging (idle cut, keep-alive), pkg/backends/utils.go dialerSession/listenerSession (redial with
backoff, context cancellation).

Design level: SessionLife.tla (two nodes, links, goroutines, clocks; SessionCore.tla is the session automaton) checked
by TLC: safety in every interleaving with one node at the code's grain and an adversarial peer (no clocks), safety
incl. the bound on silence and liveness under fairness with both nodes and discrete time; witnesses; two configurations
whose violation is EXPECTED document what the code does or did (as found, before two repairs / a race of
removeConnection's two sections).
Conformance: harness/cmd/vsl drives real nodes (real TCP dialer/listener backends through a harness relay that can go
silent, cut, refuse and come back; memnet links; scripted peers) through seeded scenarios; every node's hook events are
validated by TLC against SessionLifeTrace.tla (same automaton), the driver adds what only it can see."""
import concurrent.futures as cf
import os
import vlib
import sessionlife

PID = "X-SESSIONLIFE"
WITNESSES_QUICK = ["W_NoRedial", "W_NoIdleCut", "W_NoInitTwice", "W_NoBothEst"]
WITNESSES_MORE = ["W_NoReEst", "W_NoCutThenReEst", "W_NoRefuse", "W_NoSkip"]
QUICK = [("SessionLife_quick_dial.cfg", 3, 900), ("SessionLife_quick_listen.cfg", 3, 900)]
FULL = [("SessionLife_live.cfg", 3, 2400), ("SessionLife_live_stop.cfg", 3, 2400), ("SessionLife_full_pair.cfg", 3, 2400),
        ("SessionLife_full_dial_two.cfg", 3, 2400), ("SessionLife_full_dial_shut.cfg", 3, 2400), ("SessionLife_full_dial_cancel.cfg", 3, 2400), ("SessionLife_full_dial_silent.cfg", 3, 2400),
        ("SessionLife_full_dial_adv3.cfg", 3, 2400), ("SessionLife_full_listen_cancel.cfg", 3, 2400), ("SessionLife_full_listen_shut.cfg", 3, 2400),
        ("SessionLife_full_listen_adv5.cfg", 3, 2400)]
EXPECTED = []      # quick: quick_dial + quick_listen + four witnesses only (JVM time dominates on the shared box)
EXPECTED_THOROUGH = [("SessionLife_asis.cfg", "NoOrphan"), ("SessionLife_asis_cancel.cfg", "RebuildComing"), ("SessionLife_race.cfg", "EstHasEdge")]


def _tlc(cfg, workers, timeout, wd):
    r = vlib.tlc_must_pass("SessionLife", cfg, wd, workers=workers, timeout=timeout)
    vlib.log("TLC %s: %d distinct, %d generated, %.0f s" % (cfg, r.distinct, r.generated, r.wall))
    return cfg, r


def _expected(cfg, inv, wd):
    r = vlib.tlc("SessionLife", cfg, wd, workers=3, timeout=3000)
    if r.violated != inv:
        raise vlib.Inconclusive("%s: expected a counter-example to %s, got violated=%s exit=%s" % (cfg, inv, r.violated, r.exit))
    vlib.log("TLC %s: counter-example to %s as expected after %d distinct states, %.0f s" % (cfg, inv, r.distinct, r.wall))
    return cfg, inv, r


def _wit(name, wd):
    return vlib.witnesses("SessionLife", "SessionLife_wit.cfg", [name], wd, workers=1, timeout=3000)[0]


def run(tier, seed, replay=None):
    wd = vlib.workdir("X_SessionLife")
    v = vlib.Verdict(PID, tier, seed)
    vsl = vlib.build_harness("vsl")
    n = 12 if tier == "quick" else 72
    hooks = wd + "/vsl_hooks.ndjson"
    cfgs = QUICK if tier == "quick" else QUICK + FULL
    exp = EXPECTED if tier == "quick" else EXPECTED + EXPECTED_THOROUGH
    skip_design = os.environ.get("XSL_SKIP_DESIGN") == "1"    # binding self-tests (mutations of /repo) do not re-check the design
    wnames = WITNESSES_QUICK if tier == "quick" else WITNESSES_QUICK + WITNESSES_MORE
    if skip_design:
        cfgs, exp, wnames = [], [], []
    with cf.ThreadPoolExecutor(max_workers=4) as ex:
        fh = ex.submit(vlib.harness_json, vsl, ["-scenarios", str(n), "-par", "13" if tier == "quick" else "18", "-seed", str(seed), "-hooktrace", hooks],
                       wd, 3000, None, "vsl")
        ft = [ex.submit(_tlc, c, w, t, wd) for c, w, t in cfgs]
        fe = [ex.submit(_expected, c, i, wd) for c, i in exp]
        fw = [ex.submit(_wit, w, wd) for w in wnames]
        res = fh.result()
        design = [f.result() for f in ft]
        leads = [f.result() for f in fe]
        wit = [f.result() for f in fw]
    for viol in res["violations"]:
        v.violation(viol["sig"], viol["what"], viol["replay"])
    # the traces of scenarios that hit a ceiling are valid prefixes: a definite wrong value in them is still one
    nt = sessionlife.validate(wd, [hooks])
    for d in nt["diffs"]:
        v.violation("%s:%s:%s" % (PID, d["event"], "+".join(d["what"])),
                    "node event '%s' is not a behaviour of SessionCore/SessionLifeTrace: %s; node %s (scenario %s); event %s"
                    % (d["event"], ",".join(d["what"]), d["instance"]["self"], d["instance"].get("sc"), d["context"][-1]),
                    {"instance": d["instance"], "context": d["context"]})
    if res.get("inconclusive") and len(res["inconclusive"]) > max(1, n // 6):
        if v.violations:
            return v.finish("model_checking", {"evaluations": res["evaluations"], "note": "definite wrong values; besides, scenarios hit ceilings: " + "; ".join(x[:200] for x in res["inconclusive"][:3])})
        raise vlib.Inconclusive("vsl driver: %d of %d scenarios hit a ceiling: %s" % (len(res["inconclusive"]), n, "; ".join(x[:300] for x in res["inconclusive"][:3])))
    need = ("conn_add", "established", "init_send", "idle_tick", "idle_cut", "idle_scan_end", "conn_del", "known_del", "sess_end", "req",
            "redial_wait", "redial", "dial", "d_exit", "l_exit", "reject", "h_quiet", "h_end", "gexit")
    missing = [k for k in need if k not in nt["classes"]]
    if missing and not v.violations:
        raise vlib.Inconclusive("event kinds never seen in the traces: " + ",".join(missing))
    c = res.get("counters", {})
    cov = {
        "states": sum(r.distinct for _, r in design), "transitions": sum(r.generated for _, r in design),
        "traces_validated_against_impl": nt["instances"],
        "evaluations": res["evaluations"], "distinct_nontrivial": res["distinct"],
        "rule": "seeded scenarios over 12 kinds (real TCP dialer+listener through a relay: silent link -> idle cuts -> redial -> heal; "
                "cut; Shutdown; CancelBackends; listener refused then restarted with growing redial delays; two links to one peer; "
                "memnet: peer silent from the start (11 initial messages, give-up) with stops in the middle; reject/wrong cost/drop with "
                "frames right behind; pair silent both ways / one way; stalls shorter than the idle limit; stops while fresh or racing "
                "the establishment); evaluations = scenarios that ran to their end, distinct = distinct (kind, variant) descriptions",
        "samples": res["samples"][:3], "exhaustive": False, "witnesses": wit,
        "scenarios_inconclusive": len(res.get("inconclusive") or []),
        "driver_counters": c, "node_trace_lines": nt["lines"], "event_kinds": nt["classes"],
        "tlc_design": {cfg: {"distinct": r.distinct, "generated": r.generated, "depth": r.depth, "wall_s": round(r.wall, 1)} for cfg, r in design},
        "tlc_expected_counterexamples": {cfg: {"violates": inv, "distinct_at_stop": r.distinct} for cfg, inv, r in leads},
    }
    return v.finish("model_checking", cov, assumptions=[
        "discrete time with urgent timers and run-to-completion of internal steps (Sync) for the liveness properties and the bound on "
        "silence; the untimed safety runs let every timer fire at any moment instead",
        "the ageing poll (5 s), the initial-connect period (1 s, 11 messages) and the TCP redial delays (5 s * 1.5^n <= 20 s) are constants of "
        "the code and are respected by the scenarios; a late idle cut is tolerated up to 5 s beyond max idle + poll, an early one never",
        "a scenario that hits a ceiling is inconclusive and is left out; more than n/6 of them make the run inconclusive",
    ])
