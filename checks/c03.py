"""C03 Mesh streams are reliable ordered byte pipes despite datagram loss, duplication, delay, re-ordering and re-routing.

Design level: Stream.tla (per direction written/avail/read, wClosed, rEOF; the datagram layer below QUIC is an
explicit assumption; an origin-side synchronous send error aborts the connection, a transit loss does not) and
Bridge.tla (two pipes composed through the two halves of utils.BridgeConns with half-close and full-close
endpoints) are checked exhaustively by TLC: Prefix, EOFOnlyAfterAll, NoAbort/Complete under transit cuts,
end-to-end Prefix/EOFOnlyAfterAll and close propagation for all interleavings; the cases that do not hold by design
(origin-side cut with the code as it is; a full-close endpoint with an application that closes before the exchange is
complete) are kept as documented counter-examples that must still fail.
Conformance: real meshes (chains of 1..4 hops, a diamond) over memnet links that lose, duplicate, delay and re-order
data frames from the seed, while a third node sends both ends transient unreachable notices ('message expired', 'blocked by
firewall') about the stream's own addresses (they must not end the stream), with a link on the active path cut mid-transfer while an alternative exists (endpoint-
adjacent, transit, and a transit link that first stops draining - back-pressure into the upstream session - and is then cut); both applications write f(direction, offset)-patterned bytes with seeded write sizes and read
with seeded buffer sizes; the same transfers through the control service's connect bridge (real controlsvc on a Unix
socket) and through a TCPProxyServiceInbound/Outbound pair. Every Write/Read/Close/EOF is logged and the logs are
validated by TLC against StreamTrace.tla (Stream.tla's actions)."""
import os, re, shutil
import vlib

ASIS = {
    "Stream_siblingkill.cfg": "NoAbort",   # the acceptor giving up one stream cancels the listener's shared socket (seeded c03-close-connection-cancels-shared-socket)
    "Stream_forwardwedge.cfg": "temporal",   # Complete/AllDelivered: a forwarder waiting for the node's context is wedged by a congested link that is cut (seeded c03-forward-waits-on-node-context)
    "Stream_acceptdeadline.cfg": "NoReadErrorWhileUp",   # a read deadline left armed by the accept path (seeded c03-accept-read-deadline-never-cleared)
    "Stream_noticefatal.cfg": "NoSpontaneousClose",   # a transient notice must not close the writing side (seeded change c03-any-unreach-cancels-stream)
    "Stream_origincut.cfg": "NoAbort",            # DESIGN.md section 9 #17, open finding
    "DialWatch_asis.cfg": "LateCancelHarmless",   # the dial-time context watcher as it was before fix abe971f (random select closes an established connection's socket)
    "Bridge_connect_any.cfg": "E2EEOFOnlyAfterAll",   # inherent to a full-close endpoint: not demanded
    "Bridge_proxyout_any.cfg": "E2EEOFOnlyAfterAll",
}


def run(tier, seed, replay=None):
    pid = "C03"
    wd = vlib.workdir(pid)
    v = vlib.Verdict(pid, tier, seed)
    from concurrent.futures import ThreadPoolExecutor
    vlc = os.environ.get("VLC_BIN") or vlib.build_harness("vlc")  # VLC_BIN: mutation self-tests run a harness built against a mutated copy of /repo
    pool = ThreadPoolExecutor(max_workers=6)
    total = 256 << 10
    args = ["c03", "-seed", str(seed), "-tier", tier, "-total", str(total), "-dir", wd, "-trace", os.path.join(wd, "stream.ndjson")]
    if tier != "quick":
        args += ["-ceiling", "400s"]
    fh = pool.submit(vlib.harness_json, vlc, args, wd, 1500, None, "c03")
    design = ["Stream_quick.cfg" if tier == "quick" else "Stream_full.cfg", "Stream_origincut_tolerant.cfg"]
    bridge = ["Bridge_mesh_any.cfg" if tier == "quick" else "Bridge_mesh_any_full.cfg", "Bridge_connect_orderly.cfg", "Bridge_proxyout_orderly.cfg", "Bridge_tcp_orderly.cfg"]
    fd = {c: pool.submit(vlib.tlc_must_pass, "Stream", c, wd, workers=3, timeout=1200) for c in design}
    fd.update({c: pool.submit(vlib.tlc_must_pass, "Bridge", c, wd, workers=2, timeout=1200) for c in bridge})
    fd["DialWatch_fixed.cfg"] = pool.submit(vlib.tlc_must_pass, "DialWatch", "DialWatch_fixed.cfg", wd, workers=1, timeout=600)
    fa = {c: pool.submit(vlib.tlc, c.split("_")[0], c, wd, workers=2, timeout=600) for c in ASIS}
    fw = [pool.submit(vlib.witnesses, "Stream", "Stream_quick.cfg", ["W_NoEOF"], wd, workers=2),
          pool.submit(vlib.witnesses, "Stream", "Stream_origincut.cfg", ["W_NoAbort"], wd, workers=2),
          pool.submit(vlib.witnesses, "Stream", "Stream_quick.cfg", ["W_NoNotice"], wd, workers=2),
          pool.submit(vlib.witnesses, "Bridge", "Bridge_tcp_orderly.cfg", ["W_NoBothEOF", "W_NoFullClose"], wd, workers=2),
          pool.submit(vlib.witnesses, "DialWatch", "DialWatch_fixed.cfg", ["W_NoLateCancelSurvives", "W_NoWokenThenSpared"], wd, workers=1)]
    states = trans = 0
    tlc_runs = {}
    for c, f in fd.items():
        r = f.result()
        states += r.distinct
        trans += r.generated
        tlc_runs[c] = {"generated": r.generated, "distinct": r.distinct}
    asis = {}
    for c, f in fa.items():
        r = f.result()
        if re.search(r"Temporal propert(y|ies) .* (was|were) violated", r.output):
            r.violated = "temporal"
        if r.violated != ASIS[c]:
            raise vlib.Inconclusive("%s is expected to violate %s (documented counter-example), got %s\n%s" % (c, ASIS[c], r.violated, r.output[-1500:]))
        asis[c] = ASIS[c]
    wit = []
    for f in fw:
        wit += f.result()
    res = fh.result()
    pool.shutdown()
    for viol in res["violations"]:
        v.violation(viol["sig"], viol["what"], viol["replay"])
    if res.get("inconclusive") and not res["violations"]:
        raise vlib.Inconclusive("c03 harness: " + "; ".join(res["inconclusive"][:4]))
    if not res["violations"] and (res.get("counters") or {}).get("notices_seen_by_stream_sockets", 0) == 0:
        raise vlib.Inconclusive("no injected unreachable notice reached a stream's socket (vacuous)")

    trace = os.path.join(wd, "stream.ndjson")
    lines = vlib.read_ndjson(trace) if os.path.exists(trace) else []
    if not lines:
        raise vlib.Inconclusive("no stream trace recorded")
    tmp = os.path.join(wd, "trace.ndjson")
    shutil.copyfile(trace, tmp)
    r = vlib.tlc("StreamTrace", "StreamTrace.cfg", wd, workers=1, timeout=1800, files=[tmp])
    if not r.ok:
        if r.violated in ("Prefix", "EOFOnlyAfterAll"):
            v.violation("C03:trace:invariant-" + r.violated, "the recorded I/O history violates %s of Stream.tla" % r.violated, {"trace": trace})
        else:
            raise vlib.Inconclusive("trace validation did not complete (exit %s, violated=%s)\n%s" % (r.exit, r.violated, r.output[-2000:]))
    done = re.search(r'<<"DONE", (\d+), (\d+)>>', r.output)
    if r.ok and (not done or int(done.group(1)) != len(lines)):
        raise vlib.Inconclusive("stream trace not consumed completely: %s of %d lines" % (done.group(1) if done else "?", len(lines)))
    segments = int(done.group(2)) if done else 0
    seen = set()
    for m in re.finditer(r'<<\s*"REJECT",\s*(\d+),\s*"([a-z_]+)",\s*"([a-z_]+)"\s*>>', r.output):
        ln, ev, why = int(m.group(1)), m.group(2), m.group(3)
        if ln in seen:
            continue
        seen.add(ln)
        start = ln - 1
        while start > 0 and lines[start]["ev"] != "reset":
            start -= 1
        name = lines[start].get("name", "?")
        v.violation("C03:trace:%s:%s" % (name.split("/")[0], why),
                    "transfer %s: the logged '%s' at line %d is not a step of Stream.tla (%s): %s" % (name, ev, ln, why, lines[ln - 1]),
                    {"scenario": name, "seed": seed, "line": lines[ln - 1], "before": lines[max(start, ln - 12):ln]})

    scen = (res.get("extra") or {}).get("scenarios") or []
    cov = {
        "states": states, "transitions": trans, "traces_validated_against_impl": segments,
        "evaluations": res["evaluations"], "distinct_nontrivial": res["distinct"],
        "rule": "evaluations = Write and Read calls logged by the two applications of every transfer; distinct = distinct (scenario, "
                "direction, offset, length) operations; a transfer is one seeded bidirectional exchange over a faulty mesh / the connect "
                "bridge / a TCP proxy pair, validated line by line by TLC against StreamTrace.tla",
        "samples": (res.get("samples") or [])[:1] or [scen[:1]],
        "exhaustive": False,
        "tlc_design": tlc_runs, "asis_counterexamples": asis, "witnesses": wit,
        "scenarios": [{k: s.get(k) for k in ("name", "wall_s", "faults", "lines", "detail")} for s in scen],
        "fault_totals": res.get("counters"),
    }
    return v.finish("model_checking", cov, assumptions=[
        "QUIC (quic-go) is trusted as the reliability layer: the datagram path below it loses (<= ~12 % end to end here), duplicates, delays and re-orders but is never dead longer than the 30 s idle timeout",
        "through a full-close endpoint (TCP / Unix socket) the property is demanded for applications that close after the exchange is complete, or that half-close and are the last full-close endpoint to close (Bridge.tla shows the other patterns cannot hold by construction)",
        "an origin-side routing error during the re-route window aborts the stream (open finding C03:reroute:origin-send-error-fatal); transit cuts must be survived",
    ])
