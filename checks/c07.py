"""C07 No bytes from a backend peer can crash or wedge a node.

Spec: specs/Wire.tla partitions the message space into classes (type byte x body shape x per-field JSON type
substitution for routing updates and service advertisements) and gives the session state machine for both
protocol phases; TLC enumerates every class sequence up to the bound, checks that none reaches 'crashed', and
exports the sequences. cmd/vh wire concretises every class into bytes (seeded instances) and plays the
sequences against a real node in a child process over TCP, UDP, websocket and an embedded backend; after each
sequence the process must be alive and a well-behaved peer's ping must be answered."""
import os
import vlib


def run(tier, seed, replay=None):
    pid = "C07"
    wd = vlib.workdir(pid)
    v = vlib.Verdict(pid, tier, seed)
    r = vlib.tlc_must_pass("Wire", "Wire_full.cfg", wd, workers=1, timeout=1500)
    wit = vlib.witnesses("Wire", "Wire_quick.cfg", ["W_NoClosed", "W_NoEst"], wd, workers=1)
    vectors = os.path.join(r.dir, "vectors.ndjson")
    nvec = sum(1 for _ in open(vectors))
    vh = vlib.build_harness()
    limit, inst = (250, 1) if tier == "quick" else (6000, 2)
    res = vlib.harness_json(vh, ["wire", "-vectors", vectors, "-seed", str(seed), "-limit", str(limit), "-instances", str(inst)],
                            wd, timeout=5400, name="wire")
    if res.get("inconclusive"):
        raise vlib.Inconclusive("wire harness: " + "; ".join(res["inconclusive"][:3]))
    for viol in res["violations"]:
        v.violation(viol["sig"], viol["what"], viol["replay"])
    cov = {
        "evaluations": res["evaluations"], "distinct_nontrivial": res["distinct"],
        "rule": "TLC enumerates all class sequences of length <= 2 over %d classes x {pre-handshake, established} (%d vectors); every "
                "length-1 vector and a seeded sample of %d longer ones are concretised (%d seeded byte instance(s) each) and sent on a "
                "fresh session over each of tcp, udp, ws and an embedded backend to a real node in a child process; "
                "distinct = distinct (transport, start phase, class sequence)" % (176, nvec, limit, inst),
        "samples": res["samples"][:3], "exhaustive": False,
        "states": r.distinct, "transitions": r.generated, "vectors_enumerated": nvec,
        "counters": res["counters"], "spec_closure_mismatch_notes": res.get("notes") or [], "witnesses": wit,
    }
    return v.finish("exploration", cov, assumptions=[
        "class-exhaustive, byte-sampled: bytes inside a class are drawn from a seeded generator",
        "the oracle is process liveness plus a ping answered for a second, well-behaved TCP peer within 10 s (re-confirmed once, 20 s)",
    ])
