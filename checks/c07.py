"""C07 No bytes from a backend peer can crash or wedge a node.

Spec: specs/Wire.tla partitions the message space into classes (type byte x body shape x per-field JSON type
substitution for routing updates and service advertisements) and gives the session state machine for both
protocol phases; TLC enumerates every class sequence up to the bound, checks that none reaches 'crashed', and
exports the sequences. cmd/vh wire concretises every class into bytes (seeded instances) and plays the
sequences against a real node in a child process over TCP, UDP, websocket and an embedded backend; after each
sequence the process must be alive and the well-behaved peers' pings must be answered. A last phase lets several
established sessions send well-formed traffic about the same service / origin at the same time. The child runs a
race-detector build, so an unsynchronised access to a shared map (a crash under the right timing: "fatal error:
concurrent map read and map write") is seen even when the two accesses did not collide in this run."""
import glob
import os
import re
import vlib


def map_races(logprefix):
    """(violations, other) from the race detector's reports: a report with a runtime map access on either side is an
    access pair that the Go runtime turns into a fatal error when the two overlap."""
    viol, other = {}, 0
    for f in glob.glob(logprefix + ".*"):
        txt = open(f, errors="replace").read()
        for block in txt.split("==================")[1:]:
            if "DATA RACE" not in block:
                continue
            if "runtime.map" not in block:
                other += 1
                continue
            fns = re.findall(r"pkg/(?:netceptor|backends|utils|framer)\.(?:\(\*?\w+\)\.)?(\w+)\(\)", block)
            where = fns[0] if fns else "unknown"
            viol.setdefault(where, block.strip()[:1800])
    return viol, other


def run(tier, seed, replay=None):
    pid = "C07"
    wd = vlib.workdir(pid)
    v = vlib.Verdict(pid, tier, seed)
    r = vlib.tlc_must_pass("Wire", "Wire_full.cfg", wd, workers=1, timeout=1500)
    wit = vlib.witnesses("Wire", "Wire_quick.cfg", ["W_NoClosed", "W_NoEst"], wd, workers=1)
    vectors = os.path.join(r.dir, "vectors.ndjson")
    nvec = sum(1 for _ in open(vectors))
    vh = vlib.build_harness()
    vh_race = vlib.build_harness(race=True)
    racelog = os.path.join(wd, "race")
    if vh_race:
        os.environ["VERIF_WIRE_CHILD_BIN"] = vh_race
        os.environ["VERIF_WIRE_RACELOG"] = racelog
    limit, inst = (250, 1) if tier == "quick" else (3000, 2)
    res = vlib.harness_json(vh, ["wire", "-vectors", vectors, "-seed", str(seed), "-limit", str(limit), "-instances", str(inst),
                                 "-storm", "3s" if tier == "quick" else "20s"],
                            wd, timeout=5400, name="wire")
    if res.get("inconclusive"):
        raise vlib.Inconclusive("wire harness: " + "; ".join(res["inconclusive"][:3]))
    for viol in res["violations"]:
        v.violation(viol["sig"], viol["what"], viol["replay"])
    races, other_races = map_races(racelog) if vh_race else ({}, 0)
    for where, block in races.items():
        v.violation("C07:concurrent-map-access:" + where,
                    "two session goroutines accessed a shared map without synchronisation while peers were sending (race detector report); when the "
                    "two accesses overlap the Go runtime ends the process with 'fatal error: concurrent map read and map write'",
                    {"race_report": block})
    cov = {
        "evaluations": res["evaluations"], "distinct_nontrivial": res["distinct"],
        "rule": "TLC enumerates all class sequences of length <= 2 over %d classes x {pre-handshake, established} (%d vectors); every "
                "length-1 vector and a seeded sample of %d longer ones are concretised (%d seeded byte instance(s) each) and sent on a "
                "fresh session over each of tcp, udp, ws and an embedded backend to a real node in a child process; "
                "distinct = distinct (transport, start phase, class sequence)" % (len(set(c for l in open(vectors) for c in __import__("json").loads(l)["classes"])), nvec, limit, inst),
        "samples": res["samples"][:3], "exhaustive": False,
        "states": r.distinct, "transitions": r.generated, "vectors_enumerated": nvec,
        "race_detector_child": bool(vh_race), "other_data_race_reports": other_races,
        "counters": res["counters"], "spec_closure_mismatch_notes": res.get("notes") or [], "witnesses": wit,
    }
    return v.finish("exploration", cov, assumptions=[
        "class-exhaustive, byte-sampled: bytes inside a class are drawn from a seeded generator",
        "the oracle is process liveness plus, for two well-behaved peers (TCP and UDP), their periodic routing update taken and their ping answered within 10 s (re-confirmed once, 20 s); runaway recursion is made to crash at a 32 MB stack instead of 1 GB",
        "a race-detector report with a map access on either side counts as a crash (the runtime's own fatal error needs the two accesses to overlap); other reports are only counted",
    ])
