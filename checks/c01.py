"""C01 Routing converges to least-cost, loop-free next hops after topology changes stop.

Design level: Netceptor.tla (N nodes running NetCore's operators, unordered per-link outboxes in front of FIFO
wires, link up/down/restart events) checked exhaustively by TLC for StableImpliesConverged (independent
Bellman-Ford oracle), NoRejectAmongHonest and InfoMonotone.
Conformance: seeded topology/event scenarios are played on meshes of real nodes over controllable in-memory
links; (1) the final tables, path costs and connection sets of all nodes together with the real topology are
validated by TLC against the same oracle (Converged.tla); (2) every node's hook-event trace is validated by TLC
against NodeTrace.tla, which checks at EVERY rebuild that the computed table is a least-cost next-hop assignment
for the node's adjacency picture at that instant, and that every picture change is the spec's."""
import os, shutil
import vlib
import nodetrace
import tracecheck

C01_EVENTS = {"node_new", "rebuild", "known_add", "known_del", "ru_apply", "conn_add", "conn_del", "mk_update", "h_status"}


def run(tier, seed, replay=None):
    pid = "C01"
    wd = vlib.workdir(pid)
    v = vlib.Verdict(pid, tier, seed)
    cfg = "Netceptor_quick.cfg" if tier == "quick" else "Netceptor_full.cfg"
    r = vlib.tlc_must_pass("Netceptor", cfg, wd, workers=10, timeout=3000, heap="12g")
    live = None
    if tier != "quick":
        # liveness under fairness (no VIEW, no state constraint): the mesh reaches a stable - hence converged - state
        live = vlib.tlc_must_pass("Netceptor", "Netceptor_live.cfg", wd, workers=8, timeout=4000, heap="10g")
    wit = vlib.witnesses("Netceptor", "Netceptor_line.cfg", ["W_NotStableAfterEvents", "W_NoIndirectRoute"], wd, workers=8, timeout=900)
    nsc, maxn = (24, 5) if tier == "quick" else (400, 6)
    hooks = os.path.join(wd, "mesh_hooks.ndjson")
    out = tracecheck.run(wd, ["mesh", "-scenarios", str(nsc), "-seed", str(seed), "-max-nodes", str(maxn), "-hooktrace", hooks],
                         "Converged", "Converged.cfg", "mesh")
    late = out["harness"]["counters"].get("late", 0) if out["harness"].get("counters") else 0
    for d in out["diffs"]:
        final = d["segment"][-1]
        v.violation("C01:final:" + (final.get("tag") + ":" if final.get("tag") else "") + "+".join(sorted(set(x.split(":")[1] for x in d["fields"]))),
                    "after the events stopped and more than 6x the convergence bound had passed, the mesh of scenario %s is not converged: %s"
                    % (final.get("sc"), d["fields"]), {"final": final})
    # the picture of an origin after every accepted update, also for the adversarial single-node segments of C06 (same-size
    # changes of a connection list, replays, forged forwarders): a short run, its hook events only
    nlhooks = wd + "/nl_hooks.ndjson"
    vlib.harness_json(vlib.build_harness(), ["netlocal", "-segments", "15" if tier == "quick" else "120", "-steps", "12", "-seed", str(seed), "-race-rounds", "0",
                                            "-trace", wd + "/nl_trace.ndjson", "-hooktrace", nlhooks], wd, timeout=1500, name="nl")
    nt = nodetrace.validate(wd, [hooks, nlhooks], timeout=3000)
    for d in nt["diffs"]:
        if d["event"] in C01_EVENTS:
            v.violation("C01:%s:%s" % (d["event"], "+".join(d["what"])),
                        "node event '%s' is not a behaviour of NetCore/NodeTrace: %s; event %s" % (d["event"], ",".join(d["what"]), str(d["context"][-1])[:600]),
                        {"instance": d["instance"], "context": d["context"]})
    if "rebuild" not in nt["classes"]:
        raise vlib.Inconclusive("no rebuild event in the traces")
    cov = {
        "states": r.distinct, "transitions": r.generated,
        "traces_validated_against_impl": nt["instances"] + out["steps"],
        "evaluations": out["steps"], "distinct_nontrivial": out["harness"]["distinct"],
        "rule": "seeded scenarios: 3..%d real nodes, random spanning tree plus extra links with costs in {1,2,3,5}, 1-4 events from "
                "{cut, heal through a different link, silent failure (idle timeout), node stop, node restart with a new epoch} fired at "
                "random moments (also while unconverged); evaluations = scenarios whose final state was validated against Converged.tla; "
                "every node instance's hook trace validated against NodeTrace.tla (each rebuild checked)" % maxn,
        "samples": out["harness"]["samples"][:2], "exhaustive": False, "witnesses": wit,
        "late_but_converged": late, "node_instances": nt["instances"], "node_trace_lines": nt["lines"],
        "rebuilds_checked": nt["classes"].get("rebuild", 0),
        "tlc_liveness": ({"cfg": "Netceptor_live.cfg", "properties": ["Converges", "EventuallyStable"], "distinct": live.distinct} if live else None),
        "tlc_design": {"spec": "Netceptor.tla", "cfg": cfg, "generated": r.generated, "distinct": r.distinct, "wall_s": round(r.wall, 1)},
    }
    return v.finish("model_checking", cov, assumptions=[
        "links deliver control messages in order (memnet FIFO); restarted nodes start later than the instance they replace on the same clock (no minimum distance; a fast-restart scenario restarts a transit node ten times within about two seconds)",
        "a final state is judged only after LooksConverged held 3 times in a row or 6x the bound (20 update periods, +8 s with silent failures) elapsed",
    ])
