"""C06 Routing knowledge never regresses; updates are applied and relayed at most once.

Design level: NetLocal.tla (one node, adversarial neighbours) checked exhaustively by TLC for the action
properties NoChangeOnStale, InfoMonotone, NeverBack, SelfFilter, RelayOnce, SeenGrows, GenuineIsRelayed.
Conformance: a real node is driven with seeded adversarial update sequences by scripted peers; every step's
observable effect (frames relayed to which neighbours, adjacency picture, per-origin epoch/sequence) is
validated by TLC against the same actions (NetLocalTrace.tla)."""
import vlib
import netlocal
import nodetrace

C06_CLASSES = {"stale", "seen", "accepted_changed", "accepted_same", "dup_notice", "self_same_epoch",
               "self_older_epoch", "self_newer_epoch", "self_we_are_duplicate", "empty_origin", "late_init", "end"}
C06_FIELDS = {"relayTo", "known", "info", "dupown", "ownPlain", "ownDup", "lastOwnConns"}


def run(tier, seed, replay=None):
    pid = "C06"
    wd = vlib.workdir(pid)
    v = vlib.Verdict(pid, tier, seed)
    r = vlib.tlc_must_pass("NetLocal", "NetLocal_quick.cfg" if tier == "quick" else "NetLocal_full.cfg", wd,
                           workers=12, timeout=2400)
    wit = vlib.witnesses("NetLocal", "NetLocal_quick.cfg",
                         ["W_NoStale", "W_NoSeen", "W_NoAdopt", "W_NoShutdown", "W_NoReject", "W_NoDupFlood"], wd, workers=4)
    segs, steps = (45, 12) if tier == "quick" else (600, 16)
    out = netlocal.run_netlocal(wd, seed, segs, steps, race_rounds=600 if tier == "quick" else 4000)
    for viol in out["harness"]["violations"]:
        if viol["sig"].startswith("C06:"):
            v.violation(viol["sig"], viol["what"], viol["replay"])
    for d in out["diffs"]:
        fields = [f for f in d["fields"] if f in C06_FIELDS]
        if d["class"] in C06_CLASSES and fields:
            last = d["segment"][-1]
            v.violation("C06:%s:%s" % (d["class"], "+".join(fields)),
                        "real node departs from NetLocal.tla at a step of class '%s' in %s: input %s observed %s" % (
                            d["class"], ",".join(fields), last.get("u"), last.get("obs")),
                        {"trace_line": d["line"], "segment": d["segment"]})
    # hook-event level: the same real-node runs, plus the meshes built by the repository's own tests, against NodeTrace.tla
    # restarts with a new epoch: the directed mesh scenarios of C01 (a transit node restarted ten times within two seconds,
    # a link lost and healed inside a teardown), their hook events only
    mhooks = wd + "/mesh_hooks.ndjson"
    vlib.harness_json(vlib.build_harness(), ["mesh", "-scenarios", "0", "-seed", str(seed), "-hooktrace", mhooks, "-trace", wd + "/mesh_trace.ndjson"], wd, timeout=1500, name="meshdirected")
    nt = nodetrace.validate(wd, [out["hooks"], nodetrace.repo_test_traces(wd), mhooks], timeout=2400)
    for d in nt["diffs"]:
        if d["event"] in ("ru_seen", "ru_apply", "ru_dupnotice", "flood", "mk_update", "ru_self", "node_new", "known_add"):
            v.violation("C06:%s:%s" % (d["event"], "+".join(d["what"])),
                        "node event '%s' is not a behaviour of NetCore/NodeTrace: %s; event %s" % (d["event"], ",".join(d["what"]), str(d["context"][-1])[:600]),
                        {"instance": d["instance"], "context": d["context"]})
    cov = {
        "states": r.distinct, "transitions": r.generated,
        "traces_validated_against_impl": out["segments"] + nt["instances"],
        "node_trace_lines": nt["lines"], "node_instances": nt["instances"],
        "evaluations": out["steps"], "distinct_nontrivial": out["harness"]["distinct"],
        "rule": "seeded adversarial update sequences (remote/neighbour/self origins, replays, stale and newer sequence numbers, "
                "reused ids, suspected-duplicate notices, forged forwarders) injected by 3 scripted peers into a real node; "
                "distinct = distinct (session, update) inputs; each step's relays/known/info validated by TLC against NetLocalTrace.tla",
        "samples": out["harness"]["samples"][:2] or out["lines"][1:3],
        "exhaustive": False,
        "step_classes": out["classes"], "witnesses": wit,
        "tlc_design": {"spec": "NetLocal.tla", "generated": r.generated, "distinct": r.distinct, "wall_s": round(r.wall, 1)},
        "tlc_trace": {"spec": "NetLocalTrace.tla", "lines": len(out["lines"]), "wall_s": round(out["tlc"].wall, 1)},
    }
    missing = [c for c in ("stale", "seen", "accepted_changed", "dup_notice", "self_same_epoch") if c not in out["classes"]]
    if missing:
        raise vlib.Inconclusive("step classes never exercised: %s" % missing)
    return v.finish("model_checking", cov, assumptions=[
        "control messages on one session are delivered in order (memnet FIFO)",
        "concurrent-updates scenario: two updates of one origin released at the same instant through two neighbours, 8 origins per round; a check-then-act window of a few instructions is hit within about 30 rounds on this machine (measured on a seeded change), 600 / 4000 rounds are played",
        "seenUpdates expiry: every third segment runs with a 200 ms expiry time and contains expiry steps (the seen table is then empty in NetLocalTrace.tla and every seen_expire event is validated by NodeTrace.tla); the other segments use 1 h",
    ])
