"""C18 Service advertisements converge; a withdrawn service is never resurrected.

Design level: AdsLocal.tla (node-local, all orders/duplicates of advertisements and withdrawals) checked
exhaustively by TLC (NoOlderReplaces, NoResurrection, NoChangeNoRelay, NewerAccepted); the variant without
tombstones (the code before the repair) is kept as a documented counter-example.
Conformance: a real node with two scripted neighbours receives seeded sequences of advertisements and
withdrawals (remote owners and the node's own id, old/new times, duplicates on either link) interleaved with
local open/close of advertised listeners; every step's relays and advertisement table are validated by TLC
against AdsLocalTrace.tla."""
import vlib
import tracecheck
import nodetrace


def run(tier, seed, replay=None):
    pid = "C18"
    wd = vlib.workdir(pid)
    v = vlib.Verdict(pid, tier, seed)
    r = vlib.tlc_must_pass("AdsLocal", "AdsLocal_quick.cfg" if tier == "quick" else "AdsLocal_full.cfg", wd, workers=8, timeout=1800)
    asis = vlib.tlc("AdsLocal", "AdsLocal_asis.cfg", wd, workers=4, timeout=600)
    if not asis.violated:
        raise vlib.Inconclusive("the no-tombstone variant of AdsLocal.tla is expected to violate the properties (documented counter-example)")
    # mesh-level design model (triangle, goroutine-per-message flooding as unordered bags)
    rm = vlib.tlc_must_pass("ServiceAds", "ServiceAds_quick.cfg" if tier == "quick" else "ServiceAds_full.cfg", wd, workers=8, timeout=2400)
    masis = vlib.tlc("ServiceAds", "ServiceAds_asis.cfg", wd, workers=4, timeout=600)
    if not masis.violated:
        raise vlib.Inconclusive("the no-tombstone variant of ServiceAds.tla is expected to violate NoResurrection")
    wit = vlib.witnesses("ServiceAds", "ServiceAds_quick.cfg", ["W_NotQuietAfterClose"], wd, workers=4) + vlib.witnesses("AdsLocal", "AdsLocal_quick.cfg", ["W_NoWithdrawnNewer", "W_NoCancelUnknown", "W_NoReadvertise"], wd, workers=4)
    segs, steps = (60, 14) if tier == "quick" else (500, 20)
    out = tracecheck.run(wd, ["adslocal", "-segments", str(segs), "-steps", str(steps), "-seed", str(seed)],
                         "AdsLocalTrace", "AdsLocalTrace.cfg", "ads")
    for viol in out["harness"]["violations"]:
        v.violation(viol["sig"], viol["what"], viol["replay"])
    for d in out["diffs"]:
        last = d["segment"][-1]
        v.violation("C18:%s:%s" % (d["class"], "+".join(d["fields"])),
                    "real node departs from AdsLocal.tla at a step of class '%s' in %s: step %s" % (d["class"], ",".join(d["fields"]), last),
                    {"trace_line": d["line"], "segment": d["segment"]})
    # mesh level (StableImpliesExact): real meshes, final advertisement tables validated by TLC
    nsc = 12 if tier == "quick" else 120
    mhooks = wd + "/adsmesh_hooks.ndjson"
    mo = tracecheck.run(wd, ["adsmesh", "-scenarios", str(nsc), "-seed", str(seed), "-hooktrace", mhooks], "AdsConverged", "AdsConverged.cfg", "adsmesh")
    # every advertisement event of every node of those meshes (received, local open/close, relay targets) against AdsCore
    nt = nodetrace.validate(wd, [mhooks], timeout=2400)
    for d in nt["diffs"]:
        if d["event"] in ("ad_recv", "ad_local", "ad_withdraw", "ad_send", "flood"):
            v.violation("C18:%s:%s" % (d["event"], "+".join(d["what"])),
                        "node event '%s' is not a behaviour of AdsCore/NodeTrace: %s; event %s" % (d["event"], ",".join(d["what"]), str(d["context"][-1])[:500]),
                        {"instance": d["instance"], "context": d["context"]})
    for viol in mo["harness"]["violations"]:
        v.violation(viol["sig"], viol["what"], viol["replay"])
    for d in mo["diffs"]:
        fin = d["segment"][-1]
        kinds = sorted(set(x.split(":", 1)[1] for x in d["fields"]))
        for kind in kinds:
            v.violation("C18:final:" + kind,
                        "after quiescence the advertisement tables of scenario %s are not exact: %s; operations %s" % (fin.get("sc"), d["fields"], fin.get("ops")),
                        {"final": fin})
    missing = [c for c in ("withdrawn_newer", "cancel_unknown", "deleted", "replaced", "kept_current", "local_close") if c not in out["classes"]]
    if missing:
        raise vlib.Inconclusive("step classes never exercised: %s" % missing)
    cov = {
        "states": r.distinct + rm.distinct, "transitions": r.generated + rm.generated, "traces_validated_against_impl": out["segments"] + mo["steps"],
        "evaluations": out["steps"], "distinct_nontrivial": out["harness"]["distinct"],
        "rule": "seeded sequences of advertisements/withdrawals (owners o1,o2 and the node itself; 3 services; 6 time stamps plus "
                "times around 'now'; exact duplicates on either link) and local open/close of advertised listeners on a real node "
                "with two scripted neighbours; distinct = distinct step prefixes; relays and the advertisement table after every "
                "step validated by TLC against AdsLocalTrace.tla",
        "samples": out["harness"]["samples"][:1] or out["lines"][1:4], "exhaustive": False,
        "step_classes": out["classes"], "witnesses": wit,
        "mesh_scenarios": mo["steps"], "mesh_distinct": mo["harness"]["distinct"],
        "mesh_node_instances": nt["instances"], "mesh_ad_events": nt["classes"].get("ad_recv", 0),
        "asis_counterexample": asis.violated,
        "tlc_design": {"spec": "AdsLocal.tla", "generated": r.generated, "distinct": r.distinct},
        "tlc_mesh_design": {"spec": "ServiceAds.tla", "generated": rm.generated, "distinct": rm.distinct, "asis_counterexample": masis.violated},
    }
    return v.finish("model_checking", cov, assumptions=[
        "advertisement times of one owner are distinct (the owner's clock is strictly increasing)",
        "mesh level: lines/triangles/squares of 3-4 real nodes with a late joiner and one node stop; advertisement period 400 ms; final state judged after 3 consecutive matches or 40 periods",
    ])
