"""C16 Senders learn when the target service does not exist; only the sending socket is told; dials to it fail fast.

Design level: DataPlane.tla: NoticeToSenderOnly (a notification is handed to exactly the socket whose (node, service) equals its From
fields, and its fields echo the offending packet), UnknownServiceReported (remote: exactly one 'service unknown' notice by the
addressed node; local: synchronous error, no notice), NoNoticeAboutNotice, NeverBoth, over every next-hop table, two packets in flight.
Conformance (cmd/vdp c16): every (sender node, target node, unbound service) on real meshes with 4 subscribed sockets per node; the
notices expected are awaited, then every socket obtains its own later notice (per-socket barrier: a socket's channel is FIFO behind
the node's broker), then the complete per-socket notification lists are compared; same-node unknown service -> error and no notice;
firewall drop at destination and in transit -> no notice within the barrier; DialContext to a never-bound service and to a listener
closed a moment ago must end BECAUSE of the notice (context.Canceled by the unreachable monitor), not by running into the 14 s deadline /
the 15 s handshake idle time-out although notices had reached the dialling socket at least 5 s earlier (no such evidence: inconclusive); the
close-while-sending race runs in a child process (a crash is an observation) and is judged arrival by arrival from the hook events;
socket churn (UnreachBroker.tla: the broker hands every notice to every subscribed socket and waits for all of them): while sockets of a node
are opened and closed and dials run concurrently, the sockets that stay open must get a notice for every datagram, and a later send and a
later dial must still be answered / abandoned within the bound.
Hook traces are validated by TLC against DataPlaneTrace.tla."""
import os
import vlib
import dplib


def run(tier, seed, replay=None):
    pid = "C16"
    wd = vlib.workdir(pid)
    v = vlib.Verdict(pid, tier, seed)
    quick = tier == "quick"
    dcfgs = ["DataPlane_c16_quick.cfg"] if quick else ["DataPlane_pairs.cfg", "DataPlane_full.cfg"]
    trace = os.path.join(wd, "c16_trace.ndjson")

    def impl():
        res = dplib.run_vdp(pid, wd, ["c16", "-tier", tier, "-seed", str(seed), "-trace", trace], timeout=3000)
        tv = dplib.validate_trace(pid, wd, [trace, trace + ".race"], allow_empty=bool(res["violations"]))
        return res, tv

    def design():
        rs = dplib.design_runs(dcfgs, wd)
        if not dplib.SELFTEST:
            # the broker / socket-feed hand-off: the code's variant holds, the stop-reading-on-cancel variant is a documented counter-example
            rs.append(("UnreachBroker.tla", "UnreachBroker_quick.cfg", vlib.tlc_must_pass("UnreachBroker", "UnreachBroker_quick.cfg", wd, workers=2, timeout=900)))
            bad = vlib.tlc("UnreachBroker", "UnreachBroker_seeded.cfg", wd, workers=2, timeout=900)
            if bad.violated != "NeverWedged":
                raise vlib.Inconclusive("UnreachBroker_seeded.cfg (reader stops on cancel) is expected to violate NeverWedged; got %s" % bad.violated)
        return rs

    def wits():
        return dplib.witnesses([("DataPlaneMC", "DataPlane_wit.cfg", ["W_NoUnknownNotice", "W_NoLocalUnknown", "W_NoNoticeDropped"]),
                                ("UnreachBroker", "UnreachBroker_quick.cfg", ["W_NoCloseDuringFanout", "W_NoUnsubWhilePublishWaits"])], wd)

    (res, tv), rs, wit = dplib.parallel(impl, design, wits)
    dplib.apply(v, res, tv)
    c = res["counters"]
    if not v.violations:
        for k in ("remote_unknown", "local_unknown", "drop_cases", "dials", "race_rounds", "race_delivered", "race_noticed", "racemulti_rounds", "churn_rounds", "churn_socket_cycles", "notice_topologies"):
            if not c.get(k):
                raise vlib.Inconclusive("never exercised: %s" % k)
        for k in ("unknown", "publish", "socket", "close"):
            if not (tv and tv["events"].get(k)):
                raise vlib.Inconclusive("trace has no %s events" % k)
    cov = {
        "states": sum(r.distinct for _, _, r in rs), "transitions": sum(r.generated for _, _, r in rs),
        "traces_validated_against_impl": tv["segments"] if tv else 0,
        "evaluations": res["evaluations"], "distinct_nontrivial": res["distinct"],
        "rule": "cases: (topology, sender node, target node, unbound service name) probes incl. same-node targets and names that are prefixes / case variants of bound "
                "names; (drop position, bound/unbound service); dials (never bound / just closed); race arrivals classified by (listener open at arrival, delivered, "
                "answered, closed while waiting); distinct = distinct tuples of these",
        "samples": (res.get("samples") or [])[:4] + ([tv["sample"]] if tv else []), "exhaustive": False,
        "trace_lines": tv["lines"] if tv else 0, "trace_events": tv["events"] if tv else {}, "counters": c, "witnesses": wit,
        "tlc": dplib.tlc_summary(rs),
    }
    return v.finish("model_checking", cov, assumptions=[
        "notifications reach a socket's SubscribeUnreachable channel in the order in which the node's unreachable broker accepted them (per-socket FIFO), which is what makes the per-socket sentinel a barrier",
        "close race: a datagram that was waiting for the reader when Close() ran may be dropped without notice (the listener existed when it arrived: nothing is demanded), at most one per deliverer; with one deliverer every arrival is classified from the ordered hook events, with three deliverers (two neighbours and a local sender) the round is judged by accounting (arrivals = delivered + answered + abandoned)",
        "socket churn: 6 goroutines x 6*rounds open/send/close cycles and 4 concurrent diallers against two steady senders; a wedged node is recognised by missing notices while the data plane has been idle for 3 s",
        "dials are judged by cause: ended by context.Canceled (only the unreachable monitor cancels that context) = abandoned by the notice, whatever the time; a violation needs a dial that ran out of time (14 s deadline, below the 15 s handshake idle time-out) although >= 2 notices reached its own socket (unr_socket events, attributed by a service name used by that dial only), the first >= 5 s before the end; running out of time without that evidence is inconclusive",
    ])
