#!/usr/bin/env python3
"""Mutation self-test of the C05 check (DESIGN.md 4.4 "demonstrating the binding").

Each mutation is a small, compiling source change of the code under test.  It is applied to a scratch export of
/repo's HEAD (never to /repo itself: other people build from /repo's working tree concurrently), the receptor
binary is built from the scratch copy into the self-test's own directory, and the same harness commands the
check uses (cmd/vres local / remote, driven by the TLC-written vectors) are run against it.  A mutation is
CAUGHT when vres reports at least one violation, MISSED when everything is judged fine, INCONCLUSIVE otherwise.

usage: python3 checks/c05_selftest.py [-seed N] [name ...]   (code mutations)
       python3 checks/c05_selftest.py --spec                  (mutants of Results.tla must be refuted by TLC)
"""
import json
import os
import shutil
import subprocess
import sys
import time

sys.path.insert(0, os.path.join(os.path.dirname(os.path.dirname(os.path.abspath(__file__))), "lib"))
import vlib  # noqa: E402

WK = "pkg/workceptor/workceptor.go"
RW = "pkg/workceptor/remote_work.go"
CS = "pkg/controlsvc/controlsvc.go"

# name, file, old, new, part ("local"/"remote"/"both"), extra vres args
MUTATIONS = [
    ("start_offset_plus_one", WK, "filePos := startPos\n", "filePos := startPos + 1\n", "local", []),
    ("seek_relative_whence", WK, "newPos, err = stdout.Seek(filePos, 0)", "newPos, err = stdout.Seek(filePos, 1)", "local", []),
    ("pos_advance_short", WK, "filePos += int64(n)\n", "filePos += int64(n) - 1\n", "local", []),
    ("size_check_gt", WK, "filePos >= unitStatus.StdoutSize {", "filePos > unitStatus.StdoutSize {", "local", []),
    ("finish_without_size_check", WK, "finished(unitStatus.State) && filePos >= unitStatus.StdoutSize {", "finished(unitStatus.State) {", "both", []),
    ("finish_on_running", WK, "if finished(unitStatus.State) && filePos", "if (finished(unitStatus.State) || unitStatus.State == WorkStateRunning) && filePos", "local", []),
    ("cancel_fix_reverted", WK, "return IsComplete(state) || state == WorkStateCanceled", "return IsComplete(state)", "local", ["-cancel-groups", "2"]),
    ("stream_not_closed", "pkg/workceptor/controlsvc.go", "\t\terr = cfo.Close()\n\t\tif err != nil {\n\t\t\treturn nil, err\n\t\t}\n\n\t\treturn nil, nil\n\t}\n\n\treturn nil, fmt.Errorf(\"bad command\")",
     "\t\treturn nil, nil\n\t}\n\n\treturn nil, fmt.Errorf(\"bad command\")", "local", []),
    ("mirror_request_from_zero", RW, 'workSubmitCmd["startpos"] = diskStdoutSize', 'workSubmitCmd["startpos"] = 0', "remote", []),
    ("mirror_request_from_size_plus_one", RW, 'workSubmitCmd["startpos"] = diskStdoutSize', 'workSubmitCmd["startpos"] = diskStdoutSize + 1', "remote", []),
    ("mirror_append_without_seek_end", RW,
     "\t\t\tstdout, err := os.OpenFile(rw.StdoutFileName(), os.O_CREATE+os.O_APPEND+os.O_WRONLY, 0o600)",
     "\t\t\tstdout, err := os.OpenFile(rw.StdoutFileName(), os.O_CREATE+os.O_WRONLY, 0o600)", "remote", []),
    ("mirror_done_without_size_check", RW, "if IsComplete(status.State) && diskStdoutSize >= remoteStdoutSize {", "if IsComplete(status.State) {", "remote", []),
    ("mirror_copies_from_raw_conn", RW, "io.Copy(stdout, reader)", "io.Copy(stdout, conn)", "remote", []),
    ("complete_not_monitored_at_restart", RW, "\tgo func() {\n\t\trw.monitorRemoteUnit(rw.topJC, false)\n",
     "\tif IsComplete(rw.Status().State) {\n\t\trw.topJC.WorkerDone()\n\n\t\treturn nil\n\t}\n\tgo func() {\n\t\trw.monitorRemoteUnit(rw.topJC, false)\n", "remote", []),
    ("mirror_stale_disk_size", RW, "\t\tdiskStdoutSize := stdoutSize(rw.UnitDir())\n", "\t\tdiskStdoutSize := stdoutSize(rw.UnitDir()) / 2\n", "remote", []),
]


def sh(cmd, cwd=None, timeout=1800):
    return subprocess.run(cmd, cwd=cwd, env=vlib.go_env(), timeout=timeout, stdout=subprocess.PIPE, stderr=subprocess.STDOUT, text=True)


# spec mutants: the same mistakes made in the model must be refuted by TLC (the properties are not vacuous)
SPEC_MUTANTS = [
    ("spec_finish_without_size_check", "  /\\ IF GRDone(SrcState(r)) /\\ rd[r].pos >= SrcStatSize(r)\n     THEN rd' = [rd EXCEPT ![r].pc = \"closed\"]",
     "  /\\ IF GRDone(SrcState(r))\n     THEN rd' = [rd EXCEPT ![r].pc = \"closed\"]", ["NoEarlyEnd", "CloseOnlyWhenFinal"]),
    ("spec_size_check_gt", "  /\\ IF GRDone(SrcState(r)) /\\ rd[r].pos >= SrcStatSize(r)\n     THEN rd' = [rd EXCEPT ![r].pc = \"closed\"]",
     "  /\\ IF GRDone(SrcState(r)) /\\ rd[r].pos > SrcStatSize(r)\n     THEN rd' = [rd EXCEPT ![r].pc = \"closed\"]", ["EndsWhenDone", "temporal"]),
    ("spec_eof_check_uses_file_size", "  /\\ IF GRDone(SrcState(r)) /\\ rd[r].pos >= SrcStatSize(r)\n     THEN rd' = [rd EXCEPT ![r].pc = \"closed\"]",
     "  /\\ IF GRDone(SrcState(r)) /\\ rd[r].pos >= SrcSize(r)\n     THEN rd' = [rd EXCEPT ![r].pc = \"closed\"]", ["NoEarlyEnd", "CloseOnlyWhenFinal"], "Results_alq.cfg"),
    ("spec_mirror_copies_from_raw_conn", "  /\\ lout' = lout \\o rbuf \\o wire /\\ wire' = <<>> /\\ rbuf' = <<>>", "  /\\ lout' = lout \\o wire /\\ wire' = <<>> /\\ rbuf' = <<>>",
     ["MirrorPrefix", "NoGapNoRepeat"]),
    ("spec_complete_not_monitored_at_restart", "  /\\ pcS' = \"connect\" /\\ pcO' = \"create\"\n  /\\ UNCH_R /\\ UNCHANGED <<rd, lExists, lout, aState, aSize, sessS, sessO,",
     "  /\\ IF IsComplete(aState) THEN pcS' = \"done\" /\\ pcO' = \"done\" ELSE pcS' = \"connect\" /\\ pcO' = \"create\"\n  /\\ UNCH_R /\\ UNCHANGED <<rd, lExists, lout, aState, aSize, sessS, sessO,",
     ["MirrorDoneIsConverged", "MirrorConverges", "temporal"]),
    ("spec_start_offset_plus_one", "rd' = [rd EXCEPT ![r] = [pc |-> \"wait\", p |-> p, pos |-> p, sent |-> <<>>]]",
     "rd' = [rd EXCEPT ![r] = [pc |-> \"wait\", p |-> p, pos |-> p + 1, sent |-> <<>>]]", ["NoGapNoRepeat"]),
    ("spec_mirror_request_from_zero", "     ELSE IF disk < aSize THEN pcO' = \"connect\" /\\ reqFrom' = disk", "     ELSE IF disk < aSize THEN pcO' = \"connect\" /\\ reqFrom' = 0", ["MirrorPrefix", "NoGapNoRepeat"]),
    ("spec_mirror_done_without_size", "     IF IsComplete(aState) /\\ disk >= aSize THEN pcO' = \"done\" /\\ UNCHANGED reqFrom", "     IF IsComplete(aState) THEN pcO' = \"done\" /\\ UNCHANGED reqFrom", ["MirrorDoneIsConverged", "MirrorConverges", "temporal"]),
]


def spec_mutants(base):
    """Each mutant of Results.tla must be refuted by TLC on the quick configuration."""
    rows = []
    src = open(os.path.join(vlib.SPECS, "Results.tla")).read()
    base_cfg = open(os.path.join(vlib.SPECS, "Results_quick.cfg")).read().replace('"local_vectors.ndjson"', '""').replace('"fault_schedules.ndjson"', '""')
    for row in SPEC_MUTANTS:
        name, old, new, expect = row[:4]
        cfg = open(os.path.join(vlib.SPECS, row[4])).read() if len(row) > 4 else base_cfg
        if src.count(old) != 1:
            rows.append((name, "NOT-APPLICABLE", "pattern found %d times" % src.count(old)))
            continue
        d = os.path.join(base, name)
        os.makedirs(d)
        open(os.path.join(d, "Results.tla"), "w").write(src.replace(old, new))
        open(os.path.join(d, "m.cfg"), "w").write(cfg)
        p = subprocess.run(["java", "-XX:+UseParallelGC", "-cp", vlib.TLA_CP, "tlc2.TLC", "-metadir", os.path.join(d, "meta"), "-config", "m.cfg",
                            "-workers", "8", "-deadlock", "Results"], cwd=d, stdout=subprocess.PIPE, stderr=subprocess.STDOUT, text=True, timeout=1800)
        import re
        m = re.search(r"Error: Invariant (\S+) is violated", p.stdout) or re.search(r"Error: Action property (\S+) is violated", p.stdout) \
            or re.search(r"Error: Temporal propert(?:y|ies) (.+?) (?:was|were) violated", p.stdout) or re.search(r"Error: (Temporal) properties were violated", p.stdout)
        got = m.group(1) if m else None
        rows.append((name, "REFUTED" if got else "NOT-REFUTED", "violated: %s (expected one of %s)" % (got, expect)))
        print(rows[-1], flush=True)
    return rows


def main():
    args = sys.argv[1:]
    if args and args[0] == "--spec":
        base = os.path.join(vlib.VERIF, ".work", "C05_specmut")
        shutil.rmtree(base, ignore_errors=True)
        os.makedirs(base)
        for row in spec_mutants(base):
            print("  %-36s %-16s %s" % row)
        return 0
    seed = "1"
    if "-seed" in args:
        i = args.index("-seed")
        seed = args[i + 1]
        del args[i:i + 2]
    only = set(args)
    base = os.path.join(vlib.VERIF, ".work", "C05_mut")
    shutil.rmtree(base, ignore_errors=True)
    os.makedirs(base)
    scratch = os.path.join(base, "repo")
    os.makedirs(scratch)
    p = subprocess.run("git -C %s archive HEAD | tar -x -C %s" % (vlib.REPO, scratch), shell=True)
    if p.returncode != 0:
        print("cannot export /repo HEAD")
        return 2
    head = subprocess.run(["git", "-C", vlib.REPO, "rev-parse", "--short", "HEAD"], capture_output=True, text=True).stdout.strip()
    r = vlib.tlc("Results", "Results_quick.cfg", base, timeout=1200)
    if not r.ok:
        print("TLC failed", r.output[-2000:])
        return 2
    vectors = os.path.join(r.dir, "local_vectors.ndjson")
    schedules = os.path.join(r.dir, "fault_schedules.ndjson")
    vres = vlib.build_harness("vres")
    report = []
    for name, rel, old, new, part, extra in [("unmutated", None, None, None, "both", [])] + MUTATIONS:
        if only and name not in only:
            continue
        path = os.path.join(scratch, rel) if rel else None
        if path:
            src = open(path).read()
            if src.count(old) != 1:
                report.append((name, "NOT-APPLICABLE", "pattern found %d times" % src.count(old)))
                print(report[-1], flush=True)
                continue
            open(path, "w").write(src.replace(old, new))
        try:
            binp = os.path.join(base, "receptor_" + name)
            b = sh(["go", "build", "-tags", "verif", "-o", binp, "./cmd/receptor-cl"], cwd=scratch)
            if b.returncode != 0:
                report.append((name, "DOES-NOT-COMPILE", b.stdout[-400:]))
                print(report[-1], flush=True)
                continue
            wd = os.path.join(base, "run_" + name)
            os.makedirs(wd)
            t0 = time.time()
            sigs, inconcl, evals = {}, [], 0
            if part in ("local", "both"):
                res = vlib.harness_json(vres, ["local", "-bin", binp, "-work", wd, "-vectors", vectors, "-seed", seed,
                                               "-groups", "10", "-cancel-groups", "1", "-par", "6"] + extra, wd, timeout=1500, name="local")
                evals += res["evaluations"]
                inconcl += res.get("inconclusive") or []
                for k, n in (res.get("counters") or {}).items():
                    if k.startswith("viol:"):
                        sigs[k[5:]] = sigs.get(k[5:], 0) + n
            if part in ("remote", "both"):
                res = vlib.harness_json(vres, ["remote", "-bin", binp, "-work", wd, "-schedules", schedules, "-seed", seed,
                                               "-scenarios", "8", "-par", "8"] + extra, wd, timeout=1500, name="remote")
                evals += res["evaluations"]
                inconcl += res.get("inconclusive") or []
                for k, n in (res.get("counters") or {}).items():
                    if k.startswith("viol:"):
                        sigs[k[5:]] = sigs.get(k[5:], 0) + n
            verdict = "CAUGHT" if sigs else ("INCONCLUSIVE" if inconcl else "MISSED")
            if name == "unmutated":
                verdict = "CLEAN" if not sigs and not inconcl else "NOT-CLEAN"
            report.append((name, verdict, "%d judged, %s, %d inconclusive, %.0fs" % (evals, json.dumps(sigs), len(inconcl), time.time() - t0)))
            if inconcl:
                report[-1] += (inconcl[0][:300],)
            print(report[-1], flush=True)
        finally:
            if path:
                open(path, "w").write(src)
    print("\nC05 mutation self-test on /repo HEAD %s, seed %s" % (head, seed))
    for row in report:
        print("  %-36s %-16s %s" % row[:3])
    json.dump(report, open(os.path.join(base, "report.json"), "w"), indent=1)
    return 0


if __name__ == "__main__":
    sys.exit(main())
