"""C14 Status records are updated atomically w.r.t. every other reader and writer.

Spec: specs/StatusFile.tla (lock / read-modify-write core, one action per system call).  TLC checks Mutex,
NoLostUpdate, NoTornRead for every interleaving of 3 (quick) / 4 (thorough) actors x 2 operations; three variant
configurations (no lock in Load, no lock in Save, no re-read) must each produce a counter-example (what each
mechanism is for).  Conformance: cmd/vsf runs M processes x N goroutines against ONE status file through the real
exported UpdateFullStatus / UpdateBasicStatus / Load / Save, every step traced through the hooks into one O_APPEND
file; the trace is checked by the acceptor of harness/sftrace and validated by TLC against specs/StatusFileTrace.tla
(which reuses StatusFile's actions); the end state must contain every update.
"""
import json, os
import vlib

PID = "C14"

QUICK = ["1x4", "2x2:rmw:j", "3x3:rmw:j", "4x8", "2x4:save", "4x2:save",
         "4x4:fresh", "3x8:fresh",       # fresh: nobody creates the record, the first updates race on an absent file
         "3x4:clear", "2x4:clear:j",     # clear: long-lived writer objects; updates that set / CLEAR ExtraData between the others' single-field updates
         "3x4:final", "4x4:final:j"]     # final: >= 3 parties keep updating a record that is and stays in a final state
THOROUGH_TLC = ["1x1", "1x8", "2x1:rmw:j", "2x2:rmw:j", "2x8:rmw:j", "3x3:rmw:j", "3x8", "4x1:rmw:j", "4x2:rmw:j", "4x4:rmw:j", "4x8:rmw:j",
                "1x4:save", "2x4:save:j", "3x2:save:j", "4x2:save:j", "4x4:save:j",
                "4x4:fresh", "3x8:fresh", "4x2:fresh:j", "2x8:fresh", "4x8:fresh", "2x2:fresh", "3x3:fresh:j", "4x4:fresh:j",
                "3x4:final", "4x4:final:j", "4x8:final", "3x3:final:j", "3x4:clear", "2x4:clear:j", "4x4:clear", "4x8:clear:j"]
THOROUGH_BULK = ["4x8:rmw:j", "4x8", "3x8:rmw:j", "2x8:rmw:j", "4x4:save:j"]


def validate(wd, norm, v, label):
    """TLC: is the normalised trace a behaviour of StatusFile?  Returns (accepted, TLCResult)."""
    r = vlib.tlc("StatusFileTrace", "StatusFileTrace.cfg", wd, timeout=2400, workers=1, files=[norm], heap="6g")
    if r.ok:
        return True, r
    if "Postcondition TraceAccepted" in r.output and "is false" in r.output or r.violated:
        return False, r
    raise vlib.Inconclusive("TLC failed on the %s trace (exit %s):\n%s" % (label, r.exit, r.output[-2500:]))


def _keep_evidence(replay):
    """A --replay run re-executes one case: it must not replace the evidence of the last full run."""
    path = os.path.join(vlib.VERIF, "evidence", PID + ".json")
    return (path, open(path).read()) if replay and os.path.exists(path) else None


def _restore_evidence(kept):
    if kept:
        with open(kept[0], "w") as f:
            f.write(kept[1])


def run(tier, seed, replay=None):
    kept = _keep_evidence(replay)
    try:
        return _run(tier, seed, replay)
    finally:
        _restore_evidence(kept)


def _run(tier, seed, replay=None):
    wd = vlib.workdir(PID)
    v = vlib.Verdict(PID, tier, seed)
    # ---- (A) design level
    cfg = "StatusFile_quick.cfg" if tier == "quick" else "StatusFile_full.cfg"
    r = vlib.tlc_must_pass("StatusFileMC", cfg, wd, timeout=1500)
    variants = {}
    # first updates racing on a record nobody has created yet (3 actors x 1 operation; x 2 in thorough)
    fresh_text = open(os.path.join(vlib.SPECS, "StatusFile_fresh.cfg")).read()
    if tier != "quick":
        fresh_text = fresh_text.replace("MaxOps = 1", "MaxOps = 2")
    rf = vlib.tlc("StatusFileMC", "sf_fresh.cfg", wd, timeout=1500, cfg_text=fresh_text)
    if not rf.ok:
        raise vlib.Inconclusive("TLC did not succeed on the fresh-file configuration (exit %s, violated=%s)" % (rf.exit, rf.violated))
    allv = (("StatusFile_wit_noloadlock.cfg", "NoTornRead"), ("StatusFile_wit_nosavelock.cfg", "NoTornRead"),
                      ("StatusFile_wit_noreread.cfg", "NoLostUpdate"), ("StatusFile_wit_statbeforelock.cfg", "NoLostUpdate"),
                      ("StatusFile_wit_unlinklock.cfg", "Mutex"), ("StatusFile_wit_keepabsent.cfg", "ReadReplacesAll"))
    # quick keeps the number of TLC launches small: three must-fail variants, all seven in thorough
    for name, inv in (allv if tier != "quick" else [x for x in allv if x[0] in ("StatusFile_wit_noreread.cfg", "StatusFile_wit_unlinklock.cfg", "StatusFile_wit_keepabsent.cfg")]):
        w = vlib.tlc("StatusFileMC", name, wd, timeout=600)
        if w.violated != inv:
            raise vlib.Inconclusive("variant %s did not violate %s (exit %s)" % (name, inv, w.exit))
        variants[name] = inv
    ro = None
    if tier != "quick":
        ro = vlib.tlc_must_pass("StatusFileMC", "StatusFile_opt.cfg", wd, timeout=1500)   # updates that clear a field: ReadReplacesAll
    wit = vlib.witnesses("StatusFileMC", "StatusFile_quick.cfg", [] if tier == "quick" else ["W_NoContention", "W_NoTwoUpdates", "W_NoLoadOfRec", "W_AllDone"], wd)

    # ---- (B) conformance of the real code
    vsf = vlib.build_harness("vsf")
    runs = []
    if replay:
        rp = json.load(open(replay))["replay"]
        c = rp.get("config", "r00_4x4_rmw").split("_")[1] + ":" + rp.get("mode", "rmw") + (":j" if rp.get("jitter") else "")
        runs.append(("replay", [c] * 5, int(rp.get("ops", 40)), int(rp.get("seed", seed)), True))
    elif tier == "quick":
        runs.append(("main", QUICK, 30, seed, True))
    else:
        runs.append(("main", THOROUGH_TLC, 120, seed, True))
        runs.append(("bulk", THOROUGH_BULK, 1500, seed + 1000, False))
    tot = dict(evaluations=0, distinct=0, events=0, tlc_events=0, traces=0, counters={})
    samples, tlc_runs, allruns = [], [], []
    for label, configs, ops, sd, with_tlc in runs:
        d = os.path.join(wd, label)
        os.makedirs(d, exist_ok=True)
        res = vlib.harness_json(vsf, ["run", "-dir", d, "-configs", ",".join(configs), "-ops", str(ops), "-seed", str(sd),
                                      "-deadline", "600s"], wd, timeout=3000, name="vsf_" + label)
        for viol in res["violations"]:
            v.violation(viol["sig"], viol["what"], viol["replay"])
        if res.get("inconclusive") and not v.violations:
            raise vlib.Inconclusive("; ".join(res["inconclusive"][:5]))
        if res.get("inconclusive"):
            continue
        tot["evaluations"] += res["evaluations"]
        tot["distinct"] += res["distinct"]
        tot["events"] += res["norm_events"]
        for k, n in res["counters"].items():
            tot["counters"][k] = tot["counters"].get(k, 0) + n
        samples += res["samples"][:2]
        allruns += [{k: x[k] for k in ("config", "procs", "gor", "incs", "blinds", "loads", "saves", "events", "actor_switches", "final_count", "jitter_stops")}
                    for x in res["runs"]]
        if with_tlc:
            ok, t = validate(wd, res["norm_file"], v, label)
            tlc_runs.append({"label": label, "events": res["norm_events"], "accepted": ok, "states": t.distinct, "depth": t.depth, "wall_s": round(t.wall, 1)})
            tot["tlc_events"] += res["norm_events"]
            if ok:
                tot["traces"] += len(configs)
            elif not res["violations"]:
                # the real code's events are not a behaviour of the specification although the acceptor saw nothing
                v.violation("C14:trace-rejected", "TLC rejected the %s trace after about %d steps (acceptor silent)" % (label, t.depth),
                            {"norm": res["norm_file"], "configs": configs, "seed": sd, "ops": ops})
        elif not res["violations"]:
            tot["traces"] += 0
    cov = {
        "states": r.distinct + rf.distinct, "transitions": r.generated + rf.generated, "traces_validated_against_impl": tot["traces"],
        "evaluations": tot["evaluations"], "distinct_nontrivial": tot["distinct"],
        "rule": "evaluations = completed operations (counting updates, blind updates, loads, saves) issued by all goroutines of all processes "
                "through the real exported functions; distinct_nontrivial = lock sections of the status file that directly follow a section of a "
                "DIFFERENT process in the recorded trace (a real cross-process hand-over of the lock), counted over all configurations",
        "samples": samples[:4], "exhaustive": False,
        "tlc": {"spec": "StatusFile.tla", "cfg": cfg, "generated": r.generated, "distinct": r.distinct, "depth": r.depth, "wall_s": round(r.wall, 1)},
        "tlc_fresh_file": {"cfg": "StatusFile_fresh.cfg", "generated": rf.generated, "distinct": rf.distinct, "wall_s": round(rf.wall, 1)},
        "tlc_clearable_field": ({"cfg": "StatusFile_opt.cfg", "generated": ro.generated, "distinct": ro.distinct} if ro else None),
        "variants_violated": variants, "witnesses": wit,
        "trace_validation": tlc_runs, "trace_events_total": tot["events"], "trace_events_validated_by_tlc": tot["tlc_events"],
        "counters": tot["counters"], "configurations": allruns,
    }
    return v.finish("model_checking", cov, assumptions=[
        "flock(2) semantics of the kernel and O_APPEND single-write atomicity of the trace file (event order = real-time order of the hook calls)",
        "hook events are emitted inside the lock section they describe (sf_lock inside lockStatusFile after the lock is held, sf_unlock before it is released)",
        "actors of the trace are processes (goroutine ids are not logged); in-process exclusion is observed through lock/unlock alternation",
        "thorough bulk runs (1500 operations per goroutine) are checked by the Go acceptor and the end-state check only, not by TLC",
    ])
