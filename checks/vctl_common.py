"""Helpers shared by the control-service checks C08, C15, C19 (harness/cmd/vctl)."""
import os, shutil, subprocess, time
import vlib


def run_dir(pid):
    """A scratch directory of this very run: /verif/.work/<ID>/run-<process id>.

    vlib.workdir(ID) wipes /verif/.work/<ID> at the start of every run; two runs of the same check at the same time (a
    seed sweep next to an integration run) would pull daemons' sockets and data directories from under each other.  So
    the directory is not wiped as a whole: only run directories whose process is gone are removed."""
    base = vlib.workdir(pid, clean=False)
    for name in os.listdir(base):
        p = os.path.join(base, name)
        owner = name[4:] if name.startswith("run-") else ""
        alive = owner.isdigit() and os.path.exists("/proc/" + owner)
        if not alive:
            if os.path.isdir(p):
                shutil.rmtree(p, ignore_errors=True)
            else:
                try:
                    os.remove(p)
                except OSError:
                    pass
    d = os.path.join(base, "run-%d" % os.getpid())
    os.makedirs(d, exist_ok=True)
    return d


def receptor_copy(wd):
    """A private copy of the receptor binary built from /repo's working tree.

    Other checks rebuild .work/bin/receptor concurrently; the daemon re-executes its own binary for every command
    runner, so it must not be replaced under a running daemon.  VCTL_RECEPTOR (mutation self-tests only) names a binary
    built from a mutated scratch copy of /repo."""
    src = os.environ.get("VCTL_RECEPTOR") or vlib.build_receptor()
    dst = os.path.join(wd, "receptor")
    last = ""
    for _ in range(4):
        try:
            shutil.copyfile(src, dst)
            os.chmod(dst, 0o755)
            p = subprocess.run([dst, "--help"], stdout=subprocess.PIPE, stderr=subprocess.STDOUT, timeout=60)
            if p.returncode == 0 and b"control-service" in p.stdout:
                return dst
            last = "exit %d" % p.returncode
        except Exception as e:  # binary being rewritten by a concurrent build
            last = str(e)
        time.sleep(3)
        if not os.environ.get("VCTL_RECEPTOR"):
            vlib._built.pop(("receptor", "verif"), None)
            src = vlib.build_receptor()
    raise vlib.Inconclusive("cannot obtain a runnable copy of the receptor binary: " + last)
