"""C09 TLS peers need a trusted chain, a matching pin and the expected node ID.

Spec: specs/TLSVerify.tla - the accept/refuse decision as an operator over abstract certificate and
configuration attributes, plus the stream-listener rule.  TLC enumerates the complete product, checks
the design-level properties on every vector and writes the vectors with the expected verdicts;
cmd/vtab tls builds a real certificate/pin/configuration for every vector (several concrete name
variants, two SAN encoders) and observes the real code at four layers: ReceptorVerifyFunc directly,
the verifier installed by Prepare*Config/GetClientTLSConfig, a crypto/tls handshake, and
DialContext/Accept between real nodes for the stream-listener rule.
"""
import json, os, re
import vlib, vtables

WITNESSES = ["W_NoAccept", "W_NoOnlyChain", "W_NoOnlyTime", "W_NoOnlyUsage", "W_NoOnlyPin", "W_NoOnlyName", "W_NoStricter",
             "W_NoSeveralAccept", "W_NoStreamAccept", "W_NoStreamOnlyName", "W_NoColonSrcAccept", "W_NoColonPrefixRefused",
             "W_NoPinnedThenUnpinned", "W_NoUnpinnedThenPinned", "W_NoTwoAlgs",
             "W_NoExpiresWhileAlive", "W_NoBecomesValid", "W_NoLookupAfterReceptor", "W_NoLookupAfterTesthost"]
# counter-example variants of the model (one constant each) and the invariant each of them must violate
VARIANTS = {"KF_ColonSplit": "CodeWithinProp", "KF_DigestCachedAcrossCalls": "HistoryIndependent", "KF_TimeFrozenAtCreation": "ValidityJudgedAtHandshake",
            "KF_LookupMutatesStored": "LookupsIndependent"}
CONDS = ["chain", "time", "usage", "pin", "name"]


def run(tier, seed, replay=None):
    pid = "C09"
    wd = vlib.workdir(pid)
    v = vlib.Verdict(pid, tier, seed)
    cfg = "TLSVerify_quick.cfg" if tier == "quick" else "TLSVerify_full.cfg"
    r = vlib.tlc_must_pass("TLSVerify", cfg, wd, timeout=1800, workers=1)
    wit = vtables.witnesses_once("TLSVerify", "TLSVerify_wit.cfg", WITNESSES, wd)
    # the counter-example variants (legacy ':' split in the listener, digest kept across calls, clock read at creation) live in
    # disjoint vector families; one TLC run with all of them switched on must violate every corresponding invariant
    vr = vlib.tlc("TLSVerify", "TLSVerify_variants.cfg", wd, workers=1, timeout=600, extra=["-continue"])
    violated = set(re.findall(r"Invariant (\S+) is violated", vr.output))
    for const, inv in VARIANTS.items():
        if inv not in violated:
            raise vlib.Inconclusive("the model with %s = TRUE does not violate %s (violated: %s)" % (const, inv, sorted(violated)))
        wit.append("%s@%s" % (inv, const))
    vectors = os.path.join(r.dir, "vectors.ndjson")
    recs = vlib.read_ndjson(vectors)
    if len(recs) != r.distinct:
        raise vlib.Inconclusive("vector file has %d lines but TLC found %d distinct states" % (len(recs), r.distinct))
    ntable = sum(1 for x in recs if x["fam"] == "table")
    nseq = sum(1 for x in recs if x["fam"] == "seq")
    nclock = sum(1 for x in recs if x["fam"] == "clock")
    nlookup = sum(1 for x in recs if x["fam"] == "lookup")
    nstream = len(recs) - ntable - nseq - nclock - nlookup
    single = {c: sum(1 for x in recs if x["fam"] == "table" and x["only"] == c) for c in CONDS}
    if min(single.values()) == 0:
        raise vlib.Inconclusive("no single-failure vector for some condition: %s" % single)
    if replay:
        vec, _ = vtables.replay_vector(replay)
        vectors = os.path.join(wd, "replay.ndjson")
        vlib.write_ndjson(vectors, [vec])
        recs, ntable, nstream, nseq = [vec], int(vec["fam"] == "table"), int(vec["fam"] == "stream"), int(vec["fam"] == "seq")
        nclock = int(vec["fam"] == "clock")
        nlookup = int(vec["fam"] == "lookup")
    vt = vlib.build_harness("vtab")
    mesh = 0 if (tier != "quick" or replay) else 64
    extra = 400 if tier == "quick" else 6000
    clock_n, clock_step = (72, "2s") if tier == "quick" else (0, "4s")
    res = vlib.harness_json(vt, ["tls", "-vectors", vectors, "-seed", str(seed), "-mesh", str(mesh), "-handshake-extra", str(extra),
                                 "-clock", str(clock_n), "-clock-step", clock_step],
                            wd, timeout=3000)
    if res.get("inconclusive"):
        raise vlib.Inconclusive("; ".join(res["inconclusive"][:5]))
    c = res["counters"]
    want_stream = nstream if mesh == 0 else min(mesh, nstream)
    if c.get("vectors_table", 0) != ntable or c.get("vectors_stream", 0) != want_stream or c.get("vectors_seq", 0) != nseq:
        raise vlib.Inconclusive("harness evaluated %d/%d table, %d/%d stream and %d/%d sequence vectors" %
                                (c.get("vectors_table", 0), ntable, c.get("vectors_stream", 0), want_stream, c.get("vectors_seq", 0), nseq))
    want_clock = nclock if clock_n == 0 else min(clock_n, nclock)
    if c.get("clock_selected", 0) != want_clock or c.get("vectors_clock", 0) < (3 * want_clock) // 4:
        raise vlib.Inconclusive("only %d of %d time-line vectors could be run within their ticks (%d selected)" %
                                (c.get("vectors_clock", 0), want_clock, c.get("clock_selected", 0)))
    if c.get("vectors_lookup", 0) != nlookup:
        raise vlib.Inconclusive("harness evaluated %d of %d lookup vectors" % (c.get("vectors_lookup", 0), nlookup))
    for viol in res["violations"]:
        v.violation(viol["sig"], viol["what"], viol["replay"])
    if not replay:
        # vacuity on the implementation side: every layer must have accepted something and every condition must have been
        # the only reason for a refusal at the layers where it can be
        for layer in ("rvf", "installed-client", "installed-server", "handshake-client", "handshake-server", "mesh"):
            if c.get("accept_" + layer, 0) == 0 and not res["violations"]:
                raise vlib.Inconclusive("layer %s accepted nothing: vacuous run" % layer)
        for layer in ("rvf-seq", "installed-client-seq", "installed-server-seq", "handshake-client-seq", "handshake-server-seq"):
            for k in ("pinned_then_unpinned_refused_", "unpinned_then_pinned_accepted_"):
                if c.get(k + layer, 0) == 0 and not res["violations"]:
                    raise vlib.Inconclusive("no %s%s observation: the history-independence part is vacuous" % (k, layer))
        for layer in ("rvf-clock", "installed-client-clock", "installed-server-clock", "handshake-client-clock"):
            for cls in ("valid_at_creation_expired_at_handshake", "notyet_at_creation_valid_at_handshake"):
                if c.get("clock_%s_%s" % (cls, layer), 0) == 0 and not res["violations"]:
                    raise vlib.Inconclusive("no %s observation at layer %s: the time-line part is vacuous" % (cls, layer))
        for layer in ("installed-lookup", "handshake-lookup"):
            if (c.get("refusal_after_receptor_lookup_" + layer, 0) == 0 or c.get("accept_" + layer, 0) == 0) and not res["violations"]:
                raise vlib.Inconclusive("no refusal after a receptor-mode lookup / no acceptance at layer %s: the lookup part is vacuous" % layer)
        for cond in CONDS:
            if c.get("only_%s_rvf" % cond, 0) == 0:
                raise vlib.Inconclusive("condition %s was never the only reason for a refusal" % cond)
    layers = sorted(k[5:] for k in c if k.startswith("eval_"))
    cov = {
        "states": r.distinct, "transitions": r.generated, "traces_validated_against_impl": 0,
        "evaluations": res["evaluations"], "distinct_nontrivial": res["distinct"],
        "rule": "TLC enumerates every vector of TLSVerify.tla (%s): issuer x validity x usage x name set x pin list x role x name mode, plus the "
                "stream-listener family (issuer x validity x usage x source id x certificate name kind) and the history family (role x mode x pin list x every "
                "sequence of 1..3 certificates out of pinned / unpinned-but-otherwise-identical / wrong-chain presented to ONE long-lived instance). Every table vector is concretised "
                "into real certificates (one per 'other name' variant: unrelated/extended/trailing space/case variant/prefix; two SAN encoders: "
                "utils.MakeReceptorSAN and an independent DER encoder) and judged by the real ReceptorVerifyFunc, by the verifier installed through "
                "Prepare*Config+GetClientTLSConfig, and (all vectors with at most one failing condition plus a seeded sample) by a crypto/tls "
                "handshake; stream vectors are dialled on a real mesh; every history vector is played on one ReceptorVerifyFunc instance, on one configuration from "
                "Prepare*Config (+GetClientTLSConfig / GetServerTLSConfig per connection) and through handshakes sharing one configuration, each call compared with the table; time-line vectors (verifier created at one tick, handshakes at later ticks, certificate windows with "
                "second-granular bounds between the ticks) are run in real time on kept verifier/configuration objects; lookup vectors store ONE named tls-client configuration on one node and look it up "
                "repeatedly (testhost validation, receptor mode, DNS mode), presenting five certificate classes to every configuration returned. distinct = distinct (vector, name variant, encoder) triples evaluated "
                "plus stream vectors dialled plus history vectors plus time-line vectors run plus lookup vectors" % cfg,
        "samples": res["samples"][:10], "exhaustive": True,
        "vectors": len(recs), "vectors_table": ntable, "vectors_stream": nstream, "vectors_seq": nseq, "vectors_clock": nclock, "vectors_lookup": nlookup, "lookup_calls": c.get("lookup_calls", 0),
        "lookup_refusals_after_receptor_lookup": {l: c.get("refusal_after_receptor_lookup_" + l, 0) for l in ("installed-lookup", "handshake-lookup")}, "clock_vectors_run": c.get("vectors_clock", 0), "clock_wall_ms": c.get("clock_wall_ms", 0),
        "clock_observations": {k[6:]: n for k, n in c.items() if k.startswith("clock_valid_at_creation_expired") or k.startswith("clock_notyet_at_creation_valid")}, "seq_calls": c.get("seq_calls", 0),
        "history_observations": {k: n for k, n in c.items() if k.startswith("pinned_then_unpinned_refused_") or k.startswith("unpinned_then_pinned_accepted_")},
        "stream_vectors_dialled": c.get("vectors_stream", 0),
        "single_failure_vectors": single,
        "single_failure_refusals_observed": {l: {cd: c.get("only_%s_%s" % (cd, l), 0) for cd in CONDS} for l in layers},
        "accepts_observed": {l: c.get("accept_" + l, 0) for l in layers},
        "evaluations_per_layer": {l: c.get("eval_" + l, 0) for l in layers},
        "stricter_than_property": {l: c.get("stricter_" + l, 0) for l in layers},
        "certificates_made": c.get("certificates_made", 0), "counters": c, "witnesses": wit, "notes": res.get("notes") or [],
        "tlc": {"spec": "TLSVerify.tla", "cfg": cfg, "generated": r.generated, "distinct": r.distinct, "wall_s": round(r.wall, 1)},
    }
    return v.finish("model_checking", cov, assumptions=[
        "Go crypto/x509 chain building and crypto/tls are trusted; time conditions use certificates 2 h beyond/before the validity window in the table and "
        "1 s (half a tick) in the time-line family, never the boundary instant itself",
        "time-line family: real time passes (ticks of 2 s quick / 4 s thorough); an operation not completed within 0.8 s (1.6 s) of its tick is not judged; "
        "the quick tier runs a stratified sample of 72 vectors (all 48 in which a certificate expires or becomes valid while the verifier lives)",
        "direction: real accepts => spec accepts (safety); spec(code) accepts => real accepts only for well-formed pin lists; a stricter implementation is counted, not reported",
        "pins are checked for sha224/256/384/512 of the leaf certificate; the configuration layer only takes 32- and 64-byte pins",
        "the stream-listener rule is observable only on a live mesh: quick tier dials a stratified sample (all vectors whose chain/time/usage are fine, plus a seeded sample), thorough dials all",
        "RSA key material comes from crypto/rand (irrelevant to the decision); names, samples and pin spellings derive from the seed",
    ])
