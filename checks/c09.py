"""C09 TLS peers need a trusted chain, a matching pin and the expected node ID.

Spec: specs/TLSVerify.tla - the accept/refuse decision as an operator over abstract certificate and
configuration attributes, plus the stream-listener rule.  TLC enumerates the complete product, checks
the design-level properties on every vector and writes the vectors with the expected verdicts;
cmd/vtab tls builds a real certificate/pin/configuration for every vector (several concrete name
variants, two SAN encoders) and observes the real code at four layers: ReceptorVerifyFunc directly,
the verifier installed by Prepare*Config/GetClientTLSConfig, a crypto/tls handshake, and
DialContext/Accept between real nodes for the stream-listener rule.
"""
import json, os
import vlib, vtables

WITNESSES = ["W_NoAccept", "W_NoOnlyChain", "W_NoOnlyTime", "W_NoOnlyUsage", "W_NoOnlyPin", "W_NoOnlyName", "W_NoStricter",
             "W_NoSeveralAccept", "W_NoStreamAccept", "W_NoStreamOnlyName", "W_NoColonSrcAccept", "W_NoColonPrefixRefused",
             "W_NoPinnedThenUnpinned", "W_NoUnpinnedThenPinned", "W_NoTwoAlgs"]
CONDS = ["chain", "time", "usage", "pin", "name"]


def run(tier, seed, replay=None):
    pid = "C09"
    wd = vlib.workdir(pid)
    v = vlib.Verdict(pid, tier, seed)
    cfg = "TLSVerify_quick.cfg" if tier == "quick" else "TLSVerify_full.cfg"
    r = vlib.tlc_must_pass("TLSVerify", cfg, wd, timeout=1800, workers=1)
    wit = vtables.witnesses_once("TLSVerify", "TLSVerify_wit.cfg", WITNESSES, wd)
    # the legacy listener rule (expected name = text before the first ':') must be rejected by the model
    cs = vlib.tlc("TLSVerify", "TLSVerify_colonsplit.cfg", wd, workers=1, timeout=600)
    if cs.violated != "CodeWithinProp":
        raise vlib.Inconclusive("the model with KF_ColonSplit = TRUE does not violate CodeWithinProp (violated=%s)" % cs.violated)
    wit.append("CodeWithinProp@KF_ColonSplit")
    # a verifier instance that remembers the first certificate's digest must be rejected by the model
    dc = vlib.tlc("TLSVerify", "TLSVerify_digestcache.cfg", wd, workers=1, timeout=600)
    if dc.violated != "HistoryIndependent":
        raise vlib.Inconclusive("the model with KF_DigestCachedAcrossCalls = TRUE does not violate HistoryIndependent (violated=%s)" % dc.violated)
    wit.append("HistoryIndependent@KF_DigestCachedAcrossCalls")
    vectors = os.path.join(r.dir, "vectors.ndjson")
    recs = vlib.read_ndjson(vectors)
    if len(recs) != r.distinct:
        raise vlib.Inconclusive("vector file has %d lines but TLC found %d distinct states" % (len(recs), r.distinct))
    ntable = sum(1 for x in recs if x["fam"] == "table")
    nseq = sum(1 for x in recs if x["fam"] == "seq")
    nstream = len(recs) - ntable - nseq
    single = {c: sum(1 for x in recs if x["fam"] == "table" and x["only"] == c) for c in CONDS}
    if min(single.values()) == 0:
        raise vlib.Inconclusive("no single-failure vector for some condition: %s" % single)
    if replay:
        vec, _ = vtables.replay_vector(replay)
        vectors = os.path.join(wd, "replay.ndjson")
        vlib.write_ndjson(vectors, [vec])
        recs, ntable, nstream, nseq = [vec], int(vec["fam"] == "table"), int(vec["fam"] == "stream"), int(vec["fam"] == "seq")
    vt = vlib.build_harness("vtab")
    mesh = 0 if (tier != "quick" or replay) else 64
    extra = 400 if tier == "quick" else 6000
    res = vlib.harness_json(vt, ["tls", "-vectors", vectors, "-seed", str(seed), "-mesh", str(mesh), "-handshake-extra", str(extra)],
                            wd, timeout=3000)
    if res.get("inconclusive"):
        raise vlib.Inconclusive("; ".join(res["inconclusive"][:5]))
    c = res["counters"]
    want_stream = nstream if mesh == 0 else min(mesh, nstream)
    if c.get("vectors_table", 0) != ntable or c.get("vectors_stream", 0) != want_stream or c.get("vectors_seq", 0) != nseq:
        raise vlib.Inconclusive("harness evaluated %d/%d table, %d/%d stream and %d/%d sequence vectors" %
                                (c.get("vectors_table", 0), ntable, c.get("vectors_stream", 0), want_stream, c.get("vectors_seq", 0), nseq))
    for viol in res["violations"]:
        v.violation(viol["sig"], viol["what"], viol["replay"])
    if not replay:
        # vacuity on the implementation side: every layer must have accepted something and every condition must have been
        # the only reason for a refusal at the layers where it can be
        for layer in ("rvf", "installed-client", "installed-server", "handshake-client", "handshake-server", "mesh"):
            if c.get("accept_" + layer, 0) == 0 and not res["violations"]:
                raise vlib.Inconclusive("layer %s accepted nothing: vacuous run" % layer)
        for layer in ("rvf-seq", "installed-client-seq", "installed-server-seq", "handshake-client-seq", "handshake-server-seq"):
            for k in ("pinned_then_unpinned_refused_", "unpinned_then_pinned_accepted_"):
                if c.get(k + layer, 0) == 0 and not res["violations"]:
                    raise vlib.Inconclusive("no %s%s observation: the history-independence part is vacuous" % (k, layer))
        for cond in CONDS:
            if c.get("only_%s_rvf" % cond, 0) == 0:
                raise vlib.Inconclusive("condition %s was never the only reason for a refusal" % cond)
    layers = sorted(k[5:] for k in c if k.startswith("eval_"))
    cov = {
        "states": r.distinct, "transitions": r.generated, "traces_validated_against_impl": 0,
        "evaluations": res["evaluations"], "distinct_nontrivial": res["distinct"],
        "rule": "TLC enumerates every vector of TLSVerify.tla (%s): issuer x validity x usage x name set x pin list x role x name mode, plus the "
                "stream-listener family (issuer x validity x usage x source id x certificate name kind) and the history family (role x mode x pin list x every "
                "sequence of 1..3 certificates out of pinned / unpinned-but-otherwise-identical / wrong-chain presented to ONE long-lived instance). Every table vector is concretised "
                "into real certificates (one per 'other name' variant: unrelated/extended/trailing space/case variant/prefix; two SAN encoders: "
                "utils.MakeReceptorSAN and an independent DER encoder) and judged by the real ReceptorVerifyFunc, by the verifier installed through "
                "Prepare*Config+GetClientTLSConfig, and (all vectors with at most one failing condition plus a seeded sample) by a crypto/tls "
                "handshake; stream vectors are dialled on a real mesh; every history vector is played on one ReceptorVerifyFunc instance, on one configuration from "
                "Prepare*Config (+GetClientTLSConfig / GetServerTLSConfig per connection) and through handshakes sharing one configuration, each call compared with the table. distinct = distinct (vector, name variant, encoder) triples evaluated "
                "plus stream vectors dialled plus history vectors" % cfg,
        "samples": res["samples"][:10], "exhaustive": True,
        "vectors": len(recs), "vectors_table": ntable, "vectors_stream": nstream, "vectors_seq": nseq, "seq_calls": c.get("seq_calls", 0),
        "history_observations": {k: n for k, n in c.items() if k.startswith("pinned_then_unpinned_refused_") or k.startswith("unpinned_then_pinned_accepted_")},
        "stream_vectors_dialled": c.get("vectors_stream", 0),
        "single_failure_vectors": single,
        "single_failure_refusals_observed": {l: {cd: c.get("only_%s_%s" % (cd, l), 0) for cd in CONDS} for l in layers},
        "accepts_observed": {l: c.get("accept_" + l, 0) for l in layers},
        "evaluations_per_layer": {l: c.get("eval_" + l, 0) for l in layers},
        "stricter_than_property": {l: c.get("stricter_" + l, 0) for l in layers},
        "certificates_made": c.get("certificates_made", 0), "counters": c, "witnesses": wit, "notes": res.get("notes") or [],
        "tlc": {"spec": "TLSVerify.tla", "cfg": cfg, "generated": r.generated, "distinct": r.distinct, "wall_s": round(r.wall, 1)},
    }
    return v.finish("model_checking", cov, assumptions=[
        "Go crypto/x509 chain building and crypto/tls are trusted; time conditions use certificates 2 h beyond/before the validity window, not boundary instants",
        "direction: real accepts => spec accepts (safety); spec(code) accepts => real accepts only for well-formed pin lists; a stricter implementation is counted, not reported",
        "pins are checked for sha224/256/384/512 of the leaf certificate; the configuration layer only takes 32- and 64-byte pins",
        "the stream-listener rule is observable only on a live mesh: quick tier dials a stratified sample (all vectors whose chain/time/usage are fine, plus a seeded sample), thorough dials all",
        "RSA key material comes from crypto/rand (irrelevant to the decision); names, samples and pin spellings derive from the seed",
    ])
