"""C05 Work results stream exactly the output from any offset and end when complete; the local copy of
remote work is always a prefix of the remote output and converges.

Spec: specs/Results.tla - producer (payload + runner recording StdoutSize later than the bytes), the daemon's
in-memory status copy, GetResults at the grain of its loop (wait for file / Seek+Read / EOF check / close),
monitorRemoteStatus and monitorRemoteStdout with LinkCut / RelayRestart / RemoteRestart between any two steps.
(A) TLC checks NoGapNoRepeat, NoEarlyEnd, CloseOnlyWhenFinal, EndsWhenDone, MirrorPrefix, MirrorConverges
exhaustively and writes the session vectors (chunking x outcome x offset x moment) and the fault schedules.
(B1) cmd/vres replays them against REAL receptor daemons built from /repo: bytes received on the control
connection are compared with the unit's output from the offset, the end of the stream with the unit's
completion; for remote work (A-B-C over cuttable relays) the local copy is compared with the remote output
after every observation and at the end.
"""
import concurrent.futures as cf
import json
import os
import re
import shutil
import time
import vlib

PID = "C05"
WITNESSES = ["W_NoMidOffsetStream", "W_NoEOFThenMore", "W_NoStaleSize", "W_NoEmptyClose", "W_NoCancelHang",
             "W_NoBigChunk", "W_NoResume", "W_NoLossInFlight", "W_NoRemoteRestart", "W_NoReadAhead", "W_NoSubmitterShort"]


def _strip_props(text):
    """cfg text without INVARIANT(S)/PROPERTY/PROPERTIES sections and without vector dumps."""
    kept, skip = [], False
    for line in text.splitlines():
        st = line.strip()
        if re.match(r"^(INVARIANTS?|PROPERTY|PROPERTIES)\b", st):
            skip = True
            continue
        if skip and (line.startswith(" ") or line.startswith("\t")) and st:
            continue
        skip = False
        kept.append(line)
    text = "\n".join(kept) + "\n"
    return re.sub(r'(Dump\w+)\s*=\s*"[^"]*"', r'\1 = ""', text)


def _witnesses(base_cfg, wd, with_al):
    base = _strip_props(open(os.path.join(vlib.SPECS, base_cfg)).read())
    base = re.sub(r"(?m)^  MaxChunks = \d+", "  MaxChunks = 2", base)  # witnesses exist already in the smallest instance
    jobs = {}
    names = list(WITNESSES) + ["W_NoStatusAheadOfOutput"] + (["W_NoAlClosed"] if with_al else [])
    remote_w = {"W_NoResume", "W_NoLossInFlight", "W_NoRemoteRestart", "W_NoAlClosed", "W_NoStatusAheadOfOutput",
                "W_NoReadAhead", "W_NoSubmitterShort"}
    for w in names:
        scen = '{"remote"}' if w in remote_w else '{"local"}'
        text = base.replace('Scenarios = {"local", "remote"}', "Scenarios = " + scen)
        if w in ("W_NoAlClosed", "W_NoStatusAheadOfOutput"):
            text = text.replace("AlReader = FALSE", "AlReader = TRUE")
        jobs[w] = text + "INVARIANT %s\n" % w
    # the lead behind assumption A_CreateBeforePoll (see Results.tla) must be there when the assumption is dropped
    if with_al:
        jobs["A_CreateBeforePoll_lead"] = (base.replace('Scenarios = {"local", "remote"}', 'Scenarios = {"remote"}')
                                           .replace("AlReader = FALSE", "AlReader = TRUE")
                                           .replace("A_CreateBeforePoll = TRUE", "A_CreateBeforePoll = FALSE") + "INVARIANT NoEarlyEnd\n")
    # the spec family contains the defect of the pinned tree: with GetResults as pinned, EndsWhenDone has a counter-example
    jobs["KF_CancelNotComplete_counterexample"] = (
        base.replace("KF_CancelNotComplete = FALSE", "KF_CancelNotComplete = TRUE")
        .replace('Scenarios = {"local", "remote"}', 'Scenarios = {"local"}') + "PROPERTY EndsWhenDone\n")

    def one(item):
        name, text = item
        r = vlib.tlc("Results", "wit_%s.cfg" % name, wd, timeout=900, workers=2, cfg_text=text)
        if name == "A_CreateBeforePoll_lead":
            ok = r.violated == "NoEarlyEnd"
        elif name.startswith("KF_"):
            ok = bool(re.search(r"Temporal propert(y|ies) [^\n]*EndsWhenDone[^\n]* (was|were) violated|Temporal properties were violated", r.output)) and '"Canceled"' in r.output
        else:
            ok = r.violated == name
        return name, ok, r

    out = []
    with cf.ThreadPoolExecutor(max_workers=3) as ex:
        for name, ok, r in ex.map(one, jobs.items()):
            if not ok:
                raise vlib.Inconclusive("witness %s not found (vacuity): exit %s\n%s" % (name, r.exit, r.output[-1500:]))
            out.append(name)
    return out


def run(tier, seed, replay=None):
    wd = vlib.workdir(PID)
    v = vlib.Verdict(PID, tier, seed)
    quick = tier == "quick"
    cfg = "Results_quick.cfg" if quick else "Results_full.cfg"
    t0 = time.time()
    ex = cf.ThreadPoolExecutor(max_workers=4)
    fw = ex.submit(_witnesses, "Results_quick.cfg", wd, not quick and not replay)   # independent of the main run: start at once
    # a second exhaustive run with a client reading the mirrored copy on the submitting node (reader "al"): there the
    # final status can be mirrored before the tail of the output (quick: no faults; thorough: one fault)
    alcfg = "Results_alq.cfg" if quick else "Results_al.cfg"
    fal = None if replay else ex.submit(vlib.tlc, "Results", alcfg, wd, 4 if quick else 8, 2400)
    r = vlib.tlc("Results", cfg, wd, timeout=2400, heap="12g", workers=min(8, vlib.NCPU))
    vlib.log("TLC %s: %d distinct / %d generated states, depth %d, %.0fs" % (cfg, r.distinct, r.generated, r.depth, r.wall))
    if not r.ok:
        raise vlib.Inconclusive("TLC did not succeed on %s (exit %s, violated=%s):\n%s" % (cfg, r.exit, r.violated, r.output[-3000:]))
    vectors = os.path.join(r.dir, "local_vectors.ndjson")
    schedules = os.path.join(r.dir, "fault_schedules.ndjson")
    nvec = sum(1 for _ in open(vectors))
    nsched = sum(1 for _ in open(schedules))
    vres = vlib.build_harness("vres")
    # private copy: other checks rebuild .work/bin/receptor (from whatever /repo looks like then) while this one runs
    rbin = os.path.join(wd, "receptor")
    shutil.copy2(vlib.build_receptor(), rbin)

    largs = ["local", "-bin", rbin, "-work", wd, "-vectors", vectors, "-seed", str(seed)]
    rargs = ["remote", "-bin", rbin, "-work", wd, "-schedules", schedules, "-seed", str(seed)]
    if replay:
        rp = json.load(open(replay))["replay"]
        seed_r = str(rp.get("seed", seed))
        if rp.get("part") == "remote":
            largs = None
            rargs = rargs[:-1] + [seed_r, "-only", rp["schedule"]]
        else:
            rargs = None
            largs = largs[:-1] + [seed_r, "-only", rp["group"], "-cancel-groups", "-1"]
    elif quick:
        largs += ["-groups", "12", "-cancel-groups", "1", "-par", "6"]
        rargs += ["-scenarios", "8", "-par", "8"]
    else:
        largs += ["-groups", "600", "-cancel-groups", "12", "-par", "8"]
        rargs += ["-scenarios", "120", "-par", "10"]

    fl = ex.submit(vlib.harness_json, vres, largs, wd, 3000, None, "local") if largs else None
    fr = ex.submit(vlib.harness_json, vres, rargs, wd, 3000, None, "remote") if rargs else None
    lres = fl.result() if fl else None
    vlib.log("local part done (%.0fs since start)" % (time.time() - t0))
    rres = fr.result() if fr else None
    vlib.log("remote part done (%.0fs since start)" % (time.time() - t0))
    wit = fw.result()
    vlib.log("witnesses found: %d (%.0fs since start)" % (len(wit), time.time() - t0))
    ral = fal.result() if fal else None
    if ral is not None:
        vlib.log("TLC %s: %d distinct / %d generated states, %.0fs" % (alcfg, ral.distinct, ral.generated, ral.wall))
        if not ral.ok:
            raise vlib.Inconclusive("TLC did not succeed on %s (exit %s, violated=%s):\n%s" % (alcfg, ral.exit, ral.violated, ral.output[-3000:]))
    ex.shutdown()

    inconclusive = []
    for name, res in (("local", lres), ("remote", rres)):
        if res is None:
            continue
        for viol in res["violations"]:
            v.violation(viol["sig"], viol["what"], viol["replay"])
        inconclusive += ["%s: %s" % (name, m) for m in res.get("inconclusive") or []]
    # a definite violation outranks an inconclusive sibling case; otherwise inconclusive is exit 2
    unknown = [s for s in v.violations]
    if inconclusive and not unknown:
        raise vlib.Inconclusive("; ".join(inconclusive)[:3000])
    if not replay:
        if lres["evaluations"] < 50:
            raise vlib.Inconclusive("local part evaluated only %d sessions" % lres["evaluations"])
        if rres["evaluations"] < 3:
            raise vlib.Inconclusive("remote part evaluated only %d scenarios" % rres["evaluations"])

    def g(res, k, d=0):
        return (res or {}).get(k, d) if res else d

    counters = {}
    for name, res in (("local", lres), ("remote", rres)):
        for k, n in (g(res, "counters", {}) or {}).items():
            counters["%s_%s" % (name, k)] = n
    samples = (g(lres, "samples", []) or [])[:4] + (g(rres, "samples", []) or [])[:3]
    if not samples:
        samples = [{"note": "replay run"}]
    cov = {
        "states": r.distinct + (ral.distinct if ral else 0), "transitions": r.generated + (ral.generated if ral else 0),
        "traces_validated_against_impl": 0,
        "evaluations": g(lres, "evaluations") + g(rres, "evaluations"),
        "distinct_nontrivial": g(lres, "distinct") + g(rres, "distinct"),
        "rule": "Results.tla (%s) is checked exhaustively by TLC (all chunkings, all start offsets, every interleaving of producer, "
                "status reload, reader, monitors and faults within the constants); TLC writes %d session vectors "
                "(chunking x outcome x offset x moment) and %d fault schedules. A seeded subset of the (chunking, outcome) groups "
                "x {small, boundary(64 KiB), huge} concretisations is run against a real daemon with ALL of the group's offsets and "
                "moments as concurrent 'work results' sessions (plus a neighbouring offset each); a seeded subset (thorough: all) of the "
                "fault schedules is replayed on three real daemons over cuttable relays. evaluations = sessions + scenarios judged; "
                "distinct = distinct (kind, chunking, outcome, offset class, moment) sessions plus distinct fault schedules" % (cfg, nvec, nsched),
        "samples": samples, "exhaustive": False,
        "spec_exhaustive_within_constants": True,
        "vectors": nvec, "fault_schedules": nsched, "counters": counters, "witnesses": wit,
        "tlc": [{"spec": "Results.tla", "cfg": cfg, "generated": r.generated, "distinct": r.distinct, "depth": r.depth, "wall_s": round(r.wall, 1)}] +
               ([{"spec": "Results.tla", "cfg": alcfg, "generated": ral.generated, "distinct": ral.distinct, "depth": ral.depth,
                  "wall_s": round(ral.wall, 1)}] if ral else []),
    }
    return v.finish("model_checking", cov, assumptions=[
        "payloads write to stdout only while they run (no background writer survives the payload); the runner records the final size after the payload has exited",
        "the remote daemon is not restarted while the unit's record still says Pending (command.go Restart would mark it Failed: C04/C13 territory)",
        "faults are repaired within seconds; 'stream never ends' is judged 30 s after completion once the daemon itself confirms the final state on a fresh connection",
        "a convergence deadline without a definite wrong value is inconclusive (exit 2), never a violation",
        "cancelled counts as finished (C13's wording) for EndsWhenDone",
    ])
