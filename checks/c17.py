"""C17 Sockets, listeners and streams close at any time without crash or leak; Shutdown stops background activity.

Design level: Lifecycle.tla (four parts at the code's grain: socket + delivery path, stream dial/close on both
ends, Listener.Close against the QUIC transport's reader, ping) is checked exhaustively by TLC for NoPanic,
Released, NoLockCycle and the liveness properties ShutdownStops / ListenerCloseReturns. The code as found is kept
as documented counter-examples selected by constants (two woken deliverers close the receive channel twice; a
late deliverer sends on the closed channel; the dialling side's watcher quits on doneChan; Listener.Close lock
cycle; ping reader waiting for the caller's context) and each of them must still be violated.
Conformance: (B1) the counter-example schedules are replayed on real objects inside child processes (exit status
is the oracle; gates park goroutines between the registry lookup and the delivery select); (B2) a seeded history
of open/dial/ping/traceroute/accept/read/write/close/close-again/cancel operations over three real nodes with
concurrent senders to the object being closed; afterwards every listener registry and the goroutine profile must
be back at the baseline (a residue is a leak only if it grows with a history twice as long), Shutdown must end
every goroutine, and every object's event order is validated by TLC against LifecycleTrace.tla."""
import os, re, shutil, json
import vlib

PARTS = ["socket", "stream", "listener", "ping"]
ASIS = {  # documented counter-examples: cfg -> property that must be violated
    "Lifecycle_socket_asis.cfg": "NoPanic",
    "Lifecycle_stream_asis.cfg": "Released",
    "Lifecycle_stream_halfonly.cfg": "Released",
    "Lifecycle_listener_asis.cfg": "NoLockCycle",
    "Lifecycle_ping_asis.cfg": "Released",
    "Lifecycle_ping_errsend.cfg": "Released",
    "Lifecycle_stream_watchctx.cfg": "Released",   # early dial goroutine follows the caller's ctx, error path leaves the socket to it (seeded c17-dial-cancelled-by-notice-keeps-socket)
    "Lifecycle_socket_rlock.cfg": "CloseReturns",   # registry read lock held across the hand-over (seeded c17-delivery-holds-listener-rlock)
}
WITNESSES = {
    "Lifecycle_socket.cfg": ["W_NoBlockedPair", "W_NoDeliverAfterClose"],
    "Lifecycle_stream.cfg": ["W_NoStreamReleasedState", "W_NoHalfCloseOnly", "W_NoDialFailedByNotice"],
    "Lifecycle_ping.cfg": ["W_NoPingReturned"],
}


def run(tier, seed, replay=None):
    pid = "C17"
    wd = vlib.workdir(pid)
    v = vlib.Verdict(pid, tier, seed)
    from concurrent.futures import ThreadPoolExecutor
    vlc = os.environ.get("VLC_BIN") or vlib.build_harness("vlc")  # VLC_BIN: mutation self-tests run a harness built against a mutated copy of /repo
    ops = 200 if tier == "quick" else 2000
    pool = ThreadPoolExecutor(max_workers=6)
    # the harness (child processes, mostly waiting) runs while TLC works on the design level
    fh = pool.submit(vlib.harness_json, vlc, ["c17", "-seed", str(seed), "-ops", str(ops), "-dir", wd], wd, 600 + 4 * ops, None, "c17")
    fparts = {}
    for part in PARTS:
        cfg = "Lifecycle_%s.cfg" % part
        if tier != "quick" and part == "socket":
            cfg = "Lifecycle_socket_full.cfg"
        fparts[cfg] = pool.submit(vlib.tlc_must_pass, "Lifecycle", cfg, wd, workers=2, timeout=1200)
    fasis = {cfg: pool.submit(vlib.tlc, "Lifecycle", cfg, wd, workers=2, timeout=600) for cfg in ASIS}
    fwit = [pool.submit(vlib.witnesses, "Lifecycle", cfg, [n], wd, workers=2) for cfg, names in WITNESSES.items() for n in names]
    states = trans = 0
    tlc_runs = {}
    for cfg, f in fparts.items():
        r = f.result()
        states += r.distinct
        trans += r.generated
        tlc_runs[cfg] = {"generated": r.generated, "distinct": r.distinct}
    asis = {}
    for cfg, f in fasis.items():
        r = f.result()
        mt = re.search(r"Temporal property (\S+) was violated", r.output)
        if mt:
            r.violated = mt.group(1)
        if r.violated != ASIS[cfg]:
            raise vlib.Inconclusive("%s is expected to violate %s (documented counter-example), got %s\n%s" % (cfg, ASIS[cfg], r.violated, r.output[-1500:]))
        asis[cfg] = ASIS[cfg]
    wit = []
    for f in fwit:
        wit += f.result()
    res = fh.result()
    pool.shutdown()
    for viol in res["violations"]:
        v.violation(viol["sig"], viol["what"], viol["replay"])
    if res.get("inconclusive") and not res["violations"]:
        raise vlib.Inconclusive("c17 harness: " + "; ".join(res["inconclusive"][:4]))

    # per-object event order against LifecycleTrace.tla
    objects = 0
    trace = os.path.join(wd, "objects.ndjson")
    if os.path.exists(trace) and os.path.getsize(trace) > 0:
        lines = vlib.read_ndjson(trace)
        tmp = os.path.join(wd, "trace.ndjson")
        shutil.copyfile(trace, tmp)
        r = vlib.tlc("LifecycleTrace", "LifecycleTrace.cfg", wd, workers=1, timeout=1800, files=[tmp])
        if not r.ok:
            if r.violated == "NoPanic":
                v.violation("C17:trace:panic-state", "the recorded event order drives Lifecycle.tla into the PANIC state", {"trace": trace})
            else:
                raise vlib.Inconclusive("trace validation did not complete (exit %s, violated=%s)\n%s" % (r.exit, r.violated, r.output[-2000:]))
        done = re.search(r'<<"DONE", (\d+), (\d+)>>', r.output)
        if r.ok and (not done or int(done.group(1)) != len(lines)):
            raise vlib.Inconclusive("object trace not consumed completely: %s of %d lines" % (done.group(1) if done else "?", len(lines)))
        objects = int(done.group(2)) if done else 0
        seen = set()
        for m in re.finditer(r'<<\s*"REJECT",\s*(\d+),\s*"([a-z_]+)",\s*(\[[^\]]*\])', r.output):
            ln, ev, st = int(m.group(1)), m.group(2), " ".join(m.group(3).split())
            if ln in seen:
                continue
            seen.add(ln)
            start = min(ln, len(lines)) - 1
            while start > 0 and lines[start]["ev"] != "reset":
                start -= 1
            v.violation("C17:trace:%s" % ev,
                        "object %s: event '%s' at line %d is not a step of Lifecycle.tla in state %s" % (lines[start].get("obj"), ev, ln, st),
                        {"object": lines[start].get("obj"), "segment": lines[start:ln]})
    elif not res["violations"]:
        raise vlib.Inconclusive("no object trace was recorded")

    hist = (res.get("extra") or {}).get("hist") or {}
    cov = {
        "states": states, "transitions": trans, "traces_validated_against_impl": objects,
        "evaluations": res["evaluations"], "distinct_nontrivial": res["distinct"],
        "rule": "evaluations = operations of the seeded history plus iterations of the B1 schedules; distinct = B1 schedules run "
                "(each a different TLC schedule class) plus distinct operation kinds exercised by the history; every object's "
                "(node, service) event order validated by TLC against LifecycleTrace.tla",
        "samples": (res.get("samples") or [])[:1] or [list((res.get("counters") or {}).items())[:8]],
        "exhaustive": False,
        "tlc_design": tlc_runs, "asis_counterexamples": asis, "witnesses": wit,
        "history": {k: hist.get(k) for k in ("ops1", "ops2", "residue1", "residue2", "trace_objects")},
        "children": (res.get("extra") or {}).get("children"),
        "operation_counts": {k: n for k, n in (res.get("counters") or {}).items() if k.startswith("hist/")},
    }
    return v.finish("model_checking", cov, assumptions=[
        "quic-go is trusted to end its own goroutines once its connection/transport is closed; goroutines are attributed by entry function and creator",
        "QUIC idle timeout is shortened to 4 s in the harness process (netceptor.MaxIdleTimeoutForQuicConnections, a documented test knob)",
        "a residue counts as a leak only when it grows in proportion to the history length (history of N then 2N operations)",
        "streams on which both ends only ever call Close() are exercised separately (open finding); in the main history such a stream is finished by one CloseConnection",
    ])
