"""C11 Only admissible peers stay connected: allow-list, identity, cost, one per ID.

Design level: Admit.tla (one node, three sessions announcing arbitrary ids, every interleaving of admission,
adjacency registration, peer updates and session ends) checked exhaustively by TLC with NetCore's operators.
Conformance: seeded scenarios (allow-list x per-node cost x announced id x later behaviour x concurrent
handshakes on two backends) are played by scripted peers against a real node; the node's own hook events are
validated by TLC against NodeTrace.tla (admission verdict and rejection reason of every session, cost used,
connection set reported by the API, no route via a non-neighbour), and the harness checks what only the peer
sees (rejected sessions are closed, admitted sessions stay open, misbehaving peers are disconnected)."""
import vlib
import nodetrace

C11_EVENTS = {"reject", "conn_add", "recv", "known_add", "known_del", "conn_del", "h_status", "established", "sess_end",
              "end_of_instance", "mk_update", "ru_self", "shutdown"}


def run(tier, seed, replay=None):
    pid = "C11"
    wd = vlib.workdir(pid)
    v = vlib.Verdict(pid, tier, seed)
    r1 = vlib.tlc_must_pass("Admit", "Admit_quick.cfg", wd, workers=8, timeout=900)
    r2 = vlib.tlc_must_pass("Admit", "Admit_any.cfg", wd, workers=8, timeout=900)
    wit = vlib.witnesses("Admit", "Admit_any.cfg", ["W_NoTwoSame", "W_NoRejectCost"], wd, workers=4)
    vh = vlib.build_harness()
    n = 80 if tier == "quick" else 800
    hooks = wd + "/admit_hooks.ndjson"
    res = vlib.harness_json(vh, ["admit", "-scenarios", str(n), "-seed", str(seed), "-hooktrace", hooks], wd, timeout=3000, name="admit")
    for viol in res["violations"]:
        v.violation(viol["sig"], viol["what"], viol["replay"])
    if res.get("inconclusive"):
        if v.violations:
            return v.finish("model_checking", {"evaluations": res["evaluations"], "note": "stopped at the first definite wrong values; " + "; ".join(res["inconclusive"][:3])})
        raise vlib.Inconclusive("admit harness: " + "; ".join(res["inconclusive"][:3]))
    # two running nodes with one ID on real meshes
    dhooks = wd + "/dup_hooks.ndjson"
    dres = vlib.harness_json(vh, ["dupnode", "-scenarios", "6" if tier == "quick" else "40", "-seed", str(seed), "-hooktrace", dhooks],
                             wd, timeout=3000, name="dupnode")
    if dres.get("inconclusive"):
        raise vlib.Inconclusive("dupnode harness: " + "; ".join(dres["inconclusive"][:3]))
    for viol in dres["violations"]:
        v.violation(viol["sig"], viol["what"], viol["replay"])
    if dres["evaluations"] < 3 and not dres["violations"]:
        raise vlib.Inconclusive("duplicate-node scenarios: only %d could be judged (an instance lost its link in the others)" % dres["evaluations"])
    nt = nodetrace.validate(wd, [hooks, dhooks])
    for d in nt["diffs"]:
        if d["event"] in C11_EVENTS or any(w == "handled_update_that_must_be_rejected" or w.startswith("read_on_after_") for w in d["what"]):
            v.violation("C11:%s:%s" % (d["event"], "+".join(d["what"])),
                        "node event '%s' is not a behaviour of NetCore/NodeTrace: %s; event %s" % (d["event"], ",".join(d["what"]), d["context"][-1]),
                        {"instance": d["instance"], "context": d["context"]})
    for need in ("reject", "conn_add", "h_status", "conn_del"):
        if need not in nt["classes"]:
            raise vlib.Inconclusive("event kind never seen in the traces: " + need)
    cov = {
        "states": r1.distinct + r2.distinct, "transitions": r1.generated + r2.generated,
        "traces_validated_against_impl": nt["instances"],
        "evaluations": res["evaluations"] + dres["evaluations"], "distinct_nontrivial": res["distinct"] + dres["distinct"],
        "duplicate_node_scenarios": dres["evaluations"],
        "rule": "seeded scenarios: allow-list in {none,[pa,pb],[pb]} x per-node cost override x backend cost x 2-4 sessions announcing "
                "ids from {'',self,pa,pb,pc} (NodeID field sometimes different from ForwardingNode) on two backends, some handshakes "
                "concurrent, followed by list_ok / wrong cost / late init / drop us / forwarder changed / reject frame / close; "
                "evaluations = sessions played, distinct = distinct scenarios",
        "samples": res["samples"][:2], "exhaustive": False, "witnesses": wit,
        "node_trace_lines": nt["lines"], "event_kinds": nt["classes"],
        "tlc_design": {"spec": "Admit.tla", "cfgs": ["Admit_quick.cfg", "Admit_any.cfg"], "distinct": [r1.distinct, r2.distinct]},
    }
    return v.finish("model_checking", cov, assumptions=[
        "the type-3 reject frame is best effort (the session is closed right after it is queued); only closure is demanded",
        "duplicate-node scenarios: lines of 2-4 real nodes, the two instances start in different wall-clock seconds and attach to different neighbours; 30 s ceiling",
    ])
