"""C13 Work units only move forward; release removes them; unit IDs are unique.

Spec: specs/WorkUnit.tla (no-crash configuration): every interleaving of 2 client sessions with 2+1 (quick) / 2+2 (thorough) operations
(submit/status/cancel/release) with the runner process, the payload and the daemon's goroutines on one unit, at the
grain of file-system steps; properties StageMonotone, SucceededIsFinal, SizeMonotone (evaluated at the apply step of every
status rewrite and at every report to a client), CancelStops, ReleaseRemoves, UniqueIDs (second configuration: two ids,
forced collisions).  The variant without the repaired cancel must violate SucceededIsFinal.
Conformance (engine E3, real receptor binary): seeded concurrent client histories (3 clients; submit of finishing, long,
failing and instant command payloads, remote units executed by a second daemon, in-process units of a harness-built daemon
variant; status, list, cancel, release, force-release, results; on finished, cancelled, unknown and released units), a burst of
concurrent submits, release-then-requery (also with an undeletable status file), list-all raced against releases, and the
TLC-found cancel-vs-completion schedule replayed with SIGSTOP/SIGCONT.
Every sf_apply hook event (old state/size -> new state/size, from daemon AND runner processes) and every control-socket
answer is checked; /proc decides CancelStops, the data directory ReleaseRemoves; TLC validates every unit's stream of status
rewrites against WorkUnitTrace.tla (reusing WorkUnit's update table and step properties) and its status-file event stream
against StatusFileTrace.tla.
"""
import json, os
import vlib

PID = "C13"


def variant(wd, name, repl, inv):
    base = open(os.path.join(vlib.SPECS, "WorkUnit_quick.cfg")).read()
    for a, b in repl:
        assert a in base, a
        base = base.replace(a, b)
    r = vlib.tlc("WorkUnit", name, wd, timeout=1200, cfg_text=base)
    if r.violated != inv:
        raise vlib.Inconclusive("variant %s did not violate %s (exit %s violated=%s)" % (name, inv, r.exit, r.violated))
    return inv


def _keep_evidence(replay):
    """A --replay run re-executes one case: it must not replace the evidence of the last full run."""
    path = os.path.join(vlib.VERIF, "evidence", PID + ".json")
    return (path, open(path).read()) if replay and os.path.exists(path) else None


def _restore_evidence(kept):
    if kept:
        with open(kept[0], "w") as f:
            f.write(kept[1])


def run(tier, seed, replay=None):
    kept = _keep_evidence(replay)
    try:
        return _run(tier, seed, replay)
    finally:
        _restore_evidence(kept)


def _run(tier, seed, replay=None):
    wd = vlib.workdir(PID)
    v = vlib.Verdict(PID, tier, seed)
    cfg = "WorkUnit_quick.cfg" if tier == "quick" else "WorkUnit_full.cfg"   # sessions x operations: 2+1 / 2+2 (and 2 output chunks)
    r = vlib.tlc_must_pass("WorkUnit", cfg, wd, timeout=2400, heap="10g")
    # quick keeps the number of TLC launches small (a JVM start costs tens of seconds on the loaded machine): the two-id
    # configuration, the must-fail variants and the witnesses run in the thorough tier
    variants, wit = {}, []
    r2 = None
    if tier != "quick":
        r2 = vlib.tlc_must_pass("WorkUnit", "WorkUnit_ids.cfg", wd, timeout=1200)
        variants = {"CancelKeepsSucceeded=FALSE (the repaired defect)":
                    variant(wd, "wu_cancel_asis.cfg", [("CancelKeepsSucceeded = TRUE", "CancelKeepsSucceeded = FALSE")], "SucceededIsFinal"),
                    "UnregFirst=TRUE (index entry deleted before the files: a concurrent look-up re-registers the unit)":
                    variant(wd, "wu_unregfirst.cfg", [("UnregFirst = FALSE", "UnregFirst = TRUE")], "ReleaseRemoves"),
                    "ScanRegistersAlias=TRUE (a non-canonical spelling of an id registers a second unit over the same directory)":
                    variant(wd, "wu_alias.cfg", [("ScanRegistersAlias = FALSE", "ScanRegistersAlias = TRUE")], "UniqueIDs")}
        wit = vlib.witnesses("WorkUnit", "WorkUnit_quick.cfg", ["W_NoSucceeded", "W_NoCanceled", "W_NoRelease", "W_NoKilled"], wd)

    # remote-work protocol (RemoteUnit.tla): exhaustive parts in thorough only
    remote = {}
    if tier != "quick":
        rr = vlib.tlc_must_pass("RemoteUnit", "RemoteUnit.cfg", wd, timeout=2400, heap="10g")
        rl = vlib.tlc("RemoteUnit", "RemoteUnit_live.cfg", wd, timeout=2400, deadlock=False)
        if not rl.ok:
            raise vlib.Inconclusive("RemoteUnit liveness configuration failed (exit %s, violated=%s)" % (rl.exit, rl.violated))
        rq = open(os.path.join(vlib.SPECS, "RemoteUnit_quick.cfg")).read()
        rv = {}
        for cname, repl, inv in (("StdoutFromZero", [("StdoutFromZero = FALSE", "StdoutFromZero = TRUE"), ("MaxOut = 1", "MaxOut = 2"),
                                                     ('ClientOps = {"cancel", "release", "frelease"}', "ClientOps = {}")], "LocalOutputIsPrefix"),
                                  ("ReleaseSkipsRemote", [("ReleaseSkipsRemote = FALSE", "ReleaseSkipsRemote = TRUE")], "ReleaseRemovesBoth")):
            t = rq
            for a, b in repl:
                assert a in t, a
                t = t.replace(a, b)
            x = vlib.tlc("RemoteUnit", "ru_%s.cfg" % cname, wd, timeout=1200, cfg_text=t)
            if x.violated != inv:
                raise vlib.Inconclusive("RemoteUnit variant %s did not violate %s (violated=%s exit %s)" % (cname, inv, x.violated, x.exit))
            rv[cname] = inv
        rw = vlib.witnesses("RemoteUnit", "RemoteUnit_quick.cfg", ["W_NoReconnect", "W_NoCancelRetry", "W_NoReleaseWithEGone", "W_NoGaveUp", "W_NoQuietMirror", "W_NoQuietCancel"], wd)
        remote = {"tlc": {"spec": "RemoteUnit.tla", "cfg": "RemoteUnit.cfg", "generated": rr.generated, "distinct": rr.distinct, "wall_s": round(rr.wall, 1)},
                  "liveness": {"cfg": "RemoteUnit_live.cfg", "distinct": rl.distinct, "properties": ["OutputEventuallyComplete", "CancelEventuallyReachesE"]},
                  "variants_violated": rv, "witnesses": rw}
    rec = vlib.private_copy(vlib.build_receptor(), wd)   # daemons re-execute this path; other checks rebuild .work/bin
    vd = vlib.build_harness("vd")
    inproc = vlib.private_copy(vlib.build_harness("receptor-inproc"), wd)   # cmd/receptor-cl + one in-process work type on BaseWorkUnit
    if replay:
        seed = int(json.load(open(replay))["replay"].get("seed", seed))
        if seed >= 100:
            seed //= 100
    hist, ops = (3, 14) if tier == "quick" else (16, 30)
    res = vlib.harness_json(vd, ["c13", "-bin", rec, "-dir", os.path.join(wd, "runs"), "-seed", str(seed), "-histories", str(hist), "-ops", str(ops), "-inproc-bin", inproc,
                                  "-rsched", "cut-during-monitoring,restart-submitter-during-monitoring,release-with-executor-gone,cancel-while-disconnected,release-while-disconnected" if tier == "quick" else
                                  "cut-during-monitoring,restart-submitter-during-monitoring,cancel-while-disconnected,cancel-then-restart-submitter,release-while-disconnected,release-with-executor-gone",
                                  "-rwtraces", "3" if tier == "quick" else "0"],
                            wd, timeout=3000, name="vd_c13")
    for viol in res["violations"]:
        v.violation(viol["sig"], viol["what"], viol["replay"])
    if res.get("inconclusive") and not v.violations:
        # deadline hits / tool failures without any definite wrong value
        raise vlib.Inconclusive("; ".join(res["inconclusive"][:5]))
    ex = res["extra"]
    traces = 0
    tv = {}
    if ex.get("norm_events"):
        t = vlib.tlc("StatusFileTrace", "StatusFileTrace.cfg", wd, timeout=2400, workers=1, files=[ex["norm_file"]], heap="6g")
        tv = {"events": ex["norm_events"], "status_files": ex["status_files"], "accepted": t.ok, "depth": t.depth, "wall_s": round(t.wall, 1)}
        if t.ok:
            traces = ex["status_files"]
        elif "Postcondition TraceAccepted" in t.output or t.violated:
            if not [x for x in res["violations"] if x["sig"].startswith("C13:status-file-")]:
                v.violation("C13:status-trace-rejected", "TLC rejected the status-file event stream of the units after about %d steps" % t.depth,
                            {"norm": ex["norm_file"], "seed": seed})
        else:
            raise vlib.Inconclusive("TLC failed on the unit traces (exit %s):\n%s" % (t.exit, t.output[-2000:]))
    ut = {}
    if ex.get("unit_trace_events"):
        t = vlib.tlc("WorkUnitTrace", "WorkUnitTrace.cfg", wd, timeout=2400, workers=1, files=[ex["unit_trace_file"]], heap="6g")
        ut = {"events": ex["unit_trace_events"], "accepted": t.ok, "depth": t.depth, "wall_s": round(t.wall, 1)}
        if not t.ok:
            if "Postcondition UnitTraceAccepted" in t.output:
                # a rejection is a violation of its own unless a rewrite violation already reported explains it
                if not [x for x in res["violations"] if x["sig"].split(":")[1].startswith(("stage-", "succeeded-", "size-", "status-file-"))]:
                    v.violation("C13:unit-trace-rejected", "TLC rejected the stream of status rewrites after %d events: not a behaviour of WorkUnit.tla" % max(0, t.depth - 1),
                                {"trace": ex["unit_trace_file"], "seed": seed})
            else:
                raise vlib.Inconclusive("TLC failed on the unit rewrite traces (exit %s):\n%s" % (t.exit, t.output[-2000:]))
    rt = {}
    if ex.get("rw_trace_events"):
        t = vlib.tlc("RemoteUnitTrace", "RemoteUnitTrace.cfg", wd, timeout=2400, workers=1, files=[ex["rw_trace_file"]], heap="6g")
        rt = {"events": ex["rw_trace_events"], "accepted": t.ok, "states": t.distinct, "wall_s": round(t.wall, 1)}
        if not t.ok:
            if "Postcondition RTraceAccepted" in t.output or t.violated:
                v.violation("C13:remote-trace-rejected", "TLC rejected the rw_* event stream of the remote fault schedules (violated=%s): not a behaviour of RemoteUnit.tla" % t.violated,
                            {"trace": ex["rw_trace_file"], "seed": seed})
            else:
                raise vlib.Inconclusive("TLC failed on the remote protocol traces (exit %s):\n%s" % (t.exit, t.output[-2000:]))
    c = res["counters"]
    v.notes.extend(res.get("notes") or [])   # e.g. scenario set-ups that had to be repeated, with the daemon's own last words
    if c.get("cancel_race_completion_won", 0) == 0:
        v.notes.append("cancel-vs-completion: the completion branch was not taken in %d attempts" % c.get("cancel_race_attempts", 0))
    cov = {
        "states": r.distinct + (r2.distinct if r2 else 0), "transitions": r.generated + (r2.generated if r2 else 0), "traces_validated_against_impl": traces,
        "evaluations": res["evaluations"], "distinct_nontrivial": res["distinct"],
        "rule": "evaluations = client operations answered by the real daemon in the seeded histories + concurrent submits + cancel-race attempts; "
                "distinct_nontrivial = distinct state paths of a unit's stored record (sequence of old>new state pairs over all its sf_apply events, repeats collapsed) "
                "observed in this run",
        "samples": res["samples"][:3], "exhaustive": False,
        "state_paths": ex.get("state_paths"), "counters": c, "trace_validation": tv, "unit_rewrite_trace_validation": ut,
        "remote_protocol": remote, "remote_protocol_trace_validation": rt, "remote_schedules": ex.get("remote_schedules"),
        "tlc": [{"spec": "WorkUnit.tla", "cfg": cfg, "generated": r.generated, "distinct": r.distinct, "depth": r.depth, "wall_s": round(r.wall, 1)},
                ] + ([{"spec": "WorkUnit.tla", "cfg": "WorkUnit_ids.cfg", "generated": r2.generated, "distinct": r2.distinct, "depth": r2.depth, "wall_s": round(r2.wall, 1)}] if r2 else []),
        "variants_violated": variants, "witnesses": wit, "notes": v.notes,
    }
    return v.finish("model_checking", cov, assumptions=[
        "unit kinds driven: local command units (bash payload on stdin), remote units between two real daemons (even-numbered histories), and one in-process unit type "
        "(a Go WorkUnit on BaseWorkUnit registered by harness/cmd/receptor-inproc, odd-numbered histories); kubernetes/python units are not driven",
        "'release removes' is also checked some time after the answer, for never-started remote units, and with an undeletable status file (chattr +i); list-all is raced against releases",
        "reported-status monotonicity is checked per client session in the histories, and across ALL sessions in real-time order (answer received before another request was sent) "
        "in the poll-storm scenario (6 sessions polling one in-process / command unit back to back during progress, completion and cancel)",
        "CancelStops is decided on the runner pid and the payload pid (direct child of the runner); grandchildren of the payload are outside the statement",
        "WorkUnitTrace.tla validates the stream of status rewrites (sf_apply: continuity, each rewrite is one of WorkUnit's updates, step properties); StatusFileTrace.tla the lock discipline; "
        "the other life-cycle events (mkdir, ack, spawn, cancel stages, release) are checked by Go oracles, not bound to WorkUnit actions by TLC",
        "unit ids are 8 random characters: collisions are forced only in the specification (WorkUnit_ids.cfg), not in the real daemon",
    ])
