"""C15 Signature-protected work cannot be driven remotely without a valid token.

Spec: specs/ControlSession.tla part "c15": Effect(cmd, connection kind, work-type class, token class).  TLC enumerates
the complete product (5 x 3 x 5 x 10 = 750 vectors), checks NoEffectWithoutToken / UnexpectedTokenRefused /
ValidTokenSuffices on it and exports it; cmd/vctl c15 replays every vector on a real daemon (verifying and
non-verifying command types, remote units with and without signwork, a unit of an unknown type) over the Unix socket,
the TCP control listener and a mesh stream from a second daemon, with real JWTs, and decides from before/after
snapshots whether the command took effect.
"""
import concurrent.futures as cf
import os
import vlib
import vctl_common

SPEC = "ControlSession"


def run(tier, seed, replay=None):
    pid = "C15"
    wd = vctl_common.run_dir(pid)
    v = vlib.Verdict(pid, tier, seed)
    quick = tier == "quick"
    inst = 1   # one token variant per vector and run (the variants rotate with the seed)
    with cf.ThreadPoolExecutor(max_workers=4) as ex:
        # the two exports first (in parallel), then the harness runs while TLC refutes the two short-cuts and finds the witnesses
        f1 = ex.submit(vlib.tlc_must_pass, SPEC, "ControlSession_c15.cfg", wd, 1, 600)
        f2 = ex.submit(vlib.tlc_must_pass, SPEC, "ControlSession_c15seq.cfg", wd, 2, 600)
        r, rq = f1.result(), f2.result()
        vectors, seqs = os.path.join(r.dir, "c15.ndjson"), os.path.join(rq.dir, "c15seq.ndjson")
        nvec, nseq = sum(1 for _ in open(vectors)), sum(1 for _ in open(seqs))
        if nvec != r.distinct:
            raise vlib.Inconclusive("vector file has %d lines but TLC found %d distinct states" % (nvec, r.distinct))
        vctl = vlib.build_harness("vctl")
        args = ["c15", "-vectors", vectors, "-receptor", vctl_common.receptor_copy(wd), "-work", wd, "-seed", str(seed), "-instances", str(inst), "-seqs", seqs]
        if quick:
            # seeded stratified subset: one rotating token class in every (command, connection, work type) cell, plus valid and
            # absent in the cells the property protects; the quick selection of sequences
            args += ["-subset", "1"]
        else:
            args += ["-seqmid"]
        if replay:
            args += ["-replay", replay]
        fh = ex.submit(vlib.harness_json, vctl, args, wd, 3000)

        def _refute(cname, label):
            rc = vlib.tlc(SPEC, cname, wd, workers=1, timeout=600)
            if rc.violated != "NoEffectWithoutTokenSeq":
                raise vlib.Inconclusive("the model with %s did not violate NoEffectWithoutTokenSeq: exit %s\n%s" % (label, rc.exit, rc.output[-1200:]))
            return label + " refuted"

        fr, fw = [], []
        if not replay:
            fr = [ex.submit(_refute, "ControlSession_c15seq_cache.cfg", "VerifierRemembersTokens"), ex.submit(_refute, "ControlSession_c15seq_carry.cfg", "ConnectionRemembersToken")]
            fw = [ex.submit(vlib.witnesses, SPEC, "ControlSession_c15.cfg", ["W15_NoRefusal"] if quick else ["W15_NoRemoteEffect", "W15_NoUnixBypass", "W15_NoRefusal"], wd, 300, 1)]
            if not quick:
                fw.append(ex.submit(vlib.witnesses, SPEC, "ControlSession_c15seq.cfg", ["W15Seq_NoReplayRefused", "W15Seq_NoTokenlessFollowUp"], wd, 300, 1))
        res = fh.result()
        wit = [x for f in fw for x in f.result()] + [f.result() for f in fr]
    for viol in res["violations"]:
        v.violation(viol["sig"], viol["what"], viol["replay"])
    if res.get("inconclusive") and not v.violations:
        raise vlib.Inconclusive("; ".join(res["inconclusive"][:5]))
    planned = res["counters"].get("vectors", 0) * inst
    nsu = res["counters"].get("seq_uses", 0)
    if not replay and not v.violations and res["counters"].get("polled_remote_units", 0) == 0:
        raise vlib.Inconclusive("no signed remote unit was started on the executor and polled: %s" % res["counters"])
    if not replay and not v.violations and (res["counters"].get("seq_replays_refused", 0) == 0 or res["counters"].get("seq_valid_reuse", 0) == 0
                                            or res["counters"].get("seq_sameconn_tokenless_refused", 0) == 0 or res["counters"].get("seq_sameconn_own_token_accepted", 0) == 0
                                            or res["counters"].get("seq_not_established", 0) > res["counters"].get("sequences", 0) // 3):
        raise vlib.Inconclusive("sequence phase vacuous or not established: %s" % res["counters"])
    if not replay and not v.violations and (res["evaluations"] != planned + nsu or (not quick and planned != nvec * inst) or planned < 90 * inst):
        raise vlib.Inconclusive("harness evaluated %d of %d planned vector instances + %d sequence uses (table %d)" % (res["evaluations"], planned, nsu, nvec))
    c = res["counters"]
    if not replay and (c.get("effects_confirmed", 0) == 0 or c.get("refusals_confirmed", 0) == 0):
        if not res["violations"]:
            raise vlib.Inconclusive("vacuous run: effects %s refusals %s" % (c.get("effects_confirmed"), c.get("refusals_confirmed")))
    cov = {
        "states": r.distinct + rq.distinct, "transitions": r.generated + rq.generated, "traces_validated_against_impl": 0,
        "token_sequences_enumerated": nseq, "token_sequences_replayed": res["counters"].get("sequences", 0),
        "evaluations": res["evaluations"], "distinct_nontrivial": res["distinct"],
        "rule": "TLC enumerates every (command, connection kind, work-type class, token class) vector of ControlSession.tla part c15, plus submit with "
                "five other spellings of the registered type names (capitalisation, surrounding white space, look-alike letters) judged by the rule "
                "'refused as unknown type or held to the token rule of the type it runs as', and cancel/release/force-release/results on a signed remote unit "
                "that really runs on the second daemon and whose status has been mirrored at least once (token rule fixed by its signwork flag); " +
                ("quick: a seeded stratified subset (every one of the 90 command x connection x work-type cells with one token class rotating with "
                 "cell and seed plus valid and absent in the protected cells) is " if quick else "every vector is ") +
                "executed %d time(s) on the real daemon with freshly built tokens (valid: RS512/RS256/PS384 by the configured key; expired; other audience "
                "incl. none/empty/upper-case; other key; alg none with and without a borrowed signature; HS256/HS512 keyed with the public-key PEM; "
                "truncated; empty; garbage) and a live unit of the class; effect = new unit / state change / runner pid gone / directory removed / "
                "stream bytes received, from snapshots taken over the Unix socket and the file system. Then token life-cycle sequences of part c15seq "
                "(use a, [tick past expiry, [restart]], use b - thorough: all same-command and submit-token pairs, the same-command, submit-token-for-other-command, reuse-while-valid "
                "and after-restart ones in quick): a token living 3-4 s is accepted, and the identical string is replayed >= 1.5 s after its expiry; and "
                "same-connection sequences (a command with a valid token, then a command for the same / another unit with its own token or with NONE, "
                "per connection kind: judged by its own token only); "
                "distinct = distinct (vector, token variant, request form) + distinct sequences" % inst,
        "samples": (res.get("samples") or [{"note": "run stopped before sampling"}])[:6], "exhaustive": not quick, "vectors": nvec,
        "vectors_replayed": res["counters"].get("vectors", 0), "instances_per_vector": inst,
        "counters": c, "witnesses": wit,
        "tlc": {"spec": "ControlSession.tla", "cfg": "ControlSession_c15.cfg", "generated": r.generated, "distinct": r.distinct, "wall_s": round(r.wall, 1)},
    }
    return v.finish("model_checking", cov, assumptions=[
        "the JWT library (golang-jwt v4) and crypto/rsa are trusted; token classes are sampled by a few concrete variants each",
        "remote units are submitted for an unreachable node so that cancel/release act locally and deterministically",
        "for submit the code looks the named type up in the local registry; a remote submission names a type of the other node, so the "
        "submitting node never asks for a token (modelled as such: Verifies(submit, remote_sign) = FALSE)",
    ])
