"""C20 Issued certificates carry exactly the requested names and verify as those IDs.

Spec: specs/CertNames.tla - request shapes (node-id list x byte-length class x character class, DNS list, IP list,
key, validity window, candidate ids), a DER length sub-model that yields the boundary classes of node-id length, and
the oracle (names read back = names requested; VerifyAs(id) <=> id requested; decoding gives the encoded ids or an
error).  TLC enumerates the shapes and checks the model; cmd/vtab certs concretises every vector with seeded strings
of exactly the prescribed byte lengths and pushes it through the real CreateCertReq(WithKey) / GetReqNames /
SignCertReq / MakeReq / SignReq / ReceptorNames / ReceptorVerifyFunc.
"""
import os, re
import vlib, vtables

WITNESSES = ["W_NoLongHeader", "W_NoFourByteHdr", "W_NoDuplicates", "W_NoExpired", "W_NoThreshold128", "W_NoDecodeError", "W_NoNewKey"]


def run(tier, seed, replay=None):
    pid = "C20"
    wd = vlib.workdir(pid)
    v = vlib.Verdict(pid, tier, seed)
    cfg = "CertNames_quick.cfg" if tier == "quick" else "CertNames_full.cfg"
    r = vlib.tlc_must_pass("CertNames", cfg, wd, timeout=1800, workers=1)
    wit = vtables.witnesses_once("CertNames", "CertNames_quick.cfg", WITNESSES, wd)
    # the DER sub-model must predict the defect class of a fixed 2-byte strip: RoundTrip fails with LegacyStrip = TRUE
    legacy = open(os.path.join(vlib.SPECS, "CertNames_quick.cfg")).read().replace("LegacyStrip = FALSE", "LegacyStrip = TRUE")
    legacy = re.sub(r'DumpFile\s*=\s*"[^"]*"', 'DumpFile = ""', legacy)
    lr = vlib.tlc("CertNames", "CertNames_legacy.cfg", wd, workers=1, timeout=600, cfg_text=legacy)
    if lr.violated != "RoundTrip":
        raise vlib.Inconclusive("the model with LegacyStrip = TRUE does not violate RoundTrip (violated=%s)" % lr.violated)
    wit.append("RoundTrip@LegacyStrip")
    vectors = os.path.join(r.dir, "vectors.ndjson")
    recs = vlib.read_ndjson(vectors)
    if len(recs) != r.distinct:
        raise vlib.Inconclusive("vector file has %d lines but TLC found %d distinct states" % (len(recs), r.distinct))
    if replay:
        vec, _ = vtables.replay_vector(replay)
        vectors = os.path.join(wd, "replay.ndjson")
        vlib.write_ndjson(vectors, [vec])
        recs = [vec]
    lens = sorted({i["len"] for x in recs for i in x["ids"]})
    vt = vlib.build_harness("vtab")
    inst = 2 if tier == "quick" else 6
    if replay:
        inst = 8
    cli_every = 2 if (tier == "quick" and not replay) else 1
    res = vlib.harness_json(vt, ["certs", "-vectors", vectors, "-seed", str(seed), "-instances", str(inst), "-cli-every", str(cli_every)],
                            wd, timeout=3000)
    if res.get("inconclusive"):
        raise vlib.Inconclusive("; ".join(res["inconclusive"][:5]))
    c = res["counters"]
    done = sum(c.get("vectors_" + f, 0) for f in ("ids", "names", "san", "decode"))
    if done != len(recs):
        raise vlib.Inconclusive("harness evaluated %d of %d vectors" % (done, len(recs)))
    for viol in res["violations"]:
        v.violation(viol["sig"], viol["what"], viol["replay"])
    if not replay and not res["violations"]:
        for k in ("certificates_made", "cli_certificates_made", "verify_accept_expected", "der_sizes_checked", "decode_errors_expected"):
            if c.get(k, 0) == 0:
                raise vlib.Inconclusive("vacuous run: counter %s is zero" % k)
    cov = {
        "evaluations": res["evaluations"], "distinct_nontrivial": res["distinct"],
        "rule": "TLC enumerates the request shapes of CertNames.tla (%s; node-id byte lengths %s from the DER sub-model's boundaries +-1). Every shape is "
                "concretised %d times with seeded strings of exactly the prescribed byte length and character class and pushed through CreateCertReq(WithKey) -> "
                "GetReqNames -> SignCertReq -> x509 parse -> ReceptorNames -> ReceptorVerifyFunc for every candidate id (each requested id, prefix, extension, "
                "case variant, neighbouring length, empty, DNS name, CN), and (every %s vector) once through MakeReq/SignReq on files; the SAN bytes are re-read by an independent "
                "DER decoder and their sizes compared with the model; 'decode' vectors feed ReceptorNames with SANs made by an independent encoder. "
                "distinct = distinct concrete requests (ids, DNS, IPs, key mode, window) plus decode vectors" % (cfg, lens, inst, "2nd" if cli_every == 2 else "single"),
        "samples": res["samples"][:12], "exhaustive": False,
        "states": r.distinct, "transitions": r.generated,
        "vectors": len(recs), "vectors_by_family": {f: c.get("vectors_" + f, 0) for f in ("ids", "names", "san", "decode")},
        "id_byte_lengths": lens, "instances_per_vector": inst,
        "requests_made": c.get("requests_made", 0), "certificates_made": c.get("certificates_made", 0),
        "cli_certificates_made": c.get("cli_certificates_made", 0), "verify_calls": c.get("verify_calls", 0),
        "verify_accepts_expected": c.get("verify_accept_expected", 0), "der_sizes_checked": c.get("der_sizes_checked", 0),
        "decode_calls": c.get("decode_calls", 0), "counters": c, "witnesses": wit,
        "tlc": {"spec": "CertNames.tla", "cfg": cfg, "generated": r.generated, "distinct": r.distinct, "wall_s": round(r.wall, 1)},
    }
    return v.finish("exploration", cov, assumptions=[
        "TLA+ contributes the case partition, the DER boundary arithmetic and the oracle; inside a (length, character class) cell strings are sampled from the seed, not enumerated",
        "inputs outside the quantifier (node ids that are not UTF-8, non-IA5 DNS names, IP addresses of other sizes) may be refused or be unreadable afterwards, but must never read back as a different name",
        "IP addresses are compared with net.IP.Equal (an IPv4-mapped request is the same address as its 4-byte form)",
        "Go crypto/x509 parsing and chain verification are trusted; 'new key' requests use 1024-bit keys to keep key generation cheap",
        "names are compared as multisets; validity windows to the second",
    ])
