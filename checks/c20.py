"""C20 Issued certificates carry exactly the requested names and verify as those IDs.

Spec: specs/CertNames.tla - request shapes (node-id list x byte-length class x character class, DNS list, IP list,
key, validity window, candidate ids), a DER length sub-model that yields the boundary classes of node-id length, and
the oracle (names read back = names requested; VerifyAs(id) <=> id requested; decoding gives the encoded ids or an
error).  TLC enumerates the shapes and checks the model; cmd/vtab certs concretises every vector with seeded strings
of exactly the prescribed byte lengths and pushes it through the real CreateCertReq(WithKey) / GetReqNames /
SignCertReq / MakeReq / SignReq / ReceptorNames / ReceptorVerifyFunc.
"""
import os, re
import vlib, vtables

WITNESSES = ["W_NoLongHeader", "W_NoFourByteHdr", "W_NoDuplicates", "W_NoExpired", "W_NoThreshold128", "W_NoDecodeError", "W_NoNewKey",
             "W_NoIssuedAfterVerifier", "W_NoExpiresLater"]
# counter-example variants of the model and the invariant each must violate
VARIANTS = {"LegacyStrip": "RoundTrip", "KF_TimeFrozenAtCreation": "ValidityJudgedAtVerification"}


def run(tier, seed, replay=None):
    pid = "C20"
    wd = vlib.workdir(pid)
    v = vlib.Verdict(pid, tier, seed)
    cfg = "CertNames_quick.cfg" if tier == "quick" else "CertNames_full.cfg"
    r = vlib.tlc_must_pass("CertNames", cfg, wd, timeout=1800, workers=1)
    wit = vtables.witnesses_once("CertNames", "CertNames_quick.cfg", WITNESSES, wd)
    # the counter-example variants must be rejected by the model: the DER sub-model predicts the defect class of a fixed 2-byte strip
    # (RoundTrip fails with LegacyStrip = TRUE), and a verifier that reads the clock when it is built fails ValidityJudgedAtVerification
    vr = vlib.tlc("CertNames", "CertNames_variants.cfg", wd, workers=1, timeout=600, extra=["-continue"])
    violated = set(re.findall(r"Invariant (\S+) is violated", vr.output))
    for const, inv in VARIANTS.items():
        if inv not in violated:
            raise vlib.Inconclusive("the model with %s = TRUE does not violate %s (violated: %s)" % (const, inv, sorted(violated)))
        wit.append("%s@%s" % (inv, const))
    vectors = os.path.join(r.dir, "vectors.ndjson")
    recs = vlib.read_ndjson(vectors)
    if len(recs) != r.distinct:
        raise vlib.Inconclusive("vector file has %d lines but TLC found %d distinct states" % (len(recs), r.distinct))
    if replay:
        vec, _ = vtables.replay_vector(replay)
        vectors = os.path.join(wd, "replay.ndjson")
        vlib.write_ndjson(vectors, [vec])
        recs = [vec]
    lens = sorted({i["len"] for x in recs for i in x["ids"]})
    vt = vlib.build_harness("vtab")
    inst = 2 if tier == "quick" else 6
    if replay:
        inst = 8
    cli_every = 2 if (tier == "quick" and not replay) else 1
    res = vlib.harness_json(vt, ["certs", "-vectors", vectors, "-seed", str(seed), "-instances", str(inst), "-cli-every", str(cli_every),
                                 "-clock-step", "2s" if tier == "quick" else "4s"],
                            wd, timeout=3000)
    if res.get("inconclusive"):
        raise vlib.Inconclusive("; ".join(res["inconclusive"][:5]))
    c = res["counters"]
    nclock = sum(1 for x in recs if x["fam"] == "clock")
    if c.get("vectors_clock", 0) < (3 * nclock) // 4:
        raise vlib.Inconclusive("only %d of %d time-line vectors could be run within their ticks" % (c.get("vectors_clock", 0), nclock))
    done = sum(c.get("vectors_" + f, 0) for f in ("ids", "names", "san", "decode", "clock", "clock_not_judged"))
    if done != len(recs):
        raise vlib.Inconclusive("harness evaluated %d of %d vectors" % (done, len(recs)))
    for viol in res["violations"]:
        v.violation(viol["sig"], viol["what"], viol["replay"])
    if not replay and not res["violations"]:
        for k in ("certificates_made", "cli_certificates_made", "verify_accept_expected", "der_sizes_checked", "decode_errors_expected",
                  "clock_issued_after_verifier_accept_expected", "clock_refuse_outside_window_expected"):
            if c.get(k, 0) == 0:
                raise vlib.Inconclusive("vacuous run: counter %s is zero" % k)
    cov = {
        "evaluations": res["evaluations"], "distinct_nontrivial": res["distinct"],
        "rule": "TLC enumerates the request shapes of CertNames.tla (%s; node-id byte lengths %s from the DER sub-model's boundaries +-1). Every shape is "
                "concretised %d times with seeded strings of exactly the prescribed byte length and character class and pushed through CreateCertReq(WithKey) -> "
                "GetReqNames -> SignCertReq -> x509 parse -> ReceptorNames -> ReceptorVerifyFunc for every candidate id (each requested id, prefix, extension, "
                "case variant, neighbouring length, empty, DNS name, CN), and (every %s vector) once through MakeReq/SignReq on files; the SAN bytes are re-read by an independent "
                "DER decoder and their sizes compared with the model; 'decode' vectors feed ReceptorNames with SANs made by an independent encoder. "
                "'clock' vectors run in real time: verifiers built at one tick, the certificate issued by the tooling at the same or a later tick (default, short and "
                "late windows) and verified at every later tick. distinct = distinct concrete requests (ids, DNS, IPs, key mode, window) plus decode and clock vectors" % (cfg, lens, inst, "2nd" if cli_every == 2 else "single"),
        "samples": res["samples"][:12], "exhaustive": False,
        "states": r.distinct, "transitions": r.generated,
        "vectors": len(recs), "vectors_by_family": {f: c.get("vectors_" + f, 0) for f in ("ids", "names", "san", "decode", "clock")},
        "clock": {k[6:]: n for k, n in c.items() if k.startswith("clock_")},
        "id_byte_lengths": lens, "instances_per_vector": inst,
        "requests_made": c.get("requests_made", 0), "certificates_made": c.get("certificates_made", 0),
        "cli_certificates_made": c.get("cli_certificates_made", 0), "verify_calls": c.get("verify_calls", 0),
        "verify_accepts_expected": c.get("verify_accept_expected", 0), "der_sizes_checked": c.get("der_sizes_checked", 0),
        "decode_calls": c.get("decode_calls", 0), "counters": c, "witnesses": wit,
        "tlc": {"spec": "CertNames.tla", "cfg": cfg, "generated": r.generated, "distinct": r.distinct, "wall_s": round(r.wall, 1)},
    }
    return v.finish("exploration", cov, assumptions=[
        "TLA+ contributes the case partition, the DER boundary arithmetic and the oracle; inside a (length, character class) cell strings are sampled from the seed, not enumerated",
        "inputs outside the quantifier (node ids that are not UTF-8, non-IA5 DNS names, IP addresses of other sizes) may be refused or be unreadable afterwards, but must never read back as a different name",
        "IP addresses are compared with net.IP.Equal (an IPv4-mapped request is the same address as its 4-byte form)",
        "Go crypto/x509 parsing and chain verification are trusted; 'new key' requests use 1024-bit keys to keep key generation cheap",
        "names are compared as multisets; validity windows to the second",
        "time-line family: real time passes (ticks of 2 s quick / 4 s thorough, window bounds half a tick from the tick instants); an operation not completed within 0.8 s (1.6 s) of its tick is not judged",
    ])
