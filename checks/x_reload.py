"""X-RELOAD (extra check, not one of the 20 listed properties): the control service's reload command.

Design level: specs/Reload.tla models pkg/controlsvc/reload.go at the code's grain - the file is read three times
(PreReload / checkReload / PreReload+Reload), the per-item flags of cfgNotReloadable, CancelBackends split into the
cancellation and BackendWait on the node-wide wait group, one AddBackend per entry - interleaved with backend sessions
(fresh, registered, established), file edits and a second control session.  TLC checks: a reload refused before the
cancellation changes nothing (action property + no flag left set), a reload goes on only if nothing but backend
entries differs, no connection entry without a live session, nothing old left when BackendWait returns, after an
accepted reload exactly the file's backends run, no backend started twice / uncancellable, and (fair configuration)
every reload ends and the peers are established again.  Four configurations whose violation is EXPECTED document the
code as found (flags left set by a refused reload; no mutual exclusion of reloads; the listener leaving the wait group
before it closes its socket - all three repaired) and the seeded session leak.
Conformance: harness/cmd/vctl reload replays TLC-exported scenarios (file edits x reloads x mode plain / session held
mid-establishment / two reloads at once / other sessions asking) on a real mesh of four daemons and compares replies
and `status`; the hook events of the daemon under test are validated by TLC against specs/ReloadTrace.tla."""
import concurrent.futures as cf
import json, os, re
import vlib
import vctl_common

PID = "X-RELOAD"
WITNESSES = ["W_NoRefusedOtherSection", "W_NoMidEstablishment", "W_NoOverlap", "W_NoRefusedRemoved", "W_NoFailAfterCancel", "W_NoSuccessWithChange"]
EXPECTED = [("Reload_asis_flags.cfg", "AcceptOnlyBackendChanges"), ("Reload_leak.cfg", "NoOldConnAfterWait"), ("Reload_asis_overlap.cfg", "NoDuplicateBackend"),
            ("Reload_asis_port.cfg", "NoSpuriousStartFailure")]


def validate_traces(wd, trace_file):
    """TLC runs ReloadTrace.tla over the concatenated daemon lives; returns (lives, events, diffs)."""
    events = [json.loads(l) for l in open(trace_file) if l.strip()]
    lives = sum(1 for e in events if e["ev"] == "reset")
    if not events:
        return 0, 0, []
    r = vlib.tlc("ReloadTrace", "ReloadTrace.cfg", wd, workers=1, timeout=900, files=[trace_file])
    if '"DONE"' not in r.output:
        raise vlib.Inconclusive("trace validation did not reach the end of the trace (exit %s):\n%s" % (r.exit, r.output[-1500:]))
    diffs = []
    for m in re.finditer(r'<<"DIFF", (\d+), "([a-z_]+)", \{([^}]*)\}>>', r.output):
        line, ev, why = int(m.group(1)), m.group(2), sorted(x.strip().strip('"') for x in m.group(3).split(","))
        diffs.append({"line": line, "event": ev, "why": why, "scenario": events[line - 1].get("sc"), "context": events[max(0, line - 12):line]})
    return lives, len(events), diffs


def run(tier, seed, replay=None):
    wd = vctl_common.run_dir("X_Reload")
    v = vlib.Verdict(PID, tier, seed)
    quick = tier == "quick"
    exp = vlib.tlc_must_pass("Reload", "Reload_export.cfg", wd, workers=1, timeout=600)   # one state: only writes the scenarios
    scen = os.path.join(exp.dir, "scenarios.ndjson")
    nscen = sum(1 for _ in open(scen))
    vctl = vlib.build_harness("vctl")
    vrd = vlib.build_harness("vrd")
    traces = os.path.join(wd, "trace.ndjson")
    args = ["reload", "-scenarios", scen, "-receptor", vctl_common.receptor_copy(wd), "-vrd", vrd, "-work", wd, "-seed", str(seed), "-traces", traces,
            "-par", "8" if quick else "10"]
    if replay:
        args += ["-replay", replay]
    else:
        args += ["-max", "34" if quick else "0"]
    cfgs = [("Reload_quick.cfg", 4, 900)]
    expected, witnesses = [], []
    if not replay:
        cfgs.append(("Reload_two.cfg", 4, 900))
        expected = EXPECTED[:2] + EXPECTED[3:] if quick else EXPECTED
        witnesses = WITNESSES[:3] if quick else WITNESSES
        if not quick:
            cfgs += [("Reload_full.cfg", 6, 2400), ("Reload_live.cfg", 4, 2400)]

    def _design(cfg, w, t):
        return cfg, vlib.tlc_must_pass("Reload", cfg, wd, workers=w, timeout=t)

    def _expected(cfg, inv):
        r = vlib.tlc("Reload", cfg, wd, workers=2, timeout=900)
        if r.violated != inv:
            raise vlib.Inconclusive("%s: expected a counter-example to %s, got violated=%s exit=%s" % (cfg, inv, r.violated, r.exit))
        return {"cfg": cfg, "violated": inv}

    with cf.ThreadPoolExecutor(max_workers=4) as ex:
        fh = ex.submit(vlib.harness_json, vctl, args, wd, 3000)
        fd = [ex.submit(_design, *c) for c in cfgs]
        fe = [ex.submit(_expected, c, i) for c, i in expected]
        fw = ex.submit(vlib.witnesses, "Reload", "Reload_wit.cfg", witnesses, wd, 600, 2) if witnesses else None
        res = fh.result()
        design = [f.result() for f in fd]
        leads = [f.result() for f in fe]
        wit = fw.result() if fw else []
    for viol in res["violations"]:
        v.violation(viol["sig"], viol["what"], viol["replay"])
    lives, nev, diffs = validate_traces(wd, traces)
    for d in diffs:
        v.violation("%s:trace:%s:%s" % (PID, d["event"], "+".join(d["why"])),
                    "event '%s' of the daemon under test is not a behaviour of ReloadTrace (%s) in scenario %s; events before it: %s"
                    % (d["event"], ", ".join(d["why"]), d["scenario"], json.dumps([{k: x for k, x in e.items() if x and k != "sc"} for e in d["context"][-6:]])),
                    {"scenario_label": d["scenario"], "context": d["context"]})
    n = res["evaluations"]
    if res.get("inconclusive") and not v.violations and len(res["inconclusive"]) > max(1, n // 8):
        raise vlib.Inconclusive("%d of %d scenarios hit a ceiling: %s" % (len(res["inconclusive"]), n, "; ".join(x[:250] for x in res["inconclusive"][:3])))
    c = res["counters"]
    if not replay and not v.violations and (lives == 0 or c.get("mode_mid", 0) == 0 or c.get("mode_overlap", 0) == 0 or c.get("expect_error3_modified", 0) == 0):
        raise vlib.Inconclusive("vacuous run: %s" % c)
    cov = {
        "states": sum(r.distinct for _, r in design), "transitions": sum(r.generated for _, r in design),
        "traces_validated_against_impl": lives, "trace_events": nev,
        "evaluations": n, "distinct_nontrivial": res["distinct"],
        "rule": "TLC exports %d scenarios of Reload.tla (13 file contents x {plain, session held mid-establishment, two reloads at once, other sessions "
                "asking} and all 169 two-step edit/reload sequences) with the reply class, the running backends and the connected peers after every "
                "reload; %s replayed on a real four-daemon TCP mesh, %d scenarios in parallel; every daemon life's hook events are validated against "
                "ReloadTrace.tla; distinct = distinct (mode, edit sequence)" % (nscen, "a seeded selection (all single edits, the sequences that left "
                "flags behind, mid/overlap/probes for four contents, random others) is" if quick else "all are", 8 if quick else 10),
        "samples": (res.get("samples") or [{"note": "no sample"}])[:5], "exhaustive": not quick and not replay,
        "scenarios_enumerated": nscen, "counters": c, "witnesses": wit, "expected_violations": leads,
        "tlc": [{"cfg": cfg, "generated": r.generated, "distinct": r.distinct, "wall_s": round(r.wall, 1)} for cfg, r in design],
        "ceilings": (res.get("inconclusive") or [])[:3],
    }
    return v.finish("model_checking", cov, assumptions=[
        "file contents and moments are the named ones of Reload.tla; an edit between two steps of one reload is explored by TLC only",
        "mid-establishment uses harness/cmd/vrd (the receptor main plus a held verifhook gate); all other scenarios run the receptor binary",
        "re-establishment is awaited for 50 s (the dialers redial after 5 s); a scenario that hits a ceiling is counted, not judged",
    ])
