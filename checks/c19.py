"""C19 Secret work parameters are never disclosed by the API nor sent without TLS.

Spec: specs/ControlSession.tla part "c19": a remote submission with a parameter map over six key-spelling classes, then
up to MaxOps of status / list / list-one / cancel / release / restart-daemon.  TLC checks NoSecretInReplies,
OthersUnchanged and RefuseWithoutTLS on every history and exports the histories; cmd/vctl c19 replays them on a real
daemon (unique random markers as values; every byte of every control connection searched; non-secret parameters
compared verbatim; refusal checked on the unit list, the data directory, the other node and the relays).
"""
import os
import vlib
import vctl_common

SPEC = "ControlSession"
QUICK_MAX = 450      # plain-submit histories replayed in quick (seeded sample); the other submit variants are always replayed
QUICK_CRASH = 4      # crash-between-allocation-steps histories in quick (two daemon restarts each)


def run(tier, seed, replay=None):
    pid = "C19"
    wd = vctl_common.run_dir(pid)
    v = vlib.Verdict(pid, tier, seed)
    quick = tier == "quick"
    cfg = "ControlSession_c19_quick.cfg" if quick or replay else "ControlSession_c19_full.cfg"
    r = vlib.tlc_must_pass(SPEC, cfg, wd, workers=4 if quick else 8, timeout=1500)
    wit = [] if replay else vlib.witnesses(SPEC, "ControlSession_c19_quick.cfg", ["W19_NoLeftBehindSecretListed", "W19_NoRefusal"] if quick else
                                           ["W19_NoRedaction", "W19_NoRefusal", "W19_NoCaseVariantAccepted", "W19_NoLeftBehindSecretListed"], wd, workers=2)
    if not replay:
        # the tempting short-cut "no recorded TLS profile => nothing to redact" must be refuted by the model (left-behind / half-made units)
        rsc = vlib.tlc(SPEC, "ControlSession_c19_shortcut.cfg", wd, workers=2, timeout=600)
        if rsc.violated != "NoSecretInReplies":
            raise vlib.Inconclusive("the redaction short-cut model did not violate NoSecretInReplies: exit %s\n%s" % (rsc.exit, rsc.output[-1200:]))
        wit.append("shortcut RedactNeedsTLSRecord refuted")
    vctl = vlib.build_harness("vctl")
    rbin = vctl_common.receptor_copy(wd)
    runs = [(cfg, r)]
    if not quick and not replay:
        # second export: the covering family of key sets with longer histories (TLC explores the same MaxOps)
        runs.append(("ControlSession_c19_full_b.cfg", vlib.tlc_must_pass(SPEC, "ControlSession_c19_full_b.cfg", wd, workers=8, timeout=1500)))
    res = {"evaluations": 0, "distinct": 0, "violations": [], "inconclusive": [], "samples": [], "counters": {}, "notes": []}
    nvec = 0
    for i, (cname, rr) in enumerate(runs):
        vectors = os.path.join(rr.dir, "c19.ndjson")
        nvec += sum(1 for _ in open(vectors))
        args = ["c19", "-vectors", vectors, "-receptor", rbin, "-work", wd, "-seed", str(seed + 1000 * i)]
        if quick:
            args += ["-max", str(QUICK_MAX), "-maxcrash", str(QUICK_CRASH)]  # seeded samples keep the quick tier short on a loaded machine
        if replay:
            args += ["-replay", replay]
        one = vlib.harness_json(vctl, args, wd, timeout=3400, name="harness%d" % i)
        for k in ("evaluations", "distinct"):
            res[k] += one[k]
        for k in ("violations", "inconclusive", "samples", "notes"):
            res[k] += one.get(k) or []
        for k, n in one["counters"].items():
            res["counters"][k] = res["counters"].get(k, 0) + n
    for viol in res["violations"]:
        v.violation(viol["sig"], viol["what"], viol["replay"])
    if res.get("inconclusive") and not v.violations:
        raise vlib.Inconclusive("; ".join(res["inconclusive"][:5]))
    planned = res["counters"].get("planned", 0)
    if not replay and not v.violations and (res["evaluations"] != planned or planned < (QUICK_MAX if quick else nvec)):
        raise vlib.Inconclusive("harness replayed %d of %d planned histories (%d exported)" % (res["evaluations"], planned, nvec))
    c = res["counters"]
    if not replay and not res["violations"] and (c.get("status_replies_verified", 0) == 0 or c.get("refusals_verified", 0) == 0
                                                   or c.get("left_behind_units_found", 0) + c.get("left_behind_unit_absent", 0) == 0
                                                   or c.get("concurrent_lists", 0) == 0 or c.get("refused_by_executor", 0) == 0
                                                   or c.get("refused_submits_secret_among_ordinary_keys", 0) < 20):
        raise vlib.Inconclusive("vacuous run: %s" % c)
    cov = {
        "states": r.distinct, "transitions": r.generated, "traces_validated_against_impl": 0,
        "evaluations": res["evaluations"], "distinct_nontrivial": res["distinct"],
        "rule": ("TLC explores every history (submit variant - accepted with/without ttl, expired at once, client gone before stdin, listed by another session "
                 "mid-allocation, unknown TLS profile, malformed ttl which leaves the allocated unit behind, crash between the two allocation steps, "
                 "submission refused by the node that was to run it (type unknown there / signature wanted / parameter not allowed: error text "
                 "returned and kept as the unit's Detail) - x "
                 "key-class subset x TLS profile named or not x <= MaxOps operations) of ControlSession.tla part c19 (%s) and exports those of <= ExportOps "
                 "operations for the plain submit and fixed short histories for the other variants; " % cfg) +
                ("a seeded sample (%d plain-submit histories, %d crash histories, all other variants; %d of %d exported) is" % (QUICK_MAX, QUICK_CRASH, planned, nvec) if quick else "every exported history is") +
                " replayed on the real daemon (every 4th one against a reachable node, plain or TLS, the others against an unreachable node so that replies "
                "are deterministic) while another session keeps listing the units during all submissions, histories with the same restart positions share the daemon restarts; distinct = distinct (key classes, tls, operations, reachable)",
        "samples": (res.get("samples") or [{"note": "run stopped before sampling"}])[:5], "exhaustive": not quick, "histories": nvec,
        "counters": c, "witnesses": wit, "notes": res.get("notes") or [],
        "tlc": {"spec": "ControlSession.tla", "cfg": cfg, "generated": r.generated, "distinct": r.distinct, "wall_s": round(r.wall, 1)},
    }
    return v.finish("model_checking", cov, assumptions=[
        "secret values are detected as 20-character random markers in the bytes of control connections, the daemon log and the relays; "
        "mesh traffic is QUIC-encrypted, so the relay search can only see a secret sent outside a stream - the refusal is therefore also "
        "judged by 'no data message to a control service crossed a relay' and 'no unit appeared on either node'",
        "the status file on disk keeps secret values (needed to resume the unit); the property speaks about API responses",
        "key-spelling classes are sampled by a few concrete spellings each",
    ])
