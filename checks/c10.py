"""C10 Hop limit bounds forwarding: reach iff distance <= hops; expiry is reported to the sender.

Design level: DataPlane.tla over EVERY next-hop table of a small mesh (2- and 3-node loops, black holes, phantom routes):
FwdBound (a packet is forwarded at most ttl0 times), Decreases (a natural-number measure drops at every step: no behaviour is
infinite), ReachIff / ReachIffDist (arrival <=> the table path is at most h long; otherwise exactly one expiry notice created by the
node at table distance h), NoNoticeAboutNotice, PingConsistent / TracerouteOK (the closed-form Ping / Traceroute operators agree with
the state machine).  DataPlanePing.tla applies those operators to the trees the harness builds and exports the expected results.
Conformance (cmd/vdp c10): (a) real chains/trees of up to 6 nodes: Netceptor.Ping, Netceptor.Traceroute and plain sends for every
(src, dst, h in 0..d+1, 255) compared with the vectors; (b) real nodes with scripted neighbours advertising a phantom node and
bouncing packets (2-node loop R<->P, 3-node loop R1->R2->P->R1): TTL bytes seen on the wire, forward counts, who reports the expiry,
no notice about a notice.  All hook events (forward / expire / notices) are validated by TLC against DataPlaneTrace.tla (FwdBoundT)."""
import os
import vlib
import dplib


def run(tier, seed, replay=None):
    pid = "C10"
    wd = vlib.workdir(pid)
    v = vlib.Verdict(pid, tier, seed)
    quick = tier == "quick"
    pcfg = "DataPlanePing_quick.cfg" if quick else "DataPlanePing_full.cfg"
    dcfgs = ["DataPlane_c10_quick.cfg"] if quick else ["DataPlane_full.cfg", "DataPlane_full4.cfg", "DataPlane_live.cfg"]
    trace = os.path.join(wd, "c10_trace.ndjson")

    def impl():
        pr = vlib.tlc_must_pass("DataPlanePing", pcfg, wd, workers=1, timeout=1200)
        vectors = os.path.join(pr.dir, "ping_vectors.ndjson")
        nvec = sum(1 for _ in open(vectors))
        if nvec != pr.distinct:
            raise vlib.Inconclusive("vector file has %d lines but TLC found %d distinct states" % (nvec, pr.distinct))
        res = dplib.run_vdp(pid, wd, ["c10", "-tier", tier, "-seed", str(seed), "-vectors", vectors, "-trace", trace,
                                      "-trace-limit", "18000" if quick else "90000"], timeout=3000)
        tv = dplib.validate_trace(pid, wd, [trace], allow_empty=bool(res["violations"]))
        return pr, nvec, res, tv

    def design():
        return dplib.design_runs(dcfgs, wd)

    def wits():
        return dplib.witnesses([("DataPlaneMC", "DataPlane_wit.cfg", ["W_NoLoopExpiry", "W_NoExpiredNotice", "W_NoNoticeDropped", "W_NoPong"]),
                                ("DataPlanePing", "DataPlanePing_quick.cfg", ["W_NoFarPair", "W_NoPairAtTheLimit", "W_NoPairBeyondTheLimit"])], wd)

    (pr, nvec, res, tv), rs, wit = dplib.parallel(impl, design, wits)
    dplib.apply(v, res, tv)
    c = res["counters"]
    if not v.violations:
        if c.get("traceroutes", 0) != nvec:
            raise vlib.Inconclusive("harness ran %s of %d (src,dst) vectors" % (c.get("traceroutes"), nvec))
        for k in ("adversarial_cases", "pings", "sends", "traceroutes_at_the_hop_limit", "traceroutes_beyond_the_hop_limit"):
            if not c.get(k):
                raise vlib.Inconclusive("never exercised: %s" % k)
        for k in ("expire", "forward", "bounce", "inject", "publish", "socket"):
            if not (tv and tv["events"].get(k)):
                raise vlib.Inconclusive("trace has no %s events" % k)
    rs = rs + [("DataPlanePing.tla", pcfg, pr)]
    cov = {
        "states": sum(r.distinct for _, _, r in rs), "transitions": sum(r.generated for _, _, r in rs),
        "traces_validated_against_impl": tv["segments"] if tv else 0,
        "evaluations": res["evaluations"], "distinct_nontrivial": res["distinct"],
        "rule": "TLC enumerates every (topology, maxForwardingHops, src, dst) vector of DataPlanePing.tla (chains/trees of real nodes whose maxForwardingHops is 6 or small enough that pairs exactly at, and one link beyond, the limit exist) with budgets h in 0..d+1 and 255 (0..k beyond the limit); each yields "
                "one Ping, one plain send per budget and one Traceroute, compared with the spec's operators; adversarial cases = (2- or 3-node loop through scripted "
                "neighbours, origin real node or neighbour, budget, data or notice packet); distinct = distinct (kind, topology, src, dst, budget) tuples",
        "samples": (res.get("samples") or [])[:3] + ([tv["sample"]] if tv else []), "exhaustive": False,
        "vectors": nvec, "trace_lines": tv["lines"] if tv else 0, "trace_events": tv["events"] if tv else {}, "counters": c, "witnesses": wit,
        "tlc": dplib.tlc_summary(rs),
    }
    return v.finish("model_checking", cov, assumptions=[
        "loop-free part: trees, where the least-cost table is unique; every node of a mesh has the same maxForwardingHops k (6, or 1..5 so that d = k and d = k+1 occur; 10 in the adversarial part); for d = k+1 only budgets <= k are pinged (a larger budget reaches the node but its reply cannot return: 10 s time-outs)",
        "the scripted neighbours are deliberately non-conforming (they hand packets back without decrementing); their steps are environment actions of the trace spec",
        "a Ping that times out is a violation only when no hook event was recorded during the last 4 s of the wait, otherwise the run is inconclusive",
    ])
