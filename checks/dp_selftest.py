#!/usr/bin/env python3
"""Mutation self-test for the data-plane checks C02 / C10 / C16.

Every mutation is applied to a scratch copy of /repo OUTSIDE /repo and /verif (default /tmp/mut-dataplane/repo); a copy of the
harness module whose go.mod points at that copy is built, and the registered check is run against it with
VERIF_DP_SELFTEST=1 (conformance part only; the design-level TLC runs do not depend on the code).  Expected: exit 1 and a
VIOLATION line for every mutation.  /repo is never touched.  The scratch copies are deleted at the end.

usage: python3 checks/dp_selftest.py [C02|C10|C16 ...] [--keep] [--only NAME]
"""
import glob, json, os, re, shutil, subprocess, sys, time

VERIF = os.path.dirname(os.path.dirname(os.path.abspath(__file__)))
SCRATCH = os.environ.get("DP_MUT_DIR", "/tmp/mut-dataplane")
REPO = "/repo"
NC = "pkg/netceptor/netceptor.go"
PCN = "pkg/netceptor/packetconn.go"

MUTATIONS = {
 "C02": [
  ("header-off-by-one", NC, "\t\tData:        data[36:],", "\t\tData:        data[35:],"),
  ("swap-from-to-service", NC,
   "\tfromService := stringFromFixedLenBytes(data[20:28])\n\ttoService := stringFromFixedLenBytes(data[28:36])",
   "\tfromService := stringFromFixedLenBytes(data[28:36])\n\ttoService := stringFromFixedLenBytes(data[20:28])"),
  ("deliver-by-prefix", NC,
   "\t\tpc, ok := s.listenerRegistry[md.ToService]\n",
   "\t\tpc, ok := s.listenerRegistry[md.ToService]\n\t\tfor name, cand := range s.listenerRegistry {\n\t\t\tif strings.HasPrefix(md.ToService, name) {\n\t\t\t\tpc, ok = cand, true\n\n\t\t\t\tbreak\n\t\t\t}\n\t\t}\n"),
  ("framer-drops-partial-header", "pkg/framer/framer.go",
   "\tf.buffer = append(f.buffer, buf...)",
   "\tif len(f.buffer) == 1 {\n\t\tf.buffer = f.buffer[:0]\n\t}\n\tf.buffer = append(f.buffer, buf...)"),
  ("from-hash-wrong-key", NC,
   "\tfromNode, err := s.GetNameFromHash(binary.BigEndian.Uint64(data[4:12]))",
   "\tfromNode, err := s.GetNameFromHash(binary.BigEndian.Uint64(data[12:20]))"),
  ("service-name-7-bytes", NC,
   "\tbuf.Write(fixedLenBytesFromString(msg.ToService, 8))",
   "\tbuf.Write(append(fixedLenBytesFromString(msg.ToService, 7), 0))"),
  ("local-deliver-twice", NC,
   "\t\tcase pc.recvChan <- md:\n",
   "\t\tcase pc.recvChan <- md:\n\t\t\tif len(md.Data) == 37 {\n\t\t\t\tpc.recvChan <- md\n\t\t\t}\n"),
 ],
 "C10": [
  ("no-ttl-decrement", NC, "\tmessage[1]--\n", "\n"),
  ("never-expire", NC, "\tif md.HopsToLive <= 0 {\n\t\tverifhook.Emit(s.vn, \"dp_expire\"", "\tif md.HopsToLive < 0 {\n\t\tverifhook.Emit(s.vn, \"dp_expire\""),
  ("expiry-notice-to-destination", NC,
   "\t\t\t_ = s.sendUnreachable(md.FromNode, &UnreachableMessage{\n\t\t\t\tFromNode:    md.FromNode,\n\t\t\t\tToNode:      md.ToNode,\n\t\t\t\tFromService: md.FromService,\n\t\t\t\tToService:   md.ToService,\n\t\t\t\tProblem:     ProblemExpiredInTransit,",
   "\t\t\t_ = s.sendUnreachable(md.ToNode, &UnreachableMessage{\n\t\t\t\tFromNode:    md.FromNode,\n\t\t\t\tToNode:      md.ToNode,\n\t\t\t\tFromService: md.FromService,\n\t\t\t\tToService:   md.ToService,\n\t\t\t\tProblem:     ProblemExpiredInTransit,"),
  ("notice-about-notice", NC,
   "\"notice\", md.FromService != \"unreach\")\n\t\tif md.FromService != \"unreach\" {",
   "\"notice\", md.FromService != \"unreach\")\n\t\tif md.FromService != \"unreach-x\" {"),
  ("ping-blames-destination", "pkg/netceptor/ping.go", "\t\t\t\tfromNode: msg.ReceivedFromNode,", "\t\t\t\tfromNode: msg.ToNode,"),
  ("expire-one-early", NC, "\tif md.HopsToLive <= 0 {\n\t\tverifhook.Emit(s.vn, \"dp_expire\"", "\tif md.HopsToLive <= 1 && md.FromNode != s.nodeID {\n\t\tverifhook.Emit(s.vn, \"dp_expire\""),
 ],
 "C16": [
  ("publish-to-all-sockets", PCN, "\t\t\tif FromNode == pc.s.NodeID() && FromService == pc.localService {", "\t\t\tif FromNode == pc.s.NodeID() && FromService != \"\" {"),
  ("notice-fields-swapped", NC,
   "\t\t\t\tFromService: md.FromService,\n\t\t\t\tToService:   md.ToService,\n\t\t\t\tProblem:     ProblemServiceUnknown,",
   "\t\t\t\tFromService: md.ToService,\n\t\t\t\tToService:   md.FromService,\n\t\t\t\tProblem:     ProblemServiceUnknown,"),
  ("monitor-ignores-problem", "pkg/netceptor/conn.go",
   "\t\tif msg.Problem == ProblemServiceUnknown && msg.ToNode == remoteAddr.node && msg.ToService == remoteAddr.service {",
   "\t\tif msg.Problem == ProblemRejected && msg.ToNode == remoteAddr.node && msg.ToService == remoteAddr.service {"),
  ("local-unknown-silent", NC, "\t\t\t\treturn fmt.Errorf(ProblemServiceUnknown) //nolint:staticcheck", "\t\t\t\treturn nil"),
  ("drop-answers-like-reject", NC, "\tcase FirewallResultDrop:\n\t\treturn nil\n\tcase FirewallResultReject:", "\tcase FirewallResultDrop, FirewallResultReject:"),
  ("unknown-notice-wrong-problem", NC,
   "\t\t\t\tToService:   md.ToService,\n\t\t\t\tProblem:     ProblemServiceUnknown,",
   "\t\t\t\tToService:   md.ToService,\n\t\t\t\tProblem:     ProblemExpiredInTransit,"),
  # two edits: Close() cancels before it takes the registry lock, and a cancelled-but-still-registered listener swallows
  # datagrams without notice (the unchanged code answers them 'service unknown')
  ("closing-listener-swallows", [
     (NC, "\t\tif !ok || pc.context.Err() != nil {\n\t\t\ts.listenerLock.RUnlock()\n\t\t\tverifhook.Emit(s.vn, \"dp_unknown\"",
          "\t\tif ok && pc.context.Err() != nil {\n\t\t\ts.listenerLock.RUnlock()\n\n\t\t\treturn nil\n\t\t}\n\t\tif !ok {\n\t\t\ts.listenerLock.RUnlock()\n\t\t\tverifhook.Emit(s.vn, \"dp_unknown\""),
     (PCN, "func (pc *PacketConn) Close() error {\n\tpc.s.GetListenerLock().Lock()",
           "func (pc *PacketConn) Close() error {\n\tif pc.cancel != nil {\n\t\tpc.cancel()\n\t}\n\ttime.Sleep(200 * time.Microsecond)\n\tpc.s.GetListenerLock().Lock()"),
   ], None, None),
 ],
}


def sh(cmd, **kw):
    return subprocess.run(cmd, stdout=subprocess.PIPE, stderr=subprocess.STDOUT, text=True, **kw)


def prepare():
    os.makedirs(SCRATCH, exist_ok=True)
    sh(["rsync", "-a", "--delete", "--exclude", ".git", REPO + "/", SCRATCH + "/repo/"])
    sh(["rsync", "-a", "--delete", VERIF + "/harness/", SCRATCH + "/harness/"])
    gm = open(SCRATCH + "/harness/go.mod").read()
    gm2 = re.sub(r"(github.com/ansible/receptor\s*=>\s*)/repo\b", r"\1" + SCRATCH + "/repo", gm)
    if gm2 == gm:
        raise SystemExit("cannot redirect the harness go.mod to the scratch repo")
    open(SCRATCH + "/harness/go.mod", "w").write(gm2)
    shutil.copyfile(SCRATCH + "/repo/go.sum", SCRATCH + "/harness/go.sum")


def trace_selftest():
    """Corrupt recorded traces of clean runs (one field changed / one event dropped or repeated) and require that
    DataPlaneTrace.tla rejects each of them with the expected reason."""
    sys.path.insert(0, os.path.join(VERIF, "lib"))
    import vlib, dplib
    wd = os.path.join(VERIF, ".work", "dp_traceselftest")
    shutil.rmtree(wd, ignore_errors=True)
    os.makedirs(wd)

    def first_segments(path, want):
        """segments (lists of lines) of a trace file that contain all event kinds in `want`"""
        segs, cur = [], []
        for l in vlib.read_ndjson(path):
            cur.append(l)
            if l["ev"] == "end":
                if all(any(x["ev"] == w for x in cur) for w in want) and len(cur) < 3000:
                    segs.append(cur)
                cur = []
        return segs

    def pick(seg, ev, pred=lambda l: True):
        for i, l in enumerate(seg):
            if l["ev"] == ev and pred(l):
                return i
        return None

    cases = []
    c02 = first_segments(os.path.join(VERIF, ".work", "C02", "c02_trace.ndjson"), ["send", "forward", "deliver"])
    c10 = first_segments(os.path.join(VERIF, ".work", "C10", "c10_trace.ndjson"), ["expire", "publish", "socket"])
    c16 = first_segments(os.path.join(VERIF, ".work", "C16", "c16_trace.ndjson"), ["unknown", "publish", "socket"])
    if not c02 or not c10 or not c16:
        raise SystemExit("run bin/check C02/C10/C16 quick first (their recorded traces are the raw material)")
    seg = c02[0]
    other_svc = next(l["svc"] for l in seg if l["ev"] == "open")
    i = pick(seg, "deliver", lambda l: l["from"] != l["n"])
    d = seg[i]
    j = pick(seg, "send", lambda l: l["n"] == d["from"] and l["fromsvc"] == d["fromsvc"] and l["tosvc"] == d["svc"] and l["sha"] == d["sha"])
    cases.append(("delivery-without-send", seg[:j] + seg[j + 1:], {"deliver", "forward"}))
    cases.append(("second-delivery", seg[:i + 1] + [d] + seg[i + 1:], {"deliver"}))
    cases.append(("wrong-listener", seg[:i] + [dict(d, svc=other_svc if other_svc != d["svc"] else "t99999")] + seg[i + 1:], {"deliver"}))
    cases.append(("wrong-source", seg[:i] + [dict(d, fromsvc="t99998")] + seg[i + 1:], {"deliver"}))
    cases.append(("different-digest", seg[:i] + [dict(d, sha="0000000000000000")] + seg[i + 1:], {"deliver"}))
    k = pick(seg, "forward")
    cases.append(("forward-without-decrement", seg[:k] + [dict(seg[k], ttl_out=seg[k]["ttl_in"])] + seg[k + 1:], {"forward"}))
    seg = c10[0]
    k = pick(seg, "send", lambda l: l["fromsvc"] == "unreach")
    cases.append(("owed-notice-never-sent", seg[:k] + [{"ev": "end", "strict": False}], {"end"}))
    seg = next(sg for sg in c10 if pick(sg, "expire", lambda l: l["notice"] and l["n"] != l["from"]) is not None)
    k = pick(seg, "expire", lambda l: l["notice"] and l["n"] != l["from"])
    cases.append(("expiry-at-a-node-where-the-packet-is-not", seg[:k] + [dict(seg[k], n=seg[k]["from"])] + seg[k + 1:], {"expire"}))
    k = pick(seg, "forward", lambda l: l["ttl_in"] >= 2)
    cases.append(("expiry-with-budget-left", seg[:k] + [{"ev": "expire", "n": seg[k]["n"], "from": seg[k]["from"], "fromsvc": seg[k]["fromsvc"],
                  "to": seg[k]["to"], "tosvc": seg[k]["tosvc"], "notice": True}] + seg[k + 1:], {"expire"}))
    seg = c16[0]
    k = pick(seg, "socket")
    cases.append(("notice-to-another-socket", seg[:k] + [dict(seg[k], svc="t99997")] + seg[k + 1:], {"socket"}))
    k = pick(seg, "unknown", lambda l: not l["local"])
    cases.append(("unknown-service-although-open", seg[:k] + [{"ev": "open", "n": seg[k]["n"], "svc": seg[k]["tosvc"]}] + seg[k:], {"unknown"}))
    k = pick(seg, "send", lambda l: l["fromsvc"] == "unreach")
    cases.append(("notice-about-other-addresses", seg[:k] + [dict(seg[k], note=dict(seg[k]["note"], tosvc=seg[k]["note"]["fromsvc"], fromsvc=seg[k]["note"]["tosvc"]))] + seg[k + 1:], {"notice_send"}))
    out = []
    for name, lines, classes in cases:
        f = os.path.join(wd, name + ".ndjson")
        vlib.write_ndjson(f, lines)
        try:
            tv = dplib.validate_trace("SELF", wd, [f])
            got = {d["sig"].split(":")[2] for d in tv["diffs"]}
            verdict = "REJECTED" if got & classes else ("ACCEPTED" if not got else "REJECTED-OTHER")
            out.append((name, verdict, sorted(d["sig"] for d in tv["diffs"])[:3]))
        except vlib.Inconclusive as e:
            out.append((name, "INCONCLUSIVE", str(e)[-300:]))
        print(out[-1], flush=True)
    print(json.dumps(out, indent=1))
    return 0 if all(o[1] == "REJECTED" for o in out) else 1


def main():
    if "--trace" in sys.argv:
        return trace_selftest()
    args = [a for a in sys.argv[1:] if not a.startswith("--")]
    keep = "--keep" in sys.argv
    only = None
    if "--only" in sys.argv:
        only = sys.argv[sys.argv.index("--only") + 1]
        args = [a for a in args if a != only]
    skip = set()
    if "--skip" in sys.argv:
        sk = sys.argv[sys.argv.index("--skip") + 1]
        skip = set(sk.split(","))
        args = [a for a in args if a != sk]
    pids = [a.upper() for a in args] or ["C02", "C10", "C16"]
    prepare()
    before = set(glob.glob(VERIF + "/replays/*.json"))
    results = []
    env = dict(os.environ, VERIF_DP_SELFTEST="1", VERIF_HARNESS_DIR=SCRATCH + "/harness", VERIF_SEED=os.environ.get("VERIF_SEED", "1"),
               GOFLAGS="-mod=mod", GOPROXY="off", GOSUMDB="off", GOTOOLCHAIN="local")
    for pid in pids:
        for name, path, old, new in MUTATIONS[pid]:
            if (only and name != only) or name in skip:
                continue
            edits = path if isinstance(path, list) else [(path, old, new)]
            bad = [(pth, open(os.path.join(REPO, pth)).read().count(o)) for pth, o, _ in edits if open(os.path.join(REPO, pth)).read().count(o) != 1]
            if bad:
                results.append((pid, name, "NOT-APPLICABLE", "pattern count %s" % bad))
                print(results[-1], flush=True)
                continue
            # restore every file from /repo, then apply this one mutation
            sh(["rsync", "-a", "--delete", "--exclude", ".git", REPO + "/", SCRATCH + "/repo/"])
            for pth, o, nw in edits:
                src = open(os.path.join(SCRATCH, "repo", pth)).read()
                open(os.path.join(SCRATCH, "repo", pth), "w").write(src.replace(o, nw))
            b = sh(["go", "build", "-tags", "verif", "./pkg/..."], cwd=SCRATCH + "/repo", env=env)
            if b.returncode != 0:
                results.append((pid, name, "DOES-NOT-COMPILE", b.stdout[-300:]))
                print(results[-1], flush=True)
                continue
            t0 = time.time()
            r = sh([VERIF + "/bin/check", pid, "quick"], cwd=VERIF, env=env)
            sigs = re.findall(r"signature=(\S+?):? ", r.stdout) or re.findall(r"signature=([^\s]+)", r.stdout)
            verdict = "CAUGHT" if r.returncode == 1 and "VIOLATION" in r.stdout else ("INCONCLUSIVE" if r.returncode == 2 else "MISSED")
            detail = ",".join(sorted(set(s.rstrip(":") for s in sigs)))[:300]
            if verdict != "CAUGHT":
                detail += " | " + r.stdout[-400:].replace("\n", " / ")
            results.append((pid, name, verdict, "%s (%.0fs)" % (detail, time.time() - t0)))
            print(results[-1], flush=True)
    for f in set(glob.glob(VERIF + "/replays/*.json")) - before:
        os.remove(f)
    if not keep:
        shutil.rmtree(SCRATCH, ignore_errors=True)
    print(json.dumps(results, indent=1))
    return 0 if all(r[2] == "CAUGHT" for r in results) else 1


if __name__ == "__main__":
    sys.exit(main())
