"""C08 No control-service input can crash or wedge a node; sessions are isolated.

Spec: specs/ControlSession.tla, parts "lines" (every line class with the reply class the code gives) and "sessions"
(two concurrent sessions over line kinds, handled as critical sections on the unit-index RW lock).  TLC proves the
table/session properties, exhibits the self-deadlock of the as-found findUnit/scanForUnit locking (KF_FindUnitRelock),
and exports all line classes and session pairs; cmd/vctl c08 concretises them into bytes (several seeded instances per
class) for a real receptor daemon and judges: process alive, reply class/prefix, session continues, and status +
work list answered on a FRESH session after every input (>= 10 s deadline, re-confirmed once).
"""
import os
import vlib
import vctl_common

SPEC = "ControlSession"


def run(tier, seed, replay=None):
    pid = "C08"
    wd = vctl_common.run_dir(pid)
    v = vlib.Verdict(pid, tier, seed)
    quick = tier == "quick"
    rl = vlib.tlc_must_pass(SPEC, "ControlSession_lines.cfg", wd, workers=1, timeout=600)
    if replay:
        # a replay needs the line table only
        vctl = vlib.build_harness("vctl")
        res = vlib.harness_json(vctl, ["c08", "-lines", os.path.join(rl.dir, "lines.ndjson"), "-receptor", vctl_common.receptor_copy(wd), "-work", wd,
                                       "-seed", str(seed), "-replay", replay], wd, timeout=1500)
        for viol in res["violations"]:
            v.violation(viol["sig"], viol["what"], viol["replay"])
        if res.get("inconclusive") and not v.violations:
            raise vlib.Inconclusive("; ".join(res["inconclusive"]))
        return v.finish("exploration", {"evaluations": max(res["evaluations"], 1), "distinct_nontrivial": max(res["distinct"], 2), "rule": "replay of " + replay,
                                        "samples": [{"replay": replay}], "counters": res["counters"]}, assumptions=["replay run"])
    rs = vlib.tlc_must_pass(SPEC, "ControlSession_sess_quick.cfg" if quick else "ControlSession_sess_full.cfg", wd, workers=8, timeout=1500)
    # a JSON line of any shape followed by a well-formed line on the same session: per-line independence is the modelled rule;
    # a dispatcher that keeps the decoded request across lines must be refuted by the session model
    rm = vlib.tlc_must_pass(SPEC, "ControlSession_mixed.cfg", wd, workers=1, timeout=600)
    mixed = os.path.join(rm.dir, "mixed.ndjson")
    nmixed = sum(1 for _ in open(mixed))
    rst = vlib.tlc(SPEC, "ControlSession_sess_stale.cfg", wd, workers=4, timeout=600)
    if rst.violated != "LineIndependence":
        raise vlib.Inconclusive("the model with request state kept across lines did not violate LineIndependence: exit %s\n%s" % (rst.exit, rst.output[-1200:]))
    # the lock sub-model with the locking as found must exhibit the deadlock (a lead, replayed below as the disk-only classes)
    ra = vlib.tlc(SPEC, "ControlSession_lock_asis.cfg", wd, workers=1, timeout=600)
    if ra.violated != "NoDeadlock":
        raise vlib.Inconclusive("the as-found lock model did not exhibit the deadlock: exit %s\n%s" % (ra.exit, ra.output[-1500:]))
    rsl = vlib.tlc(SPEC, "ControlSession_lock_scanleak.cfg", wd, workers=2, timeout=600)
    if rsl.violated != "NoDeadlock":
        raise vlib.Inconclusive("the lock model with the scan re-check leak did not violate NoDeadlock: exit %s\n%s" % (rsl.exit, rsl.output[-1200:]))
    wit = vlib.witnesses(SPEC, "ControlSession_lines.cfg", ["W_NoDiskOnlyJson"] if quick else ["W_NoLenient", "W_NoError2", "W_NoDiskOnlyJson"], wd, workers=1)
    if not quick:
        wit += vlib.witnesses(SPEC, "ControlSession_sess_quick.cfg", ["W_NoRescanDone", "W_NoTwoBusy", "W_NoSharedScanTwice"], wd, workers=4)
    lines = os.path.join(rl.dir, "lines.ndjson")
    sessions = os.path.join(rs.dir, "sessions.ndjson")
    nlines = sum(1 for _ in open(lines))
    npairs = sum(1 for _ in open(sessions))
    if nlines != rl.distinct:
        raise vlib.Inconclusive("line table has %d entries but TLC found %d states" % (nlines, rl.distinct))
    vctl = vlib.build_harness("vctl")
    args = ["c08", "-lines", lines, "-sessions", sessions, "-mixed", mixed, "-receptor", vctl_common.receptor_copy(wd), "-work", wd, "-seed", str(seed)]
    if quick:
        args += ["-instances", "2", "-pairmode", "split", "-budget", "35s", "-maxmixed", "200"]
    else:
        args += ["-instances", "6", "-pairmode", "both", "-allwedges", "-budget", "800s", "-diskrounds", "40"]
    if replay:
        args += ["-replay", replay]
    res = vlib.harness_json(vctl, args, wd, timeout=3000)
    for viol in res["violations"]:
        v.violation(viol["sig"], viol["what"], viol["replay"])
    if res.get("inconclusive") and not v.violations:
        raise vlib.Inconclusive("; ".join(res["inconclusive"]))
    c = res["counters"]
    if not replay and not v.violations and c.get("mixed_plain_after_json_ok", 0) == 0:
        raise vlib.Inconclusive("no mixed session (plain line after a JSON line) was verified: %s" % c)
    if not replay and c.get("line_classes", 0) != nlines and not v.violations:
        raise vlib.Inconclusive("harness handled %s of %d line classes" % (c.get("line_classes"), nlines))
    cov = {
        "evaluations": res["evaluations"], "distinct_nontrivial": res["distinct"],
        "rule": "class-exhaustive, byte-sampled: every one of the %d line classes of ControlSession.tla (every built-in command x every parameter "
                "present/absent x every JSON type, plain forms with 0..n arguments, framing/EOF/abort/64 KiB/binary classes, unit ids existing/unknown/"
                "disk-only/statusless/path characters) is sent as several seeded concrete byte strings on fresh Unix and TCP sessions; then mixed sessions "
                "(every line class that decodes into a JSON object, valid command or not, followed on the same session by a well-formed plain or JSON command "
                "whose answer - class and content - must be what a fresh session gets: %d of %d TLC-enumerated carrier x follower pairs); then every "
                "TLC-enumerated pair of sessions (%d pairs of <= %s x <= 1 lines over 14 line kinds) is replayed alternating and/or truly concurrent, "
                "within the time budget. distinct = distinct (class, concrete bytes) inputs + distinct mixed sessions + distinct (session pair, mode)" % (nlines, c.get("mixed_sessions", 0), nmixed, npairs, "2" if quick else "3"),
        "samples": (res.get("samples") or [{"note": "run stopped before sampling"}])[:10], "exhaustive": False,
        "line_classes": nlines, "session_pairs_enumerated": npairs, "session_pairs_replayed": c.get("pair_vectors", 0),
        "states": rl.distinct + rs.distinct + rm.distinct, "transitions": rl.generated + rs.generated + rm.generated,
        "mixed_sessions_enumerated": nmixed, "mixed_sessions_replayed": c.get("mixed_sessions", 0),
        "counters": c, "witnesses": wit, "notes": res.get("notes", [])[:40],
        "tlc": [{"cfg": "ControlSession_lines.cfg", "generated": rl.generated, "distinct": rl.distinct, "wall_s": round(rl.wall, 1)},
                {"cfg": "sessions", "generated": rs.generated, "distinct": rs.distinct, "wall_s": round(rs.wall, 1)},
                {"cfg": "ControlSession_mixed.cfg", "generated": rm.generated, "distinct": rm.distinct},
                {"cfg": "ControlSession_sess_stale.cfg", "violated": rst.violated, "note": "lead: a dispatcher that keeps the decoded request across lines breaks LineIndependence; replayed as the mixed sessions"},
                {"cfg": "ControlSession_lock_scanleak.cfg", "violated": rsl.violated, "note": "lead: two scans of one shared disk-only unit, the second returns without unlocking; replayed as the disk-only race phase"},
                {"cfg": "ControlSession_lock_asis.cfg", "violated": ra.violated, "note": "lead: the as-found findUnit/scanForUnit locking deadlocks; replayed as the disk-only unit classes"}],
    }
    return v.finish("exploration", cov, assumptions=[
        "one concrete byte string per (class, instance, seed): bytes inside a class are sampled, classes are exhaustive for the table in ControlSession.tla",
        "lenient classes (ignored optional field of the wrong type, ignored extra arguments) are accepted as the code behaves and listed in notes",
        "a probe is status + work list on a fresh Unix session with a 10.5 s deadline, repeated once before a timeout is reported",
        "after a confirmed wedge by a disk-only unit id the quick tier skips the remaining disk-only classes (same root cause); thorough exercises all",
    ])
