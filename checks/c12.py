"""C12 Firewall: first matching rule decides at every node; bad rules are refused.

Spec: specs/Firewall.tla (decision procedure + notice recursion).  TLC enumerates the complete
vector space of the configured families, checks the design-level properties on every vector and
writes the vectors; cmd/vh firewall pushes every vector through the real parser and - for the
well-formed ones - through a real node at origin, transit and destination positions.
"""
import os
import vlib


def run(tier, seed, replay=None):
    pid = "C12"
    wd = vlib.workdir(pid)
    v = vlib.Verdict(pid, tier, seed)
    cfg = "Firewall_quick.cfg" if tier == "quick" else "Firewall_full.cfg"
    r = vlib.tlc_must_pass("Firewall", cfg, wd, timeout=900, workers=1)
    wit = vlib.witnesses("Firewall", "Firewall_quick.cfg", ["W_NoNotice", "W_NoBlockedNotice", "W_NoSecondRule", "W_NoExpired"], wd, workers=1)
    vectors = os.path.join(r.dir, "vectors.ndjson")
    nvec = sum(1 for _ in open(vectors))
    if nvec != r.distinct:
        raise vlib.Inconclusive("vector file has %d lines but TLC found %d distinct states" % (nvec, r.distinct))
    vh = vlib.build_harness()
    res = vlib.harness_json(vh, ["firewall", "-vectors", vectors, "-seed", str(seed)], wd, timeout=3000)
    if res.get("inconclusive"):
        raise vlib.Inconclusive("; ".join(res["inconclusive"]))
    if res["evaluations"] != nvec and not res["violations"]:
        raise vlib.Inconclusive("harness evaluated %d of %d vectors" % (res["evaluations"], nvec))
    for viol in res["violations"]:
        v.violation(viol["sig"], viol["what"], viol["replay"])
    cov = {
        "states": r.distinct, "transitions": r.generated, "traces_validated_against_impl": 0,
        "evaluations": res["evaluations"], "distinct_nontrivial": res["distinct"],
        "rule": "TLC enumerates every (rule list, packet) vector of families single+list of Firewall.tla (%s); "
                "every vector is parsed by the real ParseFirewallRules; every well-formed one is injected into a real node "
                "from a scripted peer (transit/destination) and, when the packet's source is the node, sent locally (origin); "
                "distinct = distinct (mode, rule list, packet) triples plus distinct refused lists" % cfg,
        "samples": res["samples"][:6], "exhaustive": True,
        "vectors": nvec, "node_injections": res["counters"].get("mode_peer", 0) + res["counters"].get("mode_origin", 0),
        "counters": res["counters"], "witnesses": wit,
        "tlc": {"spec": "Firewall.tla", "cfg": cfg, "generated": r.generated, "distinct": r.distinct, "wall_s": round(r.wall, 1)},
    }
    return v.finish("model_checking", cov, assumptions=[
        "Go regexp and the string universe {a,b,ab,aXb,A,axx,xxb,unreach}: the language table in Firewall.tla is the oracle for the listed patterns only",
        "hook events dp_forward/dp_deliver/unr_publish are used to know that nothing else left the node (negative observation)",
    ])
